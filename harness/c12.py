"""C12 — run() postconditions and the posterior()/evidence() contract."""
import contextlib
import io
import itertools
import math
import warnings

import numpy as np

from . import common
from .common import Corr, f2hex

ID = "C12"
LEAN_MODULES = ["TempestVerif.Props.C12"]
RULE = ("posterior(): on finished real runs (both kernels x both resamplers x blob form in {none, float, (float,3) from 3 scalars, "
        "(float,3) from one array, structured [('a',float),('b',int)], (float,(2,2)) from two rows, (float,(2,2)) from one 2x2 array, "
        "mixed structured with a sub-array field}) all 16 option combinations x (ess_trim,bins_trim) in {(0.99,1000),(0.9,50),(0.5,7)} "
        "(thorough: + (0.999,1000),(0.2,1),(0.75,2)); the trimming / resampling index vectors the real code used are captured and fed to "
        "the Lean model (Model.Posterior.body over the gather tables regenerated from source), which predicts for every output row the "
        "history particle each returned array must show; compared exactly (values, lengths, tuple layout, weights; blobs byte-wise, and "
        "each returned blob must be the blob of the returned x in the same row). Non-trivial = trimming or resampling on. "
        "posterior-composition: for the same calls, what the whole-routine model Model.Posterior.posterior assumes: trim_weights called "
        "iff trimming, once, with (arange(N), untrimmed weights, ess_trim, bins_trim); systematic_resample called iff resampling, once, "
        "with (len(w), w) for w the trimmed (else untrimmed) weights bit-identically; untrimmed weights vs the model's Float "
        "exp(logw-max)/sum within 1e-9; resampled weights bit-equal to the model's 1/n. "
        "_not_termination(): real guard vs Model.Run.notTerm at Float (bit-exact) on real states with beta and n_total placed on "
        "both sides of the thresholds; guard-from-history: the whole guard incl. the ESS computed from the stored log-weights "
        "(Model.Run.notTermination, Float; ESS within 1e-9, decision exact unless ESS is within rounding of n_total), also on a sampler "
        "with an empty history. run(): the real run returned, beta <= 1, and both model guards say stop on its final state; evidence() "
        "equals the recomputation from the stored history bit for bit; also for runs resumed from a checkpoint with a larger n_total.")
MODELLED = ["trim_weights and systematic_resample inside the whole-routine model are the executable models of C20 (Model.Trim) and C06 "
            "(Model.Resample); their tie to the real functions is C20's / C06's correspondence (here: the index vectors they returned in "
            "the real call are passed to the gather model, and the call arguments are compared)",
            "compute_logw_and_logz(1.0) is a parameter (the log-weight vector / Z(1) of a history): its content is C04/C11's",
            "execute_iteration is an arbitrary state transformer in the run-loop theorems",
            "termination of run() is not claimed (liveness)",
            "beta <= 1 on return is checked on the real runs only (the bisection range is C05's)"]
ASSUMPTIONS = ["np.percentile / sorting inside trim_weights are outside this property (C20)",
               "the flat history arrays x, logl, blobs and the log-weight vector have one common length (C07/C17; observed exactly by the "
               "row-identity suite)",
               "Float rounding of exp/sum in the untrimmed weights and the ESS is bridged by tolerance only"]


def translators():
    from translate import g5_tables, g1_constants
    return [g5_tables.generate(), g1_constants.generate()]


def _quiet():
    return contextlib.redirect_stdout(io.StringIO())


def _L1(x):
    return -0.5 * float(np.sum((x - 0.5) ** 2)) * 3.0


# every documented blob form (docs/examples/blobs.md): name -> (blobs_dtype, blob items of x); the likelihood returns
# `(logl, *items)`.  `(float, k)` is documented both with k separate scalars ("vec3") and with ONE array of length k
# ("vec3-array", runs since /repo 6caa7d6 = F26); likewise `(float, (2, 2))` with two row lists or one 2x2 array.
BLOB_FORMS = {
    "scalar": (float, lambda x: (float(x[0]) * 2.0 + 1.0,)),
    "vec3": ((float, 3), lambda x: (float(x[0]) * 2.0 + 1.0, float(x[-1]), float(np.sum(x)))),
    "struct": ([("a", float), ("b", int)], lambda x: (float(x[0]) * 2.0 + 1.0, int(x[-1] > 0))),
    "mat": ((float, (2, 2)), lambda x: ([1.0, float(x[0])], [float(x[-1]), 2.0])),
    "vec3-array": ((float, 3), lambda x: (np.array([float(x[0]) * 2.0 + 1.0, float(x[-1]), float(np.sum(x))]),)),
    "mat-array": ((float, (2, 2)), lambda x: (np.outer([1.0, float(x[0])], [float(x[-1]), 2.0]),)),
    "mixed": ([("t", float), ("v", float, 2)], lambda x: (float(np.sum(x)), [float(x[0]) * 2.0, float(x[-1]) - 1.0])),
}


def _form(blobs):
    """normalise the blob selector (older failing inputs carry a bool)"""
    if blobs is True:
        return "scalar"
    return blobs or None


def _blob_of(form, x):
    """the blob row the likelihood attaches to the point x, as stored under the form's dtype"""
    dt, items = BLOB_FORMS[form]
    it = items(x)
    if len(it) == 1 and isinstance(it[0], np.ndarray):      # one array-valued blob: the row IS that array
        return np.asarray(it[0], dtype=np.dtype(dt).base)
    return np.array([it], dtype=dt)[0]


def _blob_eq(a, b):
    a, b = np.asarray(a), np.asarray(b)
    return a.dtype == b.dtype and a.size == b.size and a.tobytes() == b.tobytes()   # (a lone blob is stored squeezed)


def _make_run(rng, kernel, resample, blobs, n_total=96):
    from tempest import Sampler
    d = 2
    form = _form(blobs)

    def prior(u):
        return 8.0 * u - 4.0
    if form is None:
        like = _L1
    else:
        items = BLOB_FORMS[form][1]

        def like(x):
            return (_L1(x),) + tuple(items(x))
    seed = rng.randrange(2 ** 31)
    np.random.seed(seed)
    s = Sampler(prior, like, d, n_particles=32, clustering=False, sample=kernel, resample=resample,
                blobs_dtype=(BLOB_FORMS[form][0] if form else None), n_steps=1, n_max_steps=2)
    with _quiet(), warnings.catch_warnings():
        warnings.simplefilter("ignore")
        s.run(n_total=n_total, progress=False)
    return s, seed


def _close(a, b, scale=None):
    a, b = np.asarray(a, dtype=float), np.asarray(b, dtype=float)
    if a.shape != b.shape:
        return False
    sc = float(np.max(np.abs(b))) if (scale is None and b.size) else (scale or 0.0)
    return bool(np.all(np.abs(a - b) <= 1e-9 * (1.0 + sc)))


def _posterior_cases(c, cc, drv, rng, s, form, tier, seed, runinfo=None):
    """all 16 option combinations x trimming parameters on one finished run.
    c: row identity through the captured index vectors (exact).  cc: the composition the whole-routine model
    `Model.Posterior.posterior` assumes — which routine is called with which arguments — and its own arithmetic."""
    import tempest.tools as tools
    st = s.state
    blobs = form is not None
    pool = {"x": st.get_history("x", flat=True), "l": st.get_history("logl", flat=True),
            "b": st.get_history("blobs", flat=True) if blobs else None}
    logw_full, _ = st.compute_logw_and_logz(1.0)
    N = len(pool["l"])
    w0_model = drv.batch(["post.w0 logw=" + ",".join(f2hex(float(v)) for v in logw_full)])[0]
    w0_model = None if w0_model in ("none", "bad-op") else np.array([common.hex2f(t) for t in w0_model.split(",")])
    # ess_trim = 1.0 (and above): nothing may be trimmed away; the loop must stop at the bottom of the grid (F28, /repo 8ceb8ba)
    params = [(0.99, 1000), (0.9, 50), (0.5, 7), (1.0, 1000)]
    if tier == "thorough":
        params += [(0.999, 1000), (0.2, 1), (0.75, 2), (math.nextafter(1.0, 0.0), 50), (math.nextafter(1.0, 2.0), 7), (1.5, 3)]
    lines, recs = [], []
    for (res, trim, rb, rl), (ess_t, bins_t) in itertools.product(itertools.product([False, True], repeat=4), params):
        if not trim and (ess_t, bins_t) != params[0]:
            continue
        if trim:
            c.count(f"ess_trim{'<' if ess_t < 1.0 else ('=' if ess_t == 1.0 else '>')}1")
        cap = {"tidx": None, "tw": None, "ridx": None, "tcalls": [], "rcalls": []}
        real_trim, real_sr = tools.trim_weights, tools.systematic_resample

        def spy_trim(samples, weights, ess=0.99, bins=1000):
            cap["tcalls"].append({"samples": np.array(samples), "weights": np.array(weights), "ess": ess, "bins": bins})
            i, w = real_trim(samples, weights, ess=ess, bins=bins)
            cap["tidx"], cap["tw"] = [int(v) for v in i], np.array(w)
            return i, w

        def spy_sr(size, weights, random_state=None):
            cap["rcalls"].append({"size": size, "weights": np.array(weights)})
            r = real_sr(size, weights)
            cap["ridx"] = [int(v) for v in r]
            return r
        u0 = rng.random()
        with common.patched(tools, "trim_weights", spy_trim), common.patched(tools, "systematic_resample", spy_sr), \
                common.patched(np.random, "random", lambda *a: u0), warnings.catch_warnings():
            warnings.simplefilter("ignore")
            try:
                out = s.posterior(resample=res, return_blobs=rb, trim_importance_weights=trim, return_logw=rl,
                                  ess_trim=ess_t, bins_trim=bins_t)
            except Exception as e:  # noqa
                c.disagree(input={"resample": res, "trim": trim, "return_blobs": rb, "return_logw": rl, "blob_form": form},
                           impl=f"raised {type(e).__name__}: {e}", model="returns", run=runinfo, params=[ess_t, bins_t])
                continue
        line = (f"post.run n={N} trim={int(trim)} res={int(res)} blobs={int(blobs)} rb={int(rb)} rl={int(rl)} "
                f"tidx={','.join(map(str, cap['tidx'])) if cap['tidx'] else '-'} ridx={','.join(map(str, cap['ridx'])) if cap['ridx'] else '-'}")
        lines.append(line)
        recs.append((out, cap, (res, trim, rb, rl, ess_t, bins_t)))
    answers = drv.batch(lines)
    unif = {}
    need = sorted({len(r[0][1]) for r in recs if r[2][0]})
    for n, a in zip(need, drv.batch([f"post.unif n={n}" for n in need])):
        unif[n] = a
    for (out, cap, opts), line, ans in zip(recs, lines, answers):
        res, trim, rb, rl, ess_t, bins_t = opts
        c.case((line, seed, form), trim or res)
        c.count(f"trim={int(trim)},res={int(res)}")
        c.count(f"blob_form={form}")
        c.count(f"returns={'+'.join(n for n, f in (('blobs', rb and blobs), ('logw', rl)) if f) or 'x,weights,logl only'}")
        # ---- composition (what Model.Posterior.posterior assumes about the calls) ----
        cc.case((line, seed, form, ess_t, bins_t), True)
        cc.count(f"trim={int(trim)},res={int(res)}")
        comp = None
        w_in = None     # the untrimmed weights the real routine computed
        if len(cap["tcalls"]) != int(trim) or len(cap["rcalls"]) != int(res):
            comp = f"{len(cap['tcalls'])} calls of trim_weights, {len(cap['rcalls'])} of systematic_resample"
        else:
            if trim:
                t = cap["tcalls"][0]
                w_in = t["weights"]
                if not np.array_equal(t["samples"], np.arange(N)):
                    comp = "trim_weights not called with np.arange(len(weights))"
                elif t["ess"] != ess_t or t["bins"] != bins_t:
                    comp = f"trim_weights called with ess={t['ess']!r}, bins={t['bins']!r}"
                elif len(cap["tidx"]) != len(cap["tw"]):
                    comp = "trim_weights returned different numbers of indices and weights"
            if res and comp is None:
                r = cap["rcalls"][0]
                if trim:
                    if not np.array_equal(r["weights"], cap["tw"]):
                        comp = "systematic_resample not called with the trimmed weights"
                else:
                    w_in = r["weights"]
                if comp is None and r["size"] != len(r["weights"]):
                    comp = f"systematic_resample called with size={r['size']} for {len(r['weights'])} weights"
            if not trim and not res:
                w_in = out[1]
            if comp is None and (w0_model is None or not _close(w_in, w0_model)):
                comp = "untrimmed weights differ from the model's exp(logw-max)/sum"
            if comp is None and res:
                n = len(out[1])
                if unif.get(n) in (None, "-", "bad-op") or not np.array_equal(out[1], np.full(n, common.hex2f(unif[n]))):
                    comp = f"weights after resampling are not the model's 1/n (n={n})"
        if comp:
            cc.disagree(input=line[:200], impl=comp, model="posterior = weights0 >>= trim(arange n) >>= systematic(len w) >>= body",
                        opts={"resample": res, "trim_importance_weights": trim, "ess_trim": ess_t, "bins_trim": bins_t, "blob_form": form})
        # ---- row identity ----
        if not ans.startswith("names="):
            c.disagree(input=line, impl=f"returned {len(out)} arrays", model=ans)
            continue
        kv = dict(t.split("=", 1) for t in ans.split(" "))
        names = kv["names"].split(",")
        tags = {k: ([] if kv[k] == "-" else [int(t) for t in kv[k].split(",")]) for k in ("x", "l", "b", "lw")}
        nw = int(kv["nw"])
        problem = None
        if len(out) != len(names):
            problem = f"tuple of {len(out)} arrays, model says {names}"
        else:
            got = dict(zip(names, out))
            lens = {k: len(v) for k, v in got.items()}
            if len(set(lens.values())) != 1 or lens["weights"] != nw:
                problem = f"lengths {lens}, model says {nw} rows"
            else:
                if not np.array_equal(got["x"], pool["x"][tags["x"]]):
                    problem = "x rows are not the particles the model predicts"
                elif not np.array_equal(got["logl"], pool["l"][tags["l"]]):
                    problem = "logl rows are not the particles the model predicts"
                elif "blobs" in got and not _blob_eq(got["blobs"], pool["b"][tags["b"]]):
                    problem = "blobs rows are not the particles the model predicts"
                elif "blobs" in got and got["blobs"].shape[1:] != pool["b"].shape[1:]:
                    problem = f"blob rows of shape {got['blobs'].shape[1:]}, stored rows have {pool['b'].shape[1:]}"
                elif "blobs" in got and not all(_blob_eq(got["blobs"][k], _blob_of(form, got["x"][k])) for k in range(nw)):
                    problem = "a returned blob is not the blob of the returned x in the same row"
                elif "logw" in got and not np.array_equal(got["logw"], logw_full[tags["lw"]]):
                    problem = "logw rows are not the particles the model predicts"
                else:
                    w = got["weights"]
                    if res:
                        if not np.array_equal(w, np.ones(nw) / nw):
                            problem = "weights after resampling are not uniform 1/n"
                    elif trim:
                        if not np.array_equal(w, cap["tw"]):
                            problem = "weights are not the trimmed weights"
                    else:
                        ww = np.exp(logw_full - np.max(logw_full))
                        ww /= np.sum(ww)
                        if not np.array_equal(w, ww):
                            problem = "weights are not the normalised importance weights"
                    if problem is None and (np.any(w < 0) or abs(float(np.sum(w)) - 1.0) > 1e-9):
                        problem = f"weights negative or not summing to one (sum={float(np.sum(w))!r})"
        if problem:
            c.disagree(input=line, impl=problem, model=ans[:200], opts={"resample": res, "trim_importance_weights": trim,
                       "return_blobs": rb, "return_logw": rl, "ess_trim": ess_t, "bins_trim": bins_t, "blob_form": form},
                       run=runinfo, params=[ess_t, bins_t])
        c.sample({"op": line[:160], "model": ans[:160], "blob_form": form})
    cc.sample({"n": N, "blob_form": form, "w0_model_head": None if w0_model is None else [float(v) for v in w0_model[:3]]})


def _guard_history_cases(c, drv, rng, s):
    """the whole `_not_termination()` (ESS computed from the stored history) vs Model.Run.notTermination at Float"""
    from tempest.tools import effective_sample_size
    from translate import g1_constants
    tol = g1_constants.extract()["TERM_BETA_TOL"]
    core, st = s._core, s.state
    logw, _ = st.compute_logw_and_logz(1.0)
    ess = float(effective_sample_size(np.exp(logw - np.max(logw)))) if len(logw) else None
    lw = ",".join(f2hex(float(v)) for v in logw) if len(logw) else "-"
    beta0, nt0 = st.get_current("beta"), getattr(core, "n_total", 0)
    betas = [1.0, math.nextafter(1.0 - 1e-4, 2.0), 1.0 - 1e-4, 0.5, 1.0 - 1e-4 * rng.uniform(0.5, 1.5)]
    nts = [1, 10 ** 9] if ess is None else [1, math.floor(ess), math.ceil(ess), round(ess * rng.uniform(0.5, 1.5)), math.ceil(ess * 2)]
    lines, impl, meta = [], [], []
    try:
        for b in betas:
            for nt in nts:
                st.set_current("beta", b)
                core.n_total = nt
                impl.append(bool(core._not_termination()))
                lines.append(f"term.H tol={f2hex(tol)} beta={f2hex(b)} logw={lw} ntotal={f2hex(float(nt))}")
                meta.append((b, nt))
    finally:
        st.set_current("beta", beta0)
        core.n_total = nt0
    for line, i, m, (b, nt) in zip(lines, impl, drv.batch(lines), meta):
        c.case((line[:60], line[-40:], len(logw), digest_arr(logw)), True)
        c.count("empty-history" if ess is None else ("continue" if i else "stop"))
        parts = m.split(" ")
        if len(parts) != 2 or parts[0] not in ("0", "1"):
            c.disagree(input={"beta": b, "n_total": nt, "n": len(logw)}, impl=i, model=m[:80])
            continue
        if ess is None:
            if parts != ["1", "-"] or i is not True:
                c.disagree(input={"beta": b, "n_total": nt, "n": 0}, impl=i, model=m)
            continue
        ess_m = common.hex2f(parts[1])
        if abs(ess_m - ess) > 1e-9 * (1.0 + abs(ess)):
            c.disagree(input={"beta": b, "n_total": nt, "n": len(logw)}, impl={"ess": ess}, model={"ess": ess_m})
        elif (parts[0] == "1") != i:
            if abs(ess - nt) <= 1e-9 * (1.0 + abs(ess)):
                c.near_ties += 1
            else:
                c.disagree(input={"beta": b, "n_total": nt, "n": len(logw), "ess": ess}, impl=i, model=parts[0])
    c.sample({"n": len(logw), "ess": ess, "first": {"beta": meta[0][0], "n_total": meta[0][1], "impl": impl[0]}})


def digest_arr(a):
    return common.digest(np.asarray(a, dtype=float).tobytes().hex()[:4096])


def _term_cases(c, drv, rng, s):
    """real _not_termination() vs the Float model on real states pushed to both sides of the thresholds"""
    from tempest.tools import effective_sample_size
    from translate import g1_constants
    consts = g1_constants.extract()
    tol = consts["TERM_BETA_TOL"]
    core = s._core
    st = s.state
    logw, _ = st.compute_logw_and_logz(1.0)
    w = np.exp(logw - np.max(logw))
    ess = float(effective_sample_size(w))
    beta0, nt0 = st.get_current("beta"), core.n_total
    betas = [1.0, 1.0 - 1e-4, math.nextafter(1.0 - 1e-4, 2.0), math.nextafter(1.0 - 1e-4, 0.0), 0.9999, 0.99990000000001,
             0.5, 0.0, 1.0 - 0.99e-4, 1.0 - 1.01e-4] + [1.0 - 1e-4 * rng.uniform(0.5, 1.5) for _ in range(6)]
    nts = [0, 1, math.floor(ess), math.ceil(ess), ess, math.nextafter(ess, math.inf), math.nextafter(ess, 0.0), ess * 2]
    lines, impl = [], []
    try:
        for b in betas:
            for nt in nts:
                st.set_current("beta", b)
                core.n_total = nt
                impl.append(bool(core._not_termination()))
                lines.append(f"term.F tol={f2hex(tol)} beta={f2hex(b)} ess={f2hex(ess)} ntotal={f2hex(float(nt))}")
    finally:
        st.set_current("beta", beta0)
        core.n_total = nt0
    for line, i, m in zip(lines, impl, drv.batch(lines)):
        c.case(line, True)
        c.count("continue" if i else "stop")
        if (m == "1") != i:
            c.disagree(input=line, impl=i, model=m)
    c.sample({"op": lines[1], "impl": impl[1]})


def correspond(tier):
    drv = common.Driver()
    rng = common.rng_for("C12")
    cp = Corr("posterior-16-combinations", "exact (row identity through captured index vectors)")
    cc = Corr("posterior-composition", "call arguments and uniform weights exact; untrimmed weights toleranced Float (1e-9)")
    ct = Corr("not-termination-guard", "bit-exact Float")
    ch = Corr("guard-from-history", "toleranced Float (ESS 1e-9 relative; decision exact away from ESS = n_total)")
    cr = Corr("run-epilogue", "exact")
    # every blob form (none + the five documented ones) x both kernels x both resamplers over the runs
    configs = [("tpcn", "mult", "scalar"), ("rwm", "syst", None), ("rwm", "mult", "vec3"), ("tpcn", "syst", "struct"),
               ("rwm", "syst", "mat"), ("tpcn", "mult", "mixed"), ("tpcn", "syst", "vec3-array"), ("rwm", "mult", "mat-array")]
    if tier == "thorough":
        forms = [None] + list(BLOB_FORMS)
        configs += [(k, r, f) for k in ("tpcn", "rwm") for r in ("mult", "syst") for f in forms] * 2
    # the guard on a sampler that has not run yet (empty history => continue)
    from tempest import Sampler
    s_fresh = Sampler(lambda u: 8.0 * u - 4.0, _L1, 2, n_particles=32, clustering=False)
    _guard_history_cases(ch, drv, rng, s_fresh)
    for kernel, resample, form in configs:
        blobs = form
        s, seed = _make_run(rng, kernel, resample, form)
        _posterior_cases(cp, cc, drv, rng, s, form, tier, seed,
                         runinfo={"kernel": kernel, "resample": resample, "blobs": form, "n_total": 96, "seed": seed})
        _term_cases(ct, drv, rng, s)
        _guard_history_cases(ch, drv, rng, s)
        # run epilogue: run() returned => model guard says stop; evidence() == Z(1) recomputed from the stored history
        st = s.state
        logw, z1 = st.compute_logw_and_logz(1.0)
        from tempest.tools import effective_sample_size
        from translate import g1_constants
        ess = float(effective_sample_size(np.exp(logw - np.max(logw))))
        tol = g1_constants.extract()["TERM_BETA_TOL"]
        line = f"term.F tol={f2hex(tol)} beta={f2hex(st.get_current('beta'))} ess={f2hex(ess)} ntotal={f2hex(float(s._core.n_total))}"
        lineh = (f"term.H tol={f2hex(tol)} beta={f2hex(st.get_current('beta'))} logw={','.join(f2hex(float(v)) for v in logw)} "
                 f"ntotal={f2hex(float(s._core.n_total))}")
        m, mh = drv.batch([line, lineh])
        cr.case((kernel, resample, blobs, seed), True)
        cr.count(f"blob_form={form}")
        ev = s.evidence()[0]
        beta_f = st.get_current("beta")
        # the whole-guard model must say stop too, unless the ESS sits within rounding of n_total
        mh_ok = mh.split(" ")[0] == "0" or abs(ess - s._core.n_total) <= 1e-9 * (1.0 + ess)
        if m != "0" or not mh_ok or f2hex(ev) != f2hex(z1) or not (beta_f <= 1.0):
            cr.disagree(input={"kernel": kernel, "resample": resample, "blobs": blobs, "seed": seed},
                        impl={"returned": True, "evidence": ev, "recomputed": z1, "beta": beta_f},
                        model={"guard_continue": m, "guard_from_history": mh[:20]})
        cr.sample({"config": [kernel, resample, blobs], "beta": st.get_current("beta"), "ess": ess, "n_total": s._core.n_total, "evidence": ev})
    # run() entered through a checkpoint, asking for MORE samples than the run that wrote it: the postconditions are about the
    # n_total passed to THIS run()
    import os
    import shutil
    import tempfile
    from tempest import Sampler
    from tempest.tools import effective_sample_size
    from translate import g1_constants
    tol = g1_constants.extract()["TERM_BETA_TOL"]
    for kernel, n_a, n_b in (("rwm", 48, 192), ("tpcn", 64, 64)) if tier == "quick" else (("rwm", 48, 192), ("tpcn", 64, 64), ("tpcn", 48, 256), ("rwm", 96, 97)):
        d = tempfile.mkdtemp(prefix="tv12_")
        try:
            seed = rng.randrange(2 ** 31)
            mk = lambda: Sampler(lambda u: 8.0 * u - 4.0, lambda x: -0.5 * float(np.sum((x - 0.5) ** 2)) * 3.0, 2, n_particles=24,
                                 clustering=False, sample=kernel, output_dir=d, n_steps=1, n_max_steps=2)
            np.random.seed(seed)
            with _quiet(), warnings.catch_warnings():
                warnings.simplefilter("ignore")
                mk().run(n_total=n_a, progress=False, save_every=2)
                cks = sorted(f for f in os.listdir(d) if f.endswith(".state"))
                s2 = mk()
                s2.run(n_total=n_b, progress=False, resume_state_path=os.path.join(d, cks[len(cks) // 2]))
            logw, z1 = s2.state.compute_logw_and_logz(1.0)
            ess = float(effective_sample_size(np.exp(logw - np.max(logw))))
            line = f"term.F tol={f2hex(tol)} beta={f2hex(s2.state.get_current('beta'))} ess={f2hex(ess)} ntotal={f2hex(float(n_b))}"
            m = drv.batch([line])[0]
            key = {"kernel": kernel, "first_n_total": n_a, "resumed_n_total": n_b, "checkpoint": cks[len(cks) // 2], "seed": seed}
            cr.case(key, True)
            cr.count("resumed_with_larger_n_total" if n_b > n_a else "resumed_same_n_total")
            if m != "0" or f2hex(s2.evidence()[0]) != f2hex(z1):
                cr.disagree(input=key, impl={"returned": True, "beta": s2.state.get_current("beta"), "ess": ess, "evidence": s2.evidence()[0], "recomputed": z1},
                            model={"guard_continue_for_requested_n_total": m}, resume=True)
        finally:
            shutil.rmtree(d, ignore_errors=True)
    return [cp, cc, ct, ch, cr]


# ------------------------------------------------------------------ property oracle on the real code
def oracle_run(s, blobs, extra_params=()):
    """postconditions of run() + posterior contract for all 16 combinations; returns list of violations"""
    from tempest.tools import effective_sample_size
    bad = []
    form = _form(blobs)
    blobs = form is not None
    st = s.state
    beta = st.get_current("beta")
    logw, z1 = st.compute_logw_and_logz(1.0)
    ess = float(effective_sample_size(np.exp(logw - np.max(logw))))
    if not (beta <= 1.0):
        bad.append({"what": f"run() returned with beta={beta!r} > 1"})
    if not (1.0 - beta < 1e-4):
        bad.append({"what": f"run() returned with beta={beta!r} (1-beta >= 1e-4)"})
    if not ess >= s._core.n_total:
        bad.append({"what": f"run() returned with ESS {ess!r} < n_total {s._core.n_total}"})
    if s.evidence()[0] != z1:
        bad.append({"what": f"evidence() {s.evidence()[0]!r} != evidence recomputed from the stored history {z1!r}"})
    pool_x = st.get_history("x", flat=True)
    pool_l = st.get_history("logl", flat=True)
    pool_b = st.get_history("blobs", flat=True) if blobs else None
    index = {}
    for i, row in enumerate(pool_x):
        index.setdefault(row.tobytes(), []).append(i)
    for res, trim, rb, rl in itertools.product([False, True], repeat=4):
        for ess_t, bins_t in [(0.99, 1000), (0.5, 7), (1.0, 1000)] + [tuple(p) for p in extra_params]:
            opts = {"resample": res, "trim_importance_weights": trim, "return_blobs": rb, "return_logw": rl, "ess_trim": ess_t, "bins_trim": bins_t}
            try:
                with warnings.catch_warnings():
                    warnings.simplefilter("ignore")
                    out = s.posterior(**opts)
            except Exception as e:  # noqa
                bad.append({"what": f"posterior raised {type(e).__name__}: {e}", "opts": opts})
                continue
            n_expected = 3 + (1 if (rb and blobs) else 0) + (1 if rl else 0)
            lens = [len(a) for a in out]
            if len(out) != n_expected or len(set(lens)) != 1:
                bad.append({"what": f"posterior returned arrays of lengths {lens}", "opts": opts})
                continue
            x, w, l = out[0], out[1], out[2]
            bl = out[3] if (rb and blobs) else None
            lw = out[-1] if rl else None
            if np.any(w < 0) or abs(float(np.sum(w)) - 1.0) > 1e-9:
                bad.append({"what": f"weights negative or sum {float(np.sum(w))!r} != 1", "opts": opts})
            if res and not np.allclose(w, 1.0 / len(w), rtol=0, atol=1e-15):
                bad.append({"what": "weights not uniform with resample=True", "opts": opts})
            for k in range(len(x)):
                cands = index.get(x[k].tobytes(), [])
                ok = any(pool_l[i] == l[k] and (bl is None or _blob_eq(pool_b[i], bl[k])) and (lw is None or logw[i] == lw[k]) for i in cands)
                if not ok:
                    bad.append({"what": f"posterior row {k}: no stored particle has this (x, logl, blob, logw) combination", "opts": opts})
                    break
                # the likelihood is a pure function: the row's logl / blob must be those of the row's x
                if _L1(x[k]) != l[k] or (bl is not None and not _blob_eq(bl[k], _blob_of(form, x[k]))):
                    bad.append({"what": f"posterior row {k}: logl / blob are not those of the x in the same row (blob form {form})", "opts": opts})
                    break
            if bad:
                return bad
    return bad


def oracle_guard(s):
    """the loop guard itself, on real states: run() returns exactly when the guard says stop, so a state with
    1 - beta >= 1e-4 (or ESS < n_total) at which the real guard says stop is a state at which run() returns too early"""
    from tempest.tools import effective_sample_size
    core, st = s._core, s.state
    logw, _ = st.compute_logw_and_logz(1.0)
    ess = float(effective_sample_size(np.exp(logw - np.max(logw))))
    beta0, nt0 = st.get_current("beta"), core.n_total
    bad = []
    try:
        for b in [0.0, 0.5, 0.9, 0.99, 0.995, 0.999, 0.9995, 0.9998, 1.0 - 1.0001e-4, 1.0 - 0.9999e-4, 0.99995, 1.0]:
            for nt in [1, int(ess), int(ess) + 1, int(2 * ess)]:
                st.set_current("beta", b)
                core.n_total = nt
                want_continue = (1.0 - b >= 1e-4) or (ess < nt)
                got = bool(core._not_termination())
                if got != want_continue:
                    bad.append({"what": f"at beta={b!r}, ESS={ess!r}, n_total={nt} the loop guard says "
                                        f"{'continue' if got else 'stop'}: run() would {'not return although' if got else 'return although'} "
                                        f"1-beta {'<' if 1.0 - b < 1e-4 else '>='} 1e-4 and ESS {'>=' if ess >= nt else '<'} n_total",
                                "beta": b, "n_total": nt, "ess": ess})
                    return bad
    finally:
        st.set_current("beta", beta0)
        core.n_total = nt0
    return bad


def oracle_resume(rng):
    """run(n_total=B, resume_state_path=checkpoint of a run with n_total=A < B) must end with ESS >= B"""
    import os
    import shutil
    import tempfile
    from tempest import Sampler
    from tempest.tools import effective_sample_size
    bad = []
    for kernel, n_a, n_b in (("rwm", 48, 192), ("tpcn", 48, 256)):
        d = tempfile.mkdtemp(prefix="tv12_")
        try:
            seed = rng.randrange(2 ** 31)
            mk = lambda: Sampler(lambda u: 8.0 * u - 4.0, lambda x: -0.5 * float(np.sum((x - 0.5) ** 2)) * 3.0, 2, n_particles=24,
                                 clustering=False, sample=kernel, output_dir=d, n_steps=1, n_max_steps=2)
            np.random.seed(seed)
            with _quiet(), warnings.catch_warnings():
                warnings.simplefilter("ignore")
                mk().run(n_total=n_a, progress=False, save_every=2)
                for ck in sorted(f for f in os.listdir(d) if f.endswith(".state")):
                    s2 = mk()
                    s2.run(n_total=n_b, progress=False, resume_state_path=os.path.join(d, ck))
                    logw, _ = s2.state.compute_logw_and_logz(1.0)
                    ess = float(effective_sample_size(np.exp(logw - np.max(logw))))
                    beta = s2.state.get_current("beta")
                    if not (1.0 - beta < 1e-4 and ess >= n_b):
                        bad.append({"what": f"run(n_total={n_b}, resume_state_path={ck}) of a run written with n_total={n_a} returned with beta={beta!r}, ESS={ess:.1f} < {n_b}",
                                    "config": {"kernel": kernel, "resample": "mult", "blobs": False, "n_total": n_a}, "seed": seed, "resume": True})
                        return bad
        finally:
            shutil.rmtree(d, ignore_errors=True)
    return bad


class _Fixed:
    """stands in for the rng in _make_run: replays a recorded seed"""
    def __init__(self, seed):
        self.seed = seed

    def randrange(self, n):
        return self.seed


def search(tier, hints):
    rng = common.rng_for("C12.search")
    found = []
    try:
        found += oracle_resume(rng)
    except Exception as e:  # noqa
        found.append({"what": f"resumed run raised {type(e).__name__}: {e}", "config": ["resume"]})
    try:
        s0, seed0 = _make_run(rng, "rwm", "syst", False, 64)
        for b in oracle_guard(s0):
            b.update({"config": {"kernel": "rwm", "resample": "syst", "blobs": False, "n_total": 64}, "seed": seed0, "guard_level": True})
            found.append(b)
    except Exception as e:  # noqa
        found.append({"what": f"run raised {type(e).__name__}: {e}", "config": ["rwm", "syst", False, 64]})
    # the very runs (and trimming parameters) on which a correspondence suite disagreed, first
    seen = set()
    for h in hints or []:
        ri = h.get("run")
        if not ri or (ri["seed"], ri["kernel"]) in seen or len(seen) >= 4:
            continue
        seen.add((ri["seed"], ri["kernel"]))
        try:
            s, _ = _make_run(_Fixed(ri["seed"]), ri["kernel"], ri["resample"], ri["blobs"], ri["n_total"])
            for b in oracle_run(s, ri["blobs"], extra_params=[h["params"]] if h.get("params") else ()):
                b.update({"config": {k: ri[k] for k in ("kernel", "resample", "blobs", "n_total")}, "seed": ri["seed"],
                          "extra_params": [h["params"]] if h.get("params") else []})
                found.append(b)
        except Exception as e:  # noqa
            found.append({"what": f"run raised {type(e).__name__}: {e}", "config": ri})
    n = 6 if tier == "quick" else 40
    for _ in range(n):
        kernel = rng.choice(["tpcn", "rwm"])
        resample = rng.choice(["mult", "syst"])
        blobs = rng.choice([None, None] + list(BLOB_FORMS))
        n_total = rng.choice([64, 128, 256])
        try:
            s, seed = _make_run(rng, kernel, resample, blobs, n_total)
        except Exception as e:  # noqa
            found.append({"what": f"run raised {type(e).__name__}: {e}", "config": [kernel, resample, blobs, n_total]})
            continue
        for b in oracle_run(s, blobs):
            b.update({"config": {"kernel": kernel, "resample": resample, "blobs": blobs, "n_total": n_total}, "seed": seed})
            found.append(b)
        if len(found) >= 3:
            break
    return found


def replay(obj):
    f = obj.get("failing_input", obj)
    if "witness" in f.get("replay", {}):
        from . import witnesses
        return witnesses.ALL[f["replay"]["witness"]]()
    import random
    if f.get("resume"):
        b = oracle_resume(common.rng_for("C12.search"))
        return {"fails": bool(b), "detail": b[:1]}
    cfg, seed = f["config"], f["seed"]
    from tempest import Sampler
    blobs = _form(cfg["blobs"])
    s, _ = _make_run(_Fixed(seed), cfg["kernel"], cfg["resample"], blobs, cfg["n_total"])
    bad = oracle_run(s, blobs, extra_params=f.get("extra_params", ())) + oracle_guard(s)
    return {"fails": bool(bad), "detail": bad[:1]}
