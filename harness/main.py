"""./check <Cxx> [--tier quick|thorough] [--replay file]

Verdict logic (DESIGN §4):
  obligations = Lean theorems of the property (build + axiom audit + source gate)
              + regenerated-model obligations (translators)
              + corpus of fixed witnesses
              + correspondence suites (model vs real code)
  all discharged  -> replay known findings (KNOWN-FINDING lines), exit 0
  something broke -> run the property's own oracle on the REAL code to find a failing input
                     found & not listed  -> VIOLATION property=<id> replay=<file>, exit 1
                     found & listed      -> KNOWN-FINDING, exit 0 (only if nothing else is broken)
                     none found          -> VIOLATION ... no-failing-input-found, exit 1
  infrastructure failure -> exit 2, never a VIOLATION line
"""
import argparse
import importlib
import json
import os
import sys
import time
import traceback

from . import common
from .common import Corr


def _jsonable(o):
    import fractions
    try:
        import numpy as np
    except Exception:  # pragma: no cover
        np = None
    if isinstance(o, dict):
        return {str(k): _jsonable(v) for k, v in o.items()}
    if isinstance(o, (list, tuple, set)):
        return [_jsonable(v) for v in o]
    if isinstance(o, fractions.Fraction):
        return common.frac2s(o)
    if np is not None:
        if isinstance(o, np.ndarray):
            return _jsonable(o.tolist())
        if isinstance(o, np.generic):
            return _jsonable(o.item())
    if isinstance(o, float):
        if o != o or o in (float("inf"), float("-inf")):
            return repr(o)
        return o
    if isinstance(o, (int, str, bool)) or o is None:
        return o
    return repr(o)


def write_replay(pid, obj):
    os.makedirs(common.REPLAYS, exist_ok=True)
    obj = _jsonable(obj)
    path = os.path.join(common.REPLAYS, f"{pid}-{common.digest(obj)}.json")
    with open(path, "w") as fh:
        json.dump(obj, fh, indent=1)
    return path


def main(argv=None):
    ap = argparse.ArgumentParser()
    ap.add_argument("prop")
    ap.add_argument("--tier", default=os.environ.get("VERIF_TIER", "quick"), choices=["quick", "thorough"])
    ap.add_argument("--replay")
    args = ap.parse_args(argv)
    pid = args.prop.upper()
    t0 = time.time()
    sys.path.insert(0, common.REPO)
    os.environ.setdefault("TEMPEST_VERIF", "1")
    try:
        mod = importlib.import_module(f"harness.{pid.lower()}")
    except ModuleNotFoundError as e:
        print(f"no check for {pid}: {e}")
        return 2

    if args.replay:
        obj = json.load(open(args.replay))
        res = mod.replay(obj)
        print(json.dumps(_jsonable(res), indent=1))
        return 1 if res.get("fails") else 0

    try:
        return _run(mod, pid, args.tier, t0)
    except (common.LeanError, OSError, TimeoutError) as e:
        print(f"INFRASTRUCTURE-ERROR {pid}: {e}")
        traceback.print_exc()
        return 2
    except Exception as e:  # any crash of the machinery itself is not a verdict
        print(f"INFRASTRUCTURE-ERROR {pid}: {type(e).__name__}: {e}")
        traceback.print_exc()
        return 2


def _run(mod, pid, tier, t0):
    obligations = []   # (name, ok, detail)
    broken = []

    def ob(name, ok, detail=""):
        obligations.append({"name": name, "ok": bool(ok), "detail": str(detail)[:400]})
        if not ok:
            broken.append(name)
        return ok

    # 1. regenerate the source-derived part of the model
    gen_status = []
    try:
        gens = list(getattr(mod, "translators", lambda: [])())
    except (common.LeanError, OSError, TimeoutError):
        raise
    except Exception as ex:  # a translator that CRASHES on the current source cannot tie the model to it: a broken obligation
        tb = traceback.extract_tb(ex.__traceback__)
        gens = [(f"translator-crashed:{os.path.basename(tb[-1].filename)}", "broken",
                 f"{type(ex).__name__}: {ex} at {os.path.basename(tb[-1].filename)}:{tb[-1].lineno} — the source no longer has a shape the translator reads")]
    for g in gens:
        # g = (name, status, detail) with status ok | unavailable | broken
        gen_status.append({"translator": g[0], "status": g[1], "detail": str(g[2])[:300]})
        if g[1] == "broken":
            ob(f"translate:{g[0]}", False, g[2])
        elif g[1] == "ok":
            ob(f"translate:{g[0]}", True, g[2])
        # 'unavailable' -> the dynamic twin alone carries the tie for this run (DESIGN §3.1)

    # 2. Lean: build the property's theorem modules, gate, audit
    modules = list(mod.LEAN_MODULES)
    ok_build, out = common.lake_build(modules)
    ok_driver, out_drv = common.lake_build(["driver"])
    theorems = []
    for m in modules:
        theorems += common.theorem_names(m)
    if not ok_build:
        # find which theorems / files failed from the build log
        errs = [l for l in out.splitlines() if "error" in l][:20]
        ob("lean:build", False, "\n".join(errs) or out[-400:])
        axioms = {}
    else:
        ob("lean:build", True, f"{len(modules)} module(s)")
        hits = common.grep_gate(modules)
        ob("lean:source-gate", not hits, "; ".join(hits))
        axioms = common.audit_axioms(modules)
        for t in theorems:
            ax = axioms.get(t)
            bad = [a for a in (ax or []) if a not in common.ALLOWED_AXIOMS]
            ob(f"theorem:{t}", ax is not None and not bad, f"axioms={ax}")
    if tier == "thorough" and ok_build:
        rc, lo = common.run(["lake", "env", "leanchecker"] + modules, cwd=common.LEAN, timeout=3000)
        ob("lean:leanchecker", rc == 0, lo[-300:])

    # 3. corpus: fixed witnesses are ordinary regression inputs
    failing = []   # concrete failing inputs on the real code
    known = common.load_known()
    from . import witnesses
    for e in known.get("fixed", []):
        if e["property"] != pid:
            continue
        try:
            r = witnesses.ALL[e["witness"]]()
        except Exception as ex:  # noqa
            r = {"fails": True, "detail": f"witness crashed: {type(ex).__name__}: {ex}"}
        ob(f"corpus:{e['witness']}", not r["fails"], r["detail"])
        if r["fails"]:
            failing.append({"kind": "fixed-witness-returned", "witness": e["witness"], "what": e["what"],
                            "detail": r["detail"], "replay": {"witness": e["witness"]}})

    # 4. correspondence
    corrs = []
    if not ok_driver:
        errs = [l for l in out_drv.splitlines() if "error" in l]
        # the driver links every property's handler; only a failure inside THIS property's handler or the models /
        # generated files it imports is this property's broken obligation — anything else is an infrastructure problem
        mine = common.import_closure([f"TempestVerif.Drv.{pid}"])
        rel = {os.path.relpath(f, common.LEAN) for f in mine.values()}
        if not any(any(r in l for r in rel) for l in errs):
            raise common.LeanError("model driver does not build, in a file outside this property's closure:\n" + "\n".join(errs[:10]))
        ob("lean:driver-build", False, "\n".join(errs[:10]) or out_drv[-400:])
    else:
        try:
            corrs = mod.correspond(tier)
        except (common.LeanError, OSError, TimeoutError):
            raise
        except Exception as ex:
            # the correspondence could not be completed. Either the REAL code raised where the model says it runs, or the
            # instrumentation (observation points patched into the real functions) no longer fits the code as it is now.
            # Both mean "the tie between model and code is not established on this tree": a broken obligation, followed
            # by the failing-input search — not a verdict by itself and not an infrastructure failure (Lean / OS / time
            # limits are, and are re-raised above).
            tb = traceback.extract_tb(ex.__traceback__)
            root = os.path.realpath(common.REPO)
            in_code = [f for f in tb if os.path.realpath(f.filename).startswith(root + os.sep)]
            c = Corr("harness-aborted", "n/a")
            c.case("abort", True)
            if in_code:
                what = f"real code raised {type(ex).__name__}: {ex} at {os.path.relpath(in_code[-1].filename, root)}:{in_code[-1].lineno}"
            else:
                what = (f"the instrumented run could not be observed ({type(ex).__name__}: {ex} at "
                        f"{os.path.basename(tb[-1].filename)}:{tb[-1].lineno}) — the observation points no longer fit the code")
            c.disagree(input="correspondence run", impl=what, model="runs, observable at the modelled points")
            corrs = [c]
        for c in corrs:
            ob(f"correspondence:{c.name}", c.ok,
               c.error or (json.dumps(_jsonable(c.disagreements[0]))[:380] if c.disagreements else f"{c.evaluations} cases"))

    # 5. verdict
    known_lines = []
    violations = 0
    rc = 0
    known_here = [e for e in known.get("known", []) if e["property"] == pid]

    def is_known(f):
        for e in known_here:
            if f.get("witness") == e["witness"] or f.get("known_id") == e["witness"]:
                return e
        # a failing input the harness explicitly attributes to a recorded defect of a DEPENDENCY (e.g. an ensemble cell of
        # C01/C02 on a periodic tpCN target = C03's finding F17) is that finding, not a new violation of this property
        kid = f.get("known_id")
        if kid:
            for e in known.get("known", []):
                if e["witness"] == kid:
                    return e
        return None

    if broken:
        hints = []
        for c in corrs:
            hints += [dict(d, suite=c.name) for d in c.disagreements]
        try:
            failing += mod.search(tier, hints)
        except Exception as ex:  # search itself crashing must not hide the break
            traceback.print_exc()
            print(f"(failing-input search crashed: {type(ex).__name__}: {ex})")
        new = [f for f in failing if not is_known(f)]
        if new:
            f = new[0]
            path = write_replay(pid, {"property": pid, "broken_obligations": broken[:20], "failing_input": f,
                                      "all_failing": new[:10]})
            print(f"VIOLATION property={pid} replay={path}")
            print(f"  failing input on the real code: {json.dumps(_jsonable(f))[:600]}")
            violations = len(new)
            rc = 1
        else:
            path = write_replay(pid, {"property": pid, "broken_obligations": broken[:20],
                                      "obligation_details": [o for o in obligations if not o["ok"]][:10],
                                      "note": "no concrete failing input found on the real code; the listed theorem(s)/"
                                              "correspondence no longer check, so the property is no longer shown to hold"})
            print(f"VIOLATION property={pid} replay={path} no-failing-input-found")
            violations = 1
            rc = 1
        for o in obligations:
            if not o["ok"]:
                print(f"  broken obligation: {o['name']}: {o['detail'][:300]}")

    # known findings: replayed on every run, listed ones are reported, never alarms
    for e in known_here:
        try:
            r = witnesses.ALL[e["witness"]]()
        except Exception as ex:  # noqa
            r = {"fails": None, "detail": f"witness crashed: {type(ex).__name__}: {ex}"}
        if r["fails"]:
            line = f"KNOWN-FINDING: property={pid} {e['what']} [{r['detail'][:200]}]"
            print(line)
            known_lines.append(line)

    # 6. evidence
    n_ob = len(obligations)
    n_ok = sum(1 for o in obligations if o["ok"])
    evaluations = sum(c.evaluations for c in corrs)
    distinct = sum(len(c.keys) for c in corrs)
    samples = []
    for c in corrs:
        for s in c.samples:
            samples.append({"suite": c.name, "case": s})
    if not samples:
        samples = [{"obligation": o["name"], "detail": o["detail"]} for o in obligations[:3]]
    ev = {
        "property_id": pid,
        "tier": tier,
        "seed": common.seed(),
        "level": "proof",
        "coverage": {
            "obligations": n_ob,
            "discharged": n_ok,
            "checker_cmd": "cd lean && lake build " + " ".join(modules) + "  &&  #print axioms <each theorem>  (harness/common.py: audit_axioms)"
                           + ("  &&  lake env leanchecker " + " ".join(modules) if tier == "thorough" else ""),
            "trusted_base": common.TRUSTED_BASE + list(getattr(mod, "TRUSTED_EXTRA", [])),
            "theorems": theorems,
            "axioms_used": sorted({a for v in axioms.values() for a in v}),
            "evaluations": evaluations,
            "distinct_nontrivial": distinct,
            "rule": getattr(mod, "RULE", ""),
            "samples": _jsonable(samples[:8]),
            "correspondence": [
                {"suite": c.name, "regime": c.regime, "evaluations": c.evaluations, "distinct_nontrivial": len(c.keys),
                 "disagreements": len(c.disagreements), "near_ties": c.near_ties, "stats": _jsonable(c.stats)}
                for c in corrs],
            "translators": gen_status,
            "obligation_list": obligations,
            "known_findings_reported": known_lines,
            "modelled_not_verified": list(getattr(mod, "MODELLED", [])),
        },
        "assumptions": list(getattr(mod, "ASSUMPTIONS", [])),
        "wall_s": round(time.time() - t0, 2),
        "violations": violations,
    }
    os.makedirs(common.EVIDENCE, exist_ok=True)
    with open(os.path.join(common.EVIDENCE, f"{pid}.json"), "w") as fh:
        json.dump(_jsonable(ev), fh, indent=1)
    print(f"{pid} tier={tier} seed={common.seed()} obligations={n_ok}/{n_ob} "
          f"correspondence_cases={evaluations} (distinct non-trivial {distinct}) wall={ev['wall_s']}s "
          f"-> {'OK' if rc == 0 else 'VIOLATION'}")
    return rc


if __name__ == "__main__":
    sys.exit(main())
