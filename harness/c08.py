"""C08 — checkpoints restore exactly, resume continues, saves are crash-safe and work with a worker pool."""
import builtins
import contextlib
import hashlib
import io
import os
import shutil
import subprocess
import sys
import tempfile
import warnings

import numpy as np

from . import common
from .common import Corr, f2hex

ID = "C08"
LEAN_MODULES = ["TempestVerif.Props.C08", "TempestVerif.Props.C08Resume", "TempestVerif.Props.C08Post"]
RULE = ("(i) save-load-roundtrip: real Samplers over {clustering, blobs, kernel tpcn/rwm, pool None/pool-like} x k in 0..4 "
        "iterations (`_initialize_fresh`, `sample()` x k, `save_state`, fresh sampler, `load_state`); the canonical dump "
        "(type, dtype, shape, bytes) of `_current`/`_history`/n_dim of the loaded sampler must equal the model's "
        "`load fresh (save s)` evaluated on the saved dump (tagged values), and for k >= 1 the saved dump itself; with a pool: "
        "re-attached afterwards and absent from the pickled sampler, also when pickling raises. Non-trivial = k >= 1. "
        "(ii) run-cadence-resume: real `run(n_total, save_every=k)` into a temp output_dir: the checkpoint files written must be "
        "the model's cadence for the number of iterations executed; EVERY checkpoint is loaded into a fresh sampler (state = "
        "prefix of the writer's history) and resumed with `run(resume_state_path=..., save_every=k2)`: restored history is a "
        "bit-identical prefix, the model's `runIters` fed with the per-iteration snapshots reproduces iter/calls/history, the "
        "resumed run's files follow the cadence from t0 = restored iter, and it ends with 1-beta < 1e-4 and ESS >= n_total. "
        "(iii) protocol-trace: file operations of a real `save_state` recorded in-process (open/write/flush/fileno/close proxy, "
        "os.fsync, os.replace, os.rename, os.mkdir) -> model classifier must say temprename and the merged shape must equal the "
        "statically extracted Gen.Checkpoint.saveOps (thorough: strace cross-check). "
        "(iv) crash-injection: a forked child performs the real save and dies (os._exit) at every operation boundary and at byte "
        "offsets of the pickle (0, 1, len-1, len, write boundaries, spread; thorough: every 4 KiB + first/last 64 bytes), with and "
        "without an old checkpoint; what the parent finds under the final name must be in the model's crash-content set "
        "{old, new} and must load into a fresh sampler as exactly that state. "
        "(v) sm-roundtrip: StateManagers produced by k in 0..7 real sampler iterations (blobs on/off, clustering on/off), final names "
        "with/without/with several suffixes: `save_state(p)` -> `StateManager(other n_dim).load_state(p)` and "
        "`StateManager.from_dict(sm.to_dict())` must equal the original in three views (raw `_current/_history/n_dim`, the accessors "
        "`get_current/get_history(key,i)/get_history_length`, `to_dict()`), dtype+shape+bytes; `load_state` into a NON-fresh manager "
        "(full file; files written with exclude=[a section]; hand-built partial dictionaries) must be the merge `loaded keys override, "
        "others stay`, stated as an oracle on dumps AND predicted by the model's updateFromDict/excludeDict/fromDict on tagged values; "
        "the top-level keys each `exclude=` leaves in the file are recorded (no verdict). Non-trivial = k >= 1. "
        "(vi) sm-crash-injection: as (iv) on the REAL StateManager.save_state (same interposition: every operation boundary, byte offsets "
        "inside dill.dump's writes, eager and lazy buffer), with/without an old complete file, with/without a stale temporary; outcome "
        "(absent / loads as complete OLD / loads as complete NEW / broken) must lie in the crash-content set of the program extracted "
        "from save_state's source (`fs.smcrash`), the recorded trace must classify as temprename with the extracted shape, and "
        "the temporary file the code really opens must be the model's temporary name (final name + `.temp`). One campaign uses the final "
        "name `x.temp`, which the pre-fix naming `with_suffix('.temp')` wrote in place (witness F27): judged like every other name. "
        "(vii) worker-pool-kinds: integer > 1 / real multiprocess.Pool / pool-like, saved mid-run and through run(save_every). "
        "(viii) core-metadata-roundtrip: the WHOLE checkpoint around the StateManager: top-level keys of the real file (in order) vs the "
        "regenerated table; stored rng_state / random_state / n_total / logz_err vs the writer; after load_state into a fresh sampler "
        "(constructed with ANOTHER random_state, global generator elsewhere): generator position, n_total, logz_err, t0, random_state and "
        "the identity + fitted-flag of every component vs the model's loadCore on tagged values; the same with files lacking rng_state / "
        "n_total / logz_err or holding rng_state=None (older checkpoints), and for `run(resume_state_path, n_total=nT)` t0 and n_total vs "
        "prologueResume. Saving must not move the generator. Non-trivial = k >= 1 or a key dropped. "
        "(ii) also checks, for every checkpoint of every run: the rng_state stored in the file is the writer's generator position at that "
        "iteration boundary, and — where the cadence model (resume.comp: Model.Cadence with the run's real warm-up schedule) says the "
        "clusterer events coincide — the run resumed with the same n_total is BIT-IDENTICAL to the uninterrupted run (C08_resume_continues_run); "
        "runs with cluster_every in {2,3} on a bimodal target and with blobs returned but not declared (blobs_dtype=None) are generated. "
        "(iv) also runs one campaign with a stale `<final>.temp` present and, after the crashes, a complete save over the leftover temp. "
        "(ix) reused-sampler-sequences: ONE sampler object goes through run(save_every) to the end then run(resume_state_path=<earlier "
        "checkpoint>, save_every) / save -> sample -> save -> load_state(earlier) -> sample -> save -> save / run -> load_state -> run / random "
        "sequences of sample, save (new or same name), load (any earlier file); EVERY save is followed at once by loading the file into a fresh "
        "sampler, which must restore the state the writer held at that moment (oracle on dumps + the model's load fresh (save s)).")
MODELLED = ["dill round trip: dec (enc d) = some d and dec of a strict prefix fails (trusted; exercised by (i) and (iv))",
            "process-crash granularity only: fsync durability / directory entries under power loss are not modelled",
            "the generator position G, the component state C and the iteration oracle F of Model.Resume are abstract: H_det (one iteration is a "
            "function of StateManager, generator position and component state: pure user functions, every draw through numpy's global "
            "generator, pools return in input order) and H_comp (components carry no state that matters across a resume: true for "
            "cluster_every = 1 / clustering off, C08_components_irrelevant; false in general, C08_components_matter_cluster_every_3) are "
            "hypotheses of C08_resume_continues_run, checked by suite (ii) on the real code",
            "the pickled sampler object `d['sampler']` and `d['random_state']` are written but never read on load (regenerated: "
            "C08_gen_load_table); unpickling the stored sampler is exercised by suite (i) only",
            "two processes saving the SAME final name concurrently share one temporary file and can mix payloads "
            "(C08_concurrent_same_name_mixes): excluded by assumption; different names are safe (C08_concurrent_distinct_names_safe)",
            "arrays are opaque tagged values (aliasing of the loaded arrays is C17's subject)",
            "StateManager.save_state: temporary name = final name + `.temp` (as the sampler; /repo b1898a0), crash-safety proved for every "
            "final name from an arbitrary file system; the pre-fix naming `with_suffix('.temp')` is kept as `smSaveOld` (in-place write "
            "for a final name `*.temp`, C08_state_manager_temp_suffix_in_place) and is what the translator reports as `replace_suffix`",
            "dropping `os.fsync` or swapping flush/fsync in either save is visible to the classifier (trace no longer `tempRename`) but has "
            "no crash state in the FS model: durability under power loss is not expressed, only process death",
            "`Path(path).parent.mkdir(exist_ok=True)` of StateManager.save_state (no parents=True): a missing grand-parent raises "
            "FileNotFoundError before any file is touched — recorded by the translator flag smMkdirParents, not judged"]
ASSUMPTIONS = ["the user's prior_transform / log_likelihood are picklable by dill (otherwise save raises before touching any file)",
               "no second process writes the same checkpoint name concurrently (one fixed temporary name per final name)",
               "no file the user cares about is called `<final name>.temp` (both saves use and finally remove that name)"]
TRUSTED_EXTRA = ["translate/g7_checkpoint.py (AST extraction of the save/load/cadence shapes), cross-checked against the recorded trace"]

N_PART = 32


def translators():
    from translate import g7_checkpoint, g5_tables
    return [g7_checkpoint.generate(), g7_checkpoint.generate_sm(), g7_checkpoint.generate_core(), g5_tables.generate()]


def _quiet():
    return contextlib.redirect_stdout(io.StringIO())


class ListPool:
    """pool-like object: only `.map` is used by the sampler"""

    def map(self, f, xs):
        return [f(x) for x in xs]

    def __reduce__(self):
        # like multiprocessing / multiprocess pools: a pool cannot be pickled, so anything that still
        # references it when the sampler is pickled makes the save fail
        raise NotImplementedError("pool objects cannot be passed between processes or pickled")


class Unpicklable:
    """a likelihood dill cannot serialise (save must raise before touching the file system)"""

    def __call__(self, x):
        return -0.5 * float(np.sum(x ** 2))

    def __reduce__(self):
        raise TypeError("deliberately unpicklable likelihood")


CONFIGS = [dict(clustering=c, blobs=b, kernel=k, pool=p)
           for c in (False, True) for b in (False, True) for k in ("tpcn", "rwm") for p in (False, True)]


# kinds of worker pool a configuration may carry: False (none), True (pool-like object with .map), "int" (an integer > 1:
# the sampler itself spawns `multiprocess` workers for every likelihood batch), "mp" (a real multiprocess.Pool object)
POOL_KIND_CONFIGS = [dict(clustering=False, blobs=False, kernel="rwm", pool="int"),
                     dict(clustering=True, blobs=True, kernel="tpcn", pool="int"),
                     dict(clustering=False, blobs=True, kernel="rwm", pool="mp")]
_MP_POOL = []


def _mk_pool(kind):
    if not kind:
        return None
    if kind == "int":
        return 2
    if kind == "mp":
        if not _MP_POOL:
            import atexit
            from multiprocess import Pool
            _MP_POOL.append(Pool(2))
            atexit.register(lambda: (_MP_POOL[0].terminate(), _MP_POOL[0].join()))
        return _MP_POOL[0]
    return ListPool()


def _bimodal(x):
    a = -0.5 * float(np.sum((x - 2.5) ** 2)) / 0.09
    b = -0.5 * float(np.sum((x + 2.5) ** 2)) / 0.09
    return float(np.logaddexp(a, b))


def mk_sampler(cfg, output_dir=None, label=None, like=None, random_state=None):
    """cfg keys: clustering, blobs (False | True = declared with blobs_dtype | "und" = returned by the likelihood but NOT declared |
    "obj" = undeclared string blobs, stored as object-dtype arrays),
    kernel, pool (see _mk_pool); optional: ce (cluster_every), bimodal (two separated modes: stale and fresh clusterings differ)"""
    from tempest import Sampler
    if like is None:
        if cfg["blobs"] == "obj":
            like = lambda x: (-0.5 * float(np.sum(x ** 2)), "pos" if x[0] > 0 else "negative")  # noqa: E731
        elif cfg.get("bimodal"):
            if cfg["blobs"]:
                like = lambda x: (_bimodal(x), float(x[0]) * 2.0 + 1.0)  # noqa: E731
            else:
                like = _bimodal
        elif cfg["blobs"]:
            like = lambda x: (-0.5 * float(np.sum(x ** 2)), float(x[0]) * 2.0 + 1.0)  # noqa: E731
        else:
            like = lambda x: -0.5 * float(np.sum(x ** 2))  # noqa: E731
    kw = dict(n_particles=N_PART, clustering=cfg["clustering"], sample=cfg["kernel"],
              blobs_dtype=("f8" if cfg["blobs"] is True else None), pool=_mk_pool(cfg["pool"]))
    if cfg.get("ce", 1) != 1:
        kw["cluster_every"] = cfg["ce"]
    if random_state is not None:
        kw["random_state"] = random_state
    if output_dir is not None:
        kw.update(output_dir=output_dir, output_label=label)
    return Sampler(lambda u: 10.0 * u - 5.0, like, 2, **kw)


# configurations beyond the 16 of CONFIGS: clusterer reused across iterations (cluster_every > 1) on a bimodal target, and blobs
# that the likelihood returns without a declared blobs_dtype (have_blobs is then decided from the state: /repo 9130321)
EXTRA_RUN_CONFIGS = [dict(clustering=True, blobs=False, kernel="tpcn", pool=False, ce=3, bimodal=True),
                     dict(clustering=True, blobs=True, kernel="rwm", pool=False, ce=2, bimodal=True),
                     dict(clustering=True, blobs="und", kernel="rwm", pool=False),
                     dict(clustering=False, blobs="und", kernel="tpcn", pool=True, ce=3),
                     dict(clustering=True, blobs=False, kernel="rwm", pool=True, ce=1, bimodal=True),
                     dict(clustering=False, blobs="obj", kernel="rwm", pool=False)]


# ----------------------------------------------------------------------------- canonical dumps and tags
def canon(v):
    if v is None:
        return ("N",)
    if isinstance(v, (np.ndarray, np.generic)):
        a = np.asarray(v)
        if a.dtype.hasobject:       # object arrays hold references: compare what they refer to, not the pointers
            return ("a", type(v).__name__, a.dtype.str, list(a.shape), hashlib.sha1(repr(a.tolist()).encode()).hexdigest())
        return ("a", type(v).__name__, a.dtype.str, list(a.shape), hashlib.sha1(a.tobytes()).hexdigest())
    if isinstance(v, bool):
        return ("o", "bool", repr(v))
    if isinstance(v, int):
        return ("i", int(v))
    if isinstance(v, float):
        return ("r", f2hex(v))
    return ("o", type(v).__name__, repr(v))


def dump_state(st):
    return {"cur": {k: canon(v) for k, v in st._current.items()},
            "hist": {k: [canon(v) for v in l] for k, l in st._history.items()},
            "ndim": int(st.n_dim)}


class Tagger:
    def __init__(self):
        self.tags = {}

    def val(self, c):
        c = tuple(tuple(x) if isinstance(x, list) else x for x in c)
        if c[0] == "N":
            return "N"
        if c[0] == "i":
            return f"i{c[1]}"
        if c[0] == "r":
            return f"r{int(c[1], 16)}"
        if c not in self.tags:
            self.tags[c] = len(self.tags) + 1
        return f"a{self.tags[c]}"

    def cur(self, d):
        return {k: self.val(v) for k, v in d.items()}

    def hist(self, d):
        return {k: [self.val(v) for v in l] for k, l in d.items()}

    def state_args(self, dmp):
        c = self.cur(dmp["cur"])
        h = self.hist(dmp["hist"])
        cs = ",".join(f"{k}:{v}" for k, v in sorted(c.items())) or "-"
        hs = ",".join(f"{k}:{'/'.join(l) if l else '-'}" for k, l in sorted(h.items())) or "-"
        return f"cur={cs} hist={hs} ndim={dmp['ndim']}"


def parse_state(ans):
    """`cur=… hist=… ndim=n` -> (cur dict, hist dict, ndim) or None"""
    toks = dict(t.split("=", 1) for t in ans.split(" ") if "=" in t)
    if set(toks) != {"cur", "hist", "ndim"}:
        return None
    cur = {} if toks["cur"] == "-" else dict(e.split(":") for e in toks["cur"].split(","))
    hist = {}
    if toks["hist"] != "-":
        for e in toks["hist"].split(","):
            k, vs = e.split(":")
            hist[k] = [] if vs == "-" else vs.split("/")
    return cur, hist, int(toks["ndim"])


# ----------------------------------------------------------------------------- recording / crashing file layer
class Ctl:
    """Records the file operations under `root`; optionally kills the process at one crash point.

    crash = None | ("op", name) with name in open/opened/flush/fsync/close/rename/done  (the instant BEFORE that
    operation; `opened` = right after the open, `done` = right after the rename) | ("byte", B): when exactly B bytes
    of pickle data have been handed over.  `eager`: before dying push what was written so far to the kernel (the
    model's `write` = bytes reach the file); not eager = die with Python's user-space buffer unflushed."""

    def __init__(self, root, crash=None, eager=True):
        self.root = os.path.realpath(root)
        self.crash = crash
        self.eager = eager
        self.log = []
        self.cum = 0
        self.open_files = []
        self.fd_path = {}

    def inside(self, p):
        try:
            return os.path.realpath(os.fspath(p)).startswith(self.root + os.sep)
        except TypeError:
            return False

    def die(self):
        if self.eager:
            for f in self.open_files:
                try:
                    f.real.flush()
                except Exception:  # noqa
                    pass
        os._exit(9)

    def at(self, name):
        if self.crash == ("op", name):
            self.die()


class ProxyFile:
    def __init__(self, real, path, ctl):
        self.real, self.path, self.ctl = real, path, ctl
        self.is_closed = False

    def write(self, data):
        c = self.ctl
        n = len(data)
        if c.crash is not None and c.crash[0] == "byte" and c.cum <= c.crash[1] < c.cum + n:
            k = c.crash[1] - c.cum
            self.real.write(bytes(data[:k]))
            c.cum += k
            self.real.flush() if c.eager else None
            c.die()
        c.log.append(("write", self.path, n))
        c.cum += n
        return self.real.write(data)

    def flush(self):
        self.ctl.at("flush")
        self.ctl.log.append(("flush", self.path))
        return self.real.flush()

    def fileno(self):
        fd = self.real.fileno()
        self.ctl.fd_path[fd] = self.path
        return fd

    def close(self):
        if not self.is_closed:
            self.ctl.at("close")
            self.ctl.log.append(("close", self.path))
            self.is_closed = True
            if self in self.ctl.open_files:
                self.ctl.open_files.remove(self)
        return self.real.close()

    def __enter__(self):
        return self

    def __exit__(self, *a):
        self.close()
        return False

    def __getattr__(self, name):
        return getattr(self.real, name)


@contextlib.contextmanager
def fs_layer(ctl):
    real_open, real_fsync, real_replace, real_rename, real_mkdir = builtins.open, os.fsync, os.replace, os.rename, os.mkdir

    def my_open(file, mode="r", *a, **k):
        if isinstance(file, int) or not ctl.inside(file) or not any(ch in mode for ch in "wax+"):
            return real_open(file, mode, *a, **k)
        path = os.path.realpath(os.fspath(file))
        ctl.at("open")
        f = real_open(file, mode, *a, **k)
        ctl.log.append(("open", path, mode))
        p = ProxyFile(f, path, ctl)
        ctl.open_files.append(p)
        ctl.at("opened")
        return p

    def my_fsync(fd):
        if fd in ctl.fd_path:
            ctl.at("fsync")
            ctl.log.append(("fsync", ctl.fd_path[fd]))
        return real_fsync(fd)

    def mk_rename(real, name):
        def f(src, dst, *a, **k):
            if ctl.inside(src) or ctl.inside(dst):
                ctl.at("rename")
                r = real(src, dst, *a, **k)
                ctl.log.append(("rename", os.path.realpath(os.fspath(src)), os.path.realpath(os.fspath(dst)), name))
                ctl.at("done")
                return r
            return real(src, dst, *a, **k)
        return f

    def my_mkdir(path, *a, **k):
        if ctl.inside(path) or os.path.realpath(os.fspath(path)) == ctl.root:
            ctl.log.append(("mkdir", os.path.realpath(os.fspath(path))))
        return real_mkdir(path, *a, **k)

    with common.patched(builtins, "open", my_open), common.patched(os, "fsync", my_fsync), \
            common.patched(os, "replace", mk_rename(real_replace, "os.replace")), \
            common.patched(os, "rename", mk_rename(real_rename, "os.rename")), common.patched(os, "mkdir", my_mkdir):
        yield ctl


def abstract_trace(log, final):
    """recorded operations -> the model's alphabet with symbolic paths (final / tmp / p2 … / dir)"""
    final = os.path.realpath(final)
    names = {final: "final"}

    def nm(p):
        if p not in names:
            names[p] = "tmp" if "tmp" not in names.values() else f"p{len(names)}"
        return names[p]
    ops = []
    for e in log:
        if e[0] == "mkdir":
            if not ops or ops[-1] != "mkdir:dir":
                ops.append("mkdir:dir")
        elif e[0] == "open":
            ops.append(f"open:{nm(e[1])}")
        elif e[0] == "write":
            ops.append(f"write:{nm(e[1])}:{e[2]}")
        elif e[0] == "rename":
            ops.append(f"rename:{nm(e[1])}:{nm(e[2])}")
        else:
            ops.append(f"{e[0]}:{nm(e[1])}")
    return ops


def _prepared(cfg, k, seed, root):
    """a sampler after k iterations (seeded) inside `root`"""
    np.random.seed(seed)
    s = mk_sampler(cfg, output_dir=os.path.join(root, "out"), label="ps")
    s._core._initialize_fresh()
    for _ in range(k):
        s.sample()
    return s


# ----------------------------------------------------------------------------- (i) round trip
def roundtrip_case(cfg, k, seed):
    """returns dict(saved, loaded, pool_ok, pickled_pool_none, error)"""
    import dill
    root = tempfile.mkdtemp(prefix="tv08_")
    try:
        with _quiet(), warnings.catch_warnings():
            warnings.simplefilter("ignore")
            s = _prepared(cfg, k, seed, root)
            pool = s._core.config.pool
            path = os.path.join(root, "a.state")
            s.save_state(path)
            saved = dump_state(s.state)
            pool_ok = s._core.config.pool is pool
            with open(path, "rb") as fh:
                d = dill.load(fh)
            try:
                inner = dill.loads(d["sampler"])
                pickled_pool_none = inner.config.pool is None
            except Exception as e:  # noqa
                pickled_pool_none = f"cannot unpickle the stored sampler: {type(e).__name__}: {e}"
            s2 = mk_sampler(cfg)
            s2.load_state(path)
            loaded = dump_state(s2.state)
            leftovers = sorted(f for f in os.listdir(root) if f not in ("a.state", "out"))
        return dict(saved=saved, loaded=loaded, pool_ok=pool_ok, pickled_pool_none=pickled_pool_none, leftovers=leftovers, error=None)
    except Exception as e:  # noqa
        return dict(error=f"{type(e).__name__}: {e}")
    finally:
        shutil.rmtree(root, ignore_errors=True)


def _same_dump(a, b):
    return a["ndim"] == b["ndim"] and a["cur"] == b["cur"] and a["hist"] == b["hist"]


def _first_diff(a, b):
    for sect in ("cur", "hist"):
        for k in sorted(set(a[sect]) | set(b[sect])):
            if a[sect].get(k) != b[sect].get(k):
                va, vb = a[sect].get(k), b[sect].get(k)
                if sect == "hist":
                    return f"_history[{k!r}]: {len(va) if va is not None else None} entries vs {len(vb) if vb is not None else None}" \
                        if (va is None or vb is None or len(va) != len(vb)) else f"_history[{k!r}] differs in content"
                return f"_current[{k!r}]: {va} vs {vb}"
    if a["ndim"] != b["ndim"]:
        return f"n_dim {a['ndim']} vs {b['ndim']}"
    return None


def suite_roundtrip(tier, drv):
    c = Corr("save-load-roundtrip", "exact (canonical dumps; model on tagged values)")
    rng = common.rng_for("C08.roundtrip")
    reps = 2 if tier == "quick" else 6
    lines, recs = [], []
    for rep in range(reps):
        for cfg in CONFIGS:
            ks = [0, rng.choice([1, 2]), rng.choice([3, 4])] if tier == "quick" else [0, 1, 2, 3, 5]
            for k in ks:
                seed = rng.randrange(2 ** 31)
                r = roundtrip_case(cfg, k, seed)
                key = dict(cfg=cfg, k=k, seed=seed)
                c.case(key, k >= 1)
                c.count(f"k={k}")
                for f in ("clustering", "blobs", "pool"):
                    c.count(f"{f}={'on' if cfg[f] else 'off'}")
                c.count(cfg["kernel"])
                if r["error"]:
                    c.disagree(input=key, impl=f"save/load raised {r['error']}", model="save and load succeed", kind="roundtrip", **key)
                    continue
                if cfg["pool"] and not (r["pool_ok"] and r["pickled_pool_none"] is True):
                    c.disagree(input=key, impl=f"pool re-attached={r['pool_ok']}, pickled sampler without pool={r['pickled_pool_none']}",
                               model="re-attached, pickled object has no pool (C08_pool_detach)", kind="pool", **key)
                if r["leftovers"]:
                    c.disagree(input=key, impl=f"files left beside the checkpoint: {r['leftovers']}", model="none", kind="roundtrip", **key)
                tg = Tagger()
                lines.append("ckpt.roundtrip " + tg.state_args(r["saved"]))
                recs.append((key, r, tg))
    for (key, r, tg), line, ans in zip(recs, lines, drv.batch(lines)):
        m = parse_state(ans) if ans.startswith("cur=") else None
        lc, lh = tg.cur(r["loaded"]["cur"]), tg.hist(r["loaded"]["hist"])
        if m is None or m[0] != lc or m[1] != lh or m[2] != r["loaded"]["ndim"]:
            c.disagree(input=key, impl=dict(cur=lc, hist={k: len(v) for k, v in lh.items()}, ndim=r["loaded"]["ndim"]), model=ans[:300],
                       kind="roundtrip", **key)
        elif key["k"] >= 1 and not _same_dump(r["saved"], r["loaded"]):
            c.disagree(input=key, impl="loaded != saved: " + str(_first_diff(r["saved"], r["loaded"])), model="identical", kind="roundtrip", **key)
        if key["k"] == 0:
            c.count("defaults_applied_to_None_keys")
        c.sample({"case": key, "model": ans[:160]})
    # the `finally` of the pool detachment when pickling raises
    for cfg in [c0 for c0 in CONFIGS if c0["pool"] and not c0["blobs"]][: (2 if tier == "quick" else 4)]:
        root = tempfile.mkdtemp(prefix="tv08_")
        try:
            with _quiet(), warnings.catch_warnings():
                warnings.simplefilter("ignore")
                np.random.seed(5)
                s = mk_sampler(cfg, like=Unpicklable())
                s._core._initialize_fresh()
                s.sample()
                pool = s._core.config.pool
                try:
                    s.save_state(os.path.join(root, "a.state"))
                    raised = False
                except Exception:  # noqa
                    raised = True
            key = dict(cfg=cfg, unpicklable=True)
            c.case(key, True)
            c.count("pickling_raises")
            ok = raised and s._core.config.pool is pool and os.listdir(root) == []
            if not ok:
                c.disagree(input=key, impl=f"raised={raised}, pool re-attached={s._core.config.pool is pool}, files={os.listdir(root)}",
                           model="raises, pool re-attached (finally), nothing written", kind="pool", **key)
        finally:
            shutil.rmtree(root, ignore_errors=True)
    return c


# ----------------------------------------------------------------------------- (ii) cadence and resume
def _files(d, label):
    """checkpoint files of one label -> (sorted iteration numbers, has_final, others)"""
    its, final, other = [], False, []
    if not os.path.isdir(d):
        return its, final, other
    for f in os.listdir(d):
        if f.startswith(label + "_") and f.endswith(".state"):
            mid = f[len(label) + 1:-len(".state")]
            if mid == "final":
                final = True
            elif mid.lstrip("-").isdigit():
                its.append(int(mid))
            else:
                other.append(f)
        elif f.startswith(label + "_"):
            other.append(f)
    return sorted(its), final, other


def expected_cadence(t0, k, n):
    """independent statement of the cadence (for the search oracle): t0 + j*k, j >= 1, below t0 + n"""
    return [t0 + j * k for j in range(1, n + 1) if j * k < n]


def _post(s, n_total):
    beta = s.state.get_current("beta")
    logw, _ = s.state.compute_logw_and_logz(1.0)
    w = np.exp(logw - np.max(logw))
    w = w / np.sum(w)
    ess = 1.0 / float(np.sum(w ** 2))
    return float(beta), ess, (1.0 - beta < 1e-4) and ess >= n_total * (1 - 1e-12)


def rng_tag(st=None):
    """canonical tag of a position of numpy's global generator (`np.random.get_state()` tuple)"""
    st = np.random.get_state() if st is None else st
    if st is None:
        return None
    try:
        return hashlib.sha1(repr((st[0], np.asarray(st[1]).tobytes(), int(st[2]), int(st[3]), float(st[4]))).encode()).hexdigest()[:16]
    except Exception:  # noqa  (not a legacy MT19937 state tuple)
        return "unrecognised:" + repr(st)[:40]


@contextlib.contextmanager
def snapshots(snaps, rngs=None):
    """record `_current` right before every commit, and (rngs) the generator position right after it = the position at the
    next iteration boundary, where a checkpoint is written (nothing draws between the commit and the save)"""
    from tempest.state_manager import StateManager
    orig = StateManager.commit_current_to_history

    def hooked(self, *a, **k):
        snaps.append({key: canon(v) for key, v in self._current.items()})
        r = orig(self, *a, **k)
        if rngs is not None:
            rngs.append(rng_tag())
        return r
    with common.patched(StateManager, "commit_current_to_history", hooked):
        yield


def run_case(cfg, k, k2, seed, n_total, which="all", n_total_resume=None, max_resumes=None, manual=True):
    """one writer run; EVERY checkpoint is loaded into a fresh sampler, and resumed (all of them, or with `max_resumes` the first,
    the last periodic, the final and a seed-determined choice of the others).  Returns a record of observations (no judgement)."""
    import dill
    root = tempfile.mkdtemp(prefix="tv08_")
    out = os.path.join(root, "out")
    rec = dict(error=None, resumes=[])
    try:
        with _quiet(), warnings.catch_warnings():
            warnings.simplefilter("ignore")
            np.random.seed(seed)
            s = mk_sampler(cfg, output_dir=out, label="ps")
            wsnaps, wrngs = [], []
            try:
                with snapshots(wsnaps, wrngs):
                    s.run(n_total=n_total, save_every=k, progress=False)
            except Exception as e:  # noqa
                # saving draws no random numbers, so the same seed without checkpoints follows the same trajectory:
                # if that raises too, the failure is not about checkpoints (C18's subject)
                try:
                    np.random.seed(seed)
                    mk_sampler(cfg).run(n_total=n_total, progress=False)
                    rec["error"] = f"run(save_every={k}) raised {type(e).__name__}: {e} (the same seed without save_every completes)"
                except Exception as e2:  # noqa
                    rec["unrelated"] = f"{type(e2).__name__}: {e2}"
                return rec
            n_iter = int(s.state.get_current("iter"))
            rec.update(n_iter=n_iter, files=_files(out, "ps"), pool_ok=(s._core.config.pool is not None) == bool(cfg["pool"]))
            full = dump_state(s.state)
            rec["full"] = full
            rec["warm"] = [1 if float(np.asarray(b)) == 0.0 else 0 for b in s.state._history["beta"]]
            rec["writer_post"] = _post(s, n_total)
            rec["writer_rng_end"] = rng_tag()
            its, has_final, _ = rec["files"]
            cks = [(i, os.path.join(out, f"ps_{i}.state")) for i in its] + ([("final", os.path.join(out, "ps_final.state"))] if has_final else [])
            if which != "all":
                cks = [ck for ck in cks if ck[0] in which]
            resume_these = {ck[0] for ck in cks}
            if max_resumes is not None and len(cks) > max_resumes:
                import random
                keep = [cks[0][0], cks[-1][0]] + ([cks[-2][0]] if len(cks) > 2 else [])
                rest = [ck[0] for ck in cks if ck[0] not in keep]
                random.Random(seed).shuffle(rest)
                resume_these = set((keep + rest)[:max_resumes])
            for idx, path in cks:
                r = dict(index=idx)
                rec["resumes"].append(r)
                i = n_iter if idx == "final" else idx
                try:
                    with open(path, "rb") as fh:
                        dd = dill.load(fh)
                    r["file_keys"] = list(dd.keys())
                    r["file_rng_is_writers"] = 1 <= i <= len(wrngs) and rng_tag(dd.get("rng_state")) == wrngs[i - 1]
                    r["file_n_total"] = dd.get("n_total")
                    np.random.seed(seed ^ 0x5A5A5A)          # the resuming process has its generator somewhere else
                    s3 = mk_sampler(cfg)
                    s3.load_state(path)
                    d0 = dump_state(s3.state)
                    r["rng_after_load_is_writers"] = 1 <= i <= len(wrngs) and rng_tag() == wrngs[i - 1]
                except Exception as e:  # noqa
                    r["error"] = f"load_state({os.path.basename(path)}) raised {type(e).__name__}: {e}"
                    continue
                r["loaded"] = d0
                # what the writer held when it wrote this checkpoint: the first i entries of its history
                r["prefix_of_writer"] = all(d0["hist"].get(key) == full["hist"][key][:i] for key in full["hist"]) and \
                    d0["cur"].get("iter") == ("i", i)
                if idx == "final":
                    # written AFTER the evidence epilogue: the state run() returned with, logz included
                    r["final_is_what_run_returned"] = _same_dump(d0, full)
                    if not r["final_is_what_run_returned"]:
                        r["writer_end"] = full
                if i >= 1 and idx != "final":
                    r["current_is_last_batch"] = all(d0["cur"][key][2:] == full["hist"][key][i - 1][2:] for key in ("u", "x", "logl"))
                if idx not in resume_these:
                    r["loaded_only"] = True
                    continue
                label = f"rs{idx}"
                snaps = []
                np.random.seed((seed ^ 0x1234567) % 2 ** 31)
                s2 = mk_sampler(cfg, output_dir=out, label=label)
                try:
                    with snapshots(snaps):
                        s2.run(n_total=(n_total_resume or n_total), resume_state_path=path, save_every=k2, progress=False)
                except Exception as e:  # noqa
                    r["error"] = f"run(resume_state_path={os.path.basename(path)}) raised {type(e).__name__}: {e}"
                    continue
                fin = dump_state(s2.state)
                r.update(final=fin, snaps=snaps, files=_files(out, label), post=_post(s2, n_total_resume or n_total),
                         t0_attr=int(s2._core.t0), n_total_attr=getattr(s2._core, "n_total", "absent"),
                         betas=[float(np.asarray(b)) for b in s2.state._history["beta"]], blobs_expected=bool(cfg["blobs"]))
                # continuation: the uninterrupted run's history as a prefix of (same n_total: equal to) the resumed run's
                r["continues_writer"] = all(fin["hist"].get(key, [])[:n_iter] == full["hist"][key] for key in full["hist"]) and \
                    (n_total_resume is not None or _same_dump(fin, full))
                r["rng_end_is_writers"] = n_total_resume is not None or rng_tag() == rec["writer_rng_end"]
            # the documented manual resume `load_state(path); run()` of one checkpoint that was also resumed through
            # run(resume_state_path=path): same receiver construction, same generator position before -> must be the same run
            done = [r for r in rec["resumes"] if "final" in r]
            if manual and done:
                rp = done[len(done) // 2]
                idx = rp["index"]
                path = os.path.join(out, f"ps_{idx}.state")
                m = dict(index=idx, manual=True, loaded=rp["loaded"], prefix_of_writer=rp["prefix_of_writer"])
                rec["manual"] = m
                try:
                    snaps = []
                    np.random.seed((seed ^ 0x1234567) % 2 ** 31)
                    s4 = mk_sampler(cfg, output_dir=out, label=f"mn{idx}")
                    s4.load_state(path)
                    with snapshots(snaps):
                        s4.run(n_total=(n_total_resume or n_total), save_every=k2, progress=False)
                    fin = dump_state(s4.state)
                    m.update(final=fin, snaps=snaps, files=_files(out, f"mn{idx}"), post=_post(s4, n_total_resume or n_total),
                             t0_attr=int(s4._core.t0), n_total_attr=getattr(s4._core, "n_total", "absent"),
                             betas=[float(np.asarray(b)) for b in s4.state._history["beta"]], blobs_expected=bool(cfg["blobs"]),
                             continues_writer=rp["continues_writer"], rng_end_is_writers=rp["rng_end_is_writers"],
                             equals_path_resume=_same_dump(fin, rp["final"]) and _files(out, f"mn{idx}")[:2] == rp["files"][:2])
                except Exception as e:  # noqa
                    m["error"] = f"load_state({os.path.basename(path)}); run() raised {type(e).__name__}: {e}"
            # a second run() on the writer itself (a finished run being extended with a larger n_total)
            if manual is True:
                sec = dict(before_files=_files(out, "ps"))
                rec["second"] = sec
                try:
                    snaps2 = []
                    with snapshots(snaps2):
                        s.run(n_total=2 * n_total, save_every=k, progress=False)
                    sec.update(final=dump_state(s.state), n_new=len(snaps2), files=_files(out, "ps"), post=_post(s, 2 * n_total),
                               t0_attr=int(s._core.t0), n_total_attr=getattr(s._core, "n_total", "absent"),
                               betas=[float(np.asarray(b)) for b in s.state._history["beta"]], blobs_expected=bool(cfg["blobs"]))
                except Exception as e:  # noqa
                    sec["error"] = f"second run(n_total={2 * n_total}) on the same sampler raised {type(e).__name__}: {e}"
        return rec
    finally:
        shutil.rmtree(root, ignore_errors=True)


def judge_second(rec, k, n_total):
    """a finished run extended by a second run(n_total' = 2 n_total, save_every=k) on the same sampler -> message or None"""
    sec = rec["second"]
    if sec.get("error"):
        return sec["error"]
    full, fin, n0 = rec["full"], sec["final"], rec["n_iter"]
    for key, l in full["hist"].items():
        if fin["hist"].get(key, [])[:len(l)] != l:
            return f"the second run() changed the committed history of {key!r}"
    n_new = sec["n_new"]
    if fin["hist"]["iter"][n0:] != [("i", n0 + j + 1) for j in range(n_new)] or fin["cur"]["iter"] != ("i", n0 + n_new):
        return f"the second run() did not continue the iteration numbering from {n0}: {fin['hist']['iter'][n0:][:4]} (iter = {fin['cur']['iter']})"
    calls = [v[1] for v in fin["hist"]["calls"]]
    if any(b < a for a, b in zip(calls, calls[1:])):
        return f"the second run() restarted the call counter: {calls}"
    if any(b2 < b1 for b1, b2 in zip(sec["betas"], sec["betas"][1:])):
        return f"the second run() restarted the temperature schedule: {sec['betas']}"
    if any(len(v) != (n0 + n_new if (kk != "blobs" or sec["blobs_expected"]) else 0) for kk, v in fin["hist"].items()):
        return f"history lists of unequal length after the second run: { {kk: len(v) for kk, v in fin['hist'].items()} }"
    if sec["t0_attr"] != n0:
        return f"the second run() took t0 = {sec['t0_attr']}, the sampler was at iteration {n0}"
    if sec["n_total_attr"] != 2 * n_total:
        return f"after the second run(n_total={2 * n_total}) n_total is {sec['n_total_attr']!r}"
    if not sec["post"][2]:
        return f"the second run(n_total={2 * n_total}) ended with beta={sec['post'][0]!r}, ESS={sec['post'][1]:.1f}"
    want = sorted(set(sec["before_files"][0]) | set(expected_cadence(n0, k, n_new)))
    if sec["files"][0] != want or not sec["files"][1] or sec["files"][2]:
        return (f"checkpoints after the second run (t0={n0}, save_every={k}, {n_new} iterations): {sec['files'][0]} final={sec['files'][1]}; "
                f"expected the first run's files plus the cadence from t0: {want} + final")
    return None


def components_irrelevant(cfg):
    """where H_comp of C08_resume_continues_run holds by C08_components_irrelevant (independent of the Lean run)"""
    return (not cfg["clustering"]) or cfg.get("ce", 1) == 1


def judge_resume(r, n_total, expect_identical=False):
    """property-level oracle for one resumed checkpoint (independent of the Lean model) -> message or None"""
    if r.get("error"):
        return r["error"]
    if not r["prefix_of_writer"]:
        return "the loaded checkpoint is not the state the writer held when it wrote it (history prefix / iter differ)"
    if r.get("current_is_last_batch") is False:
        return "the loaded current particles are not the last committed batch"
    if r.get("final_is_what_run_returned") is False:
        return ("the final checkpoint does not hold the state run() returned with (e.g. written before the evidence at beta = 1 was stored): "
                + str(_first_diff(r["loaded"], r.get("writer_end", r["loaded"])) or "differs"))
    if r.get("file_rng_is_writers") is False:
        return "the rng_state stored in the checkpoint is not the writer's generator position at that iteration boundary"
    if r.get("rng_after_load_is_writers") is False:
        return "after load_state the global generator is not at the position stored when the checkpoint was written"
    if r.get("loaded_only"):
        return None
    d0, fin = r["loaded"], r["final"]
    for key, l in d0["hist"].items():
        if fin["hist"].get(key, [])[:len(l)] != l:
            return f"resumed run changed the restored history prefix of {key!r}"
    t0 = d0["cur"]["iter"][1]
    n_new = len(fin["hist"]["iter"]) - len(d0["hist"]["iter"])
    if [v for v in fin["hist"]["iter"][len(d0["hist"]["iter"]):]] != [("i", t0 + j + 1) for j in range(n_new)]:
        return f"iteration numbering does not continue from {t0}: {fin['hist']['iter'][len(d0['hist']['iter']):][:4]}"
    if fin["cur"]["iter"] != ("i", t0 + n_new):
        return f"iter after resume {fin['cur']['iter']} != {t0} + {n_new}"
    calls = [v[1] for v in fin["hist"]["calls"]]
    if any(b < a for a, b in zip(calls, calls[1:])) or (n_new and calls[len(d0["hist"]["calls"])] < d0["cur"]["calls"][1]):
        return f"call counting does not continue: {calls}"
    betas = r.get("betas", [])
    if any(b2 < b1 for b1, b2 in zip(betas, betas[1:])) or any(not (0.0 <= b <= 1.0) for b in betas):
        return f"the temperature schedule does not continue monotonically within [0,1] across the resume: {betas}"
    n_hist = len(fin["hist"]["iter"])
    if any(len(v) != (n_hist if (kk != "blobs" or r.get("blobs_expected")) else 0) for kk, v in fin["hist"].items()):
        return f"history lists of unequal length after the resumed run: { {kk: len(v) for kk, v in fin['hist'].items()} }"
    if r["t0_attr"] != t0:
        return f"run_sampling took t0={r['t0_attr']}, restored iter={t0}"
    if r.get("n_total_attr") != int(n_total):
        return f"after run(resume_state_path, n_total={n_total}) the sampler's n_total is {r.get('n_total_attr')!r}"
    if not r["post"][2]:
        return f"resumed run ended with beta={r['post'][0]!r}, ESS={r['post'][1]:.1f} (n_total={n_total})"
    if r.get("file_rng_is_writers") is False:
        return "the rng_state stored in the checkpoint is not the writer's generator position at that iteration boundary"
    if r.get("rng_after_load_is_writers") is False:
        return "after load_state the global generator is not at the position stored when the checkpoint was written"
    if r.get("manual") and r.get("equals_path_resume") is False:
        return ("load_state(path); run() is not the run that run(resume_state_path=path) performs from the same generator position "
                "(final state / checkpoint files differ)")
    if expect_identical and not (r["continues_writer"] and r["rng_end_is_writers"]):
        return ("the resumed run is not the continuation of the uninterrupted run (same seed, same n_total): histories / final state / "
                "generator position differ although no component state is carried across iterations in this configuration")
    return None


def suite_runs(tier, drv):
    c = Corr("run-cadence-resume", "exact (file sets, canonical dumps, generator positions, model runIters on tagged snapshots, "
                                   "continuation vs the cadence model)")
    rng = common.rng_for("C08.runs")
    n_runs = 8 if tier == "quick" else 36
    cfgs = list(CONFIGS)
    rng.shuffle(cfgs)
    extra = list(EXTRA_RUN_CONFIGS)
    rng.shuffle(extra)
    plan = [cfgs[j % len(cfgs)] for j in range(n_runs)] + (extra[:3] if tier == "quick" else extra + extra)
    gen = dict(t.split("=", 1) for t in drv.batch(["core.gen"])[0].split(" ") if "=" in t)
    want_keys = ["_current", "_history", "n_dim"] + [k for k in gen.get("keys", "").split(",") if k]
    lines, checks = [], []
    for j, cfg in enumerate(plan):
        k = rng.choice([1, 2, 3]) if j else 2
        k2 = rng.choice([1, 2, 3])
        seed = rng.randrange(2 ** 31)
        # a larger n_total gives several iterations in the beta = 1 accumulation phase (checkpoints with beta = 1 but ESS < n_total);
        # every third run is resumed with a LARGER n_total than the one stored in the checkpoint
        n_total = 96 if j % 2 else 288
        n_total_resume = 2 * n_total if j % 3 == 0 else None
        key = dict(cfg=cfg, save_every=k, resume_save_every=k2, seed=seed, n_total=n_total, n_total_resume=n_total_resume)
        rec = run_case(cfg, k, k2, seed, n_total, n_total_resume=n_total_resume, max_resumes=(3 if tier == "quick" else None),
                       manual=(True if tier != "quick" or j % 3 == 0 else "no-second-run"))
        if rec.get("unrelated"):
            c.count("run_fails_also_without_checkpoints")
            continue
        if rec["error"]:
            c.case(key, True)
            c.disagree(input=key, impl=rec["error"], model="run completes", kind="run", **key)
            continue
        its, has_final, other = rec["files"]
        lines.append(f"ckpt.cadence t0=0 k={k} n={rec['n_iter']}")
        checks.append(("cadence", key, dict(label="ps", t0=0, k=k, n=rec["n_iter"]), (its, has_final, other)))
        c.case(dict(key, part="writer"), len(its) >= 1)
        c.count("writer_runs")
        c.count("periodic_checkpoints", len(its))
        c.count(f"cluster_every={cfg.get('ce', 1)}")
        c.count(f"blobs={cfg['blobs']}")
        c.count(f"warmup_iterations={sum(rec['warm'])}")
        if not rec["writer_post"][2] or not rec["pool_ok"]:
            c.disagree(input=key, impl=f"writer ended with beta={rec['writer_post'][0]}, ESS={rec['writer_post'][1]}, pool kept={rec['pool_ok']}",
                       model="postconditions hold, pool still attached", kind="run", **key)
        for r in rec["resumes"]:
            rk = dict(key, checkpoint=r["index"])
            c.case(rk, True)
            c.count("loaded_checkpoints")
            msg = judge_resume(r, n_total_resume or n_total)
            if msg:
                c.disagree(input=rk, impl=msg, model="restored prefix kept, numbering/calls/schedule continue, generator restored, postconditions",
                           kind="run", **key)
                continue
            if r["file_keys"] != want_keys:
                c.disagree(input=rk, impl=f"top-level keys of the checkpoint file {r['file_keys']}", model=f"regenerated table {want_keys}",
                           kind="meta", **key)
            if r.get("loaded_only"):
                continue
            c.count("resumed_checkpoints")
            d0, fin, snaps = r["loaded"], r["final"], r["snaps"]
            # continuation vs the cadence model: resumed before schedule position i of the writer's real warm-up schedule
            i_pos = rec["n_iter"] if r["index"] == "final" else r["index"]
            lines.append(f"resume.comp ce={cfg.get('ce', 1)} clustering={1 if cfg['clustering'] else 0} iter0=0 "
                         f"sched={','.join(str(b) for b in rec['warm']) or '-'} r={i_pos}")
            checks.append(("continuation", rk, (r["continues_writer"], r["rng_end_is_writers"]), cfg))
            if d0["cur"]["calls"][0] != "i" or any(sn["calls"][0] != "i" or sn["iter"][0] != "i" for sn in snaps):
                c.count("counter_not_a_python_int")     # outside the model's value language; judged by judge_resume only
                continue
            t0 = d0["cur"]["iter"][1]
            n_new = len(snaps)
            c.count("resumed_iterations", n_new)
            lines.append(f"ckpt.cadence t0={t0} k={k2} n={n_new}")
            checks.append(("cadence", rk, dict(label=f"rs{r['index']}", t0=t0, k=k2, n=n_new), r["files"]))
            tg = Tagger()
            st_args = tg.state_args(d0)
            its_s = []
            prev_calls = d0["cur"]["calls"][1]
            step_ok = True
            for sn in snaps:
                nc = sn["calls"][1] - prev_calls
                prev_calls = sn["calls"][1]
                vals = ",".join(f"{kk}:{tg.val(v)}" for kk, v in sorted(sn.items()) if kk not in ("iter", "calls"))
                its_s.append(f"{nc};{vals}")
                # hypothesis StepOK of C08_run_invariants, on the real run: the five non-counter default keys are set
                step_ok = step_ok and all(sn[kk] != ("N",) for kk in ("beta", "logz", "steps", "acceptance", "efficiency"))
            if not step_ok:
                c.disagree(input=rk, impl="an iteration committed None under one of beta/logz/steps/acceptance/efficiency",
                           model="StepOK (hypothesis of C08_run_invariants / C08_restore_identity)", kind="run", **key)
            lines.append(f"ckpt.run {st_args} iters={'|'.join(its_s) if its_s else '-'}")
            checks.append(("run", rk, tg, fin))
        if "manual" in rec:
            m = rec["manual"]
            rk = dict(key, checkpoint=m["index"], path="load_state(); run()")
            c.case(rk, True)
            c.count("manual_resumes")
            msg = judge_resume(m, n_total_resume or n_total)
            if msg:
                c.disagree(input=rk, impl=msg, model="load_state(); run() = run(resume_state_path) (C08_manual_resume_eq)", kind="run", **key)
            else:
                t0 = m["loaded"]["cur"]["iter"][1]
                lines.append(f"ckpt.cadence t0={t0} k={k2} n={len(m['snaps'])}")
                checks.append(("cadence", rk, dict(label=f"mn{m['index']}", t0=t0, k=k2, n=len(m["snaps"])), m["files"]))
        if "second" in rec:
            rk = dict(key, path="second run() on the writer")
            c.case(rk, True)
            c.count("second_runs")
            msg = judge_second(rec, k, n_total)
            if msg:
                c.disagree(input=rk, impl=msg, model="a second run() continues (C08_second_run_continues)", kind="run", **key)
            else:
                c.count("second_run_iterations", rec["second"]["n_new"])
    for (kind, key, a, b), line, ans in zip(checks, lines, drv.batch(lines)):
        hkey = {k: v for k, v in key.items() if k not in ("checkpoint", "path")}
        if kind == "cadence":
            its, has_final, other = b
            want = ans.split(" ")
            m_its = common.parse_list(want[0], int) if len(want) == 2 else None
            m_final = want[1] == "final=1" if len(want) == 2 else None
            if m_its != its or m_final != has_final or other:
                c.disagree(input=dict(key, **a), impl=dict(periodic=its, final=has_final, other=other), model=ans, kind="run", **hkey)
            c.sample({"cadence": a, "files": its, "model": ans})
        elif kind == "continuation":
            same, rng_same = a
            pred = ans.split(" ")[0]
            if pred == "same" and components_irrelevant(b):
                c.count("continuation_predicted_identical(H_comp by theorem)")
            elif pred == "same":
                c.count("continuation_predicted_identical(cadence model, cluster_every>1)")
            elif pred == "differ":
                c.count("continuation_may_differ(fresh Trainer refits off-cadence)")
                c.count("  ...and the runs did differ" if not same else "  ...but the runs coincided")
            if pred not in ("same", "differ") or (components_irrelevant(b) and pred != "same"):
                c.disagree(input=key, impl=f"model answered {ans!r}", model="same (C08_components_irrelevant)", kind="run", **hkey)
            elif pred == "same" and not (same and rng_same):
                c.disagree(input=key, impl="the resumed run is NOT the continuation of the uninterrupted run (history / final state / generator differ)",
                           model="identical (C08_resume_continues_run; clusterer events coincide in Model.Cadence)", kind="run", **hkey)
        else:
            tg, fin = a, b
            m = parse_state(ans) if ans.startswith("cur=") else None
            fc, fh = tg.cur(fin["cur"]), tg.hist(fin["hist"])
            ok = m is not None and m[1] == fh and all(m[0].get(kk) == v for kk, v in fc.items() if kk != "logz") and m[2] == fin["ndim"]
            if not ok:
                c.disagree(input=key, impl=dict(iter=fc.get("iter"), calls=fc.get("calls"), hist_len={kk: len(v) for kk, v in fh.items()}),
                           model=ans[:300], kind="run", **hkey)
    return c


# ----------------------------------------------------------------------------- (iii) protocol trace
def record_save(cfg, k, seed, nested=False, old=False):
    root = tempfile.mkdtemp(prefix="tv08_")
    try:
        with _quiet(), warnings.catch_warnings():
            warnings.simplefilter("ignore")
            s = _prepared(cfg, k, seed, root)
            final = os.path.join(root, "ck", "deep", "a.state") if nested else os.path.join(root, "a.state")
            if old:
                s.save_state(final)
                s.sample()
            ctl = Ctl(root)
            with fs_layer(ctl):
                s.save_state(final)
            size = os.path.getsize(final) if os.path.exists(final) else None
        return ctl.log, os.path.realpath(final), size
    finally:
        shutil.rmtree(root, ignore_errors=True)


def _strace_ops(root):
    """one save in a child Python under strace -> abstracted syscall-level trace (open/write/fsync/close/rename), or None"""
    script = os.path.join(root, "one_save.py")
    final = os.path.join(root, "st", "a.state")
    with open(script, "w") as fh:
        fh.write("import sys, io, contextlib\nsys.path.insert(0, %r)\nimport numpy as np\nfrom tempest import Sampler\n"
                 "np.random.seed(1)\n"
                 "s = Sampler(lambda u: 10.0*u-5.0, lambda x: -0.5*float(np.sum(x**2)), 2, n_particles=32, clustering=False)\n"
                 "with contextlib.redirect_stdout(io.StringIO()):\n    s._core._initialize_fresh(); s.sample(); s.sample()\n"
                 "    s.save_state(%r)\n" % (common.REPO, final))
    log = os.path.join(root, "strace.out")
    try:
        p = subprocess.run(["strace", "-f", "-o", log, "-e", "trace=openat,write,fsync,close,rename,renameat,renameat2",
                            sys.executable, script], stdout=subprocess.PIPE, stderr=subprocess.PIPE, timeout=300)
    except (OSError, subprocess.TimeoutExpired):
        return None
    if p.returncode != 0 or not os.path.exists(log) or not os.path.exists(final):
        return None
    import re
    fds, ops, total = {}, [], 0
    for line in open(log, errors="replace"):
        line = line.split(" ", 1)[1] if line[:1].isdigit() else line
        m = re.match(r'openat\([^,]+, "([^"]+)", ([A-Z_|0-9]+)[^)]*\)\s+= (\d+)', line)
        if m and m.group(1).startswith(os.path.join(root, "st")) and ("O_WRONLY" in m.group(2) or "O_RDWR" in m.group(2)):
            fds[m.group(3)] = m.group(1)
            ops.append(("open", m.group(1), "O_TRUNC" in m.group(2)))
            continue
        m = re.match(r'(write|fsync|close)\((\d+)', line)
        if m and m.group(2) in fds:
            if m.group(1) == "write":
                n = re.search(r'=\s+(\d+)\s*$', line)
                total += int(n.group(1)) if n else 0
                ops.append(("write", fds[m.group(2)]))
            else:
                ops.append((m.group(1), fds[m.group(2)]))
                if m.group(1) == "close":
                    del fds[m.group(2)]
            continue
        m = re.match(r'rename(?:at2?)?\((?:[^,"]+, )?"([^"]+)", (?:[^,"]+, )?"([^"]+)"', line)
        if m and (m.group(1).startswith(root) or m.group(2).startswith(root)):
            ops.append(("rename", m.group(1), m.group(2)))
    names = {final: "final"}
    out = []
    for e in ops:
        for p_ in e[1:3]:
            if isinstance(p_, str) and p_ not in names:
                names[p_] = "tmp" if "tmp" not in names.values() else f"p{len(names)}"
        if e[0] == "open":
            out.append(f"open:{names[e[1]]}" + ("" if e[2] else "(no O_TRUNC)"))
        elif e[0] == "rename":
            out.append(f"rename:{names[e[1]]}:{names[e[2]]}")
        elif not (e[0] == "write" and out and out[-1] == f"write:{names[e[1]]}"):
            out.append(f"{e[0]}:{names[e[1]]}")
    return ";".join(out), total, os.path.getsize(final)


def suite_protocol(tier, drv):
    c = Corr("protocol-trace", "exact (operation sequences)")
    rng = common.rng_for("C08.protocol")
    cases = []
    for j, cfg in enumerate(CONFIGS if tier != "quick" else CONFIGS[::2]):
        cases.append((cfg, rng.choice([1, 2, 3]), rng.randrange(2 ** 31), j % 2 == 1, j % 3 == 0))
    lines, recs = ["fs.gen"], []
    for cfg, k, seed, nested, old in cases:
        key = dict(cfg=cfg, k=k, seed=seed, nested_dir=nested, old_checkpoint=old)
        try:
            log, final, size = record_save(cfg, k, seed, nested, old)
        except Exception as e:  # noqa
            c.case(key, True)
            c.disagree(input=key, impl=f"save raised {type(e).__name__}: {e}", model="save succeeds", kind="protocol", **key)
            continue
        ops = abstract_trace(log, final)
        c.case(key, True)
        c.count("writes_per_save", sum(1 for o in ops if o.startswith("write:")))
        c.count("renamed_with_" + next((e[3] for e in log if e[0] == "rename"), "nothing"))
        written = sum(e[2] for e in log if e[0] == "write")
        lines.append("fs.classify ops=" + (";".join(ops) or "-") + " final=final")
        lines.append("fs.shape ops=" + (";".join(ops) or "-"))
        recs.append((key, ops, written, size))
    res = drv.batch(lines)
    gen = dict(t.split("=", 1) for t in res[0].split(" ") if "=" in t)
    c.sample({"generated": res[0]})
    for i, (key, ops, written, size) in enumerate(recs):
        cls, shape = res[1 + 2 * i], res[2 + 2 * i]
        if cls != "temprename":
            c.disagree(input=key, impl=";".join(ops), model=f"classified `{cls}` (theorems need temprename)", kind="protocol", **key)
        elif shape != gen.get("shape"):
            c.disagree(input=key, impl=shape, model="static shape " + str(gen.get("shape")), kind="protocol", **key)
        elif size != written:
            c.disagree(input=key, impl=f"final file has {size} bytes, {written} were written", model="equal", kind="protocol", **key)
        c.sample({"observed": shape, "class": cls})
    if gen.get("class") != "temprename" or gen.get("load") != "update_from_dict":
        c.disagree(input="Gen.Checkpoint", impl=res[0], model="class=temprename load=update_from_dict", kind="protocol")
    if tier == "thorough":
        root = tempfile.mkdtemp(prefix="tv08_")
        try:
            st = _strace_ops(root)
        finally:
            shutil.rmtree(root, ignore_errors=True)
        if st is None:
            c.count("strace_unavailable")
        else:
            c.case("strace", True)
            want = ";".join(o for o in (gen.get("shape") or "").split(";") if not o.startswith(("flush:", "mkdir:")))
            if st[0] != want or st[1] != st[2]:
                c.disagree(input="strace of one save in a child process", impl=dict(trace=st[0], bytes_written=st[1], file_size=st[2]),
                           model=want, kind="protocol")
            c.sample({"strace": st[0]})
    return c


# ----------------------------------------------------------------------------- (iv) crash injection
OP_POINTS = ["open", "opened", "flush", "fsync", "close", "rename", "done"]


def crash_points(sizes, tier, rng):
    total = sum(sizes)
    offs = {0, 1, total - 1, total, total // 2}
    cum = 0
    for n in sizes:
        offs.update({cum, cum + n - 1})
        cum += n
    if tier == "quick":
        while len(offs) < 24 and len(offs) < total:
            offs.add(rng.randrange(total))
    else:
        offs.update(range(0, total, 4096))
        offs.update(range(0, min(64, total)))
        offs.update(range(max(0, total - 64), total + 1))
    offs = sorted(o for o in offs if 0 <= o < total)   # offset == total is the point before `flush`
    return [("op", p) for p in OP_POINTS] + [("byte", o) for o in offs]


def _clear_dir(d):
    for f in os.listdir(d):
        p = os.path.join(d, f)
        if os.path.isdir(p) and not os.path.islink(p):
            shutil.rmtree(p, ignore_errors=True)
        else:
            os.unlink(p)


def crash_one(s, final, point, eager):
    """fork; the child saves (`s.save_state(final)`: a Sampler or a StateManager) with the crashing file layer;
    returns the child's exit code"""
    root = os.path.dirname(final)
    sys.stdout.flush()
    sys.stderr.flush()
    pid = os.fork()
    if pid == 0:
        code = 3
        try:
            devnull = os.open(os.devnull, os.O_WRONLY)
            os.dup2(devnull, 1)
            ctl = Ctl(root, crash=point, eager=eager)
            with fs_layer(ctl):
                s.save_state(final)
            code = 0
        except BaseException:  # noqa
            code = 3
        finally:
            os._exit(code)
    _, status = os.waitpid(pid, 0)
    return os.waitstatus_to_exitcode(status)


def classify_outcome(cfg, final, old_bytes, old_dump, new_dump, loader=None):
    """what the survivor finds under the final name: absent | old | new | broken:<why>
    (`loader(final) -> dump` replaces the default: a fresh Sampler's load_state)"""
    if not os.path.exists(final):
        return "absent", None
    data = open(final, "rb").read()
    try:
        with _quiet(), warnings.catch_warnings():
            warnings.simplefilter("ignore")
            if loader is not None:
                d = loader(final)
            else:
                s2 = mk_sampler(cfg)
                s2.load_state(final)
                d = dump_state(s2.state)
    except Exception as e:  # noqa
        return "broken", f"{len(data)} bytes under the final name; load_state raised {type(e).__name__}: {str(e)[:80]}"
    if old_bytes is not None and data == old_bytes and _same_dump(d, old_dump):
        return "old", None
    if _same_dump(d, new_dump):
        return "new", None
    if old_dump is not None and _same_dump(d, old_dump):
        return "old", None
    return "broken", f"{len(data)} bytes under the final name load, but as neither the old nor the new state ({_first_diff(d, new_dump)})"


STALE = b"stale temporary file of an earlier, interrupted save"


def crash_campaign(cfg, seed, with_old, tier, rng, eager_modes=(True,), max_points=None, stale_tmp=False, resave=False, name="a.state"):
    """returns (proto, sizes, results[(point, eager, exit code, outcome, detail)]) — and with resave=True a 4th element: what a
    COMPLETE save finds and leaves after a crash in the middle of the pickle left a partial temporary file behind"""
    root = tempfile.mkdtemp(prefix="tv08_")
    try:
        with _quiet(), warnings.catch_warnings():
            warnings.simplefilter("ignore")
            s = _prepared(cfg, 2, seed, root)
            final = os.path.join(root, name)
            old_bytes = old_dump = None
            if with_old:
                s.save_state(final)
                old_bytes = open(final, "rb").read()
                old_dump = dump_state(s.state)
                s.sample()
            new_dump = dump_state(s.state)
            # reference trace (in a child too, so the parent's directory stays as it is)
            ref = os.path.join(root, "ref")
            os.mkdir(ref)
            ctl = Ctl(ref)
            with fs_layer(ctl):
                s.save_state(os.path.join(ref, name))
            ops = abstract_trace(ctl.log, os.path.join(ref, name))
            sizes = [e[2] for e in ctl.log if e[0] == "write"]
            opened = next((e[1] for e in ctl.log if e[0] == "open"), None)
            tmp = os.path.join(root, os.path.basename(opened)) if opened else final + ".temp"
            shutil.rmtree(ref)
        pts = crash_points(sizes, tier, rng)
        if max_points:
            pts = pts[:len(OP_POINTS)] + rng.sample(pts[len(OP_POINTS):], min(max_points, len(pts) - len(OP_POINTS)))

        def reset():
            _clear_dir(root)
            if stale_tmp and tmp != final:
                with open(tmp, "wb") as fh:
                    fh.write(STALE)
            if with_old:
                with open(final, "wb") as fh:
                    fh.write(old_bytes)
        results = []
        for eager in eager_modes:
            for pt in pts:
                reset()
                code = crash_one(s, final, pt, eager)
                outcome, detail = classify_outcome(cfg, final, old_bytes, old_dump, new_dump)
                results.append((pt, eager, code, outcome, detail))
        if not resave:
            return ops, sizes, results
        reset()
        code = crash_one(s, final, ("byte", sum(sizes) // 2), True)
        left = sorted(os.listdir(root))
        with _quiet(), warnings.catch_warnings():
            warnings.simplefilter("ignore")
            s.save_state(final)
        outcome, detail = classify_outcome(cfg, final, old_bytes, old_dump, new_dump)
        return ops, sizes, results, dict(crash_exit=code, left_by_crash=left, outcome=outcome, detail=detail, after=sorted(os.listdir(root)),
                                         tmp=os.path.basename(tmp), name=name)
    finally:
        shutil.rmtree(root, ignore_errors=True)


def suite_crash(tier, drv):
    c = Corr("crash-injection", "exact (content under the final name after a process crash vs the model's crash-content set)")
    rng = common.rng_for("C08.crash")
    # (configuration, old checkpoint present, stale `<final>.temp` present)
    plan = [(CONFIGS[0], True, False), (CONFIGS[0], False, False), (CONFIGS[7], True, True), (CONFIGS[13], False, True)] if tier == "quick" else \
        [(cfg, old, (i + j) % 2 == 1) for i, cfg in enumerate(CONFIGS[::3]) for j, old in enumerate((True, False))]
    for n_c, (cfg, with_old, stale) in enumerate(plan):
        seed = rng.randrange(2 ** 31)
        key = dict(cfg=cfg, seed=seed, old_checkpoint=with_old, stale_tmp=stale)
        try:
            ops, sizes, results, rs = crash_campaign(cfg, seed, with_old, tier, rng,
                                                     eager_modes=(True, False) if (tier != "quick" or (with_old and not stale)) else (True,),
                                                     max_points=None, stale_tmp=stale, resave=True)
        except Exception as e:  # noqa  (a save that raises outright is a disagreement, not an infrastructure problem)
            c.case(key, True)
            c.disagree(input=key, impl=f"save_state raised {type(e).__name__}: {e}", model="save succeeds in every configuration", kind="roundtrip",
                       cfg=cfg, k=2, seed=seed)
            continue
        ans = drv.batch(["fs.classify ops=" + ";".join(ops) + " final=final"])[0]
        proto = ans if ans in ("direct", "temprename") else None
        after = None
        if proto is None:
            # the model does not recognise the protocol: nothing is predicted; the protocol suite reports it, and every
            # observed outcome must still be a complete file
            allowed = {"old" if with_old else "absent", "new"}
            model_set = "unclassified protocol"
        else:
            # the sampler's program from ANY file system: old checkpoint or none, stale temporary file or none
            m = drv.batch([f"fs.crash proto={proto} old={'1,1,1' if with_old else 'none'} payload=2,2,2,2",
                           f"fs.samplercrash old={'1,1,1' if with_old else 'none'} tmpold={'9,9' if stale else 'none'} payload=2,2,2,2"])
            model_set = m[0]
            if proto == "temprename":
                model_set, after = m[1].split(" after=")
            allowed = set()
            for item in model_set.split("|"):
                allowed.add({"absent": "absent", "1,1,1": "old", "2,2,2,2": "new"}.get(item, "broken"))
        c.count(f"protocol={proto}")
        c.count(f"stale_temp={'yes' if stale else 'no'}")
        for pt, eager, code, outcome, detail in results:
            ck = dict(key, crash_point=list(pt), eager_flush=eager)
            c.case(ck, pt[0] == "byte" or pt[1] in ("rename", "done", "close"))
            c.count(f"outcome={outcome}")
            if code != 9:
                c.disagree(input=ck, impl=f"child exit code {code} (3 = save raised, 0 = crash point never reached)", model="dies at the crash point",
                           kind="crash", **key, point=list(pt), eager=eager)
                continue
            bad = outcome not in allowed or outcome == "broken"
            if pt == ("op", "done") and outcome != "new":
                bad = True
            if bad:
                c.disagree(input=ck, impl=f"{outcome}: {detail}", model=f"crash contents {model_set}", kind="crash", **key, point=list(pt), eager=eager)
        # a complete save after a crash that left a partial temporary file: C08_crash_then_resave / C08_sampler_save_completes
        ck = dict(key, crash_point=["byte", sum(sizes) // 2], then="complete save")
        c.case(ck, True)
        c.count("resave_after_crash: leftover temp present" if rs["tmp"] in rs["left_by_crash"] else "resave_after_crash: no leftover temp")
        if rs["crash_exit"] != 9 or rs["outcome"] != "new" or rs["after"] != ["a.state"] or (after is not None and after != "2,2,2,2/absent"):
            c.disagree(input=ck, impl=f"after the crash: {rs['left_by_crash']}; after the complete save: {rs['outcome']} ({rs['detail']}), directory {rs['after']}",
                       model=f"final = new payload, temporary file gone (model: after={after})", kind="resave", **key)
        c.sample({"config": key, "write_sizes": sizes, "model_crash_contents": model_set,
                  "observed": sorted({o for _, _, _, o, _ in results}), "resave": rs})
    return c



# ----------------------------------------------------------------------------- (v)/(vi) the StateManager's own save_state / load_state / from_dict
SM_NAMES = ["a.state", "noext", "a.b.pkl", ".hidden", "ck.v2.state"]     # suffix replaced / appended by with_suffix(".temp")
SM_CFGS = [dict(clustering=c, blobs=b, kernel=k, pool=False) for b in (False, True) for c, k in ((False, "tpcn"), (True, "rwm"))]


def pname_args(final):
    """pathlib's split of the final name, in the driver's syntax (symbolic directory `d/`)"""
    from pathlib import Path
    p = Path(final)
    return f"dir=d/ stem={p.stem} suffix={p.suffix or '-'}"


def dump_accessors(sm):
    """the same content read only through the public accessors"""
    cur = sm.get_current()
    hist = {}
    for key in sorted(sm._history):
        vals, i = [], 0
        while True:
            try:
                vals.append(canon(sm.get_history(key, i)))
            except IndexError:
                break
            i += 1
        hist[key] = vals
    return {"cur": {k: canon(v) for k, v in cur.items()}, "hist": hist, "ndim": int(sm.n_dim), "len": sm.get_history_length()}


def dump_todict(sm):
    d = sm.to_dict()
    return {"cur": {k: canon(v) for k, v in d["_current"].items()}, "hist": {k: [canon(v) for v in l] for k, l in d["_history"].items()},
            "ndim": int(d["n_dim"])}


def _views(sm):
    return {"raw": dump_state(sm), "accessors": dump_accessors(sm), "to_dict": dump_todict(sm)}


def _views_diff(a, b):
    for v in ("raw", "accessors", "to_dict"):
        if a[v] != b[v]:
            return f"{v} view: {_first_diff(a[v], b[v]) or 'history length'}"
    return None


def merged_dump(base, loaded_cur, loaded_hist, loaded_ndim):
    """the documented merge, stated directly on dumps (oracle, independent of the Lean model): loaded keys override, others stay"""
    out = {"cur": dict(base["cur"]), "hist": {k: list(v) for k, v in base["hist"].items()}, "ndim": base["ndim"]}
    if loaded_cur is not None:
        out["cur"].update(loaded_cur)
    if loaded_hist is not None:
        out["hist"].update({k: list(v) for k, v in loaded_hist.items()})
    if loaded_ndim is not None:
        out["ndim"] = loaded_ndim
    return out


def sm_roundtrip_case(cfg, k, seed, name, rng_seed):
    """observations of one manager produced by k real sampler iterations (no judgement)"""
    import random
    import dill
    from tempest.state_manager import StateManager
    rng = random.Random(rng_seed)
    root = tempfile.mkdtemp(prefix="tv08_")
    rec = dict(error=None)
    try:
        with _quiet(), warnings.catch_warnings():
            warnings.simplefilter("ignore")
            sm = _prepared(cfg, k, seed, root).state
            before = _views(sm)
            d = os.path.join(root, "sm")
            os.mkdir(d)
            p = os.path.join(d, name)
            sm.save_state(p)
            rec["sm"] = before
            rec["unchanged_by_save"] = _views(sm) == before
            rec["files_after_save"] = sorted(os.listdir(d))
            rec["top_level_keys"] = sorted(dill.load(open(p, "rb")).keys())
            # 1. fresh manager (with another n_dim, which the file must override)
            fresh = StateManager(before["raw"]["ndim"] + 3)
            fresh.load_state(p)
            rec["fresh"] = _views(fresh)
            # 2. from_dict(to_dict())
            rec["from_dict"] = _views(StateManager.from_dict(sm.to_dict()))
            rec["from_dict_no_ndim"] = int(StateManager.from_dict({"_current": {"beta": 0.5}}).n_dim)
            # 3. a NON-fresh manager (other seed, other history length): full file, files written with exclude=[section], partial dictionaries
            import copy
            other_sm = _prepared(cfg, (k + 2) % 5 + 1, seed + 1, os.path.join(root, "o")).state

            def other():
                return copy.deepcopy(other_sm)
            rec["base"] = dump_state(other())
            merges = []
            b = other()
            b.load_state(p)
            merges.append(dict(kind="full-file", exclude=None, cur=before["raw"]["cur"], hist=before["raw"]["hist"], ndim=before["raw"]["ndim"],
                               result=dump_state(b)))
            for ex in (["_history"], ["_current"], ["n_dim"], ["pbar", "_history", "n_dim"]):
                pe = os.path.join(d, "ex.state")
                sm.save_state(pe, exclude=ex)
                keys = sorted(dill.load(open(pe, "rb")).keys())
                b = other()
                b.n_dim = before["raw"]["ndim"] + 5
                base_d = dump_state(b)
                b.load_state(pe)
                merges.append(dict(kind="exclude", exclude=ex, keys=keys, base=base_d, cur=before["raw"]["cur"], hist=before["raw"]["hist"],
                                   ndim=before["raw"]["ndim"], result=dump_state(b)))
            td = sm.to_dict()
            for _ in range(3):
                ck = [kk for kk in sorted(td["_current"]) if rng.random() < 0.5]
                hk = [kk for kk in sorted(td["_history"]) if rng.random() < 0.5]
                part = {}
                if rng.random() < 0.8:
                    part["_current"] = {kk: td["_current"][kk] for kk in ck}
                if rng.random() < 0.8:
                    part["_history"] = {kk: td["_history"][kk] for kk in hk}
                if rng.random() < 0.5:
                    part["n_dim"] = 7
                pp = os.path.join(d, "part.pkl")
                with open(pp, "wb") as fh:
                    dill.dump(part, fh)
                b = other()
                b.load_state(pp)
                merges.append(dict(kind="partial", exclude=None,
                                   cur=({kk: canon(v) for kk, v in part["_current"].items()} if "_current" in part else None),
                                   hist=({kk: [canon(v) for v in l] for kk, l in part["_history"].items()} if "_history" in part else None),
                                   ndim=part.get("n_dim"), result=dump_state(b)))
            rec["merges"] = merges
        return rec
    except Exception as e:  # noqa
        rec["error"] = f"{type(e).__name__}: {e}"
        return rec
    finally:
        shutil.rmtree(root, ignore_errors=True)


def judge_sm_roundtrip(rec, name):
    """property-level oracle (no Lean model involved) -> message or None"""
    if rec["error"]:
        return f"StateManager save_state/load_state/from_dict raised {rec['error']}"
    if not rec["unchanged_by_save"]:
        return "save_state changed the manager it saved"
    if rec["files_after_save"] != [name]:
        return f"after save_state({name!r}) the directory holds {rec['files_after_save']}"
    m = _views_diff(rec["sm"], rec["fresh"])
    if m:
        return f"save_state -> fresh StateManager.load_state does not restore the manager: {m}"
    m = _views_diff(rec["sm"], rec["from_dict"])
    if m:
        return f"StateManager.from_dict(sm.to_dict()) does not restore the manager: {m}"
    for mg in rec["merges"]:
        base = mg.get("base", rec["base"])
        ex = mg["exclude"] or []
        want = merged_dump(base, None if "_current" in ex else mg["cur"], None if "_history" in ex else mg["hist"],
                           None if "n_dim" in ex else mg["ndim"])
        if not _same_dump(want, mg["result"]):
            return f"load_state into a non-fresh manager ({mg['kind']}, exclude={mg['exclude']}) is not the documented merge: {_first_diff(want, mg['result'])}"
    return None


def suite_sm_roundtrip(tier, drv):
    c = Corr("sm-roundtrip", "exact (raw / accessor / to_dict views, dtype+shape+bytes; model merge on tagged values)")
    rng = common.rng_for("C08.sm-roundtrip")
    reps = 2 if tier == "quick" else 8
    lines, checks = ["fs.gen"], []
    for rep in range(reps):
        for cfg in SM_CFGS:
            for k in ([0, rng.choice([1, 2]), rng.choice([3, 5])] if tier == "quick" else [0, 1, 2, 3, 5, 7]):
                seed, name = rng.randrange(2 ** 31), rng.choice(SM_NAMES)
                key = dict(cfg=cfg, k=k, seed=seed, name=name, rng_seed=rng.randrange(2 ** 31))
                rec = sm_roundtrip_case(cfg, k, seed, name, key["rng_seed"])
                c.case(key, k >= 1)
                c.count(f"history_length={k}")
                c.count("blobs=on" if cfg["blobs"] else "blobs=off")
                msg = judge_sm_roundtrip(rec, name)
                if msg:
                    c.disagree(input=key, impl=msg, model="restored bit-for-bit / documented merge", kind="sm-roundtrip", **key)
                    continue
                if rec["from_dict_no_ndim"] != 1:
                    c.disagree(input=key, impl=f"from_dict without n_dim -> n_dim={rec['from_dict_no_ndim']}", model="1", kind="sm-roundtrip", **key)
                c.count("top-level keys of the file: " + ",".join(rec["top_level_keys"]))
                # the model's prediction of each load
                tg = Tagger()
                sa = tg.state_args(rec["sm"]["raw"])
                lines.append(f"sm.load bndim={rec['sm']['raw']['ndim'] + 3} {sa} exclude=pbar,pool,distribute")
                checks.append((key, "fresh", tg, rec["fresh"]["raw"]))
                lines.append(f"sm.fromdict {sa}")
                checks.append((key, "from_dict", tg, rec["from_dict"]["raw"]))
                for mg in rec["merges"]:
                    base = mg.get("base", rec["base"])
                    ba = tg.state_args(base).replace("cur=", "bcur=", 1).replace(" hist=", " bhist=", 1).replace(" ndim=", " bndim=", 1)
                    cs = "absent" if mg["cur"] is None else (",".join(f"{kk}:{tg.val(v)}" for kk, v in sorted(mg["cur"].items())) or "-")
                    hs = "absent" if mg["hist"] is None else (",".join(f"{kk}:{'/'.join(tg.val(v) for v in l) if l else '-'}"
                                                                       for kk, l in sorted(mg["hist"].items())) or "-")
                    ns = "absent" if mg["ndim"] is None else str(mg["ndim"])
                    lines.append(f"sm.load {ba} cur={cs} hist={hs} ndim={ns} exclude={','.join(mg['exclude']) if mg['exclude'] else '-'}")
                    checks.append((key, f"merge:{mg['kind']}:{mg['exclude']}", tg, mg["result"]))
                    c.count(f"merge_{mg['kind']}")
                    if mg["kind"] == "exclude":
                        c.count(f"exclude={'+'.join(mg['exclude'])} -> file keys {','.join(mg['keys'])}")
    res = drv.batch(lines)
    gen = dict(t.split("=", 1) for t in res[0].split(" ") if "=" in t)
    if gen.get("smload") != "update_from_dict":
        c.disagree(input="Gen.Checkpoint (StateManager.load_state)", impl=res[0][:300], model="smload=update_from_dict", kind="sm-roundtrip")
    for (key, what, tg, real), line, ans in zip(checks, lines[1:], res[1:]):
        m = parse_state(ans) if ans.startswith("cur=") else None
        rc, rh = tg.cur(real["cur"]), tg.hist(real["hist"])
        if m is None or m[0] != rc or m[1] != rh or m[2] != real["ndim"]:
            c.disagree(input=dict(key, load=what), impl=dict(cur=rc, hist_len={kk: len(v) for kk, v in rh.items()}, ndim=real["ndim"]),
                       model=ans[:300], kind="sm-roundtrip", **key)
        c.sample({"case": dict(key, load=what), "model": ans[:140]})
    return c


def sm_loader(n_dim):
    def load(final):
        from tempest.state_manager import StateManager
        f = StateManager(n_dim + 3)
        f.load_state(final)
        return dump_state(f)
    return load


def sm_crash_campaign(cfg, name, seed, with_old, stale_tmp, tier, rng, eager_modes=(True,), max_points=None, points=None):
    """crash points of the REAL StateManager.save_state.  returns (abstract ops, write sizes, tmp basename, results)"""
    from pathlib import Path
    root = tempfile.mkdtemp(prefix="tv08_")
    try:
        with _quiet(), warnings.catch_warnings():
            warnings.simplefilter("ignore")
            s = _prepared(cfg, 2, seed, os.path.join(root, "w"))
            sm = s.state
            d = os.path.join(root, "sm")
            os.mkdir(d)
            final = os.path.join(d, name)
            old_bytes = old_dump = None
            if with_old:
                sm.save_state(final)
                old_bytes = open(final, "rb").read()
                old_dump = dump_state(sm)
                s.sample()
            new_dump = dump_state(sm)
            ref = os.path.join(root, "ref")
            os.mkdir(ref)
            ctl = Ctl(ref)
            with fs_layer(ctl):
                sm.save_state(os.path.join(ref, name))
            ops = abstract_trace(ctl.log, os.path.join(ref, name))
            sizes = [e[2] for e in ctl.log if e[0] == "write"]
            renamed_with = next((e[3] for e in ctl.log if e[0] == "rename"), "nothing")
            # the temporary name the code really uses: the first file it opens for writing
            opened = next((e[1] for e in ctl.log if e[0] == "open"), os.path.join(os.path.realpath(ref), name))
            shutil.rmtree(ref)
        tmp = Path(d) / os.path.basename(opened)
        pts = crash_points(sizes, tier, rng) if points is None else \
            [tuple(q) if q[0] == "op" else ("byte", min(int(q[1]), sum(sizes) - 1)) for q in points]
        if max_points:
            pts = pts[:len(OP_POINTS)] + rng.sample(pts[len(OP_POINTS):], min(max_points, len(pts) - len(OP_POINTS)))
        loader = sm_loader(new_dump["ndim"])
        results = []
        for eager in eager_modes:
            for pt in pts:
                _clear_dir(d)
                if stale_tmp and str(tmp) != final:
                    with open(tmp, "wb") as fh:
                        fh.write(b"stale temporary file of an earlier, interrupted save")
                if with_old:
                    with open(final, "wb") as fh:
                        fh.write(old_bytes)
                code = crash_one(sm, final, pt, eager)
                outcome, detail = classify_outcome(cfg, final, old_bytes, old_dump, new_dump, loader=loader)
                results.append((pt, eager, code, outcome, detail))
        return ops, sizes, tmp.name, renamed_with, results
    finally:
        shutil.rmtree(root, ignore_errors=True)


def suite_sm_crash(tier, drv):
    c = Corr("sm-crash-injection", "exact (content under the final name after a process crash in StateManager.save_state vs the model's "
                                   "crash-content set of the extracted program)")
    rng = common.rng_for("C08.sm-crash")
    plan = [(SM_CFGS[0], "a.state", True, False), (SM_CFGS[0], "a.state", False, True), (SM_CFGS[2], "noext", True, True),
            (SM_CFGS[3], "a.b.pkl", True, False), (SM_CFGS[1], ".hidden", False, False)] if tier == "quick" else \
        [t for i, t in enumerate((cfg, nm, old, st) for cfg in SM_CFGS for nm in SM_NAMES[:4]
                                 for old, st in ((True, True), (False, False), (True, False))) if i % 2 == 0]
    # a final name that itself ends in ".temp" (written in place before /repo b1898a0, witness F27): judged like every other name
    plan.append((SM_CFGS[0], "x.temp", True, False))
    gen = dict(t.split("=", 1) for t in drv.batch(["fs.gen"])[0].split(" ") if "=" in t)
    for cfg, name, with_old, stale in plan:
        seed = rng.randrange(2 ** 31)
        key = dict(cfg=cfg, name=name, seed=seed, old_checkpoint=with_old, stale_tmp=stale)
        try:
            ops, sizes, tmp_name, renamed_with, results = sm_crash_campaign(
                cfg, name, seed, with_old, stale, tier, rng, eager_modes=(True, False) if (tier != "quick" or with_old) else (True,))
        except Exception as e:  # noqa
            c.case(key, True)
            c.disagree(input=key, impl=f"StateManager.save_state raised {type(e).__name__}: {e}", model="save succeeds", kind="sm-roundtrip",
                       cfg=cfg, k=2, seed=seed, name=name, rng_seed=0)
            continue
        pa = pname_args(name)
        ans = drv.batch(["fs.classify ops=" + ";".join(ops) + " final=final", "fs.shape ops=" + ";".join(ops), f"fs.smtmp {pa}",
                         f"fs.smcrash {pa} old={'1,1,1' if with_old else 'none'} tmpold={'9,9' if stale else 'none'} payload=2,2,2,2"])
        cls, shape, tmp_ans, crashset = ans
        mt = dict(t.split("=", 1) for t in tmp_ans.split(" ") if "=" in t)
        if mt.get("tmp") != "d/" + tmp_name:
            c.disagree(input=key, impl=f"Path({name!r}).with_suffix('.temp').name = {tmp_name!r}", model=tmp_ans, kind="sm-protocol", **key)
        if cls != "temprename" or shape != gen.get("smshape"):
            c.disagree(input=key, impl=f"{shape} (classified {cls})", model=f"static shape {gen.get('smshape')} (temprename)", kind="sm-protocol", **key)
        allowed = set()
        for item in crashset.split("|"):
            allowed.add({"absent": "absent", "1,1,1": "old", "2,2,2,2": "new"}.get(item, "broken"))
        c.count(f"protocol={cls}")
        c.count("renamed_with_" + renamed_with)
        for pt, eager, code, outcome, detail in results:
            ck = dict(key, crash_point=list(pt), eager_flush=eager)
            c.case(ck, pt[0] == "byte" or pt[1] in ("rename", "done", "close"))
            c.count(f"outcome={outcome}")
            if code != 9:
                c.disagree(input=ck, impl=f"child exit code {code} (3 = save raised, 0 = crash point never reached)", model="dies at the crash point",
                           kind="sm-crash", **key, point=list(pt), eager=eager)
                continue
            bad = outcome not in allowed or outcome == "broken" or (pt == ("op", "done") and outcome != "new")
            if bad:
                c.disagree(input=ck, impl=f"{outcome}: {detail}", model=f"crash contents {crashset}", kind="sm-crash", **key, point=list(pt), eager=eager)
        c.sample({"config": key, "write_sizes": sizes, "tmp": tmp_name, "model_crash_contents": crashset,
                  "observed": sorted({o for _, _, _, o, _ in results})})
    return c


def suite_pool_kinds(tier, drv):
    """'saving works in every configuration, including with a worker pool': every KIND of pool the constructor accepts
    (integer > 1 -> workers spawned by the sampler itself, a real multiprocess.Pool, a pool-like object), saved MID-RUN
    (after likelihood batches went through the pool) by save_state and by run(save_every=...), then loaded and resumed."""
    c = Corr("worker-pool-kinds", "exact (canonical dumps; real multiprocess workers)")
    rng = common.rng_for("C08.poolkinds")
    cfgs = POOL_KIND_CONFIGS if tier != "quick" else [POOL_KIND_CONFIGS[0], POOL_KIND_CONFIGS[rng.choice([1, 2])], ]
    for cfg in cfgs:
        for k in ([1, 2] if tier == "quick" else [0, 1, 2, 3]):
            seed = rng.randrange(2 ** 31)
            key = dict(cfg=cfg, k=k, seed=seed)
            c.case(key, k >= 1)
            c.count(f"pool={cfg['pool']}")
            msg = oracle_roundtrip(cfg, k, seed)
            if msg:
                c.disagree(input=key, impl=msg, model="save mid-run succeeds, pool re-attached, loads exactly (C08_pool_detach, C08_roundtrip)",
                           kind="roundtrip", **key)
    for cfg in cfgs[: (1 if tier == "quick" else 3)]:
        k, k2, seed = 1, 2, rng.randrange(2 ** 31)
        key = dict(cfg=cfg, save_every=k, resume_save_every=k2, seed=seed, n_total=64, n_total_resume=None)
        c.case(key, True)
        c.count(f"run_pool={cfg['pool']}")
        msg = oracle_run(cfg, k, k2, seed, 64, which=(1, "final"))
        if msg:
            c.disagree(input=key, impl=msg, model="run(save_every) with a pool writes loadable checkpoints and resumes", kind="run", **key)
    return c


# ----------------------------------------------------------------------------- (viii) the whole checkpoint around the StateManager
META_VARIANTS = ["plain", "attrs", "attrs", "drop:rng_state", "drop:n_total,logz_err", "drop:rng_state,n_total,logz_err,sampler,random_state",
                 "rng_none", "resume", "manual", "manual"]


def _attr_val(v):
    if isinstance(v, str) and v == "absent":
        return "absent"
    if v is None:
        return "N"
    if isinstance(v, bool):
        return "other:" + repr(v)
    if isinstance(v, int):
        return f"i{v}"
    return "other:" + repr(v)[:30]


def _components(core):
    """identity of every object the loaded sampler must keep + the only cross-iteration component state"""
    tr = core.trainer
    cl = getattr(tr, "clusterer", None)
    return dict(ids=(id(core.config), id(core.reweighter), id(tr), id(core.resampler), id(core.mutator), id(cl), id(core.state)),
                trainer_fitted_flag=bool(getattr(tr, "_clusterer_fitted", False)),
                clusterer_fitted=bool(cl is not None and getattr(cl, "_gmm_ready", False)),
                random_state=core.config.random_state, t0=int(core.t0))


def meta_case(cfg, k, seed, variant):
    """observations around one save_state / load_state (no judgement)"""
    import dill
    root = tempfile.mkdtemp(prefix="tv08_")
    rec = dict(error=None)
    try:
        with _quiet(), warnings.catch_warnings():
            warnings.simplefilter("ignore")
            s = _prepared(cfg, k, seed, root)
            if variant in ("attrs", "resume", "manual") or variant.startswith("drop:n_total"):
                s._core.n_total = 64 + k           # what run_sampling assigns
                s._core.logz_err = None
            w = dict(n_total=getattr(s._core, "n_total", "absent"), logz_err=getattr(s._core, "logz_err", "absent"),
                     random_state=s._core.config.random_state, rng=rng_tag(), comp=_components(s._core))
            path = os.path.join(root, "a.state")
            s.save_state(path)
            rec["rng_unmoved_by_save"] = rng_tag() == w["rng"]
            rec["attrs_unchanged_by_save"] = (getattr(s._core, "n_total", "absent"), getattr(s._core, "logz_err", "absent")) == (w["n_total"], w["logz_err"])
            rec["saved"] = dump_state(s.state)
            with open(path, "rb") as fh:
                d = dill.load(fh)
            rec["file"] = dict(keys=list(d.keys()), rng=rng_tag(d.get("rng_state")), random_state=d.get("random_state", "absent"),
                               n_total=d.get("n_total", "absent"), logz_err=d.get("logz_err", "absent"),
                               sampler_is_bytes=isinstance(d.get("sampler"), (bytes, bytearray)))
            try:
                inner = dill.loads(d["sampler"])
                rec["pickled_trainer_flag"] = bool(inner.trainer._clusterer_fitted)
            except Exception as e:  # noqa
                rec["pickled_trainer_flag"] = f"{type(e).__name__}"
            drop = variant[5:].split(",") if variant.startswith("drop:") else []
            if drop or variant == "rng_none":
                for kk in drop:
                    d.pop(kk, None)
                if variant == "rng_none":
                    d["rng_state"] = None
                with open(path, "wb") as fh:
                    dill.dump(d, fh)
            rec["drop"] = drop
            # the receiving sampler: another random_state, generator somewhere else, (for `drop`) attributes of its own
            np.random.seed((seed + 17) % 2 ** 31)
            s2 = mk_sampler(cfg, random_state=12345, output_dir=os.path.join(root, "o2"), label="r")
            if drop:
                s2._core.n_total = 7
            f = dict(n_total=getattr(s2._core, "n_total", "absent"), logz_err=getattr(s2._core, "logz_err", "absent"), rng=rng_tag(),
                     comp=_components(s2._core))
            if variant == "resume":
                nT = 200 + k
                s2._core._not_termination = lambda: False         # prologue + epilogue only: no iteration
                s2.run(n_total=nT, resume_state_path=path, progress=False)
                rec["nT"] = nT
            elif variant == "manual":
                # the documented manual resume: load_state(path); run()   (the receiver HAS a random_state: it must not reseed
                # when committed history was loaded; with an empty history (k = 0) this is a fresh start and it must)
                nT = 300 + k
                s2.load_state(path)
                s2._core._not_termination = lambda: False
                s2.run(n_total=nT, progress=False)
                rec["nT"] = nT
                st = np.random.get_state()
                np.random.seed(12345)
                rec["seeded_rng"] = rng_tag()
                np.random.set_state(st)
            else:
                s2.load_state(path)
            rec["loaded"] = dump_state(s2.state)
            rec["after"] = dict(n_total=getattr(s2._core, "n_total", "absent"), logz_err=getattr(s2._core, "logz_err", "absent"), rng=rng_tag(),
                                comp=_components(s2._core))
            rec["writer"], rec["fresh"] = w, f
        return rec
    except Exception as e:  # noqa
        rec["error"] = f"{type(e).__name__}: {e}"
        return rec
    finally:
        shutil.rmtree(root, ignore_errors=True)


def judge_meta(rec, k, variant):
    """property-level oracle (independent of the Lean model) -> message or None"""
    if rec["error"]:
        return f"save_state / load_state raised {rec['error']}"
    w, f, a, fl = rec["writer"], rec["fresh"], rec["after"], rec["file"]
    if not rec["rng_unmoved_by_save"]:
        return "save_state moved the global random generator (the run after a checkpoint differs from the run without)"
    if not rec["attrs_unchanged_by_save"]:
        return "save_state changed n_total / logz_err of the sampler it saved"
    if fl["rng"] != w["rng"]:
        return "the rng_state stored in the checkpoint is not the generator position at the time of the save"
    want_rng = f["rng"] if ("rng_state" in rec["drop"] or variant == "rng_none") else w["rng"]
    if variant == "manual" and k == 0:
        want_rng = rec["seeded_rng"]      # empty history: run() is a fresh start of a sampler with random_state=12345
    if variant == "manual" and k >= 1:
        sv, ld = rec["saved"]["cur"], rec["loaded"]["cur"]
        if any(sv[kk] != ld[kk] for kk in ("iter", "calls", "beta")):
            return (f"load_state(); run() reset the counters of the loaded state: iter {sv['iter']} -> {ld['iter']}, calls {sv['calls']} -> "
                    f"{ld['calls']}, beta {sv['beta']} -> {ld['beta']}")
    if a["rng"] != want_rng:
        if variant == "manual":
            return ("load_state(); run() moved the global generator away from the position stored in the checkpoint (reseeded from "
                    "random_state?): the resumed iterations replay draws" if k >= 1 else
                    "run() of a seeded sampler without committed history did not start from seed(random_state)")
        return ("after load_state the global generator is neither where the checkpoint says nor (file without rng_state) where it was"
                if want_rng == f["rng"] else
                "after load_state the global generator is not at the position stored in the checkpoint (a resumed run would not continue the stream)")
    if a["comp"]["ids"] != f["comp"]["ids"] or a["comp"]["random_state"] != f["comp"]["random_state"]:
        return "load_state replaced a component / the configuration of the receiving sampler"
    if variant not in ("resume", "manual") and k >= 1 and not _same_dump(rec["saved"], rec["loaded"]):
        return f"after {k} iterations: loaded into a fresh sampler != saved: {_first_diff(rec['saved'], rec['loaded'])}"
    if variant in ("resume", "manual"):
        how = "run(resume_state_path" if variant == "resume" else "load_state(); run("
        if a["n_total"] != rec["nT"]:
            return f"{how}, n_total={rec['nT']}) left n_total = {a['n_total']!r}"
        it = rec["saved"]["cur"]["iter"]
        if a["comp"]["t0"] != (it[1] if it[0] == "i" else 0):
            return f"{how}) took t0 = {a['comp']['t0']}, the checkpoint's iter is {it}"
    return None


def suite_core_meta(tier, drv):
    c = Corr("core-metadata-roundtrip", "exact (top-level keys, generator positions, attributes, component identities; model loadCore / "
                                        "prologueResume on tagged values)")
    rng = common.rng_for("C08.meta")
    gen = dict(t.split("=", 1) for t in drv.batch(["core.gen"])[0].split(" ") if "=" in t)
    want_keys = ["_current", "_history", "n_dim"] + [k for k in gen.get("keys", "").split(",") if k]
    c.sample({"generated": {k: gen.get(k) for k in ("keys", "load", "attrs", "loadrnd", "epilogue")}})
    cfgs = CONFIGS[::2] + EXTRA_RUN_CONFIGS[:3]
    if tier != "quick":
        cfgs = CONFIGS + EXTRA_RUN_CONFIGS
    lines, recs = [], []
    for cfg in cfgs:
        for variant in (META_VARIANTS if tier != "quick" else rng.sample(META_VARIANTS, 5)):
            k = rng.choice([0, 1, 2, 4]) if variant != "resume" else rng.choice([1, 2, 4])
            if variant == "manual" and cfg["pool"] == "never":
                k = max(k, 1)
            seed = rng.randrange(2 ** 31)
            key = dict(cfg=cfg, k=k, seed=seed, variant=variant)
            rec = meta_case(cfg, k, seed, variant)
            c.case(key, k >= 1 or variant != "plain")
            c.count(f"variant={variant}")
            c.count(f"k={k}")
            msg = judge_meta(rec, k, variant)
            if msg:
                c.disagree(input=key, impl=msg, model="generator / attributes restored as loadCore says; components, config, t0 of the receiver kept",
                           kind="meta", **key)
                continue
            if rec["file"]["keys"] != want_keys or not rec["file"]["sampler_is_bytes"]:
                c.disagree(input=key, impl=f"top-level keys of the file {rec['file']['keys']} (sampler is bytes: {rec['file']['sampler_is_bytes']})",
                           model=f"regenerated table {want_keys}", kind="meta", **key)
            if rec["file"]["random_state"] != rec["writer"]["random_state"] or _attr_val(rec["file"]["n_total"]) != _attr_val(
                    None if rec["writer"]["n_total"] == "absent" else rec["writer"]["n_total"]):
                c.disagree(input=key, impl=f"file holds random_state={rec['file']['random_state']!r} n_total={rec['file']['n_total']!r}",
                           model=f"writer's random_state / getattr(n_total, None) = {rec['writer']['random_state']!r} / {rec['writer']['n_total']!r}",
                           kind="meta", **key)
            if rec["pickled_trainer_flag"] is True and rec["after"]["comp"]["trainer_fitted_flag"] is False:
                c.count("writer's fitted-trainer flag is in the file but NOT restored (components are the receiver's)")
            tg = Tagger()
            rt = {rec["writer"]["rng"]: 1, rec["fresh"]["rng"]: 2}
            if "seeded_rng" in rec:
                rt.setdefault(rec["seeded_rng"], 1000000 + 12345)
            line = (f"core.roundtrip {tg.state_args(rec['saved'])} ntotal={_attr_val(rec['writer']['n_total'])} "
                    f"logzerr={_attr_val(rec['writer']['logz_err'])} rng=1 fndim=2 frng=2 fntotal={_attr_val(rec['fresh']['n_total'])} "
                    f"flogzerr={_attr_val(rec['fresh']['logz_err'])}")
            if rec["drop"]:
                line += " drop=" + ",".join(rec["drop"])
            if variant == "rng_none":
                line += " rngnone=1"
            if variant == "resume":
                line += f" nT={rec['nT']}"
            if variant == "manual":
                line += f" nT={rec['nT']} manual=1 frs=12345"
            lines.append(line)
            recs.append((key, rec, tg, rt))
    for (key, rec, tg, rt), line, ans in zip(recs, lines, drv.batch(lines)):
        toks = dict(t.split("=", 1) for t in ans.split(" ") if "=" in t)
        a = rec["after"]
        real = dict(ntotal=_attr_val(a["n_total"]), logzerr=_attr_val(a["logz_err"]), rng=str(rt.get(a["rng"], 0)),
                    comp="fresh" if (a["comp"]["ids"] == rec["fresh"]["comp"]["ids"] and not a["comp"]["trainer_fitted_flag"]
                                     and not a["comp"]["clusterer_fitted"]) else "changed", t0=str(a["comp"]["t0"]))
        m = parse_state(" ".join(t for t in ans.split(" ") if t.split("=")[0] in ("cur", "hist", "ndim"))) if ans.startswith("cur=") else None
        lc, lh = tg.cur(rec["loaded"]["cur"]), tg.hist(rec["loaded"]["hist"])
        if key["variant"] in ("resume", "manual") and m is not None:
            m[0].pop("logz", None)          # the epilogue of run() rewrites logz (C12's clause), everything else is the loaded state
            lc.pop("logz", None)
        bad = [kk for kk in real if toks.get(kk) != real[kk]]
        if m is None or bad or m[0] != lc or m[1] != lh or m[2] != rec["loaded"]["ndim"]:
            c.disagree(input=key, impl=dict(real, state_equal=(m is not None and m[0] == lc and m[1] == lh)), model=ans[-160:], kind="meta", **key)
        c.sample({"case": key, "model": ans[-120:]})
    if gen.get("loadrnd") != "np.random.set_state" or gen.get("loadreads") != "logz_err,n_total,rng_state":
        c.disagree(input="Gen.Checkpoint (load_sampler_state)", impl=f"loadrnd={gen.get('loadrnd')} loadreads={gen.get('loadreads')}",
                   model="np.random.set_state only; reads logz_err,n_total,rng_state", kind="meta")
    return c


# ----------------------------------------------------------------------------- (ix) ONE sampler object reused: save / load / resume / save
SAME_OBJECT_KINDS = ["run-then-resume-same-object", "save-load-earlier-sample-save", "run-load-run", "random-ops", "random-ops"]


def _restore_mismatch(writer, loaded):
    """the property's oracle for one checkpoint: loaded into a fresh sampler it must be the state the writer held when it wrote it
    (a None under one of the seven keys with a default may come back as that default) -> message or None"""
    for key in writer["cur"]:
        if writer["cur"][key] != loaded["cur"].get(key) and not (writer["cur"][key] == ("N",) and key in
                                                                ("iter", "calls", "beta", "logz", "steps", "acceptance", "efficiency")):
            return f"_current[{key!r}]: writer {writer['cur'][key]} loaded {loaded['cur'].get(key)}"
    if writer["hist"] != loaded["hist"]:
        return _first_diff(dict(writer, cur={}), dict(loaded, cur={})) or "history differs"
    if writer["ndim"] != loaded["ndim"]:
        return f"n_dim {writer['ndim']} vs {loaded['ndim']}"
    return None


@contextlib.contextmanager
def checked_saves(core, cfg, events):
    """every save_sampler_state of `core` is followed AT ONCE by loading the file into a fresh sampler and comparing it with what
    the writer held when it wrote it (files may be overwritten later in the sequence).  The generator is left where it was."""
    from tempest.core import SamplerCore
    orig = SamplerCore.save_sampler_state

    def hooked(self, path, *a, **k):
        if self is not core:
            return orig(self, path, *a, **k)
        before = dump_state(self.state)
        r = orig(self, path, *a, **k)
        st = np.random.get_state()
        ev = dict(file=os.path.basename(str(path)), n_hist=len(before["hist"]["beta"]), iter=before["cur"].get("iter"),
                  n_saves_before=len(events), writer=before)
        try:
            ev["unchanged_by_save"] = dump_state(self.state) == before
            f = mk_sampler(cfg)
            f.load_state(path)
            ev["loaded"] = dump_state(f.state)
            ev["mismatch"] = _restore_mismatch(before, ev["loaded"])
        except Exception as e:  # noqa
            ev["mismatch"] = f"loading the checkpoint into a fresh sampler raised {type(e).__name__}: {e}"
        finally:
            np.random.set_state(st)
        events.append(ev)
        return r
    with common.patched(SamplerCore, "save_sampler_state", hooked):
        yield


def same_object_case(cfg, kind, seed):
    """a sequence of run / sample / save_state / load_state / resume on ONE sampler object.  Returns (ops performed, save events, error)"""
    import random
    rng = random.Random(seed)
    root = tempfile.mkdtemp(prefix="tv08_")
    out = os.path.join(root, "out")
    events, ops = [], []
    try:
        with _quiet(), warnings.catch_warnings():
            warnings.simplefilter("ignore")
            np.random.seed(seed % 2 ** 31)
            s = mk_sampler(cfg, output_dir=out, label="ps")
            with checked_saves(s._core, cfg, events):
                if kind == "run-then-resume-same-object":
                    k1, k2 = rng.choice([1, 2]), 1
                    s.run(n_total=96, save_every=k1, progress=False)
                    ops.append(f"run(n_total=96, save_every={k1}) [{int(s.state.get_current('iter'))} iterations]")
                    its = _files(out, "ps")[0]
                    back = rng.choice(its[: max(1, len(its) // 2)])
                    s.run(n_total=96, resume_state_path=os.path.join(out, f"ps_{back}.state"), save_every=k2, progress=False)
                    ops.append(f"same object: run(resume_state_path='ps_{back}.state', save_every={k2})")
                elif kind == "run-load-run":
                    s.run(n_total=64, save_every=2, progress=False)
                    ops.append(f"run(n_total=64, save_every=2) [{int(s.state.get_current('iter'))} iterations]")
                    its = _files(out, "ps")[0]
                    back = its[0]
                    s.load_state(os.path.join(out, f"ps_{back}.state"))
                    s.run(n_total=64, save_every=1, progress=False)
                    ops.append(f"same object: load_state('ps_{back}.state'); run(n_total=64, save_every=1)")
                else:
                    s._core._initialize_fresh()
                    files = []
                    if kind == "save-load-earlier-sample-save":
                        prog = ["sample"] * rng.choice([1, 2]) + ["save:new"] + ["sample"] * rng.choice([1, 2, 3]) + ["save:new", "load:0"] + \
                               ["sample"] * rng.choice([0, 1, 2]) + ["save:new", "save:same"]
                    else:
                        prog = ["sample", "save:new"] + [rng.choice(["sample", "sample", "save:new", "save:same", "load", "save:new"])
                                                         for _ in range(rng.choice([6, 9, 12]))] + ["save:new"]
                    for op in prog:
                        if op == "sample":
                            s.sample()
                        elif op.startswith("save"):
                            if op == "save:new" or not files:
                                files.append(os.path.join(root, f"c{len(files)}.state"))
                            s.save_state(files[-1])
                        elif files:
                            j = 0 if op == "load:0" else rng.randrange(len(files))
                            s.load_state(files[j])
                            op = f"load:c{j}"
                        ops.append(op)
        return ops, events, None
    except Exception as e:  # noqa
        return ops, events, f"{type(e).__name__}: {e}"
    finally:
        shutil.rmtree(root, ignore_errors=True)


def oracle_same_object(cfg, kind, seed):
    return oracle_same_object_from(*same_object_case(cfg, kind, seed))


def suite_same_object(tier, drv):
    c = Corr("reused-sampler-sequences", "exact (canonical dumps: every checkpoint written by a REUSED sampler object vs the writer's state at "
                                         "that moment; model load fresh (save s) on tagged values)")
    rng = common.rng_for("C08.sameobject")
    cfgs = [CONFIGS[0], CONFIGS[6], CONFIGS[11], EXTRA_RUN_CONFIGS[2]] if tier == "quick" else CONFIGS + EXTRA_RUN_CONFIGS
    kinds = SAME_OBJECT_KINDS if tier == "quick" else SAME_OBJECT_KINDS * 6
    lines, recs = [], []
    for n_k, kind in enumerate(kinds):
        cfg = cfgs[n_k % len(cfgs)] if tier == "quick" else rng.choice(cfgs)
        seed = rng.randrange(2 ** 31)
        key = dict(cfg=cfg, sequence=kind, seed=seed)
        ops, events, err = same_object_case(cfg, kind, seed)
        c.case(key, True)
        c.count(f"sequence={kind}")
        c.count("checkpoints_written_by_a_reused_object", len(events))
        c.count("…after a load of an EARLIER checkpoint", sum(1 for ev in events if any(
            e2["n_hist"] > ev["n_hist"] for e2 in events[:ev["n_saves_before"]])))
        msg = oracle_same_object_from(ops, events, err)
        if msg:
            c.disagree(input=key, impl=msg, model="every checkpoint restores the writer's state of that moment (C08_restore_identity, "
                                                  "C08_every_checkpoint_restores)", kind="same-object", **key)
            continue
        for ev in events[:: (1 if tier != "quick" else 3)]:
            tg = Tagger()
            lines.append("ckpt.roundtrip " + tg.state_args(ev["writer"]))
            recs.append((dict(key, file=ev["file"], save_number=ev["n_saves_before"] + 1), ev, tg))
        c.sample({"case": key, "ops": ops[:14], "saves": [(ev["file"], ev["n_hist"]) for ev in events][:24]})
    for (key, ev, tg), line, ans in zip(recs, lines, drv.batch(lines)):
        m = parse_state(ans) if ans.startswith("cur=") else None
        lc, lh = tg.cur(ev["loaded"]["cur"]), tg.hist(ev["loaded"]["hist"])
        if m is None or m[0] != lc or m[1] != lh or m[2] != ev["loaded"]["ndim"]:
            c.disagree(input=key, impl=dict(hist_len={k: len(v) for k, v in lh.items()}, iter=lc.get("iter")), model=ans[:300], kind="same-object",
                       **{k: v for k, v in key.items() if k in ("cfg", "sequence", "seed")})
    return c


def oracle_same_object_from(ops, events, err):
    if err:
        return f"sequence {ops} on one sampler object raised {err}"
    for ev in events:
        if ev.get("mismatch"):
            return (f"one sampler object, operations {ops}: checkpoint {ev['file']} (save number {ev['n_saves_before'] + 1}; the writer was at "
                    f"iter={ev['iter']} with {ev['n_hist']} committed iterations) loaded into a fresh sampler does not restore the state the "
                    f"writer held when it wrote it: {ev['mismatch']}")
        if ev.get("unchanged_by_save") is False:
            return f"one sampler object, operations {ops}: save_state({ev['file']}) changed the state it saved"
    return None


def correspond(tier):
    drv = common.Driver()
    out = []
    for f in (suite_roundtrip, suite_runs, suite_protocol, suite_crash, suite_sm_roundtrip, suite_sm_crash, suite_pool_kinds, suite_core_meta, suite_same_object):
        try:
            out.append(f(tier, drv))
        except common.LeanError:
            raise
    return out


# ----------------------------------------------------------------------------- property oracle on the real code
def oracle_roundtrip(cfg, k, seed):
    r = roundtrip_case(cfg, k, seed)
    if r["error"]:
        return f"save_state/load_state raised {r['error']}"
    if cfg["pool"] and not r["pool_ok"]:
        return "pool not re-attached after save_state"
    if cfg["pool"] and r["pickled_pool_none"] is not True:
        return f"pickled sampler still carries the pool: {r['pickled_pool_none']}"
    if k >= 1 and not _same_dump(r["saved"], r["loaded"]):
        return f"after {k} iterations: loaded into a fresh sampler != saved: {_first_diff(r['saved'], r['loaded'])}"
    if k == 0:
        # only the seven keys with defaults may change, and only from None
        s, l = r["saved"], r["loaded"]
        for key in s["cur"]:
            if s["cur"][key] != l["cur"].get(key) and not (s["cur"][key] == ("N",) and key in
                                                          ("iter", "calls", "beta", "logz", "steps", "acceptance", "efficiency")):
                return f"fresh state: _current[{key!r}] saved {s['cur'][key]} loaded {l['cur'].get(key)}"
        if s["hist"] != l["hist"]:
            return "fresh state: history changed by save/load"
    return None


def oracle_run(cfg, k, k2, seed, n_total, which="all", n_total_resume=None):
    rec = run_case(cfg, k, k2, seed, n_total, which, n_total_resume=n_total_resume)
    if rec.get("unrelated"):
        return None
    if rec["error"]:
        return rec["error"]
    its, has_final, other = rec["files"]
    want = expected_cadence(0, k, rec["n_iter"])
    if its != want or not has_final or other:
        return (f"run(save_every={k}) of {rec['n_iter']} iterations wrote periodic checkpoints {its} final={has_final} other={other}; "
                f"the cadence is {want} + final")
    if not rec["writer_post"][2]:
        return f"run(save_every={k}) ended with beta={rec['writer_post'][0]}, ESS={rec['writer_post'][1]}"
    if not rec["pool_ok"]:
        return "pool lost during a run with save_every"
    for r in rec["resumes"]:
        msg = judge_resume(r, n_total_resume or n_total, expect_identical=components_irrelevant(cfg))
        if msg:
            return f"checkpoint {r['index']}: {msg}"
        t0 = r["loaded"]["cur"]["iter"][1]
        n_new = len(r["snaps"])
        want = expected_cadence(t0, k2, n_new)
        if r["files"][0] != want or not r["files"][1] or r["files"][2]:
            return (f"resume from checkpoint {r['index']} (t0={t0}, save_every={k2}, {n_new} iterations) wrote {r['files'][0]} "
                    f"final={r['files'][1]}; the cadence is {want} + final")
    if "manual" in rec:
        m = rec["manual"]
        msg = judge_resume(m, n_total_resume or n_total, expect_identical=components_irrelevant(cfg))
        if msg:
            return f"manual resume of checkpoint {m['index']} (load_state(); run()): {msg}"
        t0 = m["loaded"]["cur"]["iter"][1]
        want = expected_cadence(t0, k2, len(m["snaps"]))
        if m["files"][0] != want or not m["files"][1] or m["files"][2]:
            return (f"load_state(checkpoint {m['index']}); run(save_every={k2}) (t0={t0}, {len(m['snaps'])} iterations) wrote {m['files'][0]} "
                    f"final={m['files'][1]}; the cadence relative to t0 is {want} + final")
    if "second" in rec:
        msg = judge_second(rec, k, n_total)
        if msg:
            return msg
    return None


def oracle_meta(cfg, k, seed, variant):
    return judge_meta(meta_case(cfg, k, seed, variant), k, variant)


def oracle_resave(cfg, seed, with_old, stale):
    """crash in the middle of the pickle (partial temporary file left), then a complete save of the same name"""
    import random
    ops, sizes, results, rs = crash_campaign(cfg, seed, with_old, "quick", random.Random(seed), (True,), max_points=1, stale_tmp=stale, resave=True)
    if rs["crash_exit"] == 9 and rs["outcome"] == "new" and rs["after"] == ["a.state"]:
        return None
    return (f"save_state killed at byte {sum(sizes) // 2} of {sum(sizes)} left {rs['left_by_crash']}; the next complete save_state of the same name: "
            f"{rs['outcome']} ({rs['detail']}), directory afterwards {rs['after']}")


def oracle_crash(cfg, seed, with_old, tier, rng, eager_modes=(True, False), max_points=None, stale_tmp=False, name="a.state"):
    ops, sizes, results = crash_campaign(cfg, seed, with_old, tier, rng, eager_modes, max_points, stale_tmp=stale_tmp, name=name)
    for pt, eager, code, outcome, detail in results:
        if code == 3:
            return dict(what="save_state raised in the child before reaching the crash point", point=list(pt), eager=eager)
        ok = outcome in (("old",) if with_old else ("absent",)) + ("new",)
        if pt == ("op", "done") and outcome != "new":
            ok = False
        if not ok:
            where = f"byte offset {pt[1]} of {sum(sizes)} (writes of sizes {sizes[:6]}{'…' if len(sizes) > 6 else ''})" if pt[0] == "byte" \
                else f"the instant before `{pt[1]}`" if pt[1] != "done" else "the instant after the rename"
            return dict(what=f"process killed at {where} during save_state({name!r}) ({'with' if with_old else 'without'} an existing complete "
                             f"checkpoint{', stale <final>.temp present' if stale_tmp else ''}): {outcome}: {detail or 'unexpected content'}",
                        point=list(pt), eager=eager, stale_tmp=stale_tmp, name=name, ops=";".join(ops)[:200])
    return None


def search(tier, hints):
    found = []
    rng = common.rng_for("C08.search")

    def add(kind, msg, **kw):
        if msg:
            d = msg if isinstance(msg, dict) else {"what": msg}
            found.append(dict(d, kind=kind, **kw))
        return bool(msg)

    kinds = [h.get("kind") for h in hints]
    # 1. replays of the disagreeing inputs
    for h in hints[:12]:
        try:
            if h.get("kind") in ("roundtrip", "pool") and "cfg" in h and "k" in h:
                add("roundtrip", oracle_roundtrip(h["cfg"], h["k"], h["seed"]), cfg=h["cfg"], k=h["k"], seed=h["seed"])
            elif h.get("kind") == "run" and "save_every" in h:
                add("run", oracle_run(h["cfg"], h["save_every"], h["resume_save_every"], h["seed"], h["n_total"], n_total_resume=h.get("n_total_resume")),
                    cfg=h["cfg"], save_every=h["save_every"], resume_save_every=h["resume_save_every"], seed=h["seed"], n_total=h["n_total"],
                    n_total_resume=h.get("n_total_resume"))
            elif h.get("kind") == "crash" and "point" in h:
                r = oracle_crash_point(h["cfg"], h["seed"], h["old_checkpoint"], tuple(h["point"]), h["eager"], h.get("stale_tmp", False))
                add("crash", r, cfg=h["cfg"], seed=h["seed"], old_checkpoint=h["old_checkpoint"])
            elif h.get("kind") == "same-object" and "sequence" in h:
                add("same-object", oracle_same_object(h["cfg"], h["sequence"], h["seed"]), cfg=h["cfg"], sequence=h["sequence"], seed=h["seed"])
            elif h.get("kind") == "meta" and "variant" in h:
                add("meta", oracle_meta(h["cfg"], h["k"], h["seed"], h["variant"]), cfg=h["cfg"], k=h["k"], seed=h["seed"], variant=h["variant"])
            elif h.get("kind") == "resave" and "old_checkpoint" in h:
                add("resave", oracle_resave(h["cfg"], h["seed"], h["old_checkpoint"], h.get("stale_tmp", False)), cfg=h["cfg"], seed=h["seed"],
                    old_checkpoint=h["old_checkpoint"], stale_tmp=h.get("stale_tmp", False))
            elif h.get("kind") == "sm-roundtrip" and "name" in h:
                add("sm-roundtrip", oracle_sm_roundtrip(h["cfg"], h["k"], h["seed"], h["name"], h.get("rng_seed", 0)),
                    cfg=h["cfg"], k=h["k"], seed=h["seed"], name=h["name"], rng_seed=h.get("rng_seed", 0))
            elif h.get("kind") == "sm-crash" and "point" in h:
                r = oracle_sm_crash(h["cfg"], h["name"], h["seed"], h["old_checkpoint"], h["stale_tmp"], "quick", rng,
                                    only=(tuple(h["point"]), h["eager"]))
                add("sm-crash", r, cfg=h["cfg"], name=h["name"], seed=h["seed"], old_checkpoint=h["old_checkpoint"], stale_tmp=h["stale_tmp"])
        except Exception as e:  # noqa
            add("crashed-oracle", f"oracle raised {type(e).__name__}: {e}", hint=str(h)[:200])
        if len(found) >= 3:
            return found
    # 2. generated: crash injection first when the protocol is in doubt, otherwise round trips, runs, crashes
    order = ["crash", "roundtrip", "run"] if ("protocol" in kinds or "crash" in kinds or not kinds) else ["roundtrip", "run", "crash"]
    order = (["meta"] + order) if "meta" in kinds else (order[:2] + ["meta"] + order[2:])
    order = (["same-object"] + order) if "same-object" in kinds else (order[:1] + ["same-object"] + order[1:])
    sm_first = any(k_ and k_.startswith("sm-") for k_ in kinds)
    order = (["sm-crash", "sm-roundtrip"] + order) if sm_first else (order + ["sm-crash", "sm-roundtrip"])
    for what in order:
        if what == "sm-crash":
            for cfg, name, with_old, stale in [(SM_CFGS[0], "a.state", True, False), (SM_CFGS[0], "x.temp", True, False),
                                               (SM_CFGS[2], "noext", False, True)] + \
                    ([(SM_CFGS[3], "a.b.pkl", True, True)] if tier != "quick" else []):
                seed = rng.randrange(2 ** 31)
                add("sm-crash", oracle_sm_crash(cfg, name, seed, with_old, stale, tier, rng, max_points=(40 if tier == "quick" else None)),
                    cfg=cfg, name=name, seed=seed, old_checkpoint=with_old, stale_tmp=stale)
                if found:
                    return found
        elif what == "same-object":
            for n_k, kind in enumerate(SAME_OBJECT_KINDS[1:] + SAME_OBJECT_KINDS[:1] + (SAME_OBJECT_KINDS * 2 if tier != "quick" else [])):
                cfg, seed = [CONFIGS[0], CONFIGS[7], CONFIGS[10], EXTRA_RUN_CONFIGS[2]][n_k % 4], rng.randrange(2 ** 31)
                if add("same-object", oracle_same_object(cfg, kind, seed), cfg=cfg, sequence=kind, seed=seed):
                    return found
        elif what == "meta":
            for cfg in [CONFIGS[0], CONFIGS[11], EXTRA_RUN_CONFIGS[2]]:
                for variant in META_VARIANTS:
                    k, seed = rng.choice([0, 1, 3]), rng.randrange(2 ** 31)
                    if variant == "resume":
                        k = max(k, 1)
                    if add("meta", oracle_meta(cfg, k, seed, variant), cfg=cfg, k=k, seed=seed, variant=variant):
                        return found
        elif what == "sm-roundtrip":
            for cfg in SM_CFGS:
                for k in (0, 1, 3):
                    seed, name, rs = rng.randrange(2 ** 31), rng.choice(SM_NAMES), rng.randrange(2 ** 31)
                    if add("sm-roundtrip", oracle_sm_roundtrip(cfg, k, seed, name, rs), cfg=cfg, k=k, seed=seed, name=name, rng_seed=rs):
                        return found
        elif what == "crash":
            for n_c, (cfg, with_old) in enumerate([(CONFIGS[0], True), (CONFIGS[5], False)] + ([(CONFIGS[10], True), (CONFIGS[15], True)] if tier != "quick" else [])):
                seed = rng.randrange(2 ** 31)
                add("crash", oracle_crash(cfg, seed, with_old, tier, rng, max_points=(40 if tier == "quick" else None), stale_tmp=(n_c % 2 == 1)),
                    cfg=cfg, seed=seed, old_checkpoint=with_old)
                if found:
                    return found
                add("resave", oracle_resave(cfg, seed, with_old, n_c % 2 == 0), cfg=cfg, seed=seed, old_checkpoint=with_old, stale_tmp=(n_c % 2 == 0))
                if found:
                    return found
            # a final name that itself ends in ".temp" / has another suffix (a temporary name derived by REPLACING the suffix collides)
            for name in ("x.temp", "ck.v2"):
                seed = rng.randrange(2 ** 31)
                add("crash", oracle_crash(CONFIGS[0], seed, True, tier, rng, max_points=12, name=name), cfg=CONFIGS[0], seed=seed,
                    old_checkpoint=True)
                if found:
                    return found
        elif what == "roundtrip":
            for cfg in POOL_KIND_CONFIGS[:2] + CONFIGS:
                for k in ((1, 2) if cfg["pool"] in ("int", "mp") else (0, 1, 3)):
                    seed = rng.randrange(2 ** 31)
                    if add("roundtrip", oracle_roundtrip(cfg, k, seed), cfg=cfg, k=k, seed=seed):
                        return found
        else:
            for j in range(4 if tier == "quick" else 24):
                cfg = CONFIGS[rng.randrange(len(CONFIGS))]
                k, k2, seed = rng.choice([1, 2, 3]), rng.choice([1, 2, 3]), rng.randrange(2 ** 31)
                if add("run", oracle_run(cfg, k, k2, seed, 96), cfg=cfg, save_every=k, resume_save_every=k2, seed=seed, n_total=96):
                    return found
    return found


def oracle_sm_roundtrip(cfg, k, seed, name, rng_seed):
    return judge_sm_roundtrip(sm_roundtrip_case(cfg, k, seed, name, rng_seed), name)


def oracle_sm_crash(cfg, name, seed, with_old, stale, tier, rng, eager_modes=(True, False), max_points=None, only=None):
    """crash injection on the real StateManager.save_state (any final name)"""
    ops, sizes, tmp_name, _, results = sm_crash_campaign(cfg, name, seed, with_old, stale, tier, rng, eager_modes, max_points)
    for pt, eager, code, outcome, detail in results:
        if only is not None and (pt, eager) != only:
            continue
        if code == 3:
            return dict(what="StateManager.save_state raised in the child before reaching the crash point", point=list(pt), eager=eager)
        ok = outcome in (("old",) if with_old else ("absent",)) + ("new",)
        if (pt == ("op", "done") or code == 0) and outcome != "new":
            ok = False
        if not ok:
            where = f"byte offset {pt[1]} of {sum(sizes)} (writes of sizes {sizes[:6]})" if pt[0] == "byte" \
                else f"the instant before `{pt[1]}`" if pt[1] != "done" else "the instant after the rename"
            return dict(what=f"process killed at {where} during StateManager.save_state({name!r}) ({'with' if with_old else 'without'} an "
                             f"existing complete file{', stale ' + tmp_name + ' present' if stale else ''}): {outcome}: {detail or 'unexpected content'}",
                        point=list(pt), eager=eager, ops=";".join(ops)[:200])
    return None


def sm_temp_suffix_finding():
    """witness F27 (harness/witnesses.py): StateManager.save_state('x.temp') over a complete file, the process killed right after
    the open and in the middle of the pickle.  Before /repo b1898a0 the temporary name `with_suffix(".temp")` WAS the final
    name, the save wrote in place and the survivor found a truncated file; `fails` = that happens."""
    import random
    ops, sizes, tmp_name, _, results = sm_crash_campaign(SM_CFGS[0], "x.temp", 11, True, False, "quick", random.Random(0), (True,),
                                                         points=[("op", "opened"), ("byte", 3000), ("byte", 10 ** 9)])
    bad = [(pt, outcome, detail) for pt, eager, code, outcome, detail in results if outcome not in ("old", "new")]
    seen = ", ".join(f"{list(pt)} -> {outcome}" for pt, eager, code, outcome, detail in results)
    if bad:
        return {"fails": True, "detail": f"StateManager.save_state('x.temp') over a complete file (temporary file {tmp_name!r}), process killed at "
                                         f"{list(bad[0][0])}: {bad[0][2]}"}
    return {"fails": False, "detail": f"StateManager.save_state('x.temp') over a complete file (temporary file {tmp_name!r}): {seen}"}


def oracle_crash_point(cfg, seed, with_old, point, eager, stale_tmp=False, name="a.state"):
    """one crash point (replay)"""
    root = tempfile.mkdtemp(prefix="tv08_")
    try:
        with _quiet(), warnings.catch_warnings():
            warnings.simplefilter("ignore")
            s = _prepared(cfg, 2, seed, root)
            final = os.path.join(root, name)
            old_bytes = old_dump = None
            if with_old:
                s.save_state(final)
                old_bytes = open(final, "rb").read()
                old_dump = dump_state(s.state)
                s.sample()
            new_dump = dump_state(s.state)
        if stale_tmp:
            with open(final + ".temp", "wb") as fh:
                fh.write(STALE)
        code = crash_one(s, final, tuple(point), eager)
        outcome, detail = classify_outcome(cfg, final, old_bytes, old_dump, new_dump)
        # exit code 0 = the crash point does not occur in this save (it completed): then the new checkpoint must be there
        ok = code in (0, 9) and outcome in (("old",) if with_old else ("absent",)) + ("new",) and \
            not ((code == 0 or tuple(point) == ("op", "done")) and outcome != "new")
        if ok:
            return None
        return dict(what=f"process killed at crash point {list(point)} during save_state ({'with' if with_old else 'without'} an existing "
                         f"complete checkpoint{', stale <final>.temp present' if stale_tmp else ''}), child exit code {code}: {outcome}: {detail or ''}",
                    point=list(point), eager=eager, stale_tmp=stale_tmp)
    finally:
        shutil.rmtree(root, ignore_errors=True)


def replay(obj):
    f = obj.get("failing_input", obj)
    if "witness" in f.get("replay", {}):
        from . import witnesses
        return witnesses.ALL[f["replay"]["witness"]]()
    kind = f.get("kind")
    if kind == "roundtrip":
        msg = oracle_roundtrip(f["cfg"], f["k"], f["seed"])
    elif kind == "run":
        msg = oracle_run(f["cfg"], f["save_every"], f["resume_save_every"], f["seed"], f["n_total"], n_total_resume=f.get("n_total_resume"))
    elif kind == "crash":
        msg = oracle_crash_point(f["cfg"], f["seed"], f["old_checkpoint"], tuple(f["point"]), f["eager"], f.get("stale_tmp", False),
                                 f.get("name", "a.state"))
    elif kind == "same-object":
        msg = oracle_same_object(f["cfg"], f["sequence"], f["seed"])
    elif kind == "meta":
        msg = oracle_meta(f["cfg"], f["k"], f["seed"], f["variant"])
    elif kind == "resave":
        msg = oracle_resave(f["cfg"], f["seed"], f["old_checkpoint"], f.get("stale_tmp", False))
    elif kind == "sm-roundtrip":
        msg = oracle_sm_roundtrip(f["cfg"], f["k"], f["seed"], f["name"], f.get("rng_seed", 0))
    elif kind == "sm-crash":
        msg = oracle_sm_crash(f["cfg"], f["name"], f["seed"], f["old_checkpoint"], f["stale_tmp"], "quick", common.rng_for("C08.replay"),
                              only=(tuple(f["point"]), f["eager"]) if "point" in f else None)
    else:
        found = search("quick", [])
        msg = found[0] if found else None
    return {"fails": msg is not None, "detail": msg}
