import TempestVerif.Drv.C01
import TempestVerif.Drv.C02
import TempestVerif.Drv.C03
import TempestVerif.Drv.C04
import TempestVerif.Drv.C05
import TempestVerif.Drv.C06
import TempestVerif.Drv.C07
import TempestVerif.Drv.C08
import TempestVerif.Drv.C09
import TempestVerif.Drv.C10
import TempestVerif.Drv.C11
import TempestVerif.Drv.C12
import TempestVerif.Drv.C13
import TempestVerif.Drv.C14
import TempestVerif.Drv.C15
import TempestVerif.Drv.C16
import TempestVerif.Drv.C17
import TempestVerif.Drv.C18
import TempestVerif.Drv.C19
import TempestVerif.Drv.C20
/-
  Model driver: one operation per input line, one result line per operation.
      <cmd> key=value key=value …
  By convention `<name>.F` evaluates a model at `Float` (IEEE bit patterns in and out, 16 hex digits)
  and `<name>.Q` at `Rat` (`p/q`).  Unknown or malformed operations answer `bad-op` (never a default).
  Each property owns `TempestVerif/Drv/Cxx.lean` and exports `handle`.
-/
open Drv

def handlers : List (String → List (String × String) → Option String) :=
  [C01.handle, C02.handle, C03.handle, C04.handle, C05.handle, C06.handle, C07.handle, C08.handle, C09.handle, C10.handle, C11.handle, C12.handle, C13.handle, C14.handle, C15.handle, C16.handle, C17.handle, C18.handle, C19.handle, C20.handle]

def dispatch (line : String) : String :=
  match (line.trimAscii.toString.splitOn " ").filter (· ≠ "") with
  | [] => "bad-op"
  | cmd :: rest =>
    let args := argMap rest
    match handlers.findSome? (fun h => h cmd args) with
    | some r => r
    | none => "bad-op"

partial def loop (h : IO.FS.Stream) (out : IO.FS.Stream) : IO Unit := do
  let line ← h.getLine
  if line.isEmpty then return ()
  out.putStrLn (dispatch line)
  loop h out

def main : IO Unit := do
  let out ← IO.getStdout
  loop (← IO.getStdin) out
  out.flush
