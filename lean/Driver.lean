import TempestVerif.Drv.C16
/-
  Model driver: one operation per input line, one result line per operation.
      <cmd>.<F|Q> key=value key=value …
  `F` evaluates the model at `Float` (bit patterns in, bit patterns out), `Q` at `Rat`.
  Unknown or malformed operations answer `bad-op` (never a default).
-/
open Drv

def dispatch (line : String) : String :=
  match (line.trimAscii.toString.splitOn " ").filter (· ≠ "") with
  | [] => "bad-op"
  | cmd :: rest =>
    let args := argMap rest
    match cmd with
    | "bc.F" => C16.bc Float args
    | "bc.Q" => C16.bc Rat args
    | _ => "bad-op"

partial def loop (h : IO.FS.Stream) (out : IO.FS.Stream) : IO Unit := do
  let line ← h.getLine
  if line.isEmpty then return ()
  out.putStrLn (dispatch line)
  loop h out

def main : IO Unit := do
  let out ← IO.getStdout
  loop (← IO.getStdin) out
  out.flush
