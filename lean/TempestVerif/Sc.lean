/-
  Scalar interface: exactly the scalar operations the modelled Python uses.
  One model definition is *executed* at `Float` (bit-exact / toleranced regimes) and at
  `Rat` (exact-dyadic regime) by the driver, and *reasoned about* at `ℝ` in `Props/`.
  No imports: model files stay Mathlib-free so the driver starts in well under a second.
-/

class Sc (α : Type) where
  add : α → α → α
  sub : α → α → α
  mul : α → α → α
  div : α → α → α
  neg : α → α
  ofNat : Nat → α
  /-- decimal literal `m · 10^(-e)` -/
  lit : Nat → Nat → α
  lt : α → α → Bool
  le : α → α → Bool
  /-- `floor`, as a value of the scalar type (like `np.floor`) -/
  floor : α → α
  /-- is this (integral) value even?  (`np.mod(n, 2.0) == 0`) -/
  isEven : α → Bool

namespace Sc
variable {α : Type} [Sc α]
@[inline] def zero : α := ofNat 0
@[inline] def one : α := ofNat 1
@[inline] def two : α := ofNat 2
@[inline] def gt (a b : α) : Bool := lt b a
@[inline] def ge (a b : α) : Bool := le b a
@[inline] def abs (a : α) : α := if lt a zero then neg a else a
@[inline] def max (a b : α) : α := if lt a b then b else a   -- NaN-free use only
@[inline] def min (a b : α) : α := if lt b a then b else a
def sum (l : List α) : α := l.foldl add zero
end Sc

/-- scalars with the transcendental functions (`Float` for execution, `ℝ` for proofs) -/
class ScT (α : Type) extends Sc α where
  exp : α → α
  log : α → α
  sqrt : α → α

instance : Sc Float where
  add := (· + ·)
  sub := (· - ·)
  mul := (· * ·)
  div := (· / ·)
  neg := fun a => -a
  ofNat := Float.ofNat
  lit := fun m e => Float.ofScientific m true e
  lt := fun a b => a < b
  le := fun a b => a ≤ b
  floor := Float.floor
  isEven := fun n => n - 2.0 * Float.floor (n / 2.0) == 0.0

instance : ScT Float where
  exp := Float.exp
  log := Float.log
  sqrt := Float.sqrt

instance : Sc Rat where
  add := (· + ·)
  sub := (· - ·)
  mul := (· * ·)
  div := (· / ·)
  neg := fun a => -a
  ofNat := fun n => (n : Rat)
  lit := fun m e => (m : Rat) / ((10 ^ e : Nat) : Rat)
  lt := fun a b => decide (a < b)
  le := fun a b => decide (a ≤ b)
  floor := fun a => (a.floor : Rat)
  isEven := fun n => n.floor % 2 == 0
