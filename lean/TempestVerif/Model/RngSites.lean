import TempestVerif.Model.RngRun
/-
  The RNG call sites of one sampler iteration, in program order, as an adaptive effect program (C09).  Core Lean only.

  Mirrors the RNG-relevant control flow of
      core.py      SamplerCore.execute_iteration            reweight → train → resample → mutate → commit
      steps/train.py     Trainer.run                         (clusterer.fit: private draws only) + ModeStatistics.from_particles / from_global
      modes.py           from_particles / from_global        np.random.choice(n, size=resample_factor*n, p=w)  per label group / once
      steps/resample.py  Resampler.run                       np.random.choice(…, size=n_particles, p=w)  |  systematic_resample(…)
      steps/mutate.py    Mutator.run                         warm-up: np.random.rand(N, D) [+ np.random.choice(finite_idx, size=n_inf)]
      mcmc.py            BaseMCMCRunner.run / _propose       per step: N × (gamma? + randn(D)), then np.random.rand(N)
  Everything that is not RNG plumbing (weights, likelihoods, the BIC decisions, the acceptance test, the step-count rule)
  is the abstract `Numerics`: pure functions of the data state and of the numbers drawn so far.
-/
namespace Model.RngSites
open Model.RngRun

/-- what a numpy.random call hands out -/
inductive Kind where
  | uniform   -- rand / random / random_sample / choice(…, p=w): one double in [0,1) per requested element
  | normal    -- randn: one standard normal per element
  | gamma     -- gamma(shape, scale): one variate
  | index     -- choice(a, size=n) WITHOUT p: one bounded integer per element
deriving DecidableEq, Repr

structure Cfg where
  nParticles : Nat
  nDim : Nat
  tpcn : Bool            -- parallel_mcmc: `if sample == "rwm": RWM else: tpCN`
  syst : Bool            -- Resampler.run: `if self.resample == "mult" … elif self.resample == "syst"` (validated to be one of the two)
  clustering : Bool
  resampleFactor : Nat   -- default of `resample_factor` in from_particles / from_global (read from the real signature by the suite)
  clusterInit : Nat      -- `n_init` of the sampler's clusterer (core.py: `HierarchicalGaussianMixture(n_init=1, …)`; read from the live object)
  warmCap : Nat          -- most batches one warm-up iteration may draw (`if n_drawn >= 1000 * self.n_particles: raise`): 1000
deriving Repr

/-- the deterministic numerics of an iteration (`D` data state, `M` fitted mode statistics) -/
structure Numerics (V D M : Type) where
  reweight : D → D                                     -- Reweighter.run: no RNG; fixes `beta` for the rest of the iteration
  isWarm : D → Bool                                    -- `beta == 0.0`
  infFin : D → Nat → List V → Nat × Nat                -- (#infinite, #finite) log-likelihoods of the k-th prior batch of this iteration
  warmCommit : D → Nat → List V → List V → D           -- state after a warm-up iteration (discarded batches, kept draws, replacement picks)
  warmAbort : D → D                                    -- `raise ValueError("no prior draw with finite log-likelihood …")`: the run ends here
  refit : D → Bool                                     -- `iter % cluster_every == 0 or iter == 0 or not self._clusterer_fitted`
  fits : D → List Nat                                  -- n_components of the successive GaussianMixture fits inside clusterer.fit
  groups : D → List Nat                                -- sizes of the label groups of the trimmed pool, in np.unique order
  pool : D → Nat                                       -- size of the trimmed pool
  train : D → List (List V) → M                        -- fit_mvstud on the resampled groups
  resampled : D → M → List V → D                       -- state after Resampler.run
  mcmcStep : D → M → List (Option V × List V) → List V → D   -- one MCMC sweep (proposal noise, accept uniforms)
  mcmcStop : D → Bool                                  -- `_check_convergence`
  commit : D → D                                       -- commit_current_to_history

variable {S V D M : Type}

/-- `for x in xs: r.append(f x)` -/
def forEach {X Y : Type} (f : X → Prog Kind S V Y) : List X → Prog Kind S V (List Y)
  | [] => .ret []
  | x :: xs => (f x).bind fun y => (forEach f xs).bind fun ys => .ret (y :: ys)

/-- Mutator.run, `beta == 0.0` branch, the redraw loop (since 959029e):
      while np.all(np.isinf(logl)):
          if n_drawn >= 1000 * self.n_particles: raise ValueError(…)
          u = np.random.rand(self.n_particles, self.n_dim); …; n_drawn += self.n_particles
    `k` = batches drawn so far minus one (the index of batch `us`), `fuel` = redraws still allowed.
    Result: `none` = the cap was hit (raise), `some (k, us)` = batch `k` is kept, `k` batches were discarded. -/
def warmRedraw (c : Cfg) (nu : Numerics V D M) (d : D) : Nat → Nat → List V → Prog Kind S V (Option (Nat × List V))
  | 0, k, us => .ret (if (nu.infFin d k us).2 = 0 then none else some (k, us))
  | f + 1, k, us =>
    if (nu.infFin d k us).2 = 0 then (drawN .uniform (c.nParticles * c.nDim)).bind (warmRedraw c nu d f (k + 1))
    else .ret (some (k, us))

/-- Mutator.run, `beta == 0.0` branch: first batch, redraw loop, then
      if np.any(inf) or n_drawn > n_particles: … if len(infinite_idx) > 0: idx = np.random.choice(finite_idx, size=len(infinite_idx)) -/
def warmIter (c : Cfg) (nu : Numerics V D M) (d : D) : Prog Kind S V D :=
  (drawN .uniform (c.nParticles * c.nDim)).bind fun us0 =>
    (warmRedraw c nu d (c.warmCap - 1) 0 us0).bind fun r =>
      match r with
      | none => .ret (nu.warmAbort d)
      | some (k, us) =>
        if 0 < (nu.infFin d k us).1 then
          (drawN .index (nu.infFin d k us).1).bind fun picks => .ret (nu.warmCommit d k us picks)
        else .ret (nu.warmCommit d k us [])

/-- Trainer.run, `beta > 0` (train.py:97-128): the clusterer draws from a private generator only;
    the Student-t fits resample each label group (or the whole pool) from the process-wide stream -/
def trainDraws (c : Cfg) (nu : Numerics V D M) (d : D) : Prog Kind S V (List (List V)) :=
  if c.clustering then
    (if nu.refit d then hgmmFit .uniform c.clusterInit (nu.fits d) else .ret ()).bind fun _ =>
      forEach (fun n => drawN .uniform (c.resampleFactor * n)) (nu.groups d)
  else
    (drawN .uniform (c.resampleFactor * nu.pool d)).bind fun r => .ret [r]

/-- Resampler.run, `beta > 0` (resample.py:79-84) -/
def resampleDraws (c : Cfg) : Prog Kind S V (List V) :=
  if c.syst then (systematicResample .uniform none).bind fun u => .ret [u]
  else drawN .uniform c.nParticles

/-- `_propose(k)`: tpCN draws the gamma scale then `randn(n_dim)` (mcmc.py:248,255); RWM `randn(n_dim)` (mcmc.py:315) -/
def propose (c : Cfg) : Prog Kind S V (Option V × List V) :=
  if c.tpcn then (draw1 .gamma).bind fun g => (drawN .normal c.nDim).bind fun z => .ret (some g, z)
  else (drawN .normal c.nDim).bind fun z => .ret (none, z)

/-- `for k in range(self.n_walkers): u_prime[k] = self._propose(k)` -/
def proposeAll (c : Cfg) : Nat → Prog Kind S V (List (Option V × List V))
  | 0 => .ret []
  | n + 1 => (propose c).bind fun p => (proposeAll c n).bind fun ps => .ret (p :: ps)

/-- `BaseMCMCRunner.run`: `while True: … if self._check_convergence(…): break` — at least one sweep; `fuel` more at most -/
def mcmcLoop (c : Cfg) (nu : Numerics V D M) (m : M) : Nat → D → Prog Kind S V D
  | 0, d =>
    (proposeAll c c.nParticles).bind fun ps => (drawN .uniform c.nParticles).bind fun us => .ret (nu.mcmcStep d m ps us)
  | f + 1, d =>
    (proposeAll c c.nParticles).bind fun ps => (drawN .uniform c.nParticles).bind fun us =>
      if nu.mcmcStop (nu.mcmcStep d m ps us) then .ret (nu.mcmcStep d m ps us)
      else mcmcLoop c nu m f (nu.mcmcStep d m ps us)

/-- `SamplerCore.execute_iteration` -/
def iteration (c : Cfg) (nu : Numerics V D M) (fuel : Nat) (d : D) : Prog Kind S V D :=
  if nu.isWarm (nu.reweight d) then warmIter c nu (nu.reweight d)
  else
    (trainDraws c nu (nu.reweight d)).bind fun tr =>
      (resampleDraws c).bind fun ru =>
        (mcmcLoop c nu (nu.train (nu.reweight d) tr) fuel
            (nu.resampled (nu.reweight d) (nu.train (nu.reweight d) tr) ru)).bind fun d3 =>
          .ret (nu.commit d3)

/-- `execute_iteration` with its checkpoint prologue (core.py):
      if save_every is not None: if (iter - t0) % save_every == 0 and iter != t0: self.save_sampler_state(…)
    the save reads the stream position (`saveState` = `np.random.get_state()`) and hands the checkpoint to the file system -/
def execIteration (c : Cfg) (nu : Numerics V D M) (fuel : Nat) (saving : D → Bool) (d : D) : Prog Kind S V D :=
  if saving d then (saveState d).bind fun _ => iteration c nu fuel d else iteration c nu fuel d

/-! ### closed-form request sequences (what the iteration asks of the process-wide stream) -/

/-- what was observed about one iteration -/
inductive Obs where
  | warm (discarded nInf nFin : Nat)              -- batches without a finite draw thrown away; counts of the batch kept
  | anneal (groups : List Nat) (steps : Nat)     -- label-group sizes ([pool] without clustering); number of MCMC sweeps
deriving Repr

def sweepReqs (c : Cfg) : List Kind :=
  (List.replicate c.nParticles ((if c.tpcn then [Kind.gamma] else []) ++ List.replicate c.nDim Kind.normal)).flatten
    ++ List.replicate c.nParticles Kind.uniform

def iterReqs (c : Cfg) : Obs → List Kind
  | .warm disc nInf nFin =>
    List.replicate ((disc + 1) * (c.nParticles * c.nDim)) Kind.uniform ++
      (if 0 < nInf ∧ 0 < nFin then List.replicate nInf Kind.index else [])
  | .anneal groups steps =>
    (groups.map fun n => List.replicate (c.resampleFactor * n) Kind.uniform).flatten ++
      List.replicate (if c.syst then 1 else c.nParticles) Kind.uniform ++
      (List.replicate steps (sweepReqs c)).flatten

/-- number of values one iteration takes from the process-wide stream, as a function of the configuration -/
def iterValues (c : Cfg) : Obs → Nat
  | .warm disc nInf nFin => (disc + 1) * (c.nParticles * c.nDim) + (if 0 < nInf ∧ 0 < nFin then nInf else 0)
  | .anneal groups steps =>
    c.resampleFactor * groups.sum + (if c.syst then 1 else c.nParticles)
      + steps * (c.nParticles * ((if c.tpcn then 1 else 0) + c.nDim) + c.nParticles)

/-! ### scripted numerics: the observables of an iteration given in advance (what the driver executes) -/

structure Script where
  warm : Bool
  disc : Nat           -- warm-up: batches without a finite draw before the one that is kept
  nInf : Nat
  nFin : Nat
  refit : Bool
  fits : List Nat
  groups : List Nat
  pool : Nat
  steps : Nat          -- sweeps still to run
deriving Repr

def scripted : Numerics V Script Unit where
  reweight := id
  isWarm := fun s => s.warm
  infFin := fun s k _ => if k < s.disc then (1, 0) else (s.nInf, s.nFin)
  warmCommit := fun s _ _ _ => s
  warmAbort := id
  refit := fun s => s.refit
  fits := fun s => s.fits
  groups := fun s => s.groups
  pool := fun s => s.pool
  train := fun _ _ => ()
  resampled := fun s _ _ => s
  mcmcStep := fun s _ _ _ => { s with steps := s.steps - 1 }
  mcmcStop := fun s => s.steps == 0
  commit := id

/-- a counting generator: the value handed out IS the stream position -/
def counter : KGen Kind Nat Nat := ⟨fun _ s => (s + 1, s), fun n => 1000000 * (n + 1)⟩

end Model.RngSites
