import TempestVerif.Model.Rng
/-
  Run-level model of the random streams of a sampler run (C09).  Core Lean only.

  `Model.Rng` has straight-line effect programs (a fixed list of draws / seedings).  The real code is ADAPTIVE: how
  many numbers it draws, and which branch it takes next, depends on the numbers drawn so far (the number of MCMC steps
  follows the acceptance rate, the warm-up redraws as many points as fell outside the likelihood support, …).  Here a
  program is an interaction tree: a draw hands the value to a continuation.  Two streams are modelled:
      the process-wide one (`np.random.<f>`, `np.random.seed`)                      → `draw`, `seed`
      one private generator (`self._rng = np.random.RandomState(k)`, `self._rng.rand()`) → `pnew`, `pdraw`
  and the two calls by which a checkpoint carries the stream position: `np.random.get_state()` → `getst`,
  `np.random.set_state(s)` → `setst`.
  A request kind `K` travels with each draw, because the state transformer of a numpy call depends on what is asked
  for (a double consumes two MT19937 words, a normal variate runs a rejection loop and caches its twin, …): the
  generator is ANY family of deterministic transformers `next k`.

  Every run returns its event log, so "stream position" (how many process-wide draws were consumed since the last
  seeding, and which) is a function of the log: `gkinds`, `advance`.
-/
namespace Model.RngRun

/-- a generator: one deterministic state transformer per request kind, and the seeding map -/
structure KGen (K S V : Type) where
  next : K → S → S × V
  seed : Nat → S

/-- adaptive effect program with result `R` -/
inductive Prog (K S V R : Type) where
  | ret (r : R)
  | draw (k : K) (cont : V → Prog K S V R)     -- np.random.<f>(…): one value of the process-wide stream
  | seed (n : Nat) (cont : Prog K S V R)       -- np.random.seed(n)
  | pnew (n : Nat) (cont : Prog K S V R)       -- self._rng = np.random.RandomState(n)
  | pdraw (k : K) (cont : V → Prog K S V R)    -- self._rng.<f>(…)
  | getst (cont : S → Prog K S V R)            -- np.random.get_state(): reads the position, consumes nothing
  | setst (s : S) (cont : Prog K S V R)        -- np.random.set_state(s): puts the process-wide stream to a stored position

variable {K S V R A B : Type}

def Prog.bind : Prog K S V A → (A → Prog K S V B) → Prog K S V B
  | .ret a, f => f a
  | .draw k c, f => .draw k fun v => (c v).bind f
  | .seed n c, f => .seed n (c.bind f)
  | .pnew n c, f => .pnew n (c.bind f)
  | .pdraw k c, f => .pdraw k fun v => (c v).bind f
  | .getst c, f => .getst fun s => (c s).bind f
  | .setst s c, f => .setst s (c.bind f)

instance : Monad (Prog K S V) where
  pure := .ret
  bind := Prog.bind

/-- one process-wide draw -/
def draw1 (k : K) : Prog K S V V := .draw k .ret
/-- one draw from `self._rng` -/
def pdraw1 (k : K) : Prog K S V V := .pdraw k .ret

/-- `n` successive process-wide draws of kind `k` (an array-valued call `rand(n)`, `randn(n)`, `choice(size=n, p=…)`) -/
def drawN (k : K) : Nat → Prog K S V (List V)
  | 0 => .ret []
  | n + 1 => .draw k fun v => (drawN k n).bind fun vs => .ret (v :: vs)

def pdrawN (k : K) : Nat → Prog K S V (List V)
  | 0 => .ret []
  | n + 1 => .pdraw k fun v => (pdrawN k n).bind fun vs => .ret (v :: vs)

/-- the two streams.  `priv = none` is the state of a `GaussianMixture` before any `RandomState` was created:
    `self._rng = np.random` (cluster.py:49), i.e. `self._rng.rand()` IS a process-wide draw -/
structure St (S : Type) where
  glob : S
  priv : Option S

inductive Ev (K V : Type) where
  | g (k : K) (v : V)        -- value handed out by the process-wide stream
  | gseed (n : Nat)          -- the process-wide stream was put to `seed n`
  | p (k : K) (v : V)        -- value handed out by the private generator
  | pseed (n : Nat)          -- a private generator was created from `n`
  | grestore                 -- the process-wide stream was put to a stored position (`set_state`)
deriving DecidableEq, Repr

structure Out (K S V R : Type) where
  st : St S
  res : R
  log : List (Ev K V)

def Out.cons (e : Ev K V) (o : Out K S V R) : Out K S V R := { o with log := e :: o.log }

/-- semantics -/
def run (g : KGen K S V) : Prog K S V R → St S → Out K S V R
  | .ret r, st => ⟨st, r, []⟩
  | .draw k c, st =>
    let sv := g.next k st.glob
    (run g (c sv.2) { st with glob := sv.1 }).cons (.g k sv.2)
  | .seed n c, st => (run g c { st with glob := g.seed n }).cons (.gseed n)
  | .pnew n c, st => (run g c { st with priv := some (g.seed n) }).cons (.pseed n)
  | .pdraw k c, st =>
    match st.priv with
    | none =>
      let sv := g.next k st.glob
      (run g (c sv.2) { st with glob := sv.1 }).cons (.g k sv.2)
    | some ps =>
      let sv := g.next k ps
      (run g (c sv.2) { st with priv := some sv.1 }).cons (.p k sv.2)
  | .getst c, st => run g (c st.glob) st
  | .setst s c, st => (run g c { st with glob := s }).cons .grestore

/-! ### reading a log -/

/-- kinds of the process-wide draws, in order (the consumed part of the stream) -/
def gkinds : List (Ev K V) → List K
  | [] => []
  | .g k _ :: l => k :: gkinds l
  | _ :: l => gkinds l

/-- values handed out by the process-wide stream, in order (the "innovations") -/
def gvals : List (Ev K V) → List V
  | [] => []
  | .g _ v :: l => v :: gvals l
  | _ :: l => gvals l

/-- values handed out by the private generator -/
def pvals : List (Ev K V) → List V
  | [] => []
  | .p _ v :: l => v :: pvals l
  | _ :: l => pvals l

/-- does the log hold an event that REPLACES the process-wide state (a seeding or a restore)? -/
def hasGseed : List (Ev K V) → Bool
  | [] => false
  | .gseed _ :: _ => true
  | .grestore :: _ => true
  | _ :: l => hasGseed l

/-- the generator state after serving the requests `ks` from state `s` -/
def advance (g : KGen K S V) : List K → S → S
  | [], s => s
  | k :: ks, s => advance g ks (g.next k s).1

/-- the values those requests receive -/
def emit (g : KGen K S V) : List K → S → List V
  | [], _ => []
  | k :: ks, s => (g.next k s).2 :: emit g ks (g.next k s).1

/-! ### the RNG plumbing of the package, statement by statement -/

/-- `tools.systematic_resample(size, weights, random_state)` (tools.py:213-219):
      if random_state is not None: np.random.seed(random_state)
      positions = (np.random.random() + np.arange(size)) / size -/
def systematicResample (u : K) (randomState : Option Nat) : Prog K S V V :=
  match randomState with
  | some n => .seed n (draw1 u)
  | none => draw1 u

/-- `GaussianMixture.fit` / `_initialize_parameters` (cluster.py:97-99, 141-161), RNG part:
      if self.random_state is not None: self._rng = np.random.RandomState(self.random_state)
      for init in range(self.n_init):
          r = self._rng.rand() …                                  # first centre
          for k in range(1, self.n_components): r = self._rng.rand() …
    (one draw per component and initialisation; `n_components ≥ 1`) -/
def gmmInits (u : K) (nComp : Nat) : Nat → Prog K S V (List (List V))
  | 0 => .ret []
  | n + 1 => (pdrawN u nComp).bind fun r => (gmmInits u nComp n).bind fun rs => .ret (r :: rs)

def gmmFit (u : K) (randomState : Option Nat) (nInit nComp : Nat) : Prog K S V (List (List V)) :=
  match randomState with
  | some n => .pnew n (gmmInits u nComp nInit)
  | none => gmmInits u nComp nInit

/-- `HierarchicalGaussianMixture.fit` (cluster.py:471-549): a data-dependent sequence of
    `GaussianMixture(n_components=c, n_init=self.n_init, random_state=42).fit(…)` with `c ∈ {1, 2}` — each a FRESH object.
    `comps` lists the `c` of the successive fits (parent, child, parent, child, …, then one per final cluster);
    which fits happen depends on the data only (BIC values), not on the process-wide stream. -/
def hgmmFit (u : K) (nInit : Nat) : List Nat → Prog K S V Unit
  | [] => .ret ()
  | c :: cs => (gmmFit u (some 42) nInit c).bind fun _ => hgmmFit u nInit cs

/-- `SamplerCore._initialize_fresh` (core.py:398-399):  `if self.config.random_state is not None: np.random.seed(…)` -/
def initFresh (randomState : Option Nat) : Prog K S V Unit :=
  match randomState with
  | some n => .seed n (.ret ())
  | none => .ret ()

/-- a checkpoint, as far as the streams are concerned: the data state and the stored `rng_state`
    (`none` = a file written before the position was recorded: `d.get("rng_state")` is None) -/
structure Ckpt (S A : Type) where
  rng : Option S
  data : A

/-- `SamplerCore.save_sampler_state`, RNG part:  `d["rng_state"] = np.random.get_state()` — reads, consumes nothing -/
def saveState (d : A) : Prog K S V (Ckpt S A) := .getst fun s => .ret ⟨some s, d⟩

/-- `SamplerCore.load_sampler_state`, RNG part:
      if d.get("rng_state") is not None: np.random.set_state(d["rng_state"])
    (the stored `random_state` is no longer used to reseed) -/
def loadState (rng : Option S) : Prog K S V Unit :=
  match rng with
  | some s => .setst s (.ret ())
  | none => .ret ()

/-- the rule BEFORE the repair db2b14b (kept to document finding F31):
      if "random_state" in d and d["random_state"] is not None: np.random.seed(d["random_state"]) -/
def loadSeedOld (loaded : Option Nat) : Prog K S V Unit := initFresh loaded

/-- `while self._not_termination(): self.execute_iteration(…)` with explicit fuel (`Model.Run.loop`, effectful) -/
def iterate (cont : A → Bool) (iter : A → Prog K S V A) : Nat → A → Prog K S V A
  | 0, d => .ret d
  | n + 1, d => if cont d then (iter d).bind (iterate cont iter n) else .ret d

/-- `SamplerCore.run_sampling`, RNG-relevant skeleton (core.py, as of aeb0399):
      if resume_state_path is not None:          load the checkpoint (restore the stored position), continue from its data
      elif self.state.get_history_length() > 0:  a state was loaded / a finished run is extended: continue, NO seeding
      else:                                      self._initialize_fresh()   (seed when random_state is given)
      while self._not_termination(): self.execute_iteration(…)
    `hasHistory d` = "the history of data state `d` holds a committed batch".  The sampler's own `config.random_state` is
    used on the last branch only. -/
def runSampling (randomState : Option Nat) (resume : Option (Ckpt S A)) (hasHistory : A → Bool) (cont : A → Bool)
    (iter : A → Prog K S V A) (fuel : Nat) (d0 : A) : Prog K S V A :=
  match resume with
  | some ck => (loadState ck.rng).bind fun _ => iterate cont iter fuel ck.data
  | none =>
    if hasHistory d0 then iterate cont iter fuel d0
    else (initFresh randomState).bind fun _ => iterate cont iter fuel d0

/-- the no-resume branch as it was before aeb0399 (kept to document finding F34): seed whenever `random_state` is given,
    whether or not the sampler already holds a history -/
def runSamplingOldFresh (randomState : Option Nat) (cont : A → Bool) (iter : A → Prog K S V A) (fuel : Nat) (d0 : A) :
    Prog K S V A :=
  (initFresh randomState).bind fun _ => iterate cont iter fuel d0

/-- the resume branch as it was before db2b14b: reseed with the stored `random_state` -/
def runSamplingOldResume (loaded : Option Nat) (cont : A → Bool) (iter : A → Prog K S V A) (fuel : Nat) (dck : A) :
    Prog K S V A :=
  (loadSeedOld loaded).bind fun _ => iterate cont iter fuel dck

/-- exactly `n` iterations, keeping every intermediate data state (for statements about "iteration i") -/
def iterateN (iter : A → Prog K S V A) : Nat → A → Prog K S V (List A)
  | 0, _ => .ret []
  | n + 1, d => (iter d).bind fun d' => (iterateN iter n d').bind fun ds => .ret (d' :: ds)

end Model.RngRun
