/-
  Model of `SamplerCore._log_like` (core.py:325-377), the wrapper every step calls instead of the user's
  likelihood (C07, clause audit).  Core Lean only.

      if vectorize:          return log_likelihood(x), None                  -- the whole batch in one call
      elif pool is not None: results = list(pool.map(log_likelihood, x))     -- `map` returns in input order
      else:                  results = list(map(log_likelihood, x))
      if results and isinstance(results[0], (tuple, list)) and len(results[0]) > 1:
          blob = [item[1:] for item in results]          -- TypeError if some item is a bare number
          logl = np.array([float(item[0]) for item in results])
          blob = np.array(blob, dtype=dt)  (row fill for a sub-array dtype), squeeze      -- `pack`
          return logl, blob
      else:
          logl = np.array([float(value) for value in results])   -- TypeError if some value is a tuple
          return logl, None

  Whether blobs are returned is decided by the FIRST result alone; a batch that mixes bare numbers and tuples
  raises in either branch.  `pack` (numpy's array construction + squeeze) is a parameter.
-/
namespace Model.LogLike

/-- what the user's likelihood returns for one point -/
inductive Ret (L I : Type) where
  | num (l : L)                       -- a bare number
  | tup (l : L) (items : List I)      -- a tuple / list `(logl, item_1, …, item_k)`, k ≥ 0
deriving Repr, DecidableEq

inductive Mode where
  | vectorized | pool | serial
deriving Repr, DecidableEq

variable {X L I R : Type}

/-- `results and isinstance(results[0], (tuple, list)) and len(results[0]) > 1` -/
def firstHasBlobs : List (Ret L I) → Bool
  | .tup _ (_ :: _) :: _ => true
  | _ => false

/-- `[item[1:] …]`, `[float(item[0]) …]`: a bare number has no `[1:]` (TypeError) -/
def tupParts : List (Ret L I) → Option (List L × List (List I))
  | [] => some ([], [])
  | .tup l items :: rs => (tupParts rs).map fun p => (l :: p.1, items :: p.2)
  | .num _ :: _ => none

/-- `[float(value) …]`: `float` of a tuple is a TypeError -/
def numParts : List (Ret L I) → Option (List L)
  | [] => some []
  | .num l :: rs => (numParts rs).map fun p => l :: p
  | .tup _ _ :: _ => none

/-- `(logl, blobs)`; `none` = an exception -/
def logLike (mode : Mode) (lkVec : List X → List L) (lk : X → Ret L I) (pack : List (List I) → Option (List R))
    (xs : List X) : Option (List L × Option (List R)) :=
  match mode with
  | .vectorized => some (lkVec xs, none)
  | _ =>
    let results := xs.map lk
    if firstHasBlobs results then
      (tupParts results).bind fun p => (pack p.2).map fun b => (p.1, some b)
    else (numParts results).map fun ls => (ls, none)

/-- numpy's array construction is row-wise: row `i` of the packed array depends on the items of result `i` only
    (shape / dtype problems make it raise for the whole batch) -/
def RowWise (pack : List (List I) → Option (List R)) (norm : List I → R) : Prop :=
  ∀ bs out, pack bs = some out → out = bs.map norm

def Ret.logl : Ret L I → L
  | .num l => l
  | .tup l _ => l

def Ret.items : Ret L I → List I
  | .num _ => []
  | .tup _ items => items

/-- an executable `pack` for the driver: an item is its flattened payload; rows must agree in the shapes of their
    items (else numpy raises: inhomogeneous shape), and the packed row is the concatenated payload -/
def packFlat (bs : List (List (List Int))) : Option (List (List Int)) :=
  match bs with
  | [] => some []
  | b :: _ =>
    let sig := b.map List.length
    if bs.all (fun r => r.map List.length == sig) then some (bs.map List.flatten) else none

end Model.LogLike
