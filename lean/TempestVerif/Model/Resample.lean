import TempestVerif.Sc
/-
  Model of the two resampling schemes (C06; the gather that follows is C07's).

  `tempest/tools.py: systematic_resample(size, weights)`  (as it is now, after the `fix:` commits):
      if abs(np.sum(weights) - 1.0) > SQRTEPS:                  -- SQRTEPS = sqrt(2^-52) = 2^-26
          weights = np.array(weights) / np.sum(weights)
      positions = (np.random.random() + np.arange(size)) / size
      j = 0
      positive = np.flatnonzero(np.asarray(weights) > 0)        -- since /repo 5a51476: the comb stops at the last index of
      j_max = positive[-1] if len(positive) else len(weights) - 1   -- POSITIVE weight (trailing zero weights are never selected)
      cumulative_sum = weights[0]                               -- IndexError on an empty vector
      for i in range(size):
          while j < j_max and positions[i] >= cumulative_sum:
              j += 1; cumulative_sum += weights[j]
          indeces[i] = j

  `tempest/steps/resample.py: Resampler.run`, scheme "mult":
      np.random.choice(np.arange(len(weights)), size=n, replace=True, p=weights)
  numpy legacy `RandomState.choice` with `p`:
      cdf = p.cumsum(); cdf /= cdf[-1]; uniform_samples = random_sample(size)
      idx = cdf.searchsorted(uniform_samples, side='right')
  (numpy's validation of `p` — ValueError when the compensated sum is off by more than 2^-26, on a
  negative or NaN entry — is not modelled; the harness feeds only vectors numpy accepts.)
-/
namespace Model.Resample
variable {α : Type} [Sc α]

/-- `math.sqrt(np.finfo(np.float64).eps)` = 2^-26, exactly (in `Float`, `Rat` and `ℝ`) -/
def sqrtEps : α := Sc.div Sc.one (Sc.ofNat 67108864)

/-- `if abs(s - 1.0) > SQRTEPS: weights = weights / s`, where `s` is the value of `np.sum(weights)` -/
def renorm (s : α) (w : List α) : List α :=
  if Sc.gt (Sc.abs (Sc.sub s Sc.one)) sqrtEps then w.map (fun x => Sc.div x s) else w

/-- `positions[i] = (u0 + i) / size` -/
def position (n : Nat) (u0 : α) (i : Nat) : α := Sc.div (Sc.add u0 (Sc.ofNat i)) (Sc.ofNat n)

/-- the inner `while j < j_max and pos >= c: j += 1; c += w[j]` on state `(j, c)`; explicit fuel -/
def advance (w : List α) (jmax : Nat) (pos : α) : Nat → Nat → α → Nat × α
  | 0, j, c => (j, c)
  | fuel + 1, j, c =>
    if j < jmax && Sc.ge pos c then
      match w[j + 1]? with
      | some x => advance w jmax pos fuel (j + 1) (Sc.add c x)
      | none => (j, c)          -- not reachable: j < jmax = len w - 1
    else (j, c)

/-- the outer `for i in range(size)` over the given list of `i`s, threading `(j, c)` -/
def run (w : List α) (jmax : Nat) (pos : Nat → α) : List Nat → Nat → α → List Nat
  | [], _, _ => []
  | i :: is, j, c =>
    let st := advance w jmax (pos i) w.length j c
    st.1 :: run w jmax pos is st.1 st.2

/-- position (from the head) of the last entry `> 0`, if there is one -/
@[simp] def lastPos? : List α → Option Nat
  | [] => none
  | x :: xs => match lastPos? xs with
    | some k => some (k + 1)
    | none => if Sc.gt x Sc.zero then some 0 else none

/-- `j_max`: `np.flatnonzero(weights > 0)[-1]`, or `len(weights) - 1` when no weight is positive -/
@[simp] def lastPositive (v : List α) : Nat := (lastPos? v).getD (v.length - 1)

/-- `systematic_resample(n, w)` with `np.random.random() = u0` and `np.sum(w) = s`;
    `none` = `IndexError` (`weights[0]` on an empty vector). -/
def systematicWith (s : α) (n : Nat) (w : List α) (u0 : α) : Option (List Nat) :=
  let v := renorm s w
  match v with
  | [] => none
  | c0 :: _ => some (run v (lastPositive v) (position n u0) (List.range n) 0 c0)

def systematic (n : Nat) (w : List α) (u0 : α) : Option (List Nat) :=
  systematicWith (Sc.sum w) n w u0

/-- the rule BEFORE /repo 5a51476 (`j_max = len(weights) - 1`: the last index absorbed the shortfall of the running sum even
    when its weight was 0) — kept for the witness of that defect -/
def systematicWithOld (s : α) (n : Nat) (w : List α) (u0 : α) : Option (List Nat) :=
  let v := renorm s w
  match v with
  | [] => none
  | c0 :: _ => some (run v (v.length - 1) (position n u0) (List.range n) 0 c0)

def systematicOld (n : Nat) (w : List α) (u0 : α) : Option (List Nat) :=
  systematicWithOld (Sc.sum w) n w u0

/-! ### `np.sum` on a contiguous float64 vector: numpy's pairwise summation

    static npy_double pairwise_sum(a, n):
        if n < 8:      res = 0.; for i in range(n): res += a[i]
        elif n <= 128: r[0..7] = a[0..7]
                       for i in range(8, n - n % 8, 8): r[k] += a[i+k]  (k = 0..7)
                       res = ((r0+r1)+(r2+r3)) + ((r4+r5)+(r6+r7))
                       for i in range(n - n % 8, n): res += a[i]
        else:          n2 = n/2; n2 -= n2 % 8; return pairwise_sum(a, n2) + pairwise_sum(a+n2, n-n2)
    and the reduction starts from the identity: `np.sum(a) = 0. + pairwise_sum(a, n)` (so `np.sum([-0.]*8) = +0.`).
    Checked bit-for-bit against numpy by the correspondence (suite `np.sum`). -/

/-- the unrolled loop: add successive chunks of 8 onto the 8 accumulators; explicit fuel -/
def fold8 (r : List α) (rest : List α) : Nat → List α
  | 0 => r
  | fuel + 1 =>
    if rest.length < 8 then r
    else fold8 (List.zipWith Sc.add r (rest.take 8)) (rest.drop 8) fuel

/-- `((r0+r1)+(r2+r3)) + ((r4+r5)+(r6+r7))` -/
def tree8 (r : List α) : α :=
  match r with
  | [a, b, c, d, e, f, g, h] =>
    Sc.add (Sc.add (Sc.add a b) (Sc.add c d)) (Sc.add (Sc.add e f) (Sc.add g h))
  | _ => r.foldl Sc.add Sc.zero          -- not reachable: there are always exactly 8 accumulators

/-- a block of `8 ≤ n ≤ 128` elements -/
def pwBlock (l : List α) : α :=
  let m := l.length - l.length % 8
  let r := fold8 (l.take 8) ((l.take m).drop 8) l.length
  (l.drop m).foldl Sc.add (tree8 r)

def pairwiseSum : Nat → List α → α
  | 0, l => l.foldl Sc.add Sc.zero       -- fuel exhausted (not reachable with fuel = length)
  | fuel + 1, l =>
    if l.length < 8 then l.foldl Sc.add Sc.zero
    else if l.length ≤ 128 then pwBlock l
    else
      let n2 := l.length / 2 - (l.length / 2) % 8
      Sc.add (pairwiseSum fuel (l.take n2)) (pairwiseSum fuel (l.drop n2))

/-- `np.sum(w)` -/
def npSum (w : List α) : α := Sc.add Sc.zero (pairwiseSum w.length w)

/-- `systematic_resample` with nothing passed in: `np.sum` is the pairwise sum above -/
def systematicNp (n : Nat) (w : List α) (u0 : α) : Option (List Nat) :=
  systematicWith (npSum w) n w u0

/-! ### multinomial: numpy legacy `choice(p=…)` -/

def cumsumFrom (acc : α) : List α → List α
  | [] => []
  | x :: xs => let a := Sc.add acc x; a :: cumsumFrom a xs

/-- `np.cumsum` (sequential accumulation) -/
def cumsum : List α → List α
  | [] => []
  | x :: xs => x :: cumsumFrom x xs

/-- `cdf.searchsorted(u, side='right')` on a sorted array: the number of entries `≤ u` -/
def searchsortedRight (cdf : List α) (u : α) : Nat := cdf.countP (fun c => Sc.le c u)

/-- `cdf = cumsum p; cdf /= cdf[-1]` ; `none` for an empty vector (numpy: ValueError) -/
def normCdf (w : List α) : Option (List α) :=
  let cdf := cumsum w
  match cdf.getLast? with
  | none => none
  | some last => some (cdf.map (fun c => Sc.div c last))

/-- indices drawn for the uniforms `us` -/
def multinomial (w : List α) (us : List α) : Option (List Nat) :=
  (normCdf w).map fun cdf => us.map (searchsortedRight cdf)

/-! ### the callers: `Resampler.run` (steps/resample.py) and `compute_posterior(resample=True)` (core.py)

      beta = self.state.get_current("beta")
      if beta == 0.0: …set assignments to zeros…; return                       -- warm-up: nothing is resampled
      if self.resample == "mult":   idx = np.random.choice(np.arange(len(weights)), size=self.n_particles, replace=True, p=weights)
      elif self.resample == "syst": idx = systematic_resample(self.n_particles, weights=weights)
      u[idx], x[idx], logl[idx], blobs[idx]                                    -- the gather is C07's
    Any other scheme string leaves `idx_resampled` unbound (UnboundLocalError; excluded by config validation, C18).

      idx = systematic_resample(len(weights), weights)                         -- compute_posterior, resample branch
-/
inductive Scheme where
  | mult | syst | other
  deriving DecidableEq, Repr

inductive RunResult where
  | skipped                         -- beta = 0
  | indices (idx : List Nat)
  | indexError | valueError | unbound
  deriving DecidableEq, Repr

/-- the index vector `Resampler.run` gathers with; `us` = the uniforms numpy's generator hands to `choice` -/
def resamplerRun (betaIsZero : Bool) (scheme : Scheme) (nParticles : Nat) (w : List α) (u0 : α) (us : List α) :
    RunResult :=
  if betaIsZero then .skipped else
  match scheme with
  | .mult => match multinomial w us with
    | some idx => .indices idx
    | none => .valueError
  | .syst => match systematicNp nParticles w u0 with
    | some idx => .indices idx
    | none => .indexError
  | .other => .unbound

/-- the index vector of `compute_posterior(resample=True)` -/
def posteriorResample (w : List α) (u0 : α) : Option (List Nat) := systematicNp w.length w u0

end Model.Resample
