import TempestVerif.Sc
/-
  Model of the two resampling schemes (C06; the gather that follows is C07's).

  `tempest/tools.py: systematic_resample(size, weights)`  (as it is now, after the `fix:` commits):
      if abs(np.sum(weights) - 1.0) > SQRTEPS:                  -- SQRTEPS = sqrt(2^-52) = 2^-26
          weights = np.array(weights) / np.sum(weights)
      positions = (np.random.random() + np.arange(size)) / size
      j = 0; j_max = len(weights) - 1
      cumulative_sum = weights[0]                               -- IndexError on an empty vector
      for i in range(size):
          while j < j_max and positions[i] >= cumulative_sum:
              j += 1; cumulative_sum += weights[j]
          indeces[i] = j

  `tempest/steps/resample.py: Resampler.run`, scheme "mult":
      np.random.choice(np.arange(len(weights)), size=n, replace=True, p=weights)
  numpy legacy `RandomState.choice` with `p`:
      cdf = p.cumsum(); cdf /= cdf[-1]; uniform_samples = random_sample(size)
      idx = cdf.searchsorted(uniform_samples, side='right')
  (numpy's validation of `p` — ValueError when the compensated sum is off by more than 2^-26, on a
  negative or NaN entry — is not modelled; the harness feeds only vectors numpy accepts.)
-/
namespace Model.Resample
variable {α : Type} [Sc α]

/-- `math.sqrt(np.finfo(np.float64).eps)` = 2^-26, exactly (in `Float`, `Rat` and `ℝ`) -/
def sqrtEps : α := Sc.div Sc.one (Sc.ofNat 67108864)

/-- `if abs(s - 1.0) > SQRTEPS: weights = weights / s`, where `s` is the value of `np.sum(weights)` -/
def renorm (s : α) (w : List α) : List α :=
  if Sc.gt (Sc.abs (Sc.sub s Sc.one)) sqrtEps then w.map (fun x => Sc.div x s) else w

/-- `positions[i] = (u0 + i) / size` -/
def position (n : Nat) (u0 : α) (i : Nat) : α := Sc.div (Sc.add u0 (Sc.ofNat i)) (Sc.ofNat n)

/-- the inner `while j < j_max and pos >= c: j += 1; c += w[j]` on state `(j, c)`; explicit fuel -/
def advance (w : List α) (jmax : Nat) (pos : α) : Nat → Nat → α → Nat × α
  | 0, j, c => (j, c)
  | fuel + 1, j, c =>
    if j < jmax && Sc.ge pos c then
      match w[j + 1]? with
      | some x => advance w jmax pos fuel (j + 1) (Sc.add c x)
      | none => (j, c)          -- not reachable: j < jmax = len w - 1
    else (j, c)

/-- the outer `for i in range(size)` over the given list of `i`s, threading `(j, c)` -/
def run (w : List α) (jmax : Nat) (pos : Nat → α) : List Nat → Nat → α → List Nat
  | [], _, _ => []
  | i :: is, j, c =>
    let st := advance w jmax (pos i) w.length j c
    st.1 :: run w jmax pos is st.1 st.2

/-- `systematic_resample(n, w)` with `np.random.random() = u0` and `np.sum(w) = s`;
    `none` = `IndexError` (`weights[0]` on an empty vector). -/
def systematicWith (s : α) (n : Nat) (w : List α) (u0 : α) : Option (List Nat) :=
  let v := renorm s w
  match v with
  | [] => none
  | c0 :: _ => some (run v (v.length - 1) (position n u0) (List.range n) 0 c0)

def systematic (n : Nat) (w : List α) (u0 : α) : Option (List Nat) :=
  systematicWith (Sc.sum w) n w u0

/-! ### multinomial: numpy legacy `choice(p=…)` -/

def cumsumFrom (acc : α) : List α → List α
  | [] => []
  | x :: xs => let a := Sc.add acc x; a :: cumsumFrom a xs

/-- `np.cumsum` (sequential accumulation) -/
def cumsum : List α → List α
  | [] => []
  | x :: xs => x :: cumsumFrom x xs

/-- `cdf.searchsorted(u, side='right')` on a sorted array: the number of entries `≤ u` -/
def searchsortedRight (cdf : List α) (u : α) : Nat := cdf.countP (fun c => Sc.le c u)

/-- `cdf = cumsum p; cdf /= cdf[-1]` ; `none` for an empty vector (numpy: ValueError) -/
def normCdf (w : List α) : Option (List α) :=
  let cdf := cumsum w
  match cdf.getLast? with
  | none => none
  | some last => some (cdf.map (fun c => Sc.div c last))

/-- indices drawn for the uniforms `us` -/
def multinomial (w : List α) (us : List α) : Option (List Nat) :=
  (normCdf w).map fun cdf => us.map (searchsortedRight cdf)

end Model.Resample
