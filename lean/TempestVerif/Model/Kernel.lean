import TempestVerif.Sc
import TempestVerif.Model.Boundary
/-
  Canonical model of the two mutation kernels of `tempest/mcmc.py` (C03; the scalar part is reused by C10).

  Python, one walker `k` of one step of `BaseMCMCRunner.run` (c = assignments[k]), after the fix of F16 (out-of-cube
  proposals are REJECTED, not redrawn):

    tpCN  diff = u[k] - mu[c]
          dot  = diff @ inv_cov[c] @ diff
          g    = np.random.gamma(shape=(n_dim + nu[c]) / 2, scale=2.0 / (nu[c] + dot));   s = 1.0 / g
          p    = mu[c] + sqrt(1.0 - sigma**2.0) * diff + sigma * sqrt(s) * chol[c] @ randn(n_dim)      -- ((sigma*sqrt s) * chol) @ z
          return apply_boundary_conditions(p, periodic, reflective)                                      -- ONE draw, no loop
    RWM   p = u[k] + sigma * chol[c] @ randn(n_dim);  return apply_boundary_conditions(p, ...)
    run   in_bounds = check_bounds(u_prime);  u_prime[~in_bounds] = u[~in_bounds]      -- rejected walker evaluated at its current point
          factor = -A + B   (tpCN; A = -0.5 (n_dim + nu) log(1 + dot'/nu) at u_prime, B likewise at u)    |   0 (RWM)
          alpha = nan_to_num(minimum(1.0, exp(beta * (logl' - logl) + factor)), nan=0.0);   alpha[~in_bounds] = 0.0
          accept = rand < alpha;   after accept/reject:  sigma[c] <- _adapt_sigma(c, mean alpha of the cluster)

  The first block are the scalar expressions in canonical form (theorems in `Props/C03.lean` are about these; the
  regenerated `Gen/Kernel.lean` is tied to them by the bridging obligations `gen_eq_canon_*`).  The second block is an
  executable one-step model (lists, any dimension; the harness uses d ≤ 3) run at `Float` by the dynamic tie.
-/
namespace Model.Kernel
variable {α : Type} [ScT α]

/-! ### scalar expressions -/

def gammaShape (d nu : α) : α := Sc.div (Sc.add d nu) Sc.two
def gammaScale (nu dot : α) : α := Sc.div Sc.two (Sc.add nu dot)
def sFromGamma (g : α) : α := Sc.div Sc.one g

/-- coefficient of `(u - mu)` in the tpCN proposal: `sqrt(1 - sigma^2)` -/
def diffCoef (sigma : α) : α := ScT.sqrt (Sc.sub Sc.one (Sc.mul sigma sigma))
/-- scalar multiplying `chol @ z` in the tpCN proposal: `sigma * sqrt s` -/
def noiseScale (sigma s : α) : α := Sc.mul sigma (ScT.sqrt s)

/-- log of the Student-t kernel `(1 + dot/nu)^(-(d+nu)/2)` as the code evaluates it -/
def logT (d nu dot : α) : α :=
  Sc.mul (Sc.mul (Sc.neg (Sc.lit 5 1)) (Sc.add d nu)) (ScT.log (Sc.add Sc.one (Sc.div dot nu)))

/-- `-A + B`: A at the proposed point (`dotp`), B at the current point (`dot`) -/
def tpcnLogFactor (d nu dot dotp : α) : α := Sc.add (Sc.neg (logT d nu dotp)) (logT d nu dot)
def rwmLogFactor : α := Sc.zero

/-- `np.minimum(a, b)` on scalars (NaN-propagating) -/
def npMinimum (a b : α) : α :=
  if Sc.le a a then (if Sc.le b b then (if Sc.lt b a then b else a) else b) else a
/-- `np.nan_to_num(x, nan=0.0)` -/
def nanToZero (x : α) : α := if Sc.le x x then x else Sc.zero

def acceptProb (beta l lp factor : α) : α :=
  nanToZero (npMinimum Sc.one (ScT.exp (Sc.add (Sc.mul beta (Sc.sub lp l)) factor)))
/-- `alpha[~in_bounds] = 0.0` -/
def alphaOutOfBounds (_alpha : α) : α := Sc.zero
/-- acceptance probability of a walker given whether its proposal passed `check_bounds` -/
def boundedAlpha (inb : Bool) (alpha : α) : α := if inb then alpha else alphaOutOfBounds alpha
def acceptDecision (r alpha : α) : Bool := Sc.lt r alpha

/-- `sigma + 1/(iteration+1) * (mean_accept - 0.234)` -/
def adaptRaw (sigma iter acc : α) : α :=
  Sc.add sigma (Sc.mul (Sc.div Sc.one (Sc.add iter Sc.one)) (Sc.sub acc (Sc.lit 234 3)))
/-- tpCN: clipped to `[0, min(sigma_0, 0.99)]` -/
def tpcnAdapt (sigma iter acc sigma0 : α) : α :=
  Sc.min (Sc.max (adaptRaw sigma iter acc) Sc.zero) (Sc.min sigma0 (Sc.lit 99 2))
def rwmAdapt (sigma iter acc _sigma0 : α) : α := adaptRaw sigma iter acc

/-! ### executable one-step model -/

def dotv (a b : List α) : α := Sc.sum (List.zipWith Sc.mul a b)
def matVec (m : List (List α)) (v : List α) : List α := m.map fun row => dotv row v
/-- columns of a rectangular matrix given by rows -/
def columns : List (List α) → List (List α)
  | [] => []
  | [r] => r.map fun x => [x]
  | r :: rs => List.zipWith List.cons r (columns rs)
/-- `v @ m` -/
def vecMat (v : List α) (m : List (List α)) : List α := (columns m).map fun col => dotv v col
/-- `v @ m @ v` -/
def qform (v : List α) (m : List (List α)) : α := dotv (vecMat v m) v
def vsub (a b : List α) : List α := List.zipWith Sc.sub a b
def vadd (a b : List α) : List α := List.zipWith Sc.add a b
def scaleMat (c : α) (m : List (List α)) : List (List α) := m.map fun row => row.map (Sc.mul c)

/-- `mu + sqrt(1 - sigma**2) * diff + sigma * sqrt(s) * chol @ z` -/
def tpcnProposal (mu diff : List α) (chol : List (List α)) (sigma s : α) (z : List α) : List α :=
  let a := diffCoef sigma
  vadd (vadd mu (diff.map (Sc.mul a))) (matVec (scaleMat (noiseScale sigma s) chol) z)

/-- `u + sigma * chol @ z` -/
def rwmProposal (u : List α) (chol : List (List α)) (sigma : α) (z : List α) : List α :=
  vadd u (matVec (scaleMat sigma chol) z)

inductive Kind | tpcn | rwm
  deriving DecidableEq, Repr

structure StepIn (α : Type) where
  kind : Kind
  u : List α
  mu : List α
  chol : List (List α)
  invcov : List (List α)
  nu : α
  sigma : α
  beta : α
  /-- current log-likelihood -/
  l : α
  /-- log-likelihood of the proposal (the user's function, evaluated by the caller) -/
  lp : α
  /-- the gamma draw (tpCN) -/
  g : α
  /-- the uniform draw -/
  r : α
  /-- the standard-normal vector (one draw per walker and step) -/
  z : List α
  per : List Nat
  refl : List Nat

structure StepOut (α : Type) where
  shape : α
  scale : α
  s : α
  /-- number of normal vectors consumed: always 1 -/
  draws : Nat
  /-- what `_propose` returned (folded candidate) -/
  cand : List α
  /-- `check_bounds` of the candidate -/
  inb : Bool
  /-- the point passed on to transform / likelihood / factor: the candidate, or the current point when out of bounds -/
  prop : List α
  dot : α
  dotp : α
  factor : α
  alpha : α
  accept : Bool
  newU : List α

def finish (i : StepIn α) (shape scale s dot dotp factor : α) (cand : List α) (inb : Bool) (prop : List α) : StepOut α :=
  let alpha := boundedAlpha inb (acceptProb i.beta i.l i.lp factor)
  let acc := acceptDecision i.r alpha
  { shape, scale, s, draws := 1, cand, inb, prop, dot, dotp, factor, alpha, accept := acc,
    newU := if acc then prop else i.u }

/-- one walker, one step -/
def step (i : StepIn α) : StepOut α :=
  match i.kind with
  | .tpcn =>
    let d : α := Sc.ofNat i.u.length
    let diff := vsub i.u i.mu
    let dot := qform diff i.invcov
    let shape := gammaShape d i.nu
    let scale := gammaScale i.nu dot
    let s := sFromGamma i.g
    let cand := Model.Boundary.apply i.per i.refl (tpcnProposal i.mu diff i.chol i.sigma s i.z)
    let inb := Model.Boundary.checkBounds i.per i.refl cand
    let p := if inb then cand else i.u
    let dotp := qform (vsub p i.mu) i.invcov
    finish i shape scale s dot dotp (tpcnLogFactor d i.nu dot dotp) cand inb p
  | .rwm =>
    let cand := Model.Boundary.apply i.per i.refl (rwmProposal i.u i.chol i.sigma i.z)
    let inb := Model.Boundary.checkBounds i.per i.refl cand
    let p := if inb then cand else i.u
    finish i Sc.zero Sc.zero Sc.zero Sc.zero Sc.zero rwmLogFactor cand inb p

/-! ### the whole ensemble: per-walker gather of the mode statistics, and the per-cluster sigma adaptation

  Python (`BaseMCMCRunner.run`, `TPCNRunner._propose/_compute_acceptance_factor`): every per-mode array is subscripted with
  `self.assignments[k]` resp. `self.assignments` — walker `k` uses mean, Cholesky factor, inverse covariance, dof and sigma of
  mode `assignments[k]` in the proposal AND in the acceptance factor.  After accept/reject:
      for c in range(n_clusters): mask = assignments == c; if not any(mask): continue; _adapt_sigma(c, alpha[mask].mean()) -/

structure Mode (α : Type) where
  mu : List α
  chol : List (List α)
  invcov : List (List α)
  nu : α

structure Walker (α : Type) where
  u : List α
  /-- index of the walker's mode (`assignments[k]`, a valid non-negative index) -/
  assign : Nat
  l : α
  lp : α
  g : α
  r : α
  z : List α

structure RunIn (α : Type) where
  kind : Kind
  modes : List (Mode α)
  /-- one step size per mode -/
  sigmas : List α
  beta : α
  per : List Nat
  refl : List Nat
  /-- `self.iteration` after the increment, as a float -/
  iter : α
  sigma0 : α
  walkers : List (Walker α)

/-- the single-walker input assembled from the walker's own mode; `none` = index out of range (numpy: IndexError) -/
def walkerInput (i : RunIn α) (w : Walker α) : Option (StepIn α) :=
  match i.modes[w.assign]?, i.sigmas[w.assign]? with
  | some m, some sg =>
    some { kind := i.kind, u := w.u, mu := m.mu, chol := m.chol, invcov := m.invcov, nu := m.nu, sigma := sg,
           beta := i.beta, l := w.l, lp := w.lp, g := w.g, r := w.r, z := w.z, per := i.per, refl := i.refl }
  | _, _ => none

def walkerStep (i : RunIn α) (w : Walker α) : Option (StepOut α) := (walkerInput i w).map step

/-- `alpha[assignments == c]` -/
def clusterAlphas (assign : List Nat) (alphas : List α) (c : Nat) : List α :=
  (List.zip assign alphas).filterMap fun p => if p.1 = c then some p.2 else none

/-- `.mean()` of a non-empty array (left fold; numpy sums pairwise — regime T) -/
def mean (l : List α) : α := Sc.div (Sc.sum l) (Sc.ofNat l.length)

def adaptOne (kind : Kind) (sigma iter acc sigma0 : α) : α :=
  match kind with
  | .tpcn => tpcnAdapt sigma iter acc sigma0
  | .rwm => rwmAdapt sigma iter acc sigma0

/-- the cluster loop after accept/reject: clusters without a walker keep their sigma -/
def adaptAll (i : RunIn α) (alphas : List α) : List α :=
  i.sigmas.mapIdx fun c sg =>
    let a := clusterAlphas (i.walkers.map (·.assign)) alphas c
    if a.isEmpty then sg else adaptOne i.kind sg i.iter (mean a) i.sigma0

/-- one step of the whole ensemble: per-walker results and the adapted step sizes -/
def runStep (i : RunIn α) : Option (List (StepOut α) × List α) :=
  match i.walkers.mapM (walkerStep i) with
  | none => none
  | some outs => some (outs, adaptAll i (outs.map (·.alpha)))

end Model.Kernel
