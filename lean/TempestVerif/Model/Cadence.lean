/-
  Model of WHEN the shared clusterer is fitted and when it is asked to predict
  (`Trainer.run`, steps/train.py;  `Resampler.run`, steps/resample.py;  wiring in core.py: ONE clusterer object
  shared by the Trainer and the Resampler; `Reweighter.run` increments `iter` at the start of every iteration;
  resume = a fresh `SamplerCore` — fresh Trainer (`_clusterer_fitted = False`), fresh UNFITTED clusterer —
  whose `StateManager` is restored from the checkpoint, `iter` included).

  The temperature schedule is abstracted to one boolean per iteration, "is β = 0 at this iteration?", ARBITRARY
  (the real schedule is non-decreasing; the model allows more).  Core Lean only, total, computable.
-/
namespace Model.Cadence

/-- what happens to the clusterer: a `fresh` (unfitted) object is constructed, `fit`, `predict` -/
inductive Event where
  | fresh | fit | predict
  deriving DecidableEq, Repr

inductive Verdict where
  | ok | predictBeforeFit
  deriving DecidableEq, Repr

/-- one element of a run: an iteration of the PS loop (with its β = 0 flag) or a save/load/resume boundary -/
inductive Step where
  | iter (warm : Bool)
  | resume
  deriving DecidableEq, Repr

structure Cfg where
  clusterEvery : Nat
  clustering : Bool := true
  /-- `true` = the code as it is now (`… or not self._clusterer_fitted`); `false` = before commit e0e98d6 -/
  useFlag : Bool := true

structure St where
  /-- `state.get_current("iter")` -/
  iter : Nat
  /-- `Trainer._clusterer_fitted` -/
  flag : Bool
  /-- the clusterer OBJECT has been fitted (`_data_min` / `cluster_centers_` populated) -/
  clFitted : Bool
  trace : List Event
  verdict : Verdict

def init (iter0 : Nat) : St :=
  { iter := iter0, flag := false, clFitted := false, trace := [.fresh], verdict := .ok }

/-- `self.clusterer.fit(u, weights_trimmed)` -/
def emitFit (s : St) : St := { s with clFitted := true, trace := s.trace ++ [.fit] }

/-- `self.clusterer.predict(u)`: raises on an unfitted clusterer (`ValueError: Normalization bounds not set`
    with normalize=True, `IndexError` with normalize=False) -/
def emitPredict (s : St) : St :=
  if s.clFitted then { s with trace := s.trace ++ [.predict] }
  else { s with trace := s.trace ++ [.predict], verdict := .predictBeforeFit }

/-- `iter_val % self.cluster_every == 0 or iter_val == 0` -/
def onCadence (c : Cfg) (s : St) : Bool := s.iter % c.clusterEvery == 0 || s.iter == 0

/-- the condition of the first branch of `Trainer.run` -/
def fitCond (c : Cfg) (s : St) : Bool := onCadence c s || (c.useFlag && !s.flag)

/-- `Trainer.run` (β = 0: dummy statistics, nothing else is touched) -/
def trainer (c : Cfg) (warm : Bool) (s : St) : St :=
  if warm then s
  else if c.clustering && fitCond c s then
    -- fit; `self._clusterer_fitted = True`; `labels = self.clusterer.predict(u)`
    emitPredict { emitFit s with flag := c.useFlag || s.flag }
  else if c.clustering && !onCadence c s then
    -- `labels = self.clusterer.predict(u)` with the previous fit
    emitPredict s
  else s   -- `ModeStatistics.from_global`

/-- `Resampler.run` (β = 0: `assignments = zeros`, no predict) -/
def resampler (c : Cfg) (warm : Bool) (s : St) : St :=
  if s.verdict != .ok then s          -- `Trainer.run` raised: the iteration never gets here
  else if warm then s
  else if c.clustering then emitPredict s
  else s

def step (c : Cfg) (s : St) : Step → St
  | .iter warm =>
    if s.verdict != .ok then s else
    resampler c warm (trainer c warm { s with iter := s.iter + 1 })   -- `Reweighter.run`: iter += 1
  | .resume =>
    if s.verdict != .ok then s else
    { s with flag := false, clFitted := false, trace := s.trace ++ [.fresh] }

def run (c : Cfg) (iter0 : Nat) (steps : List Step) : St := steps.foldl (step c) (init iter0)

/-- the clusterer events of ONE annealing iteration when nothing goes wrong, as `Trainer.run` then `Resampler.run` emit them:
    `[fit,] predict (training labels), predict (assignments of the resampled particles)` -/
def annealEvents (didFit : Bool) : List Event :=
  (if didFit then [.fit] else []) ++ [.predict, .predict]

/-- a β-schedule with an optional resume boundary before iteration number `r` of the schedule (0-based) -/
def withResume (sched : List Bool) : Option Nat → List Step
  | none => sched.map .iter
  | some r => (sched.take r).map .iter ++ .resume :: (sched.drop r).map .iter

/-! ### the trace-level reading of "never predict before fit (of the current clusterer object)" -/

/-- `none` = a predict was seen on an unfitted object; `some b` = fine so far, current object fitted = `b` -/
def scanStep : Option Bool → Event → Option Bool
  | none, _ => none
  | some _, .fresh => some false
  | some _, .fit => some true
  | some b, .predict => if b then some true else none

def scan (t : List Event) : Option Bool := t.foldl scanStep (some false)

def noPredictBeforeFit (t : List Event) : Bool := (scan t).isSome

end Model.Cadence
