import TempestVerif.Model.Modes
import TempestVerif.Model.Student
/-
  Vocabulary of the SOURCE-DERIVED terms of `tempest/modes.py` (label handling, constructor gate), `steps/train.py`
  (`Trainer.run`) and `steps/resample.py` (translator G20, `Gen/ModesSrc.lean`, property C14).

  The translator compiles the numpy expressions of the source to Lean terms over `Nat`, `List Nat`, `Bool`, the scalar
  interface `Sc α` / `ScT α` and the combinators below; this file is the (hand-written, fixed) meaning given to each numpy
  idiom — the trusted reading of numpy, the same reading `clauses/C14.md` lists under "Modelled rather than verified".
  Nothing here mentions the control flow of the property's model; `Props/C14Source.lean` proves that the model's definitions
  unfold to / equal the generated terms.

  numpy idiom (integer label arrays, one particle at a time)      →  term
  `np.unique(labels)`                                                `unique labels`
  `np.where(labels == label)[0]` / `… != …`                          `whereEq labels label` / `whereNe labels label`
  `np.searchsorted(stored, a)`                                        `searchsorted stored a`
  `np.clip(x, lo, hi)`  (= `minimum(maximum(x, lo), hi)`)             `clip x lo hi`
  `stored[i]`  (`none` = IndexError)                                  `stored[i]?`
  `np.argmin(dist, axis=1)` at one row                                `argmin row`   (`none`: empty row)
  `np.linalg.norm(v)` / `axis=` the coordinate axis                   `norm v = sqrt (sumSq v)`
  `np.zeros((r, c))`, `np.eye(n)`                                     `zeros2 r c`, `eye n`
  array SHAPES (`x.shape`, `x.ndim`, `x.reshape(1, -1)`, …)           `List Nat`; `numel`
-/
namespace NpL
variable {α : Type}

/-- `np.unique(labels)` on non-negative integers: the distinct values, increasing -/
abbrev unique (labels : List Nat) : List Nat := Model.Modes.uniqueSorted labels

/-- `np.where(labels == label)[0]` -/
abbrev whereEq (labels : List Nat) (label : Nat) : List Nat := Model.Modes.indicesOf labels label

/-- `np.where(labels != label)[0]` -/
def whereNe (labels : List Nat) (label : Nat) : List Nat :=
  (List.range labels.length).filter fun i => labels[i]? != some label

/-- `np.searchsorted(stored, a)` (side 'left') on an increasing integer array -/
abbrev searchsorted (stored : List Nat) (a : Nat) : Nat := Model.Modes.searchsorted stored a

/-- `np.clip(x, lo, hi)`: numpy computes `minimum(maximum(x, lo), hi)` -/
def clip (x lo hi : Nat) : Nat := min (max x lo) hi

/-- `np.argmin(dist, axis=1)` at one row (first minimum) -/
abbrev argmin [Sc α] (row : List α) : Option Nat := Model.HGMM.argmin row

/-- `Σ v_j²`, left to right -/
def sumSq [Sc α] (v : List α) : α := (v.map fun d => Sc.mul d d).foldl Sc.add Sc.zero

/-- `np.linalg.norm(v)` along the coordinate axis -/
def norm [ScT α] (v : List α) : α := ScT.sqrt (sumSq v)

/-- `np.zeros((r, c))` -/
def zeros2 [Sc α] (r c : Nat) : List (List α) := List.replicate r (List.replicate c Sc.zero)

/-- `np.eye(n)` -/
def eye [Sc α] (n : Nat) : List (List α) := (List.range n).map (Model.Student.identRow n)

/-- number of entries of an array of shape `s` -/
def numel (s : List Nat) : Nat := s.foldl (· * ·) 1

end NpL
