import TempestVerif.Model.ClosedLoop
/-
  The prologue of `SamplerCore.run_sampling` on the closed-loop state (`Model.ClosedLoop.CState`), property C05 (second pass):
  which temperature a run STARTS from.  core.py as of /repo aeb0399:

      if resume_state_path is not None:
          self._initialize_from_resume(resume_state_path)      # load_sampler_state: state.update_from_dict(d) replaces the
                                                               # current values and the history; np.random.set_state(d["rng_state"])
                                                               # if present; the step components of THIS object are not touched
          …t0 = int(iter)
      elif self.state.get_history_length() > 0:                # load_state() was called before, or a finished run is extended:
          …t0 = int(iter)                                      # nothing is reset
      else:
          t0 = 0; self._initialize_fresh()                     # seed iff random_state is not None; iter = calls = 0, beta = logz = 0.0
      …
      while self._not_termination(): self.execute_iteration(…)

  `Sampler.load_state(path)` is the same `load_sampler_state` without a following `run`.
-/
namespace Model.ClosedResume
open Model.ClosedLoop
variable {α P MS TS G : Type} [ScT α]

/-- `load_sampler_state(path)` on a sampler whose step components hold `s.ts`: every StateManager value and the history come from
    the file; the stream position comes from the file when it stores one (`gsaved`), otherwise it is left alone -/
def load (k : Ckpt α P) (gsaved : Option G) (s : CState α P TS G) : CState α P TS G :=
  ⟨k.hist, k.beta, k.logz, k.ess, k.iter, k.calls, k.cur, k.curL, k.assign, k.steps, k.acceptance, k.efficiency, s.ts,
   match gsaved with | some g => g | none => s.g⟩

/-- `_initialize_fresh`: `iter = calls = 0`, `beta = logz = 0.0`; reseeded iff `random_state is not None` (`seed = some g₀`).
    The history is NOT cleared (only the counters and the two scalars are written). -/
def fresh (seed : Option G) (s : CState α P TS G) : CState α P TS G :=
  { s with iter := 0, calls := 0, beta := Sc.zero, logz := Sc.zero, g := match seed with | some g => g | none => s.g }

/-- the three-way branch at the top of `run_sampling` -/
def prologue (resume : Option (Ckpt α P × Option G)) (seed : Option G) (s : CState α P TS G) : CState α P TS G :=
  match resume with
  | some (k, g) => load k g s
  | none => if s.hist.length > 0 then s else fresh seed s

/-- the prologue as it was BEFORE /repo aeb0399 (two-way branch): without a path the fresh branch is taken whatever the history -/
def prologueOld (resume : Option (Ckpt α P × Option G)) (seed : Option G) (s : CState α P TS G) : CState α P TS G :=
  match resume with
  | some (k, g) => load k g s
  | none => fresh seed s

/-- `run_sampling(…)`: prologue, loop, epilogue.  (`Model.ClosedLoop.runSampling` applies its own `startState` — the
    path-less prologue without the reseeding — to the state it is given; on the result of `prologue` that is the identity:
    `Props.C05.startState_prologue`.) -/
def runFrom (W : World α P MS TS G) (c : CCfg α) (fuel : Nat) (resume : Option (Ckpt α P × Option G)) (seed : Option G)
    (s : CState α P TS G) : Option (CState α P TS G × List (CState α P TS G) × List (CIterOut α P)) :=
  (runLoop W c fuel (prologue resume seed s)).bind fun q => (finalLogz q.1).map fun z => ({ q.1 with logz := z }, q.2.1, q.2.2)

end Model.ClosedResume
