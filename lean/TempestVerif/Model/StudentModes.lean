import TempestVerif.Model.StudentNu
import TempestVerif.Model.Resample
import TempestVerif.Model.Modes
/-
  From the weighted particles to the degrees of freedom the tpCN kernel reads (C19, second anchor):
  `ModeStatistics.from_global / from_particles` (tempest/modes.py), the four paths of `Trainer.run` (steps/train.py)
  and the hand-off `TPCNRunner.__init__` / `_propose` (tempest/mcmc.py).

  modes.py (both constructors; `from_particles` once per label of `np.unique(labels)`, in increasing order):
      if u.shape[0] != weights.shape[0] (or != labels.shape[0]): raise ValueError
      weights = weights / np.sum(weights)
      [ idx_cluster = np.where(labels == label)[0]; u_cluster = u[idx_cluster]
        weights_cluster = weights[idx_cluster]; weights_cluster = weights_cluster / np.sum(weights_cluster) ]
      n_resample = n_cluster * resample_factor
      idx_resample = np.random.choice(n_cluster, size=n_resample, replace=True, p=weights_cluster)
      u_resampled = u_cluster[idx_resample]
      mean, covariance, dof = fit_mvstud(u_resampled)            -- defaults tolerance=1e-6, max_iter=100
      if ~np.isfinite(dof): dof = dof_fallback
      cls(means, covariances, degrees_of_freedom[, labels=unique_labels])

  `np.random.choice(p=…)` is numpy's legacy algorithm (`Model.Resample.multinomial`: cumsum, normalise by the last entry,
  `searchsorted(side='right')` of the uniforms of the global stream); `np.sum` is `Model.Resample.npSum` (pairwise).
  `fit_mvstud` is a parameter `fitFn` acting on the ROWS handed to it (`none` = it raised); the suites instantiate it with
  `Model.Student.fit` on the recorded `opt_nu` tape.  Core Lean only, total, computable.
-/
namespace Model.StudentModes
open Model.Student
variable {α : Type} [Sc α]

/-- what `fit_mvstud` hands back -/
structure FitOut (α : Type) where
  mu : List α
  sigma : Mat α
  dof : Dof α

/-- the arguments of `cls(means=…, covariances=…, degrees_of_freedom=…, labels=…)` -/
structure MS (α : Type) where
  means : List (List α)
  covs : List (Mat α)
  dofs : List (Dof α)
  labels : Option (List Nat)

inductive Built (α : Type) where
  | ok (ms : MS α)
  | valueError          -- the shape check of the constructor functions
  | raised              -- `np.random.choice`, an index or `fit_mvstud` raised

/-- `w / np.sum(w)` -/
def normalise (w : List α) : List α :=
  let s := Model.Resample.npSum w
  w.map fun x => Sc.div x s

/-- `a[idx]` (fancy indexing; `none` = IndexError) -/
def gather {β : Type} (a : List β) (idx : List Nat) : Option (List β) := idx.mapM fun i => a[i]?

/-- `data.T` for `n` rows of length `d` -/
def columnsOf (d : Nat) (rows : Mat α) : Option (Mat α) :=
  (List.range d).mapM fun a => rows.mapM fun r => r[a]?

/-- the last iterate and `nu` of a fit: the returned triple -/
def outOf (r : Result α) : Option (FitOut α) :=
  r.iterates.getLast?.map fun st => ⟨st.mu, st.sigma, match r.nu with | none => .inf | some x => .fin x⟩

/-- `fit_mvstud(rows)` with the defaults of `modes.py`, `opt_nu` on a tape -/
def fitRowsTape (d : Nat) (tape : List (NuEv α)) (rows : Mat α) : Option (FitOut α) := do
  let X ← columnsOf d rows
  let r ← fit defaultTol defaultMaxIter rows.length X tape
  -- a tape that ends before the loop does means the real run stopped earlier than the model (other tolerance / limit):
  -- not an answer
  if r.stop == .tapeEnd then none else outOf r

/-- resample–fit–fallback for one set of particles `uc` with (already normalised) probabilities `p`;
    `us` = the uniforms of the global stream still unread; returns the mode and the rest of the stream -/
def fitOne (fitFn : Mat α → Option (FitOut α)) (fb : α) (rf : Nat) (uc : Mat α) (p : List α) (us : List α) :
    Option (FitOut α × List α) := do
  let nres := uc.length * rf
  let idx ← Model.Resample.multinomial p (us.take nres)
  let ur ← gather uc idx
  let o ← fitFn ur
  some (⟨o.mu, o.sigma, applyFallback fb o.dof⟩, us.drop nres)

/-- `ModeStatistics.from_global(u, weights, dof_fallback=fb, resample_factor=rf)` -/
def fromGlobal (fitFn : Mat α → Option (FitOut α)) (u : Mat α) (w : List α) (fb : α) (rf : Nat) (us : List α) : Built α :=
  if u.length != w.length then .valueError
  else match fitOne fitFn fb rf u (normalise w) us with
    | none => .raised
    | some (o, _) => .ok ⟨[o.mu], [o.sigma], [o.dof], none⟩

/-- the `for label in unique_labels` loop; `fitFns`: one fit per mode (so that a tape per mode can be supplied) -/
def clusterLoop (u : Mat α) (wn : List α) (labels : List Nat) (fb : α) (rf : Nat) :
    List Nat → List (Mat α → Option (FitOut α)) → List α → Option (List (FitOut α))
  | [], _, _ => some []
  | _ :: _, [], _ => none
  | lab :: rest, fitFn :: fits, us => do
    let ic := Model.Modes.indicesOf labels lab
    let uc ← gather u ic
    let wc ← gather wn ic
    let (o, us') ← fitOne fitFn fb rf uc (normalise wc) us
    let os ← clusterLoop u wn labels fb rf rest fits us'
    some (o :: os)

/-- `ModeStatistics.from_particles(u, weights, labels, dof_fallback=fb, resample_factor=rf)` -/
def fromParticles (fitFns : List (Mat α → Option (FitOut α))) (u : Mat α) (w : List α) (labels : List Nat) (fb : α)
    (rf : Nat) (us : List α) : Built α :=
  if u.length != w.length || u.length != labels.length then .valueError
  else
    let uniq := Model.Modes.uniqueSorted labels
    match clusterLoop u (normalise w) labels fb rf uniq fitFns us with
    | none => .raised
    | some os => .ok ⟨os.map (·.mu), os.map (·.sigma), os.map (·.dof), some uniq⟩

/-! ### `Trainer.run`: every path on which a `ModeStatistics` is produced -/

inductive Path where
  | dummy          -- beta == 0: zeros / identity / `[self.DOF_FALLBACK]`
  | fitPredict     -- clustering, on cadence or clusterer not yet fitted: `clusterer.fit`, `predict`, `from_particles`
  | predictOnly    -- clustering, off cadence: `predict`, `from_particles`
  | global         -- no clustering: `from_global`
  deriving DecidableEq, Repr

/-- the `if / elif / else` of `Trainer.run` -/
def trainerPath (betaZero clustering onCadence fitted : Bool) : Path :=
  if betaZero then .dummy
  else if clustering && (onCadence || !fitted) then .fitPredict
  else if clustering && !onCadence then .predictOnly
  else .global

/-- `Trainer.run` as far as the mode statistics are concerned; `cfgFb` = `Trainer.DOF_FALLBACK` (core.py passes
    `config.DOF_FALLBACK`); `labels` = what `clusterer.predict(u)` answered on the two clustering paths.
    The default `resample_factor = 4` of both constructors is what the trainer uses. -/
def trainerRun (path : Path) (fitFns : List (Mat α → Option (FitOut α))) (d : Nat) (u : Mat α) (w : List α)
    (labels : List Nat) (cfgFb : α) (us : List α) : Built α :=
  match path with
  | .dummy => .ok ⟨[List.replicate d Sc.zero], [(List.range d).map (identRow d)], [.fin cfgFb], none⟩
  | .fitPredict => fromParticles fitFns u w labels cfgFb 4 us
  | .predictOnly => fromParticles fitFns u w labels cfgFb 4 us
  | .global =>
    match fitFns with
    | fitFn :: _ => fromGlobal fitFn u w cfgFb 4 us
    | [] => .raised

/-- `TPCNRunner`: `self.degrees_of_freedom = self.mode_stats.degrees_of_freedom`, read as
    `self.degrees_of_freedom[self.assignments[k]]` in `_propose` / `_compute_acceptance_factor` -/
def kernelDof (ms : MS α) (modeIndex : Nat) : Option (Dof α) := ms.dofs[modeIndex]?

end Model.StudentModes
