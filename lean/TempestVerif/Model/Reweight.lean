import TempestVerif.Sc
/-
  Model of `tempest/steps/reweight.py` (`Reweighter`), property C05.

  The model is generic in
    * the metric oracle `M : α → W × α × α`  =  `_compute_metric_and_weights(beta)`
        `(M β).1`   the weights array, kept abstract (a *tag*; in the driver the tag is β itself),
        `(M β).2.1` `ess_est`,
        `(M β).2.2` `metric_val` (in ESS mode the code sets it equal to `ess_est`);
    * the evidence oracle `Z : α → α`  =  `state.compute_logw_and_logz(beta)[1]`;
    * `fin : α → Bool`  =  `np.isfinite` (`Float.isFinite` when executed, arbitrary in the proofs).
  No property of the oracles (monotonicity, continuity, determinism of the *real* pool) is used.

  Every call of `_compute_metric_and_weights` in the Python appears as one `M _` below AND as one entry of
  the `calls` list of the result, in program order, so the branch taken is observable from outside
  (the correspondence compares that list with the calls the real code makes).
  `while` loops carry explicit fuel; `Props/C05.lean` proves that fuel ≥ 14 is never the reason a loop stops.
-/
namespace Model.Reweight
variable {α : Type} [Sc α] {W : Type}

inductive Branch
  | none
  | firstIter
  -- `_find_beta_upper_limit`
  | upStay      -- `ess_at_current < ess_ratio`  → `beta_current`
  | upOne       -- `ess_at_one >= ess_ratio`     → `1.0`
  | upLoop      -- `while` left because `beta_high - beta_low <= BETA_TOLERANCE`
  | upFuel      -- model artefact: fuel exhausted (proved unreachable)
  -- `_find_beta_bisection`: first true disjunct of `metric_converged or beta_converged or beta == 1.0`
  | bisMetric | bisBeta | bisOne
  | bisFuel     -- model artefact: fuel exhausted (proved unreachable)
  -- `run`, ESS mode
  | essStay | essUpper | essBisect
  -- `run`, volume-variation mode
  | dynStuck | dynUpper | dynStay | dynBisect
  deriving DecidableEq, Repr, Inhabited

def Branch.name : Branch → String
  | .none => "none" | .firstIter => "firstIter"
  | .upStay => "upStay" | .upOne => "upOne" | .upLoop => "upLoop" | .upFuel => "upFuel"
  | .bisMetric => "bisMetric" | .bisBeta => "bisBeta" | .bisOne => "bisOne" | .bisFuel => "bisFuel"
  | .essStay => "essStay" | .essUpper => "essUpper" | .essBisect => "essBisect"
  | .dynStuck => "dynStuck" | .dynUpper => "dynUpper" | .dynStay => "dynStay" | .dynBisect => "dynBisect"

/-- `a == b` on scalars (IEEE: false when either side is NaN, `0.0 == -0.0`) -/
def eqv (a b : α) : Bool := Sc.le a b && Sc.le b a

/-- `(hi + lo) * 0.5` -/
def mid (hi lo : α) : α := Sc.mul (Sc.add hi lo) (Sc.lit 5 1)

/-- the literal `1e10` -/
def big : α := Sc.ofNat 10000000000

/-! ### `_find_beta_upper_limit` -/

structure UpOut (α : Type) where
  beta : α          -- the returned value (`beta_low` after the loop)
  hi : α            -- `beta_high` when the function returned
  steps : Nat       -- number of loop iterations executed
  branch : Branch
  calls : List α

/-- `while beta_high - beta_low > tol: mid = (hi+lo)*0.5; if ess(mid) >= target: lo = mid else: hi = mid` -/
def upLoop (M : α → W × α × α) (target tol : α) : Nat → α → α → UpOut α
  | 0, lo, hi => ⟨lo, hi, 0, if Sc.gt (Sc.sub hi lo) tol then .upFuel else .upLoop, []⟩
  | n+1, lo, hi =>
    if Sc.gt (Sc.sub hi lo) tol then
      let m := mid hi lo
      let r := if Sc.ge (M m).2.1 target then upLoop M target tol n m hi else upLoop M target tol n lo m
      { r with steps := r.steps + 1, calls := m :: r.calls }
    else ⟨lo, hi, 0, .upLoop, []⟩

def upperLimit (M : α → W × α × α) (target tol : α) (fuel : Nat) (prev : α) : UpOut α :=
  if Sc.lt (M prev).2.1 target then ⟨prev, Sc.one, 0, .upStay, [prev]⟩
  else if Sc.ge (M Sc.one).2.1 target then ⟨Sc.one, Sc.one, 0, .upOne, [prev, Sc.one]⟩
  else
    let r := upLoop M target tol fuel prev Sc.one
    { r with calls := prev :: Sc.one :: r.calls }

/-! ### `_find_beta_bisection` -/

structure BisOut (α W : Type) where
  beta : α
  w : W             -- `aux_data[0]`
  ess : α           -- `aux_data[1]`
  steps : Nat
  branch : Branch
  calls : List α

/-- the metric value one pass of the bisection works with:
    `dyn = false`: `metric_fn = ess_fn` (the metric is `ess_est`);
    `dyn = true`: `metric_fn = volume_variation_fn` (the metric is `metric_val`);
    `if not np.isfinite(metric_val): metric_val = 1e10` (both modes) -/
def bisVal (M : α → W × α × α) (fin : α → Bool) (dyn : Bool) (b : α) : α :=
  let m0 := if dyn then (M b).2.2 else (M b).2.1
  if fin m0 then m0 else big

/-- `if metric_converged or beta_converged or beta == 1.0: return` — `some tag` names the first true disjunct -/
def bisStop (m target tolE tolB bmin bmax b : α) : Option Branch :=
  if Sc.lt (Sc.abs (Sc.sub m target)) (Sc.mul tolE target) then some .bisMetric
  else if Sc.lt (Sc.sub bmax bmin) tolB then some .bisBeta
  else if eqv b Sc.one then some .bisOne
  else none

/-- is it `beta_min` that moves to `beta`?
    ESS mode:     `if m < target: beta_max = beta else: beta_min = beta`
    dynamic mode: `if m < target: beta_min = beta else: beta_max = beta` -/
def bisRaise (dyn : Bool) (m target : α) : Bool :=
  if dyn then Sc.lt m target else !(Sc.lt m target)

def bisect (M : α → W × α × α) (fin : α → Bool) (dyn : Bool) (target tolE tolB : α) :
    Nat → α → α → BisOut α W
  | 0, bmin, bmax =>
    let b := mid bmax bmin
    match bisStop (bisVal M fin dyn b) target tolE tolB bmin bmax b with
    | some t => ⟨b, (M b).1, (M b).2.1, 0, t, [b]⟩
    | Option.none => ⟨b, (M b).1, (M b).2.1, 0, .bisFuel, [b]⟩
  | n+1, bmin, bmax =>
    let b := mid bmax bmin
    match bisStop (bisVal M fin dyn b) target tolE tolB bmin bmax b with
    | some t => ⟨b, (M b).1, (M b).2.1, 0, t, [b]⟩
    | Option.none =>
      let q := if bisRaise dyn (bisVal M fin dyn b) target
        then bisect M fin dyn target tolE tolB n b bmax
        else bisect M fin dyn target tolE tolB n bmin b
      { q with steps := q.steps + 1, calls := b :: q.calls }

/-! ### `_finalize_iteration` and `run` -/

/-- what `run` returns / writes: `uniform n` is `np.ones(n)/n`; `of w` is `w / np.sum(w)` for the oracle's `w` -/
inductive WTag (W : Type)
  | uniform (n : Nat)
  | of (w : W)
  deriving DecidableEq, Repr

structure RunOut (α W : Type) where
  beta : α                -- written to `state["beta"]`
  weightsTag : WTag W     -- the returned weights
  ess : α                 -- written to `state["ess"]`
  logz : α                -- written to `state["logz"]`
  branch : Branch
  sub : List Branch       -- upper-limit branch, then (if any) the bisection's stop reason
  calls : List α          -- arguments of `_compute_metric_and_weights`, in order
  zcalls : List α         -- arguments of `compute_logw_and_logz` made by `run` itself

/-- `_finalize_iteration(beta, weights, ess_est, logz)`: normalise the weights, write (logz, beta, ess) -/
def finalize (beta : α) (w : W) (ess logz : α) (br : Branch) (sub : List Branch) (calls : List α) :
    RunOut α W :=
  ⟨beta, .of w, ess, logz, br, sub, calls, [beta]⟩

/-- `run`, `volume_variation is None` -/
def runEss (M : α → W × α × α) (Z : α → α) (fin : α → Bool) (target tolE tolB : α) (fuel : Nat)
    (prev : α) : RunOut α W :=
  let up := upperLimit M target tolB fuel prev
  let rp := M prev
  let ru := M up.beta
  let calls := up.calls ++ [prev, up.beta]
  if Sc.le rp.2.1 target then
    finalize prev rp.1 rp.2.1 (Z prev) .essStay [up.branch] calls
  else if Sc.ge ru.2.1 target then
    finalize up.beta ru.1 ru.2.1 (Z up.beta) .essUpper [up.branch] calls
  else
    let b := bisect M fin false target tolE tolB fuel prev up.beta
    finalize b.beta b.w b.ess (Z b.beta) .essBisect [up.branch, b.branch] (calls ++ b.calls)

/-- `run`, `volume_variation = vv`; `target` is the ESS target `ess_ratio * n_particles` -/
def runDyn (M : α → W × α × α) (Z : α → α) (fin : α → Bool) (target vv tolE tolB : α) (fuel : Nat)
    (prev : α) : RunOut α W :=
  let up := upperLimit M target tolB fuel prev
  if eqv up.beta prev then
    let r := M prev
    finalize prev r.1 r.2.1 (Z prev) .dynStuck [up.branch] (up.calls ++ [prev])
  else
    let rp := M prev
    let ru := M up.beta
    if Sc.ge vv ru.2.2 then
      -- `weights = None` … `weights, ess_est, _ = self._compute_metric_and_weights(beta)`
      let r := M up.beta
      finalize up.beta r.1 r.2.1 (Z up.beta) .dynUpper [up.branch] (up.calls ++ [prev, up.beta, up.beta])
    else if Sc.le vv rp.2.2 then
      let r := M prev
      finalize prev r.1 r.2.1 (Z prev) .dynStay [up.branch] (up.calls ++ [prev, up.beta, prev])
    else
      let b := bisect M fin true vv tolE tolB fuel prev up.beta
      finalize b.beta b.w b.ess (Z b.beta) .dynBisect [up.branch, b.branch]
        (up.calls ++ [prev, up.beta] ++ b.calls)

structure Cfg (α : Type) where
  essRatio : α
  nPart : Nat
  vv : Option α       -- `volume_variation`
  tolE : α            -- `ESS_TOLERANCE`
  tolB : α            -- `BETA_TOLERANCE`
  fuel : Nat

/-- `self.ess_ratio * self.n_particles` -/
def Cfg.target (c : Cfg α) : α := Sc.mul c.essRatio (Sc.ofNat c.nPart)

/-- `Reweighter.run` (the `iter` counter and the progress bar are not modelled) -/
def run (c : Cfg α) (histEmpty : Bool) (M : α → W × α × α) (Z : α → α) (fin : α → Bool) (prev : α) :
    RunOut α W :=
  if histEmpty then
    ⟨Sc.zero, .uniform c.nPart, c.target, Sc.zero, .firstIter, [], [], []⟩
  else match c.vv with
    | Option.none => runEss M Z fin c.target c.tolE c.tolB c.fuel prev
    | some v => runDyn M Z fin c.target v c.tolE c.tolB c.fuel prev

/-! ### the schedule: `run` iterated over an abstract environment

  `σ` is everything else the sampler carries (the persistent pool, the clusterer, the RNG …).
  `env s` are the oracles the pool of state `s` induces, `emp s` is `get_history_length() == 0`, and
  `next s r` is the effect of `trainer.run(w); resampler.run(w); mutator.run(..); commit_current_to_history()`
  after the reweighter produced `r`.  The β handed to the next `run` is the one this `run` wrote. -/

structure Oracles (α W : Type) where
  M : α → W × α × α
  Z : α → α
  fin : α → Bool

def schedule {σ : Type} (c : Cfg α) (env : σ → Oracles α W) (emp : σ → Bool)
    (next : σ → RunOut α W → σ) : Nat → σ → α → List (RunOut α W)
  | 0, _, _ => []
  | n+1, s, prev =>
    let o := env s
    let r := run c (emp s) o.M o.Z o.fin prev
    r :: schedule c env emp next n (next s r) r.beta

def betas {σ : Type} (c : Cfg α) (env : σ → Oracles α W) (emp : σ → Bool)
    (next : σ → RunOut α W → σ) (n : Nat) (s : σ) (prev : α) : List α :=
  (schedule c env emp next n s prev).map (·.beta)

end Model.Reweight
