/-
  A process-crash model of the file operations of a checkpoint save (C08; core Lean only).

  A file system is an association list `Path → Bytes` of the REGULAR files (directories carry no
  content, so `mkdir` does not change it).  A save protocol is a list of operations; a crash is the
  death of the writing process (`os._exit`, SIGKILL, OOM) between two operations or in the middle of a
  `write`: everything handed to the kernel before that instant stays, nothing after it happens.
  `crashStates ops fs` enumerates the file systems the survivor can find.

  Granularity: `write p b` is "the bytes `b` reach the file".  Python's `f.write` on a buffered
  file object may delay that until `flush`/`close`; modelling every `f.write` as immediate gives MORE
  crash contents (every prefix), never fewer.  `flush`/`fsync` do not change the content (they matter
  only for power loss, which is below this model) but are part of the alphabet because the classifier
  of observed traces insists on them.

  The operations are parametrised by what a `write` carries: the bytes (`FsOp`, executable), a size
  (`FsOpOf Nat`, observed traces) or nothing (`FsOpOf Unit`, the statically extracted shape).
-/
namespace Model.FS

abbrev Path := String
abbrev Bytes := List Nat

inductive FsOpOf (β : Type) where
  | mkdir (p : Path)
  | openTrunc (p : Path)          -- `open(p, "wb")`: creates the file or truncates it to length 0
  | write (p : Path) (b : β)      -- appends to the (open) file `p`
  | flush (p : Path)              -- user-space buffer → kernel
  | fsync (p : Path)
  | close (p : Path)
  | rename (p q : Path)           -- `os.replace(p, q)` / POSIX `rename`: atomically puts `p`'s file under `q`
  deriving DecidableEq, Repr

abbrev FsOp := FsOpOf Bytes

abbrev FS := List (Path × Bytes)

/-! ### the association list -/

def lookup (p : Path) : FS → Option Bytes
  | [] => none
  | (q, c) :: r => if q = p then some c else lookup p r

/-- create or replace the entry of `p` -/
def put (p : Path) (c : Bytes) : FS → FS
  | [] => [(p, c)]
  | (q, c') :: r => if q = p then (p, c) :: r else (q, c') :: put p c r

/-- remove every entry of `p` -/
def erase (p : Path) : FS → FS
  | [] => []
  | (q, c) :: r => if q = p then erase p r else (q, c) :: erase p r

/-! ### executing operations -/

/-- one completed operation.  Operations on a missing file fail in the real system (`EBADF`, `ENOENT`)
    and change nothing; the protocols below never do that (they open first). -/
def exec (fs : FS) : FsOp → FS
  | .mkdir _ => fs
  | .openTrunc p => put p [] fs
  | .write p b => match lookup p fs with
    | some c => put p (c ++ b) fs
    | none => fs
  | .flush _ => fs
  | .fsync _ => fs
  | .close _ => fs
  | .rename p q => match lookup p fs with
    | some c => if p = q then fs else put q c (erase p fs)
    | none => fs

def run (fs : FS) : List FsOp → FS
  | [] => fs
  | o :: os => run (exec fs o) os

/-- the file systems a crash DURING operation `o` (before it completed) can leave: the state before it,
    and for a `write` every cut of the data at offsets `0 … len` -/
def during (fs : FS) : FsOp → List FS
  | .write p b => (List.range (b.length + 1)).map fun k => exec fs (.write p (b.take k))
  | _ => [fs]

/-- every file system reachable by executing a prefix of `ops`, the last executed `write` cut at every
    byte offset; the last element is the state after the complete protocol -/
def crashStates : List FsOp → FS → List FS
  | [], fs => [fs]
  | o :: os, fs => during fs o ++ crashStates os (exec fs o)

/-! ### the two save protocols, as functions of the final path and the payload -/

/-- name of the temporary file: `path.with_name(path.name + ".temp")` -/
def tmpOf (final : Path) : Path := final ++ ".temp"

/-- `with open(path, "wb") as f: dill.dump(d, f)` -/
def direct (final : Path) (payload : Bytes) : List FsOp :=
  [.openTrunc final, .write final payload, .close final]

/-- `with open(tmp, "wb") as f: dill.dump(d, f); f.flush(); os.fsync(f.fileno())` then `os.replace(tmp, path)` -/
def tempRename (final : Path) (payload : Bytes) : List FsOp :=
  [.openTrunc (tmpOf final), .write (tmpOf final) payload, .flush (tmpOf final), .fsync (tmpOf final),
   .close (tmpOf final), .rename (tmpOf final) final]

/-! ### recognising the protocol of an observed (or statically extracted) trace -/

inductive Protocol where
  | direct
  | tempRename
  deriving DecidableEq, Repr

variable {β : Type}

/-- leading `mkdir`s (`path.parent.mkdir(parents=True, exist_ok=True)`) -/
def dropMkdirs : List (FsOpOf β) → List (FsOpOf β)
  | .mkdir _ :: r => dropMkdirs r
  | l => l

/-- leading `write`s to `p` -/
def dropWrites (p : Path) : List (FsOpOf β) → List (FsOpOf β)
  | .write q b :: r => if q = p then dropWrites p r else .write q b :: r
  | l => l

/-- what follows the writes in the temp-file protocol -/
def isTempTail (t final : Path) : List (FsOpOf β) → Bool
  | [.flush a, .fsync b, .close c, .rename s d] => a = t && b = t && c = t && s = t && d = final
  | _ => false

/-- what follows the writes in the in-place protocol: optional flush / fsync, then close -/
def isDirectTail (final : Path) : List (FsOpOf β) → Bool
  | [.close c] => c = final
  | [.flush a, .close c] => a = final && c = final
  | [.flush a, .fsync b, .close c] => a = final && b = final && c = final
  | _ => false

/-- `some direct`: the first file opened for writing is the final name itself and nothing but writes
    (and flush/fsync/close) follows.  `some tempRename`: a DIFFERENT file is opened, written at least
    once, flushed, fsynced, closed and then renamed onto the final name, and that is the whole trace.
    Anything else is not recognised. -/
def classify (tr : List (FsOpOf β)) (final : Path) : Option Protocol :=
  match dropMkdirs tr with
  | .openTrunc t :: .write w _ :: r =>
    if w = t then
      if t = final then
        (if isDirectTail final (dropWrites t r) then some .direct else none)
      else
        (if isTempTail t final (dropWrites t r) then some .tempRename else none)
    else none
  | _ => none

/-- forget the payloads (for comparing an observed trace with the extracted shape) -/
def shapeOf : List (FsOpOf β) → List (FsOpOf Unit)
  | [] => []
  | .mkdir p :: r => .mkdir p :: shapeOf r
  | .openTrunc p :: r => .openTrunc p :: shapeOf r
  | .write p _ :: r => .write p () :: shapeOf r
  | .flush p :: r => .flush p :: shapeOf r
  | .fsync p :: r => .fsync p :: shapeOf r
  | .close p :: r => .close p :: shapeOf r
  | .rename p q :: r => .rename p q :: shapeOf r

/-- merge runs of consecutive writes to one file (dill emits the pickle in several `write` calls) -/
def mergeWrites : List (FsOpOf Unit) → List (FsOpOf Unit)
  | .write p () :: .write q () :: r =>
    if p = q then mergeWrites (.write q () :: r) else .write p () :: mergeWrites (.write q () :: r)
  | o :: r => o :: mergeWrites r
  | [] => []

/-! ### the StateManager's own `save_state` -/

/-- `StateManager.save_state(path)` (since /repo b1898a0): `Path(path).parent.mkdir(exist_ok=True)`, then the temp-file
    sequence with `temp = Path(path).with_name(Path(path).name + ".temp")` — the sampler's naming — and `os.rename(temp, path)` -/
def smSave (dir final : Path) (payload : Bytes) : List FsOp :=
  [.mkdir dir, .openTrunc (tmpOf final), .write (tmpOf final) payload, .flush (tmpOf final),
   .fsync (tmpOf final), .close (tmpOf final), .rename (tmpOf final) final]

/-- a path as pathlib splits it: `dir` = everything up to and including the last `/` (possibly empty),
    `stem` and `suffix` of the last component (`suffix` = "" or the part from the last dot of the name, when
    that dot is neither its first nor its last character) -/
structure PName where
  dir : String
  stem : String
  suffix : String
  deriving DecidableEq, Repr

def PName.path (n : PName) : Path := n.dir ++ n.stem ++ n.suffix

/-- `Path(path).with_suffix(s)` -/
def PName.withSuffix (n : PName) (s : String) : Path := n.dir ++ n.stem ++ s

/-- MODEL OF THE PRE-FIX CODE (before /repo b1898a0; kept for the witness F27 and for the driver when the old shape is
    seen again): the temporary name REPLACED the suffix, `temp = Path(path).with_suffix(".temp")` -/
def smSaveOld (n : PName) (payload : Bytes) : List FsOp :=
  [.mkdir n.dir, .openTrunc (n.withSuffix ".temp"), .write (n.withSuffix ".temp") payload, .flush (n.withSuffix ".temp"),
   .fsync (n.withSuffix ".temp"), .close (n.withSuffix ".temp"), .rename (n.withSuffix ".temp") n.path]

/-! ### turning a statically extracted shape (symbolic paths "dir" / "tmp" / "final", no payload) into a program -/

def substPath (dir tmp final : Path) (p : Path) : Path :=
  if p = "dir" then dir else if p = "tmp" then tmp else if p = "final" then final else p

/-- every `write` of the shape carries the whole payload (the shape has one `write` per `dump`) -/
def instantiate (dir tmp final : Path) (payload : Bytes) : List (FsOpOf Unit) → List FsOp
  | [] => []
  | .mkdir p :: r => .mkdir (substPath dir tmp final p) :: instantiate dir tmp final payload r
  | .openTrunc p :: r => .openTrunc (substPath dir tmp final p) :: instantiate dir tmp final payload r
  | .write p _ :: r => .write (substPath dir tmp final p) payload :: instantiate dir tmp final payload r
  | .flush p :: r => .flush (substPath dir tmp final p) :: instantiate dir tmp final payload r
  | .fsync p :: r => .fsync (substPath dir tmp final p) :: instantiate dir tmp final payload r
  | .close p :: r => .close (substPath dir tmp final p) :: instantiate dir tmp final payload r
  | .rename p q :: r => .rename (substPath dir tmp final p) (substPath dir tmp final q) :: instantiate dir tmp final payload r

/-! ### additions of the clause audit (C08): the sampler's save as a program, two writers -/

/-- `SamplerCore.save_sampler_state(path)`: `path.parent.mkdir(parents=True, exist_ok=True)`, then the temp-file sequence
    with `temp = path.with_name(path.name + ".temp")` and `os.replace(temp, path)` -/
def samplerSave (dir final : Path) (payload : Bytes) : List FsOp := .mkdir dir :: tempRename final payload

/-- `Interleave a b t`: `t` is an interleaving of the operation sequences `a` and `b` of two writers (processes) -/
inductive Interleave : List FsOp → List FsOp → List FsOp → Prop
  | nil : Interleave [] [] []
  | left (x : FsOp) {a b t : List FsOp} : Interleave a b t → Interleave (x :: a) b (x :: t)
  | right (y : FsOp) {a b t : List FsOp} : Interleave a b t → Interleave a (y :: b) (y :: t)

/-- the paths an operation reads or writes -/
def opPaths : FsOp → List Path
  | .mkdir _ => []
  | .openTrunc p => [p]
  | .write p _ => [p]
  | .flush p => [p]
  | .fsync p => [p]
  | .close p => [p]
  | .rename p q => [p, q]

end Model.FS
