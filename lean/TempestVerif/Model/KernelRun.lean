import TempestVerif.Sc
import TempestVerif.Model.Kernel
/-
  The RUN LOOP of `BaseMCMCRunner` (tempest/mcmc.py) around the single step `Model.Kernel.runStep` (C03, second audit).

  Python (statement by statement; `runStep` is the existing one-step model, used unchanged):

    __init__   self.u/x/logl/assignments = copies;  self.n_walkers, self.n_dim = x.shape;  self.n_clusters = mode_stats.K
               self.n_calls = 0;  self.sigma_0 = 2.38 / np.sqrt(self.n_dim);  self.sigmas = self._initialize_sigmas()
               self.iteration = 0
      TPCNRunner._initialize_sigmas   np.ones(K) * np.minimum(self.sigma_0, 0.99)
      RWMRunner._initialize_sigmas    np.ones(K) * self.sigma_0
    run        while True:
                 self.iteration += 1
                 <one step: proposals with the CURRENT self.sigmas, bounds check, likelihood (n_calls += n_walkers), alpha,
                  accept, update of u / x / logl>                                   = runStep with iter := iteration
                 for c in range(n_clusters): ... self._adapt_sigma(c, alpha[mask].mean())    = adaptAll (second component)
                 current_acceptance = mask_accept.mean()
                 if self._check_convergence(current_acceptance): break
               average_efficiency = self.sigmas.mean() / self.sigma_0;  average_acceptance = alpha.mean()
               return u, x, logl, blobs, average_efficiency, average_acceptance, self.iteration, self.n_calls
    _check_convergence(acc)          self.iteration >= self._calculate_adaptive_steps(acc)
    _calculate_adaptive_steps(acc)   cluster_sizes = [sum(assignments == c) for c in range(K) if that is > 0]
                                     weighted_sigma = np.average(self.sigmas[:len(cluster_sizes)], weights=cluster_sizes)
                                     n_min = n_steps * n_dim
                                     n_ad  = n_steps * n_dim * (0.234 / max(0.01, acc)) * (sigma_0 / max(1e-6, weighted_sigma)) ** 2
                                     return int(min(max(n_min, n_ad), n_max * n_dim))
    parallel_mcmc                    sample == "rwm" -> RWMRunner(...).run(), anything else -> TPCNRunner(...).run()

  The random draws and the user's functions are TAPES: per iteration and walker the gamma variate, the normal vector, the
  prior-transformed proposal, its log-likelihood and the uniform (`Draw`).  The list of per-iteration tapes is the FUEL of
  the loop: `run` recurses structurally on it and reports `outOfTape` when it ends before the stopping rule fires.
  Core Lean only.
-/
namespace Model.KernelRun
open Model.Kernel
variable {α : Type} [ScT α]

/-! ### `__init__` -/

/-- `self.sigma_0 = 2.38 / np.sqrt(self.n_dim)` -/
def sigma0 (nDim : Nat) : α := Sc.div (Sc.lit 238 2) (ScT.sqrt (Sc.ofNat nDim))

/-- one entry of `TPCNRunner._initialize_sigmas`: `1.0 * np.minimum(sigma_0, 0.99)` -/
def initSigmaTpcn (s0 : α) : α := Sc.mul Sc.one (npMinimum s0 (Sc.lit 99 2))
/-- one entry of `RWMRunner._initialize_sigmas`: `1.0 * sigma_0` -/
def initSigmaRwm (s0 : α) : α := Sc.mul Sc.one s0

def initSigma (kind : Kind) (s0 : α) : α :=
  match kind with
  | .tpcn => initSigmaTpcn s0
  | .rwm => initSigmaRwm s0

/-- `np.ones(self.n_clusters) * …` -/
def initSigmas (kind : Kind) (K : Nat) (s0 : α) : List α := List.replicate K (initSigma kind s0)

/-- what the constructor stores and `run` only READS -/
structure Config (α : Type) where
  kind : Kind
  /-- `mode_stats` (`n_clusters = mode_stats.K = modes.length`) -/
  modes : List (Mode α)
  beta : α
  per : List Nat
  refl : List Nat
  nSteps : Nat
  nMax : Nat
  /-- `self.n_dim` (second component of `x.shape`) -/
  nDim : Nat

/-- the attributes `run` reads AND writes, plus the loop-local `alpha` that survives the loop -/
structure State (α : Type) where
  u : List (List α)
  x : List (List α)
  logl : List α
  /-- `self.assignments` (part of the state so that "never written" is a statement, not a convention) -/
  assign : List Nat
  sigmas : List α
  iteration : Nat
  nCalls : Nat
  /-- the local `alpha` of the last executed step (`[]` before the first) -/
  alpha : List α

/-- tapes of one walker in one iteration -/
structure Draw (α : Type) where
  /-- `np.random.gamma(...)` (tpCN; ignored by RWM) -/
  g : α
  /-- `np.random.randn(n_dim)` -/
  z : List α
  /-- `prior_transform(u_prime[k])` -/
  xp : List α
  /-- `log_likelihood(x_prime)[k]` -/
  lp : α
  /-- `np.random.rand(n_walkers)[k]` -/
  r : α

/-- the interpreted ones of the 15 constructor arguments (`blobs`, the two user functions, the progress bar and `verbose`
    are tapes / outside the model) -/
structure Args (α : Type) where
  u : List (List α)
  x : List (List α)
  logl : List α
  assign : List Nat
  beta : α
  modes : List (Mode α)
  nSteps : Nat
  nMax : Nat
  per : List Nat
  refl : List Nat

/-- `x.shape[1]` -/
def shapeDim (x : List (List α)) : Nat :=
  match x with
  | r :: _ => r.length
  | [] => 0

/-- `BaseMCMCRunner.__init__` (with the subclass's `_initialize_sigmas`) -/
def construct (kind : Kind) (a : Args α) : Config α × State α :=
  let nDim := shapeDim a.x
  ({ kind, modes := a.modes, beta := a.beta, per := a.per, refl := a.refl, nSteps := a.nSteps, nMax := a.nMax, nDim },
   { u := a.u, x := a.x, logl := a.logl, assign := a.assign, sigmas := initSigmas kind a.modes.length (sigma0 nDim),
     iteration := 0, nCalls := 0, alpha := [] })

/-- `self.n_walkers` (first component of `x.shape`) -/
def nWalkers (s : State α) : Nat := s.x.length

/-! ### one pass through the loop body -/

/-- the walkers of the step: state, assignment and this iteration's tapes, walker by walker -/
def walkers : List (List α) → List Nat → List α → List (Draw α) → List (Walker α)
  | u :: us, a :: as, l :: ls, d :: ds =>
    { u, assign := a, l, lp := d.lp, g := d.g, r := d.r, z := d.z } :: walkers us as ls ds
  | _, _, _, _ => []

/-- input of the ONE step executed in this pass: the step sizes are a PARAMETER (`sigmas`), the iteration number is the
    already incremented `self.iteration` -/
def stepInput (c : Config α) (sigmas : List α) (s : State α) (tape : List (Draw α)) : RunIn α :=
  { kind := c.kind, modes := c.modes, sigmas, beta := c.beta, per := c.per, refl := c.refl,
    iter := Sc.ofNat (s.iteration + 1), sigma0 := sigma0 c.nDim,
    walkers := walkers s.u s.assign s.logl tape }

/-- `old[mask] = new[mask]` -/
def select {β : Type} : List Bool → List β → List β → List β
  | m :: ms, n :: ns, o :: os => (if m then n else o) :: select ms ns os
  | _, _, _ => []

/-- `mask_accept.mean()`: number of `True` over the length -/
def meanBool (m : List Bool) : α := Sc.div (Sc.ofNat (m.count true)) (Sc.ofNat m.length)

/-- `cluster_sizes`: populations of the NON-EMPTY clusters, in cluster order -/
def clusterSizes (K : Nat) (assign : List Nat) : List Nat :=
  (List.range K).filterMap fun c => if 0 < assign.count c then some (assign.count c) else none

/-- `np.average(self.sigmas[:len(cluster_sizes)], weights=cluster_sizes)` — the FIRST `m` step sizes are paired with the
    `m` non-empty populations (as the code does; left folds, numpy sums pairwise: regime T) -/
def weightedSigma (sigmas : List α) (sizes : List Nat) : α :=
  let w : List α := sizes.map Sc.ofNat
  Sc.div (Sc.sum (List.zipWith Sc.mul (sigmas.take sizes.length) w)) (Sc.sum w)

/-- `n_steps * n_dim * (0.234 / max(0.01, acc)) * (sigma_0 / max(1e-6, wsigma)) ** 2` -/
def adaptiveRaw (nSteps nDim : Nat) (acc wsigma s0 : α) : α :=
  let q := Sc.div s0 (Sc.max (Sc.lit 1 6) wsigma)
  Sc.mul (Sc.mul (Sc.ofNat (nSteps * nDim)) (Sc.div (Sc.lit 234 3) (Sc.max (Sc.lit 1 2) acc))) (Sc.mul q q)

/-- `min(max(n_steps*n_dim, n_steps_adaptive), n_max*n_dim)` before the `int(...)` -/
def boundedSteps (nSteps nDim nMax : Nat) (acc wsigma s0 : α) : α :=
  Sc.min (Sc.max (Sc.ofNat (nSteps * nDim)) (adaptiveRaw nSteps nDim acc wsigma s0)) (Sc.ofNat (nMax * nDim))

/-- `_calculate_adaptive_steps`: `int(...)` of a non-negative value is its floor -/
def adaptiveSteps (nSteps nDim nMax : Nat) (acc wsigma s0 : α) : α :=
  Sc.floor (boundedSteps nSteps nDim nMax acc wsigma s0)

/-- `_check_convergence`: `self.iteration >= adaptive_steps` -/
def converged (iteration : Nat) (steps : α) : Bool := Sc.le steps (Sc.ofNat iteration)

/-- everything observable of one pass through the loop body -/
structure IterRec (α : Type) where
  /-- state at the loop head -/
  pre : State α
  tape : List (Draw α)
  /-- per-walker results of the step -/
  outs : List (StepOut α)
  /-- state after update and adaptation -/
  post : State α
  /-- `current_acceptance` -/
  curAcc : α
  /-- `weighted_sigma` (of the ADAPTED step sizes) -/
  wsigma : α
  /-- `adaptive_steps` -/
  steps : α
  /-- `_check_convergence(...)` -/
  stop : Bool

/-- one pass: `iteration += 1`; the step `runStep` with the current step sizes; update of u / x / logl; `n_calls`;
    the adapted step sizes; the stopping rule.  `none` = IndexError (an assignment is not a mode index). -/
def iterate (c : Config α) (s : State α) (tape : List (Draw α)) : Option (IterRec α) :=
  match runStep (stepInput c s.sigmas s tape) with
  | none => none
  | some (outs, newSigmas) =>
    let mask := outs.map (·.accept)
    let alpha := outs.map (·.alpha)
    let post : State α :=
      { u := outs.map (·.newU),
        x := select mask (tape.map (·.xp)) s.x,
        logl := select mask (tape.map (·.lp)) s.logl,
        assign := s.assign,
        sigmas := newSigmas,
        iteration := s.iteration + 1,
        nCalls := s.nCalls + nWalkers s,
        alpha }
    let curAcc : α := meanBool mask
    let ws := weightedSigma newSigmas (clusterSizes c.modes.length s.assign)
    let steps := adaptiveSteps c.nSteps c.nDim c.nMax curAcc ws (sigma0 c.nDim)
    some { pre := s, tape, outs, post, curAcc, wsigma := ws, steps, stop := converged (s.iteration + 1) steps }

/-! ### the loop -/

inductive Status
  /-- the stopping rule fired -/
  | done
  /-- the tapes (the fuel) ended before the stopping rule fired -/
  | outOfTape
  /-- numpy raised IndexError in a step -/
  | indexError
  deriving DecidableEq, Repr

structure RunOut (α : Type) where
  status : Status
  /-- one record per executed pass, in order -/
  recs : List (IterRec α)
  /-- state when the loop was left -/
  final : State α

/-- `while True:` with the per-iteration tapes as fuel -/
def run (c : Config α) : State α → List (List (Draw α)) → RunOut α
  | s, [] => { status := .outOfTape, recs := [], final := s }
  | s, t :: ts =>
    match iterate c s t with
    | none => { status := .indexError, recs := [], final := s }
    | some r =>
      if r.stop then { status := .done, recs := [r], final := r.post }
      else
        let o := run c r.post ts
        { status := o.status, recs := r :: o.recs, final := o.final }

/-- return values of `run` (besides `blobs`) -/
structure Result (α : Type) where
  u : List (List α)
  x : List (List α)
  logl : List α
  /-- `self.sigmas.mean() / self.sigma_0` -/
  efficiency : α
  /-- `alpha.mean()` of the last step -/
  acceptance : α
  iteration : Nat
  nCalls : Nat

def result (c : Config α) (s : State α) : Result α :=
  { u := s.u, x := s.x, logl := s.logl,
    efficiency := Sc.div (mean s.sigmas) (sigma0 c.nDim),
    acceptance := mean s.alpha,
    iteration := s.iteration, nCalls := s.nCalls }

/-- the number of passes after which the stopping rule has fired for sure: `max(1, n_max * n_dim)` -/
def fuelBound (c : Config α) : Nat := Nat.max 1 (c.nMax * c.nDim)

/-! ### `parallel_mcmc` -/

/-- `if sample == "rwm": … else: …` -/
def dispatch (sample : String) : Kind := if sample = "rwm" then .rwm else .tpcn

/-- `parallel_mcmc(...)`: choose the runner class by `sample`, construct it from the (positionally passed-through) arguments,
    run it -/
def parallelMcmc (sample : String) (a : Args α) (tapes : List (List (Draw α))) : Config α × RunOut α :=
  let cs := construct (dispatch sample) a
  (cs.1, run cs.1 cs.2 tapes)

end Model.KernelRun
