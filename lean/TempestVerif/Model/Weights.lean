import TempestVerif.Sc
/-
  Model of `tempest/state_manager.py: StateManager.compute_logw_and_logz` (C04; reused by C01, C02, C10).

  Python:
      beta = history("beta");  if beta.size == 0: return array([]), -inf
      A = logl_all * beta_final
      n_per_iter = [len(logl[t])];  N_total = n_per_iter.sum()
      b = logl_all[:, None] * beta[None, :] - logz_iter[None, :]
      b_weighted = b + (np.log(n_per_iter) - np.log(N_total))[None, :]
      B = np.logaddexp.reduce(b_weighted, axis=1)
      logw = A - B
      logz_new = np.logaddexp.reduce(logw) - np.log(logw.size)
      if normalize and logw.size: logw = logw - np.logaddexp.reduce(logw)

  `np.logaddexp(x, y)` (numpy `npy_logaddexp`):
      if x == y: x + LOGE2
      else: tmp = x - y;  if tmp > 0: x + log1p(exp(-tmp))  elif tmp <= 0: y + log1p(exp(tmp))  else NaN
  The scalar interface has no `log1p`; `log (1 + exp t)` is used (identical over ℝ, within the
  tolerance of regime T over doubles).  `ufunc.reduce` folds left to right from the first element.
-/
namespace Model.Weights
variable {α : Type} [ScT α]

/-- the argument handed to `exp` inside `logaddexp`: `-(a-b)` if `a-b > 0`, else `a-b` (never positive) -/
def laeArg (a b : α) : α :=
  let tmp := Sc.sub a b
  if Sc.lt Sc.zero tmp then Sc.neg tmp else tmp

/-- `np.logaddexp(a, b)` in numpy's max-shifted form -/
def logaddexp (a b : α) : α :=
  if Sc.le a b && Sc.le b a then Sc.add a (ScT.log Sc.two)
  else if Sc.lt Sc.zero (Sc.sub a b) then Sc.add a (ScT.log (Sc.add Sc.one (ScT.exp (laeArg a b))))
  else Sc.add b (ScT.log (Sc.add Sc.one (ScT.exp (laeArg a b))))

/-- `np.logaddexp.reduce` over a non-empty sequence `x :: xs` (left fold from the first element) -/
def logaddexpReduce1 (x : α) (xs : List α) : α := xs.foldl logaddexp x

/-- `np.logaddexp.reduce` on a list; the empty reduction (numpy: the identity −∞) is `none` -/
def logaddexpReduce : List α → Option α
  | [] => none
  | x :: xs => some (logaddexpReduce1 x xs)

/-- one stored iteration: its temperature, its evidence value, the log-likelihoods of its particles -/
structure Batch (α : Type) where
  beta : α
  logz : α
  logl : List α

/-- `N_total = n_per_iter.sum()` -/
def nTotal (h : List (Batch α)) : Nat := (h.map fun b => b.logl.length).sum

/-- `get_history("logl", flat=True)`: batches in order, particles in order -/
def flatLogl (h : List (Batch α)) : List α := h.flatMap fun b => b.logl

/-- `b_weighted[s, t] = (logl_s * beta_t - logz_t) + (log n_t - log N)` -/
def entry (logN l : α) (b : Batch α) : α :=
  Sc.add (Sc.sub (Sc.mul l b.beta) b.logz) (Sc.sub (ScT.log (Sc.ofNat b.logl.length)) logN)

/-- `B[s] = np.logaddexp.reduce(b_weighted[s, :])` for the non-empty history `b0 :: bs` -/
def mixLog (b0 : Batch α) (bs : List (Batch α)) (logN l : α) : α :=
  logaddexpReduce1 (entry logN l b0) (bs.map (entry logN l))

/-- unnormalised `logw = A - B` over the flat particle list of the non-empty history `b0 :: bs` -/
def rawLogw (b0 : Batch α) (bs : List (Batch α)) (beta : α) : List α :=
  let logN := ScT.log (Sc.ofNat (nTotal (b0 :: bs)))
  (flatLogl (b0 :: bs)).map fun l => Sc.sub (Sc.mul l beta) (mixLog b0 bs logN l)

/-- the tail of the function, given the unnormalised `logw` array -/
def finish (w : List α) (normalize : Bool) : List α × Option α :=
  match w with
  | [] => ([], none)      -- Python: `logaddexp.reduce([]) - log(0)` = −∞ − (−∞) = NaN; outside the statement
  | w0 :: ws =>
    let lse := logaddexpReduce1 w0 ws
    let logz := Sc.sub lse (ScT.log (Sc.ofNat (w0 :: ws).length))
    (if normalize then (w0 :: ws).map (fun x => Sc.sub x lse) else w0 :: ws, some logz)

/-- `compute_logw_and_logz(beta_final, normalize)` → `(logw, logz_new)`.
    The second component is `none` exactly where Python returns a non-finite evidence
    (−∞ for the empty history; NaN when every stored batch is empty). -/
def logw (h : List (Batch α)) (beta : α) (normalize : Bool) : List α × Option α :=
  match h with
  | [] => ([], none)
  | b0 :: bs => finish (rawLogw b0 bs beta) normalize

end Model.Weights
