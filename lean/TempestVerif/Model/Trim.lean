import TempestVerif.Sc
import TempestVerif.Model.Ess
/-
  Model of `tempest/tools.py: trim_weights` (C20) together with the two numpy routines it relies on.

      weights /= np.sum(weights)                         -- in place (the caller's array is normalised)
      ess_total = 1.0 / np.sum(weights**2.0)
      percentiles = np.linspace(0, 99, bins)
      i = bins - 1
      while True:
          p = percentiles[i]
          threshold = np.percentile(weights, p)          -- numpy default method 'linear'
          mask = weights >= threshold
          weights_trimmed = weights[mask]
          weights_trimmed /= np.sum(weights_trimmed)
          ess_trimmed = 1.0 / np.sum(weights_trimmed**2.0)
          if ess_trimmed / ess_total >= ess or i == 0: break     -- (`or i == 0`: fix 8ceb8ba, bottom of the grid)
          i -= 1
      return samples[mask], weights_trimmed

  SOURCE-DERIVED: `Props/C20Source.lean` (`C20_src_trim_body`, `_trim_loop`, `_trimStop`, `_trim`) proves that `step`, `search`,
  `trimStop`, `trim` are the loop body / loop / whole function compiled from the current `tools.py` (translator G16,
  `Gen/ToolsSrc.lean`); `percentileLinear`, `linspace0_99`, `filterMask`, `sortAsc` are hand-written models of numpy routines.

  numpy (2.x) `percentile(a, p)`, method 'linear':  q = p/100;  v = (n-1)*q;  lo = floor v;  hi = lo+1;
  if v >= n-1 both indices are the last one;  gamma = v - lo;  result = _lerp(sorted[lo], sorted[hi], gamma) with
      _lerp(a,b,t) = a + (b-a)*t,  overwritten by  b - (b-a)*(1-t)  where t >= 0.5.
  numpy `linspace(0, 99, bins)`: step = 99/(bins-1); y_i = i*step (+ 0); last entry forced to 99; bins = 1 gives [0.].
-/
namespace Model.Trim
open Model.Ess
variable {α : Type} [Sc α]

/-- ascending sort (numpy partitions; the values at the inspected ranks are those of the sorted array) -/
def sortAsc (w : List α) : List α := w.mergeSort fun a b => Sc.le a b

/-- the largest `k ≤ bound` with `k ≤ v` (and `0` if there is none): `floor v` as an index, for `0 ≤ v` -/
def floorIdx (v : α) : Nat → Nat
  | 0 => 0
  | k + 1 => if Sc.le (Sc.ofNat (k + 1)) v then k + 1 else floorIdx v k

/-- numpy `_lerp` -/
def lerp (a b t : α) : α :=
  let d := Sc.sub b a
  if Sc.le (Sc.lit 5 1) t then Sc.sub b (Sc.mul d (Sc.sub Sc.one t)) else Sc.add a (Sc.mul d t)

/-- `np.percentile(·, p)` of an already sorted array (`none`: empty array) -/
def percentileLinear (sorted : List α) (p : α) : Option α :=
  let n := sorted.length
  let v := Sc.mul (Sc.ofNat (n - 1)) (Sc.div p (Sc.ofNat 100))
  if Sc.le (Sc.ofNat (n - 1)) v then sorted.getLast?
  else
    let lo := floorIdx v (n - 1)
    let γ := Sc.sub v (Sc.ofNat lo)
    match sorted[lo]?, sorted[lo + 1]? with
    | some a, some b => some (lerp a b γ)
    | _, _ => none

/-- `np.linspace(0, 99, bins)[i]` for `i < bins` -/
def linspace0_99 (bins i : Nat) : α :=
  if bins ≤ 1 then Sc.zero
  else if i + 1 = bins then Sc.ofNat 99
  else Sc.mul (Sc.ofNat i) (Sc.div (Sc.ofNat 99) (Sc.ofNat (bins - 1)))

/-- boolean-mask indexing `a[mask]` -/
def filterMask {σ : Type} : List σ → List Bool → List σ
  | x :: xs, b :: bs => if b then x :: filterMask xs bs else filterMask xs bs
  | _, _ => []

/-- what one pass of the loop body computes -/
structure Step (α : Type) where
  thr : α
  mask : List Bool
  wt : List α
  ratio : α

/-- loop body at percentile `p`; `wn` = normalised weights, `sorted` = `sortAsc wn` -/
def step (wn sorted : List α) (essTotal p : α) : Option (Step α) :=
  (percentileLinear sorted p).map fun thr =>
    let mask := wn.map fun x => Sc.le thr x
    let wt := normalise (filterMask wn mask)
    let essTrim := Sc.div Sc.one (sumSq wt)
    ⟨thr, mask, wt, Sc.div essTrim essTotal⟩

/-- the `while True` loop started at grid index `i`: index and data of the pass that hit `break`.
    At `i = 0` the loop breaks whatever the ratio is.  `none`: the array is empty (no percentile). -/
def search (wn sorted : List α) (essTotal essFrac : α) (bins : Nat) : Nat → Option (Nat × Step α)
  | 0 =>
    match step wn sorted essTotal (linspace0_99 bins 0) with
    | none => none
    | some s => some (0, s)
  | i + 1 =>
    match step wn sorted essTotal (linspace0_99 bins (i + 1)) with
    | none => none
    | some s => if Sc.le essFrac s.ratio then some (i + 1, s) else search wn sorted essTotal essFrac bins i

/-- the stopping pass of `trim_weights` (`bins = 0`: `percentiles[-1]` of an empty grid raises) -/
def trimStop (w : List α) (essFrac : α) (bins : Nat) : Option (Nat × Step α) :=
  if bins = 0 then none else
  let wn := normalise w
  let essTotal := Sc.div Sc.one (sumSq wn)
  search wn (sortAsc wn) essTotal essFrac bins (bins - 1)

/-- `trim_weights(samples, weights, ess, bins)` -/
def trim {σ : Type} (samples : List σ) (w : List α) (essFrac : α) (bins : Nat) : Option (List σ × List α) :=
  (trimStop w essFrac bins).map fun r => (filterMask samples r.2.mask, r.2.wt)

/-! ### numpy routines under the names the regenerated `Gen/ToolsSrc.lean` refers to -/

/-- `np.linspace(0, stop, n)[i]` for `i < n` (`linspace0_99 bins i` is `linspace0 (Sc.ofNat 99) bins i`, by `rfl`) -/
def linspace0 (stop : α) (n i : Nat) : α :=
  if n ≤ 1 then Sc.zero
  else if i + 1 = n then stop
  else Sc.mul (Sc.ofNat i) (Sc.div stop (Sc.ofNat (n - 1)))

/-- `np.linspace(start, stop, n)[i]` for `i < n`, general start (numpy: `arange(n) * step + start`, last entry forced to `stop`);
    not used by the present source — the translator emits it when the grid does not start at the literal `0` -/
def linspace (start stop : α) (n i : Nat) : α :=
  if n ≤ 1 then start
  else if i + 1 = n then stop
  else Sc.add (Sc.mul (Sc.ofNat i) (Sc.div (Sc.sub stop start) (Sc.ofNat (n - 1)))) start

/-- `np.percentile(a, p)` of an unsorted array (`none`: empty array) -/
def percentile (a : List α) (p : α) : Option α := percentileLinear (sortAsc a) p

end Model.Trim
