/-
  Reference-level model of `tempest/state_manager.py: StateManager` (C17; core Lean only).

  What is modelled: *which array object* every slot of `_current`, `_history`, `_results_dict`
  points to, and the payload of every array.  numpy arrays live in a heap; an address is the
  index of the cell, so the fresh-address counter `next` is `heap.length`.  Scalars and `None`
  are stored unboxed.  Nothing in `StateManager` ever writes into an existing array: every
  method only *allocates* (`ndarray.copy()`, `np.array(list)`, `np.concatenate(list)`) or moves
  references around.  The only in-place write is the caller action `scribble`.

  Ghost state (not in the Python): `escaped` = addresses of arrays the caller holds (returned by
  an accessor, or created by the caller and passed in); `imported` = addresses that the caller
  holds AND that were stored by reference into `_current` on the caller's explicit request
  (`set_current/update_current(copy=False)` — the only opt-in left: nothing else stores a caller's array as is).

  Python methods mirrored (file as of the `fix:` commits fd508f0 / fb52885 / 1c48c7d: `to_dict` copies,
  `compute_results` returns copies of the cache, `update_from_dict` stores copies of the imported lists and arrays):
    _ensure_copy, get_current, set_current, update_current, get_history, get_last_history,
    commit_current_to_history, compute_results (+ cache, _invalidate_cache), compute_logw_and_logz (as an
    accessor: fresh array, stand-in payload), to_dict,
    update_from_dict (from_dict = `cls(n_dim)` followed by update_from_dict, i.e. update_from_dict on `init`;
    a second manager living beside the first is not modelled, the harness covers it on the real code).
  Not modelled: array shapes/dtypes (payload is the flattened content; `np.array` of a ragged or
  None-containing list is an unreadable cell), the numerical content of `logw` (a stand-in that reads
  the same history entries), `n_dim`, `save_state/load_state` (dill round trip = import of fresh arrays).
  The list containers handed to `update_from_dict` need no cells: the method builds fresh lists
  (`[self._ensure_copy(item) for item in v]`), so the caller's lists are never stored.
-/
namespace Model.StateMgr

abbrev Addr := Nat
abbrev Content := List Int
abbrev Key := String

/-- a Python value stored in a slot: `None`, an unboxed scalar, or a reference to an ndarray -/
inductive Val where
  | none
  | scalar (x : Int)
  | ref (a : Addr)
  deriving DecidableEq, Repr, Inhabited

/-- heap of arrays; cell `a` is `some payload`, or `none` for an array whose payload the model cannot
    represent (copy of a dangling reference, `np.array` of a list containing `None`) -/
abbrev Heap := List (Option Content)

def rd (h : Heap) (a : Addr) : Option Content := (h[a]?).join

/-- `CURRENT_STATE_KEYS` -/
def currentKeys : List Key :=
  ["u", "x", "logl", "assignments", "blobs", "acceptance", "steps", "efficiency", "ess", "beta", "logz", "calls", "iter"]

/-- `HISTORY_STATE_KEYS` -/
def historyKeys : List Key :=
  ["u", "x", "logl", "blobs", "iter", "logz", "calls", "steps", "efficiency", "ess", "acceptance", "beta"]

/-- keys visited by `for current_key in CURRENT_STATE_KEYS: if current_key in HISTORY_STATE_KEYS` -/
def commitKeys : List Key := currentKeys.filter (fun k => historyKeys.contains k)

/-! ### dictionaries as association lists (first match wins; `insert` keeps the position of an existing key) -/

def lookup {β : Type} (k : Key) : List (Key × β) → Option β
  | [] => none
  | (k', v) :: l => if k' = k then some v else lookup k l

def insert {β : Type} (k : Key) (v : β) : List (Key × β) → List (Key × β)
  | [] => [(k, v)]
  | (k', v') :: l => if k' = k then (k, v) :: l else (k', v') :: insert k v l

def adjust {β : Type} (k : Key) (f : β → β) : List (Key × β) → List (Key × β)
  | [] => []
  | (k', v') :: l => if k' = k then (k', f v') :: l else (k', v') :: adjust k f l

/-- `d.update(e)` -/
def updateAll {β : Type} (d : List (Key × β)) (e : List (Key × β)) : List (Key × β) :=
  e.foldl (fun acc kv => insert kv.1 kv.2 acc) d

structure State where
  current : List (Key × Val)
  history : List (Key × List Val)
  cache : Option (List (Key × Val))
  heap : Heap
  escaped : List Addr
  imported : List Addr      -- ghost: caller-held arrays stored by reference into `_current` at the caller's request

def State.next (s : State) : Addr := s.heap.length

/-- `StateManager.__init__` -/
def init : State :=
  { current := currentKeys.map (fun k => (k, Val.none))
    history := historyKeys.map (fun k => (k, []))
    cache := none
    heap := []
    escaped := []
    imported := [] }

def Val.addrs : Val → List Addr
  | .ref a => [a]
  | _ => []

def dictAddrs (d : List (Key × Val)) : List Addr := d.flatMap (fun kv => kv.2.addrs)
def listAddrs (l : List Val) : List Addr := l.flatMap Val.addrs
def histAddrs (d : List (Key × List Val)) : List Addr := d.flatMap (fun kv => listAddrs kv.2)

/-! ### `_ensure_copy` and its comprehensions -/

/-- `_ensure_copy(value)`: a fresh array for an ndarray, the value itself for `None` / scalars -/
def copyVal (h : Heap) : Val → Heap × Val
  | .ref a => (h ++ [rd h a], .ref h.length)
  | .none => (h, .none)
  | .scalar x => (h, .scalar x)

/-- `[self._ensure_copy(item) for item in v]` -/
def copyList (h : Heap) : List Val → Heap × List Val
  | [] => (h, [])
  | v :: vs => ((copyList (copyVal h v).1 vs).1, (copyVal h v).2 :: (copyList (copyVal h v).1 vs).2)

/-- `{k: self._ensure_copy(v) for k, v in d.items()}` -/
def copyDict (h : Heap) : List (Key × Val) → Heap × List (Key × Val)
  | [] => (h, [])
  | (k, v) :: r => ((copyDict (copyVal h v).1 r).1, (k, (copyVal h v).2) :: (copyDict (copyVal h v).1 r).2)

/-- `{k: [self._ensure_copy(item) for item in v] for k, v in d.items()}` -/
def copyHist (h : Heap) : List (Key × List Val) → Heap × List (Key × List Val)
  | [] => (h, [])
  | (k, l) :: r => ((copyHist (copyList h l).1 r).1, (k, (copyList h l).2) :: (copyHist (copyList h l).1 r).2)

/-! ### `np.array(list)` / `np.concatenate(list)` : a fresh array holding the payloads of the entries -/

def cellOf (h : Heap) : Val → Option Content
  | .none => none
  | .scalar x => some [x]
  | .ref a => rd h a

def stack (h : Heap) : List Val → Option Content
  | [] => some []
  | v :: vs =>
    match cellOf h v, stack h vs with
    | some c, some cs => some (c ++ cs)
    | _, _ => none

def Val.isRef : Val → Bool
  | .ref _ => true
  | _ => false

/-! ### arguments supplied by the caller -/

/-- a value the caller passes in: `None`, a scalar, an array it creates for the call (`fresh`, payload
    given; the caller keeps the reference), or an array it already holds (`held`) -/
inductive Arg where
  | none
  | scalar (x : Int)
  | fresh (p : Content)
  | held (a : Addr)
  deriving DecidableEq, Repr

/-- a caller cannot forge references: `held a` is only legal for an address it was given -/
def Arg.legal (esc : List Addr) : Arg → Bool
  | .held a => esc.contains a
  | _ => true

/-- caller-side evaluation of one argument: `fresh` allocates an array that the caller holds -/
def resolveArg (h : Heap) (esc : List Addr) : Arg → Heap × List Addr × Val
  | .none => (h, esc, .none)
  | .scalar x => (h, esc, .scalar x)
  | .fresh p => (h ++ [some p], h.length :: esc, .ref h.length)
  | .held a => (h, esc, .ref a)

def resolveList (h : Heap) (esc : List Addr) : List Arg → Heap × List Addr × List Val
  | [] => (h, esc, [])
  | x :: xs =>
    let r := resolveArg h esc x
    let rs := resolveList r.1 r.2.1 xs
    (rs.1, rs.2.1, r.2.2 :: rs.2.2)

def resolveDict (h : Heap) (esc : List Addr) : List (Key × Arg) → Heap × List Addr × List (Key × Val)
  | [] => (h, esc, [])
  | (k, x) :: xs =>
    let r := resolveArg h esc x
    let rs := resolveDict r.1 r.2.1 xs
    (rs.1, rs.2.1, (k, r.2.2) :: rs.2.2)

def resolveHist (h : Heap) (esc : List Addr) : List (Key × List Arg) → Heap × List Addr × List (Key × List Val)
  | [] => (h, esc, [])
  | (k, l) :: xs =>
    let r := resolveList h esc l
    let rs := resolveHist r.1 r.2.1 xs
    (rs.1, rs.2.1, (k, r.2.2) :: rs.2.2)

/-! ### operations -/

inductive Err where
  | valueError      -- invalid key, strict commit with missing keys, np.concatenate of nothing / of scalars
  | indexError      -- history index out of range
  | keyError        -- dictionary slot missing (cannot happen from `init`: keys are never removed)
  | illegal         -- not a possible caller action (`held`/`scribble` of an address the caller does not hold)
  deriving DecidableEq, Repr

inductive Res where
  | unit
  | val (v : Val)
  | dict (d : List (Key × Val))
  | export (cur : List (Key × Val)) (hist : List (Key × List Val))
  | err (e : Err)
  deriving DecidableEq, Repr

def Res.addrs : Res → List Addr
  | .unit => []
  | .val v => v.addrs
  | .dict d => dictAddrs d
  | .export c h => dictAddrs c ++ histAddrs h
  | .err _ => []

inductive Op where
  | setCurrent (k : Key) (v : Arg) (copy : Bool)
  | updateCurrent (kvs : List (Key × Arg)) (copy : Bool)
  | getCurrent (k : Option Key)
  | getHistory (k : Key) (index : Option Int) (flat : Bool)
  | getLastHistory (k : Key)
  | commit (strict : Bool)
  | computeResults
  | logw (beta : Int)      -- `compute_logw_and_logz(beta_final)`: an accessor, hands out a freshly computed array
  | toDict
  | updateFromDict (cur : Option (List (Key × Arg))) (hist : Option (List (Key × List Arg)))
  | scribble (a : Addr) (p : Content)
  deriving Repr

/-- `self._current[key] = self._ensure_copy(value) if copy else value` (ghost: a reference stored without
    copying is one the caller holds, so it is recorded in `imported`) -/
def storeCurrent (s : State) (k : Key) (v : Val) (copy : Bool) : State :=
  if copy then
    { s with heap := (copyVal s.heap v).1, current := insert k (copyVal s.heap v).2 s.current }
  else
    { s with current := insert k v s.current, imported := v.addrs ++ s.imported }

/-- body of `update_current`'s loop; `false` = ValueError raised at an invalid key (earlier items stay stored,
    `_invalidate_cache()` is not reached) -/
def updLoop (copy : Bool) : List (Key × Val) → State → State × Bool
  | [], s => (s, true)
  | (k, v) :: r, s =>
    if currentKeys.contains k then updLoop copy r (storeCurrent s k v copy) else (s, false)

/-- the loop of `commit_current_to_history` -/
def commitLoop : List Key → State → State
  | [], s => s
  | k :: ks, s =>
    match lookup k s.current with
    | some v =>
      if v = Val.none then commitLoop ks s
      else commitLoop ks { s with heap := (copyVal s.heap v).1,
                                  history := adjust k (fun l => l ++ [(copyVal s.heap v).2]) s.history }
    | none => commitLoop ks s

/-- `for key in self._history.keys(): self._results_dict[key] = self.get_history(key)`;
    `false` = `get_history` raised ValueError at a key outside HISTORY_STATE_KEYS (the partially filled
    dictionary stays in `_results_dict`) -/
def fillCache : List (Key × List Val) → Heap → List (Key × Val) → Heap × List (Key × Val) × Bool
  | [], h, c => (h, c, true)
  | (k, l) :: r, h, c =>
    if historyKeys.contains k then fillCache r (h ++ [stack h l]) (insert k (.ref h.length) c)
    else (h, c, false)

/-- stand-in for the payload of `logw` (`compute_logw_and_logz`, property C04): empty when no `beta` was
    committed, otherwise one entry per stored log-likelihood; reads only history entries -/
def logwStub (h : Heap) (hist : List (Key × List Val)) : Option Content :=
  match lookup "beta" hist, lookup "logl" hist with
  | some (_ :: _), some l => stack h l
  | _, _ => some []

def isNone : Option Val → Bool
  | some .none => true
  | none => true
  | _ => false

def dictLegal (esc : List Addr) (d : List (Key × Arg)) : Bool := d.all (fun kv => kv.2.legal esc)
def histLegal (esc : List Addr) (d : List (Key × List Arg)) : Bool := d.all (fun kv => kv.2.all (fun x => x.legal esc))

/-- items of an optional section of the imported dictionary -/
def entries {β : Type} : Option (List β) → List β
  | none => []
  | some d => d

def step (s : State) : Op → State × Res
  | .setCurrent k x copy =>
    if !x.legal s.escaped then (s, .err .illegal) else
    let r := resolveArg s.heap s.escaped x
    let s1 := { s with heap := r.1, escaped := r.2.1 }
    if !currentKeys.contains k then (s1, .err .valueError) else
    ({ storeCurrent s1 k r.2.2 copy with cache := none }, .unit)
  | .updateCurrent kvs copy =>
    if !dictLegal s.escaped kvs then (s, .err .illegal) else
    let r := resolveDict s.heap s.escaped kvs
    let s1 := { s with heap := r.1, escaped := r.2.1 }
    let u := updLoop copy r.2.2 s1
    if u.2 then ({ u.1 with cache := none }, .unit) else (u.1, .err .valueError)
  | .getCurrent (some k) =>
    if !currentKeys.contains k then (s, .err .valueError) else
    match lookup k s.current with
    | none => (s, .err .keyError)
    | some v =>
      let r := copyVal s.heap v
      ({ s with heap := r.1, escaped := r.2.addrs ++ s.escaped }, .val r.2)
  | .getCurrent none =>
    let r := copyDict s.heap s.current
    ({ s with heap := r.1, escaped := dictAddrs r.2 ++ s.escaped }, .dict r.2)
  | .getHistory k index flat =>
    if !historyKeys.contains k then (s, .err .valueError) else
    match lookup k s.history with
    | none => (s, .err .keyError)
    | some l =>
      match index with
      | none =>
        if flat && (l.isEmpty || !l.all Val.isRef) then (s, .err .valueError) else
        ({ s with heap := s.heap ++ [stack s.heap l], escaped := s.heap.length :: s.escaped },
         .val (.ref s.heap.length))
      | some i =>
        if i < 0 then (s, .err .indexError) else
        match l[i.toNat]? with
        | none => (s, .err .indexError)
        | some v =>
          let r := copyVal s.heap v
          ({ s with heap := r.1, escaped := r.2.addrs ++ s.escaped }, .val r.2)
  | .getLastHistory k =>
    if !historyKeys.contains k then (s, .err .valueError) else
    match lookup k s.history with
    | none => (s, .err .keyError)
    | some l =>
      match l.getLast? with
      | none => (s, .val .none)
      | some v =>
        let r := copyVal s.heap v
        ({ s with heap := r.1, escaped := r.2.addrs ++ s.escaped }, .val r.2)
  | .commit strict =>
    if strict && (isNone (lookup "beta" s.current) || isNone (lookup "logl" s.current)) then (s, .err .valueError) else
    ({ commitLoop commitKeys s with cache := none }, .unit)
  | .computeResults =>
    match s.cache with
    | some c =>
      let r := copyDict s.heap c
      ({ s with heap := r.1, escaped := dictAddrs r.2 ++ s.escaped }, .dict r.2)
    | none =>
      let f := fillCache s.history s.heap []
      if !f.2.2 then ({ s with heap := f.1, cache := some f.2.1 }, .err .valueError) else
      let c := insert "logw" (.ref f.1.length) f.2.1
      let h1 := f.1 ++ [logwStub f.1 s.history]
      let r := copyDict h1 c
      ({ s with heap := r.1, cache := some c, escaped := dictAddrs r.2 ++ s.escaped }, .dict r.2)
  | .logw _ =>
    -- `logw = A - B` (and `logw - logaddexp.reduce(logw)`): a new array on every call; reads history entries only
    ({ s with heap := s.heap ++ [logwStub s.heap s.history], escaped := s.heap.length :: s.escaped },
     .val (.ref s.heap.length))
  | .toDict =>
    let rc := copyDict s.heap s.current
    let rh := copyHist rc.1 s.history
    ({ s with heap := rh.1, escaped := dictAddrs rc.2 ++ histAddrs rh.2 ++ s.escaped }, .export rc.2 rh.2)
  | .updateFromDict cur hist =>
    let cur' := entries cur      -- `if "_current" in state_dict`: an absent section updates nothing
    let hist' := entries hist
    if !(dictLegal s.escaped cur' && histLegal s.escaped hist') then (s, .err .illegal) else
    -- caller side: the dictionary it passes (its arrays stay in its hands)
    let rc := resolveDict s.heap s.escaped cur'
    let rh := resolveHist rc.1 rc.2.1 hist'
    -- `{k: self._ensure_copy(v) …}` then `{k: [self._ensure_copy(item) for item in v] …}`: fresh arrays, fresh lists
    let cc := copyDict rh.1 rc.2.2
    let ch := copyHist cc.1 rh.2.2
    ({ s with heap := ch.1, escaped := rh.2.1,
              current := updateAll s.current cc.2,
              history := updateAll s.history ch.2,
              cache := none }, .unit)
  | .scribble a p =>
    if s.escaped.contains a then ({ s with heap := s.heap.set a (some p) }, .unit) else (s, .err .illegal)

def run (s : State) : List Op → State
  | [] => s
  | o :: os => run (step s o).1 os

/-! ### observable reads (payloads, never addresses) -/

inductive PVal where
  | none
  | scalar (x : Int)
  | arr (c : Content)
  | opaque            -- array whose payload the model does not represent
  deriving DecidableEq, Repr

def deref (h : Heap) : Val → PVal
  | .none => .none
  | .scalar x => .scalar x
  | .ref a => match rd h a with
    | some c => .arr c
    | none => .opaque

def derefDict (h : Heap) (d : List (Key × Val)) : List (Key × PVal) := d.map (fun kv => (kv.1, deref h kv.2))
def derefHist (h : Heap) (d : List (Key × List Val)) : List (Key × List PVal) :=
  d.map (fun kv => (kv.1, kv.2.map (deref h)))

/-- payload of an accessor's return value, read in the heap right after the call -/
inductive PRes where
  | unit
  | val (v : PVal)
  | dict (d : List (Key × PVal))
  | export (cur : List (Key × PVal)) (hist : List (Key × List PVal))
  | err (e : Err)
  deriving DecidableEq, Repr

def derefRes (h : Heap) : Res → PRes
  | .unit => .unit
  | .val v => .val (deref h v)
  | .dict d => .dict (derefDict h d)
  | .export c hi => .export (derefDict h c) (derefHist h hi)
  | .err e => .err e

structure Obs where
  current : List (Key × PVal)          -- `get_current()`
  history : List (Key × List PVal)     -- `get_history(key, i)` for every key and index
  results : PRes                       -- what `compute_results()` returns if called now
  logw : PVal                          -- what `compute_logw_and_logz()` returns if called now (stand-in payload)
  deriving DecidableEq, Repr

def observe (s : State) : Obs :=
  { current := derefDict s.heap s.current
    history := derefHist s.heap s.history
    results := derefRes (step s .computeResults).1.heap (step s .computeResults).2
    logw := match logwStub s.heap s.history with
      | some c => .arr c
      | none => .opaque }

end Model.StateMgr
