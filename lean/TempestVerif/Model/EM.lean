import TempestVerif.Sc
/-
  Model of the weighted EM algebra of `tempest/cluster.py: GaussianMixture` (C15):
  `_m_step`, `_compute_covariances` ('full' and 'diag'), and the normalisation line of `_e_step`.

  Python (as it is now, after the `fix:` that removed the `+1e-10` from the mean's denominator):
      weighted_resp = responsibilities * sample_weight[:, np.newaxis]
      weights = np.sum(weighted_resp, axis=0);  weights /= np.sum(weights)
      means = np.dot(weighted_resp.T, X) / np.maximum(np.sum(weighted_resp, axis=0)[:, None], np.finfo(float).tiny)
      full:  diff = X - means[k]
             cov[k] = np.dot(weighted_resp[:, k] * diff.T, diff);  cov[k] /= np.sum(weighted_resp[:, k]) + 1e-10
      diag:  cov[k] = np.sum(weighted_resp[:, k, None] * diff**2, axis=0);  cov[k] /= np.sum(weighted_resp[:, k]) + 1e-10
      e-step: responsibilities /= np.sum(responsibilities, axis=1, keepdims=True) + 1e-10
      init:   log_resp[:, k] = -0.5 * distances;  log_resp -= np.max(log_resp, axis=1, keepdims=True)
              responsibilities = np.exp(log_resp);  responsibilities /= np.sum(responsibilities, axis=1, keepdims=True)

  Data layout: `X : List (List α)` is n points × d, `R` is n × K, `s` has n entries.
  `tiny` (= `np.finfo(float).tiny`) and `eps` (= 1e-10) are parameters.
  The Gaussian density itself (scipy's `multivariate_normal.pdf`) is not modelled: the E-step takes
  the un-normalised matrix `weights[k] * pdf(x_i)` as an input.
-/
namespace Model.EM
variable {α : Type} [Sc α]

/-- column `k` of a row-major matrix (`M[:, k]`).  A row that has no entry `k` contributes nothing
    (no default value is invented); every theorem about columns carries the shape of `M` as a hypothesis. -/
def col {β : Type} (M : List (List β)) (k : Nat) : List β := M.filterMap (·[k]?)

/-- `Σ a_i b_i` -/
def dot (a b : List α) : α := Sc.sum (List.zipWith Sc.mul a b)

/-- `responsibilities * sample_weight[:, np.newaxis]` -/
def weightedResp (R : List (List α)) (s : List α) : List (List α) :=
  List.zipWith (fun row si => row.map fun r => Sc.mul r si) R s

/-- `np.sum(weighted_resp, axis=0)` as a list of K numbers -/
def colSums (K : Nat) (W : List (List α)) : List α := (List.range K).map fun k => Sc.sum (col W k)

/-- `weights = colsums; weights /= np.sum(weights)` -/
def normalise (S : List α) : List α :=
  let tot := Sc.sum S
  S.map fun x => Sc.div x tot

def mstepWeights (K : Nat) (R : List (List α)) (s : List α) : List α :=
  normalise (colSums K (weightedResp R s))

/-- one coordinate of one mean: `Σ_i ω_i x_i / max(Σ_i ω_i, tiny)` -/
def wmean (tiny : α) (ω xs : List α) : α := Sc.div (dot ω xs) (Sc.max (Sc.sum ω) tiny)

/-- mean of the component whose weighted responsibilities are `ω` -/
def meanVec (tiny : α) (d : Nat) (ω : List α) (X : List (List α)) : List α :=
  (List.range d).map fun j => wmean tiny ω (col X j)

def mstepMeans (tiny : α) (d K : Nat) (X R : List (List α)) (s : List α) : List (List α) :=
  let W := weightedResp R s
  (List.range K).map fun k => meanVec tiny d (col W k) X

/-- `diff = X - means[k]` -/
def diffRows (X : List (List α)) (m : List α) : List (List α) :=
  X.map fun x => List.zipWith Sc.sub x m

/-- `Σ_i (ω_i · a_i) · b_i` — one entry of `np.dot(ω * diff.T, diff)` -/
def scatter (ω da db : List α) : α := Sc.sum (List.zipWith Sc.mul (List.zipWith Sc.mul ω da) db)

/-- entry (a, b) of the full covariance: scatter / (Σ_i ω_i + eps) -/
def covEntry (eps : α) (ω : List α) (D : List (List α)) (a b : Nat) : α :=
  Sc.div (scatter ω (col D a) (col D b)) (Sc.add (Sc.sum ω) eps)

/-- `covariance_type == "full"`, one component, from the difference rows `D` -/
def covFull (eps : α) (d : Nat) (ω : List α) (D : List (List α)) : List (List α) :=
  (List.range d).map fun a => (List.range d).map fun b => covEntry eps ω D a b

/-- entry a of the diagonal covariance: `Σ_i ω_i · (d_ia · d_ia) / (Σ_i ω_i + eps)` -/
def covDiagEntry (eps : α) (ω : List α) (D : List (List α)) (a : Nat) : α :=
  Sc.div (Sc.sum (List.zipWith (fun w x => Sc.mul w (Sc.mul x x)) ω (col D a))) (Sc.add (Sc.sum ω) eps)

/-- `covariance_type == "diag"`, one component -/
def covDiag (eps : α) (d : Nat) (ω : List α) (D : List (List α)) : List α :=
  (List.range d).map fun a => covDiagEntry eps ω D a

/-- what `_m_step` returns -/
structure MStep (α : Type) where
  weights : List α
  means : List (List α)
  covFull : List (List (List α))
  covDiag : List (List α)

/-- the whole M-step (both covariance types side by side) -/
def mstep (tiny eps : α) (d K : Nat) (X R : List (List α)) (s : List α) : MStep α :=
  let W := weightedResp R s
  let means := (List.range K).map fun k => meanVec tiny d (col W k) X
  { weights := normalise (colSums K W)
    means := means
    covFull := (List.range K).map fun k =>
      let ω := col W k
      covFull eps d ω (diffRows X (meanVec tiny d ω X))
    covDiag := (List.range K).map fun k =>
      let ω := col W k
      covDiag eps d ω (diffRows X (meanVec tiny d ω X)) }

/-- `P /= np.sum(P, axis=1, keepdims=True) + 1e-10` on the matrix `P[i][k] = weights[k]·pdf_k(x_i)` -/
def estepNormalise (eps : α) (P : List (List α)) : List (List α) :=
  P.map fun row =>
    let t := Sc.add (Sc.sum row) eps
    row.map fun p => Sc.div p t

end Model.EM

namespace Model.EM
variable {α : Type} [ScT α]

/-- `np.max(row)` of the non-empty row `x :: xs` (NaN-free) -/
def rowMax (x : α) (xs : List α) : α := xs.foldl Sc.max x

/-- `_initialize_parameters`, one row of `log_resp[:, k] = -0.5 * |x_i - centre_k|²`:
    `log_resp -= np.max(log_resp, axis=1, keepdims=True); responsibilities = np.exp(log_resp)` -/
def shiftExp : List α → List α
  | [] => []
  | x :: xs => (x :: xs).map fun l => ScT.exp (Sc.sub l (rowMax x xs))

/-- `responsibilities /= np.sum(responsibilities, axis=1, keepdims=True)` after the max-shift; the input is the
    matrix `L[i][k] = -0.5 * |x_i - centre_k|²` -/
def initNormalise (L : List (List α)) : List (List α) :=
  L.map fun row =>
    let e := shiftExp row
    let t := Sc.sum e
    e.map fun p => Sc.div p t

/-- what `_initialize_parameters` returns once the centres are drawn: the M-step on the normalised soft assignment -/
def initParams (tiny eps : α) (d K : Nat) (X L : List (List α)) (s : List α) : MStep α :=
  mstep tiny eps d K X (initNormalise L) s

end Model.EM

namespace Model.EM
variable {α : Type} [Sc α]

/-- `np.repeat(l, c, axis=0)`: entry i repeated `c_i` times -/
def replicateBy {β : Type} (c : List Nat) (l : List β) : List β :=
  (List.zip c l).flatMap fun p => List.replicate p.1 p.2

end Model.EM
