import TempestVerif.Model.GMM
/-
  Vocabulary of the SOURCE-DERIVED terms of `tempest/cluster.py` (translator G18, `Gen/ClusterSrc.lean`, property C15).

  The translator compiles the numpy expressions of the source to Lean terms over the scalar interface `Sc α` / `ScT α`
  and the list combinators below; this file is the (hand-written, fixed) meaning given to each numpy idiom — the
  trusted reading of numpy, the same reading `clauses/C15.md` lists under "Modelled rather than verified".
  Nothing here mentions the model of the property; `Props/C15Source.lean` proves that the model's definitions unfold
  to the generated terms.

  numpy idiom                                   →  term
  `M[:, k]`                                        `col M k`
  `np.dot(a, b)` on two 1-D slices                  `dot a b`   (left-to-right sum of products)
  an array of shape (n,) / (n, m) given entrywise   `tab1 n f` / `tab2 n m f`   (reductions along axis 0, `np.dot` of 2-D arrays)
  `np.max(row)` (`axis=1`, one row)                 `max1 row`
  `np.cumsum(v)`                                    `cumsum v`
  `v[-1]`                                           `last? v`   (`none`: numpy raises IndexError)
  `np.searchsorted(c, r)`                           `searchsorted c r`
  `np.min([f(j) for j in range(k)], axis=0)`        `minOver1 f c0 cs` over the non-empty list `c0 :: cs` of `means[j]`
  `C + np.eye(C.shape[0]) * s`                      `addScaledEye C s`   (assumes `x + 0·s = x`, `1·s = s`)
  `np.eye(n) * s`                                   `scaledEye n s`      (assumes `0·s = 0`, `1·s = s`)
  `try: a  except …: b` on values                   `tryExcept a b`  (`none` = raised)
  `[ix[i] for i in range(len(ix)) if lab[i] == c]`  `selectEq ix lab c`
  `x ** 2`                                          `Sc.mul x x` (numpy computes `square`)
  elementwise operations                            `List.map` / `List.zipWith` over the operands, fused into one pass
-/
namespace Np
variable {α : Type}

abbrev Mat (α : Type) := List (List α)

/-- `M[:, k]` -/
abbrev col {β : Type} (M : List (List β)) (k : Nat) : List β := Model.EM.col M k

/-- `np.dot` of two 1-D arrays -/
abbrev dot [Sc α] (a b : List α) : α := Model.EM.dot a b

/-- the 1-D array whose entry `i` is `f i`, `i < n` -/
def tab1 {β : Type} (n : Nat) (f : Nat → β) : List β := (List.range n).map f

/-- the 2-D array whose entry `(i, j)` is `f i j` -/
def tab2 {β : Type} (n m : Nat) (f : Nat → Nat → β) : List (List β) :=
  (List.range n).map fun i => (List.range m).map fun j => f i j

/-- `np.max` of one row (NaN-free).  The value on the empty row is never looked at: every use maps over the row. -/
def max1 [Sc α] : List α → α
  | [] => Sc.zero
  | x :: xs => xs.foldl Sc.max x

/-- `np.cumsum` -/
abbrev cumsum [ScT α] (v : List α) : List α := Model.GMM.cumsumFrom Sc.zero v

/-- `v[-1]` -/
abbrev last? {β : Type} (v : List β) : Option β := v.getLast?

/-- `np.searchsorted(c, r)` (side 'left', sorted `c`) -/
abbrev searchsorted [ScT α] (c : List α) (r : α) : Nat := Model.GMM.searchsorted c r

/-- `np.min([f(c) for c in c0 :: cs], axis=0)` at one position -/
def minOver1 [Sc α] {β : Type} (f : β → α) (c0 : β) (cs : List β) : α :=
  cs.foldl (fun acc c => Sc.min acc (f c)) (f c0)

/-- `C + np.eye(C.shape[0]) * s` -/
abbrev addScaledEye [ScT α] (C : Mat α) (s : α) : Mat α := Model.GMM.addDiag s C

/-- `np.eye(n) * s` -/
abbrev scaledEye [ScT α] (n : Nat) (s : α) : Mat α := Model.GMM.scaledEye n s

/-- `try: a  except (…): b`, on values (`none` = the expression raised) -/
def tryExcept {β : Type} (a b : Option β) : Option β :=
  match a with
  | some v => some v
  | none => b

/-- `[ix[i] for i in range(len(ix)) if lab[i] == c]`  (also `[i for i, l in zip(ix, lab) if l == c]`) -/
def selectEq (ix lab : List Nat) (c : Nat) : List Nat :=
  ((ix.zip lab).filter fun p => p.2 == c).map fun p => p.1

end Np
