/-
  Value-level model of checkpoint save / load / resume (C08; core Lean only).

  Mirrors, as maps key → value (arrays are opaque tagged values; aliasing is C17's subject):
    state_manager.py  StateManager.__init__, to_dict, update_from_dict, commit_current_to_history
    core.py           SamplerCore.save_sampler_state (dictionary part and the pool detachment),
                      load_sampler_state (update_from_dict + the `required_keys` defaults loop),
                      run_sampling prologue (`t0` = restored `iter`), execute_iteration (save cadence,
                      `iter += 1` in Reweighter.run, `calls +=` in Mutator.run, commit).
  Serialisation (dill) is abstract: `enc`/`dec` with the hypotheses stated in Props.C08.
-/
namespace Model.Checkpoint

abbrev Key := String

/-- a Python value held in a slot of `_current` / an entry of a `_history` list -/
inductive Val where
  | none                     -- `None`
  | int (n : Int)            -- Python `int`
  | real (bits : Nat)        -- Python `float`, by its IEEE-754 bit pattern (`0.0` = `real 0`)
  | arr (tag : Nat)          -- ndarray / numpy scalar, identified by a tag of its (dtype, shape, bytes)
  deriving DecidableEq, Repr, Inhabited

/-- `CURRENT_STATE_KEYS` (sorted; equality with the regenerated table is `Props.C08.C08_keys_match`) -/
def currentKeys : List Key :=
  ["acceptance", "assignments", "beta", "blobs", "calls", "efficiency", "ess", "iter", "logl", "logz", "steps", "u", "x"]

/-- `HISTORY_STATE_KEYS` -/
def historyKeys : List Key :=
  ["acceptance", "beta", "blobs", "calls", "efficiency", "ess", "iter", "logl", "logz", "steps", "u", "x"]

/-- `for current_key in CURRENT_STATE_KEYS: if current_key in HISTORY_STATE_KEYS` -/
def commitKeys : List Key := currentKeys.filter (fun k => historyKeys.contains k)

/-! ### dictionaries as association lists (first match wins) -/

variable {β : Type}

def lookup (k : Key) : List (Key × β) → Option β
  | [] => none
  | (k', v) :: l => if k' = k then some v else lookup k l

/-- `d[k] = v` -/
def setKey (k : Key) (v : β) : List (Key × β) → List (Key × β)
  | [] => [(k, v)]
  | (k', v') :: l => if k' = k then (k, v) :: l else (k', v') :: setKey k v l

/-- `d.update(e)`: keys of `e` override, all others are kept.  (A Python dict has each key once, so the
    order in which the items of `e` are stored is immaterial; folding from the right makes the FIRST entry
    of a key in `e` the one that counts, which is also what `lookup` reads.) -/
def updateAll (d : List (Key × β)) : List (Key × β) → List (Key × β)
  | [] => d
  | (k, v) :: e => setKey k v (updateAll d e)

structure State where
  current : List (Key × Val)
  history : List (Key × List Val)
  nDim : Nat
  deriving Repr

/-- `StateManager(n_dim)` -/
def init (nDim : Nat) : State :=
  { current := currentKeys.map (fun k => (k, Val.none))
    history := historyKeys.map (fun k => (k, []))
    nDim := nDim }

/-- the dictionary that is pickled; a section may be absent (`if "_current" in state_dict`) -/
structure Dict where
  cur : Option (List (Key × Val))
  hist : Option (List (Key × List Val))
  nDim : Option Nat
  deriving Repr

/-- `to_dict()` (copies: same values) -/
def toDict (s : State) : Dict := { cur := some s.current, hist := some s.history, nDim := some s.nDim }

/-- `update_from_dict(state_dict)` -/
def updateFromDict (s : State) (d : Dict) : State :=
  { current := match d.cur with | some c => updateAll s.current c | none => s.current
    history := match d.hist with | some h => updateAll s.history h | none => s.history
    nDim := match d.nDim with | some n => n | none => s.nDim }

/-! ### the StateManager's own persistence: `from_dict`, `save_state(path, exclude)`, `load_state` -/

/-- `StateManager.from_dict(state_dict)`: `n_dim = state_dict.get("n_dim", 1); instance = cls(n_dim);
    instance.update_from_dict(state_dict); return instance` -/
def fromDict (d : Dict) : State :=
  updateFromDict (init (match d.nDim with | some n => n | none => 1)) d

/-- `for key in exclude: state_dict.pop(key, None)` on the dictionary with the three top-level keys -/
def excludeDict (ex : List String) (d : Dict) : Dict :=
  { cur := if ex.contains "_current" then none else d.cur
    hist := if ex.contains "_history" then none else d.hist
    nDim := if ex.contains "n_dim" then none else d.nDim }

/-- default of `exclude` in `StateManager.save_state` -/
def smDefaultExclude : List String := ["pbar", "pool", "distribute"]

/-- the dictionary `StateManager.save_state(path, exclude)` pickles (`_current`, `_history`, `n_dim` by reference:
    same values as `to_dict`) -/
def smSaveDict (ex : List String) (s : State) : Dict := excludeDict ex (toDict s)

/-- `required_keys` of `load_sampler_state`, in source order (equality with the regenerated table is
    `Props.C08.C08_defaults_match`) -/
def defaults : List (Key × Val) :=
  [("iter", .int 0), ("calls", .int 0), ("beta", .real 0), ("logz", .real 0), ("steps", .int 0),
   ("acceptance", .real 0), ("efficiency", .real 0)]

/-- `for key, default_val in required_keys.items(): if get_current(key) is None: set_current(key, default_val)`.
    `get_current` of a key that the dictionary does not hold is a `KeyError` → `none`. -/
def applyDefaults : List (Key × Val) → List (Key × Val) → Option (List (Key × Val))
  | [], cur => some cur
  | (k, dv) :: r, cur =>
    match lookup k cur with
    | some Val.none => applyDefaults r (setKey k dv cur)
    | some _ => applyDefaults r cur
    | none => none

/-- the state-manager part of `load_sampler_state` once the dictionary has been unpickled -/
def loadDict (s : State) (d : Dict) : Option State :=
  (applyDefaults defaults (updateFromDict s d).current).map fun c => { updateFromDict s d with current := c }

abbrev Bytes := List Nat

/-- `save_sampler_state`, state part: the bytes that are written -/
def save (enc : Dict → Bytes) (s : State) : Bytes := enc (toDict s)

/-- `load_sampler_state`: unpickle (failure → `none`), update in place, apply the defaults -/
def load (dec : Bytes → Option Dict) (s : State) (b : Bytes) : Option State :=
  (dec b).bind (loadDict s)

/-- `StateManager.load_state(path)`: unpickle, `update_from_dict` (a merge: no defaults loop) -/
def smLoad (dec : Bytes → Option Dict) (s : State) (b : Bytes) : Option State :=
  (dec b).map (updateFromDict s)

/-! ### resume prologue and one iteration -/

def getInt (k : Key) (cur : List (Key × Val)) : Option Int :=
  match lookup k cur with
  | some (.int n) => some n
  | _ => none

/-- `run_sampling` prologue after `_initialize_from_resume`: `t0 = int(iter_val) if iter_val is not None else 0`
    (after `load_sampler_state` the value is never `None`: the defaults loop has run) -/
def resumeT0 (s : State) : Option Int := getInt "iter" s.current

/-- the save test of `execute_iteration`, evaluated on the `iter` read at the START of the iteration
    (`Reweighter.run` increments it afterwards) -/
def savesAt (t0 saveEvery iter : Int) : Bool :=
  (iter - t0) % saveEvery == 0 && iter != t0

/-- the values of `iter` seen at the start of the `n` iterations of a run that began at `t0` -/
def iterStarts (t0 : Int) (n : Nat) : List Int := (List.range n).map fun (j : Nat) => t0 + (j : Int)

/-- iteration numbers at which `execute_iteration` writes `<label>_<iter>.state` -/
def periodicSaves (t0 saveEvery : Int) (n : Nat) : List Int :=
  (iterStarts t0 n).filter (savesAt t0 saveEvery)

/-- what one iteration writes into `_current` besides the counters -/
structure StepIn where
  nCalls : Nat                      -- likelihood evaluations of this iteration (`calls +=`)
  vals : List (Key × Val)           -- new values of the other keys (beta, logz, ess, u, x, logl, …)

/-- `history[k].append(v)`; a missing list is a `KeyError` -/
def appendHist (k : Key) (v : Val) : List (Key × List Val) → Option (List (Key × List Val))
  | [] => none
  | (k', l) :: r => if k' = k then some ((k', l ++ [v]) :: r) else (appendHist k v r).map ((k', l) :: ·)

/-- the loop of `commit_current_to_history` over the given keys -/
def commitLoop (cur : List (Key × Val)) : List Key → List (Key × List Val) → Option (List (Key × List Val))
  | [], h => some h
  | k :: ks, h =>
    match lookup k cur with
    | none => none                                -- `self._current[current_key]`: KeyError
    | some Val.none => commitLoop cur ks h
    | some v => (appendHist k v h).bind (commitLoop cur ks)

def commit (s : State) : Option State :=
  (commitLoop s.current commitKeys s.history).map fun h => { s with history := h }

/-- keys an iteration's `vals` may not touch (they are the counters the model tracks itself) -/
def counterKeys : List Key := ["iter", "calls"]

/-- reweight (`iter += 1`, new beta/logz/ess) → train → resample → mutate (`calls += n`, particles, …) → commit -/
def iteration (s : State) (i : StepIn) : Option State :=
  match getInt "iter" s.current, getInt "calls" s.current with
  | some it, some ca =>
    let c1 := setKey "iter" (Val.int (it + 1)) s.current
    let c2 := updateAll c1 (i.vals.filter fun kv => !counterKeys.contains kv.1)
    let c3 := setKey "calls" (Val.int (ca + (i.nCalls : Int))) c2
    commit { s with current := c3 }
  | _, _ => none

def runIters (s : State) : List StepIn → Option State
  | [] => some s
  | i :: is => (iteration s i).bind (runIters · is)

/-! ### pool detachment around the pickling of the sampler object -/

/-- the part of `SamplerCore` that matters here: the (frozen) config's pool slot and everything else -/
structure Core (P R : Type) where
  pool : Option P
  rest : R

/-- `save_sampler_state`'s `try … finally`: with a pool, detach it (`object.__setattr__(config, "pool", None)`),
    pickle, and re-attach in `finally`; `pickle` may raise (`Except.error`).  Returns the core afterwards and
    the outcome of the pickling. -/
def pickleDetached {P R E B : Type} (pickle : Core P R → Except E B) (c : Core P R) : Core P R × Except E B :=
  match c.pool with
  | some p =>
    let detached : Core P R := { c with pool := none }
    let r := pickle detached
    ({ detached with pool := some p }, r)
  | none => (c, pickle c)

end Model.Checkpoint
