/-
  Value-level model of how the likelihood is evaluated under each STRATEGY (C13).  Mirrors, statement by statement,

    tools.py   FunctionWrapper.__init__ / __call__           (`Wrapper`, `Wrapper.call`)
    core.py    SamplerCore._get_distribute_func               (`distributeV`, interpreting the table regenerated from source)
    core.py    SamplerCore._log_like                          (`logLikeHowV`, `logLike`, `assemble`)
    mcmc.py    BaseMCMCRunner._evaluate_likelihood            (`evaluateLikelihood`)

  and gives a model of "a pool-like object with any completion order" (`completions`, `collect`, `poolMap`):
  the tasks of one batch finish in an arbitrary order `sched`; `map` hands back the result of task i in position i.

  What the user's likelihood returns for ONE point is a `Res`: a number, a tuple/list `(logl, blob₁, …, blob_k)`, or something
  `float()` rejects.  Besides the value every evaluation function has a LOG twin: the points at which the user's function was
  evaluated during the call, in evaluation order.  Core Lean only.
  (C07's `Model/LogLike.lean` models the same function for a different purpose — which blobs travel with which particle —
  with the array construction as a parameter; this file is about strategies, completion orders and evaluation counts.)
-/
namespace Model.LLEval

/-! ### FunctionWrapper -/

/-- `FunctionWrapper`: the user's function with the extra positional / keyword arguments -/
structure Wrapper (F A : Type) where
  f : F
  args : List A
  kwargs : List (String × A)

/-- `__init__`:  `self.args = [] if args is None else args`,  `self.kwargs = {} if kwargs is None else kwargs` -/
def Wrapper.init {F A : Type} (f : F) (args : Option (List A)) (kwargs : Option (List (String × A))) : Wrapper F A :=
  { f := f
    args := match args with | none => [] | some a => a
    kwargs := match kwargs with | none => [] | some k => k }

/-- `__call__`:  `return self.f(x, *self.args, **self.kwargs)` -/
def Wrapper.call {X A R : Type} (w : Wrapper (X → List A → List (String × A) → R) A) (x : X) : R :=
  w.f x w.args w.kwargs

/-! ### `_get_distribute_func` and the branch structure of `_log_like` -/

/-- the value of the `pool` option -/
inductive PoolV where
  | none                     -- pool=None
  | int (k : Int)            -- an `int` instance; `True` / `False` are the ints 1 / 0 (bool is a subclass of int)
  | obj (hasMap : Bool)      -- any other object; `hasMap`: it has a `map` attribute
deriving DecidableEq, Repr

/-- how a batch ends up being evaluated -/
inductive HowV where
  | direct                   -- one call of the user's function on the whole batch
  | map                      -- builtin `map`: one point at a time, in order
  | newPoolMap (k : Int)     -- `multiprocess.Pool(k).map` — a NEW pool for this batch
  | objMap                   -- `<pool>.map`
deriving DecidableEq, Repr

/-- truth of a (normalised) test of the generated table on a pool value -/
def testHoldsV (test : String) (p : PoolV) : Bool :=
  match test, p with
  | "none", .none => true
  | "none_or_int_le_1", .none => true
  | "none_or_int_le_1", .int k => decide (k ≤ 1)
  | "int_gt_1", .int k => decide (k > 1)
  | "else", _ => true
  | _, _ => false

/-- `_get_distribute_func`: first branch whose test holds; attribute access `.map` on something without it is an
    AttributeError (`none`) -/
def distributeV : List (String × String) → PoolV → Option HowV
  | [], _ => none
  | (test, act) :: rest, p =>
    if testHoldsV test p then
      (match act, p with
       | "map", _ => some .map
       | "Pool(k).map", .int k => some (.newPoolMap k)
       | "pool.map", .obj true => some .objMap
       | _, _ => none)
    else distributeV rest p

/-- `_log_like`: `if vectorize: … elif pool is not None: … else: …` -/
def logLikeHowV (ll dist : List (String × String)) (vectorize : Bool) (pool : PoolV) : Option HowV :=
  match ll with
  | [("vectorize", "direct"), ("pool", "distribute"), ("else", "map")] =>
    if vectorize then some .direct
    else if pool ≠ .none then distributeV dist pool
    else some .map
  | _ => none

/-! ### a pool with an arbitrary completion order -/

variable {X Y B R : Type}

/-- the tasks of a batch finish in the order `sched` (positions into the batch); each completion is (task index, result) -/
def completions (f : X → R) (xs : List X) (sched : List Nat) : List (Nat × R) :=
  sched.filterMap fun i => (xs[i]?).map fun x => (i, f x)

/-- the points at which `f` was evaluated, in completion order -/
def poolLog (xs : List X) (sched : List Nat) : List X :=
  sched.filterMap fun i => xs[i]?

def allSome : List (Option R) → Option (List R)
  | [] => some []
  | none :: _ => none
  | some x :: xs => (allSome xs).map (x :: ·)

/-- `map` hands back, in position i, the result of task i (whenever it completed); a task that never completed: `none` -/
def collect (n : Nat) (done : List (Nat × R)) : Option (List R) :=
  allSome ((List.range n).map fun i => (done.find? fun c => c.1 == i).map (·.2))

/-- a contract-respecting pool: results by task index -/
def poolMap (sched : List Nat) (f : X → R) (xs : List X) : Option (List R) :=
  collect xs.length (completions f xs sched)

/-- what a pool would return if it handed results back in COMPLETION order (e.g. `as_completed`): not a `map` -/
def completionOrderMap (sched : List Nat) (f : X → R) (xs : List X) : List R :=
  (completions f xs sched).map (·.2)

/-! ### `_log_like`: result assembly -/

/-- what the user's likelihood returns for one point -/
inductive Res (Y B : Type) where
  | val (y : Y)                      -- a real number (`float(value)` succeeds)
  | seq (y : Y) (bs : List B)        -- a tuple / list `(y, b₁, …, b_k)`; `k = 0` is a 1-tuple
  | bad                              -- anything else (None, a string, an empty tuple, an array of size ≠ 1)
deriving DecidableEq, Repr

/-- the blobs array after `np.array(blob, dtype=dt)` and the squeeze of unit axes -/
inductive Blobs (B : Type) where
  | single (col : List B)            -- one blob per point: shape (n, 1) squeezed to (n,)
  | rows (k : Nat) (r : List (List B))   -- k ≥ 2 blobs per point: shape (n, k)
deriving DecidableEq, Repr

/-- the pair `_log_like` returns -/
structure Out (Y B : Type) where
  logl : List Y
  blobs : Option (Blobs B)
deriving DecidableEq, Repr

def Res.y? : Res Y B → Option Y
  | .val y => some y
  | .seq y _ => some y
  | .bad => none

/-- the blobs returned for one point (all of them, in order) -/
def Res.bs? : Res Y B → Option (List B)
  | .seq _ bs => some bs
  | _ => none

/-- row i of the blobs array, as the list of its cells -/
def Blobs.row : Blobs B → Nat → Option (List B)
  | .single col, i => (col[i]?).map fun b => [b]
  | .rows _ r, i => r[i]?

/-- `isinstance(results[0], (tuple, list)) and len(results[0]) > 1` -/
def Res.hasBlobs : Res Y B → Bool
  | .seq _ (_ :: _) => true
  | _ => false

/-- blobs branch, one item: `item[1:]`, `float(item[0])` (a number is not subscriptable: TypeError) -/
def Res.split? : Res Y B → Option (Y × List B)
  | .seq y bs => some (y, bs)
  | _ => none

/-- no-blobs branch, one item: `float(value)` (a tuple is rejected by `float`: TypeError) -/
def Res.float? : Res Y B → Option Y
  | .val y => some y
  | _ => none

/-- `np.array(blob, dtype=dt)` for a plain dtype: the rows must all have the length of the first (else ValueError), then
    axes of length 1 are squeezed -/
def mkBlobs (rows : List (List B)) : Option (Blobs B) :=
  match rows with
  | [] => none
  | r0 :: _ =>
    if rows.all (fun r => r.length == r0.length) then
      (if r0.length == 1 then some (.single (rows.filterMap List.head?)) else some (.rows r0.length rows))
    else none

/-- everything `_log_like` does after the list of per-point results exists; `none` = an exception escapes -/
def assemble (rs : List (Res Y B)) : Option (Out Y B) :=
  match rs with
  | [] => some ⟨[], none⟩                                  -- `if results and …` is False; `np.array([])`
  | r0 :: _ =>
    if r0.hasBlobs then
      (allSome (rs.map Res.split?)).bind fun ps =>
        (mkBlobs (ps.map (·.2))).map fun b => ⟨ps.map (·.1), some b⟩
    else
      (allSome (rs.map Res.float?)).map fun ls => ⟨ls, none⟩

/-- `_log_like(x)`.  `f` is the (wrapped) user function on one point, `fvec` on a batch; `sched` is the completion order
    of the pool for THIS batch (ignored by the strategies that use no pool). -/
def logLike (how : HowV) (sched : List Nat) (f : X → Res Y B) (fvec : List X → List Y) (xs : List X) : Option (Out Y B) :=
  match how with
  | .direct => some ⟨fvec xs, none⟩                          -- `return self.config.log_likelihood(x), None`
  | .map => assemble (xs.map f)                              -- `list(map(self.config.log_likelihood, x))`
  | .newPoolMap _ => (poolMap sched f xs).bind assemble      -- `list(Pool(k).map(self.config.log_likelihood, x))`
  | .objMap => (poolMap sched f xs).bind assemble            -- `list(self.config.pool.map(self.config.log_likelihood, x))`

/-- the points at which the user's likelihood was evaluated during that call (a batch call evaluates it at every row) -/
def logLikeLog (how : HowV) (sched : List Nat) (xs : List X) : List X :=
  match how with
  | .direct => xs
  | .map => xs
  | .newPoolMap _ => poolLog xs sched
  | .objMap => poolLog xs sched

/-- number of `multiprocess.Pool` objects created by one call -/
def poolsCreated : HowV → Nat
  | .newPoolMap _ => 1
  | _ => 0

/-! ### `_evaluate_likelihood` -/

/-- `BaseMCMCRunner._evaluate_likelihood`: both branches call `self.log_likelihood(x_prime)` once; without blobs the second
    component is dropped; `self.n_calls += self.n_walkers` in every case.  Returns (logl', blobs', n_calls'). -/
def evaluateLikelihood (haveBlobs : Bool) (ll : List X → Option (Out Y B)) (xPrime : List X) (nCalls nWalkers : Nat) :
    Option (List Y × Option (Blobs B) × Nat) :=
  (ll xPrime).map fun o => (o.logl, (if haveBlobs then o.blobs else none), nCalls + nWalkers)

end Model.LLEval
