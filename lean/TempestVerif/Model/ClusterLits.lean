import TempestVerif.Sc
/-
  The numeric literals of `tempest/cluster.py` that the models `Model/EM.lean`, `Model/GMM.lean`, `Model/HFit.lean` take as
  PARAMETERS (`eps`, `reg`, `tol`, `maxIter`, `nInit`), written out once.  `Props/C15Source.lean`
  proves each equal to the literal read from the source NOW (`Gen/ClusterSrc.lean`); the driver prints them (`lits.F`) and the
  correspondence suite `lits-X` compares them, bit for bit, with the constants `harness/c15.py` hands to the driver.
-/
namespace Model.ClusterLits
variable {α : Type} [Sc α]

/-- every `1e-10` of `GaussianMixture` (covariance denominators, lower bound, `predict`) -/
def eps : α := Sc.lit 1 10
/-- default `reg_covar=1e-6` -/
def regCovar : α := Sc.lit 1 6
/-- default `tol=1e-3` -/
def tol : α := Sc.lit 1 3
/-- default `max_iter=1000` -/
def maxIter : Nat := 1000
/-- default `n_init=1` -/
def nInit : Nat := 1

end Model.ClusterLits
