import TempestVerif.Model.StateMgr
/-
  Composite accessors and whole-run shapes on top of the StateManager reference model (C17; core Lean only).

  `Model/StateMgr.lean` has one `Op` per public method of `StateManager`.  The remaining accessors named in the
  statement of C17 are compositions of those methods plus arrays that the library computes itself and hands out:

    * `Sampler.sample()`    = `SamplerCore.execute_iteration` (core.py:156-179): the four pipeline steps (they call
                              `set_current / update_current / get_*` only), `commit_current_to_history()`,
                              `return self.state.get_current()`
    * `Sampler.results()`   = `StateManager.compute_results()` (sampler.py:308-310): the base op `.computeResults`
    * `Sampler.posterior()` = `SamplerCore.compute_posterior` (core.py:181-241), mirrored statement by statement below
    * resume                = `load_sampler_state` (core.py:294-329): `update_from_dict(d)` on the manager of a NEW
                              sampler, then `get_current(key)` / `set_current(key, default)` for seven keys

  New here:
    `OpX`        base op | `alloc p` (a fresh array computed by the library: `np.exp(..)`, `u[idx]`, `np.ones(n)/n`;
                 recorded as held by whoever called)
    `posterior`  compute_posterior as a function State → State × Res (`Res.dict` with the names of the returned slots)
    `iteration`  body ++ [commit] ++ [get_current()]
    `freshIn`    a second, newly constructed manager living in the same heap (`cls(n_dim)` in `from_dict`, the manager of
                 the resumed sampler)
    `resume`     update_from_dict of an exported dictionary + the defaults loop of `load_sampler_state`
    `resultsP`   closed form of what `compute_results()` returns, as a function of the committed history payloads only
-/
namespace Model.StateMgr

/-! ### library-side allocations -/

inductive OpX where
  | base (o : Op)
  | alloc (p : Option Content)
  deriving Repr

def stepX (s : State) : OpX → State × Res
  | .base o => step s o
  | .alloc p => ({ s with heap := s.heap ++ [p], escaped := s.heap.length :: s.escaped }, .val (.ref s.heap.length))

def runX (s : State) : List OpX → State
  | [] => s
  | o :: os => runX (stepX s o).1 os

def OpX.isScribble : OpX → Bool
  | .base (.scribble _ _) => true
  | _ => false

/-! ### `SamplerCore.compute_posterior` -/

structure PostOpts where
  resample : Bool
  returnBlobs : Bool
  trim : Bool
  returnLogw : Bool
  blobsDeclared : Bool      -- `self.config.blobs_dtype is not None`
  deriving DecidableEq, Repr

def Res.isErr : Res → Bool
  | .err _ => true
  | _ => false

/-- `X = X[idx]` for an array (`None` stays `None`): fancy indexing allocates a new array (payload not represented:
    which rows survive is C12's business) -/
def gather1 (s : State) : Val → State × Val
  | .ref _ => ((stepX s (.alloc none)).1, .ref s.heap.length)
  | v => (s, v)

/-- the arrays `compute_posterior` carries through its trim / resample branches -/
structure PostVals where
  u : Val
  x : Val
  logl : Val
  logw : Val
  blobs : Val
  deriving DecidableEq, Repr

/-- `u = u[idx]; x = x[idx]; logl = logl[idx]; logw = logw[idx]; if blobs is not None: blobs = blobs[idx]` -/
def gather (s : State) (v : PostVals) : State × PostVals :=
  let g1 := gather1 s v.u
  let g2 := gather1 g1.1 v.x
  let g3 := gather1 g2.1 v.logl
  let g4 := gather1 g3.1 v.logw
  let g5 := gather1 g4.1 v.blobs
  (g5.1, { u := g1.2, x := g2.2, logl := g3.2, logw := g4.2, blobs := g5.2 })

/-- stand-in payload of an array that the library computes from `logw` (same length) -/
def likeLogw (h : Heap) (w : Addr) : Option Content := (rd h w).map fun c => c.map fun _ => 0

/-- the tuple that is returned, by slot name -/
def postTuple (o : PostOpts) (v : PostVals) (weights : Val) : List (Key × Val) :=
  [("x", v.x), ("weights", weights), ("logl", v.logl)]
    ++ (if o.returnBlobs && v.blobs != Val.none then [("blobs", v.blobs)] else [])
    ++ (if o.returnLogw then [("logw", v.logw)] else [])

def Res.valOf : Res → Val
  | .val v => v
  | _ => .none

/-- `q` raised ⇒ the exception propagates; otherwise continue with the state and the value it returned -/
def andThen (q : State × Res) (k : State → Val → State × Res) : State × Res :=
  if q.2.isErr then q else k q.1 q.2.valOf

/-- `if self.config.blobs_dtype is not None or self.state.get_current("blobs") is not None:
        blobs = self.state.get_history("blobs", flat=True)
    else: blobs = None` -/
def blobsStage (o : PostOpts) (t : State) : State × Res :=
  let qc := if o.blobsDeclared then (t, Res.val .none) else step t (.getCurrent (some "blobs"))
  if qc.2.isErr then qc else
  if o.blobsDeclared || qc.2 != Res.val .none then step qc.1 (.getHistory "blobs" none true) else (qc.1, Res.val .none)

/-- `if trim_importance_weights: idx, weights = trim_weights(…); u = u[idx]; x = x[idx]; logl = logl[idx];
    logw = logw[idx]; if blobs is not None: blobs = blobs[idx]` -/
def trimStage (o : PostOpts) (t : State) (v : PostVals) (wts : Val) : State × PostVals × Val :=
  if o.trim then
    ((gather (stepX t (.alloc none)).1 v).1, (gather (stepX t (.alloc none)).1 v).2, Val.ref t.heap.length)
  else (t, v, wts)

/-- `if resample: idx = systematic_resample(…); the same gathers; weights = np.ones(len(idx)) / len(idx)` -/
def resampleStage (o : PostOpts) (t : State) (v : PostVals) (wts : Val) : State × PostVals × Val :=
  if o.resample then
    ((stepX (gather t v).1 (.alloc none)).1, (gather t v).2, Val.ref (gather t v).1.heap.length)
  else (t, v, wts)

def postFinish (o : PostOpts) (t : State) (v : PostVals) (wts : Val) : State × Res :=
  let a := trimStage o t v wts
  let r := resampleStage o a.1 a.2.1 a.2.2
  (r.1, .dict (postTuple o r.2.1 r.2.2))

def posterior (s : State) (o : PostOpts) : State × Res :=
  -- logw, logz = self.state.compute_logw_and_logz(1.0)
  let q0 := step s (.logw 1)
  let w := s.heap.length
  -- weights = np.exp(logw - np.max(logw)): `np.max` of an empty array raises ValueError
  if rd q0.1.heap w = some [] then (q0.1, .err .valueError) else
  -- … ; weights /= np.sum(weights)     (a new array, normalised in place)
  let q1 := stepX q0.1 (.alloc (likeLogw q0.1.heap w))
  let wts := q0.1.heap.length
  -- u / x / logl = self.state.get_history(·, flat=True)
  andThen (step q1.1 (.getHistory "u" none true)) fun s1 u =>
  andThen (step s1 (.getHistory "x" none true)) fun s2 x =>
  andThen (step s2 (.getHistory "logl" none true)) fun s3 l =>
  andThen (blobsStage o s3) fun s4 b =>
  postFinish o s4 { u := u, x := x, logl := l, logw := .ref w, blobs := b } (.ref wts)

/-! ### `SamplerCore.execute_iteration` -/

/-- what the four pipeline steps may do to the manager: anything but commit and import -/
def Op.isBody (o : Op) : Bool :=
  match o with
  | .commit _ => false
  | .updateFromDict _ _ => false
  | _ => true

/-- `…steps…; self.state.commit_current_to_history(); return self.state.get_current()` -/
def iteration (s : State) (body : List Op) : State × Res :=
  step (step (run s body) (.commit false)).1 (.getCurrent none)

/-- the ops of a whole iteration, for `run` / `trace` -/
def iterationOps (body : List Op) : List Op := body ++ [.commit false, .getCurrent none]

def Op.isOptIn : Op → Bool
  | .setCurrent _ _ false => true
  | .updateCurrent _ false => true
  | _ => false

/-- decision procedure used on recorded real iterations: the calls are `body ++ [commit(), get_current()]` with a body
    free of commit / import / `copy=False` -/
def isIterationShape (ops : List Op) : Bool :=
  match ops.reverse with
  | .getCurrent none :: .commit false :: body => body.all fun o => o.isBody && !o.isOptIn
  | _ => false

/-! ### a second manager; resume -/

/-- `StateManager(n_dim)` constructed while `s` exists: same heap, same caller, nothing stored yet -/
def freshIn (s : State) : State :=
  { init with heap := s.heap, escaped := s.escaped, imported := [] }

def valToArg : Val → Arg
  | .none => .none
  | .scalar x => .scalar x
  | .ref a => .held a

/-- the dictionary `to_dict()` returned, as the argument of `update_from_dict` (the caller passes the very arrays it
    was given) -/
def exportArgs (c : List (Key × Val)) (h : List (Key × List Val)) : Op :=
  .updateFromDict (some (c.map fun kv => (kv.1, valToArg kv.2))) (some (h.map fun kv => (kv.1, kv.2.map valToArg)))

/-- `load_sampler_state`'s defaults (core.py:307-318): `for key, default_val in required_keys.items():
    if self.state.get_current(key) is None: self.state.set_current(key, default_val)` -/
def resumeDefaults : List (Key × Int) :=
  [("iter", 0), ("calls", 0), ("beta", 0), ("logz", 0), ("steps", 0), ("acceptance", 0), ("efficiency", 0)]

def defaultsLoop : List (Key × Int) → State → State
  | [], s => s
  | (k, d) :: r, s =>
    let g := step s (.getCurrent (some k))
    if g.2 = Res.val .none then defaultsLoop r (step g.1 (.setCurrent k (.scalar d) true)).1
    else defaultsLoop r g.1

/-- resume of the dictionary exported from `s` into a newly constructed manager -/
def resume (s : State) : State :=
  match step s .toDict with
  | (s1, .export c h) => defaultsLoop resumeDefaults (step (freshIn s1) (exportArgs c h)).1
  | (s1, _) => freshIn s1

/-! ### `compute_results()` as a function of the committed history -/

def pvalOfCell : Option Content → PVal
  | some c => .arr c
  | none => .opaque

def cellOfP : PVal → Option Content
  | .none => none
  | .scalar x => some [x]
  | .arr c => some c
  | .opaque => none

/-- `np.array(list)` on payloads -/
def stackP : List PVal → Option Content
  | [] => some []
  | v :: vs =>
    match cellOfP v, stackP vs with
    | some c, some cs => some (c ++ cs)
    | _, _ => none

def logwP (hist : List (Key × List PVal)) : Option Content :=
  match lookup "beta" hist, lookup "logl" hist with
  | some (_ :: _), some l => stackP l
  | _, _ => some []

/-- the dictionary `compute_results()` hands out, computed from history payloads alone (all history keys valid) -/
def resultsP (hist : List (Key × List PVal)) : List (Key × PVal) :=
  insert "logw" (pvalOfCell (logwP hist))
    (hist.foldl (fun acc kv => insert kv.1 (pvalOfCell (stackP kv.2)) acc) [])

/-- every key of `_history` is one `get_history` accepts (true unless a dictionary with a foreign history key was imported) -/
def histKeysValid (s : State) : Bool := s.history.all fun kv => historyKeys.contains kv.1

end Model.StateMgr
