/-
  Model of likelihood dispatch and call accounting (C13).  The branch tables and the increment
  expressions are NOT written here: they are regenerated from /repo (Gen/Dispatch.lean) and interpreted.
  Core Lean only.
-/
namespace Model.Dispatch

inductive PoolCfg where
  | none                 -- pool=None
  | int (k : Nat)        -- pool=<int>
  | obj                  -- any object with a .map method
deriving DecidableEq, Repr

structure Cfg where
  vectorize : Bool
  pool : PoolCfg
deriving DecidableEq, Repr

/-- how a batch ends up being evaluated -/
inductive How where
  | direct      -- one call of the user's function on the whole batch
  | map         -- builtin map: one point at a time, in order
  | poolMap     -- `<pool>.map(f, xs)`
deriving DecidableEq, Repr

def testHolds (test : String) (p : PoolCfg) : Bool :=
  match test, p with
  | "none", .none => true
  | "none_or_int_le_1", .none => true
  | "none_or_int_le_1", .int k => k ≤ 1
  | "int_gt_1", .int k => k > 1
  | "else", _ => true
  | _, _ => false

/-- `_get_distribute_func`: first branch whose test holds; `pool.map` on an `int` is an AttributeError (`none`) -/
def distributeHow : List (String × String) → PoolCfg → Option How
  | [], _ => none
  | (test, act) :: rest, p =>
    if testHolds test p then
      (match act, p with
       | "map", _ => some .map
       | "Pool(k).map", .int _ => some .poolMap
       | "pool.map", .obj => some .poolMap
       | _, _ => none)
    else distributeHow rest p

/-- `_log_like`: vectorize → direct; pool is not None → distribute; else → map -/
def logLikeHow (ll dist : List (String × String)) (c : Cfg) : Option How :=
  match ll with
  | [("vectorize", "direct"), ("pool", "distribute"), ("else", "map")] =>
    if c.vectorize then some .direct
    else if c.pool ≠ .none then distributeHow dist c.pool
    else some .map
  | _ => none

variable {X Y : Type}

/-- the values the algorithm receives -/
def evaluate (L : X → Y) (Lvec : List X → List Y) (pmap : (X → Y) → List X → List Y) (xs : List X) : How → List Y
  | .direct => Lvec xs
  | .map => xs.map L
  | .poolMap => pmap L xs

/-! call accounting -/

structure Env where
  nParticles : Nat
  nWalkers : Nat

/-- value of an increment / batch-size expression as it appears in the source -/
def exprSize (e : Env) (expr : String) : Option Nat :=
  match expr with
  | "self.n_particles" => some e.nParticles
  | "self.n_walkers" => some e.nWalkers
  | s => s.toNat?

inductive Op where
  | warmup                -- Mutator.run at beta = 0: one batch of prior draws is evaluated
  | mcmc (steps : Nat)    -- Mutator.run at beta > 0: `steps` accept/reject steps, each evaluating one batch of proposals
deriving Repr

structure Acc where
  calls : Nat        -- what state["calls"] shows
  evaluated : Nat    -- number of points at which the user's likelihood was evaluated
deriving DecidableEq, Repr

structure CallTable where
  warmupIncrement : String
  warmupBatch : String
  stepIncrement : String
  stepBatch : String

def stepAcc (t : CallTable) (e : Env) (a : Acc) : Op → Option Acc
  | .warmup => do
    let i ← exprSize e t.warmupIncrement
    let b ← exprSize e t.warmupBatch
    pure ⟨a.calls + i, a.evaluated + b⟩
  | .mcmc steps => do
    let i ← exprSize e t.stepIncrement
    let b ← exprSize e t.stepBatch
    pure ⟨a.calls + steps * i, a.evaluated + steps * b⟩

def runAcc (t : CallTable) (e : Env) : Acc → List Op → Option Acc
  | a, [] => some a
  | a, o :: os => (stepAcc t e a o).bind fun a' => runAcc t e a' os

end Model.Dispatch
