import TempestVerif.Model.Boundary
/-
  C16, second pass — the GLUE of `tempest/mcmc.py: apply_boundary_conditions, check_bounds` that
  `Model/Boundary.lean` abstracts away, statement by statement:

      u = u.copy()
      if periodic is not None:                      -- `None` skips the loop (Option)
          for idx in periodic: u[..., idx] = u[..., idx] % 1.0        -- a whole COLUMN at a time on 2-D input
      if reflective is not None:
          for idx in reflective: … u[..., idx] = np.where(…)

      n_dim = u.shape[-1]
      strict_indices = list(set(range(n_dim)) - (set(periodic) | set(reflective)))
      if len(strict_indices) == 0:                  -- early exit: `True` (1-D) or `np.ones(u.shape[0], bool)` (2-D)
          …
      u_strict = u[..., strict_indices]
      1-D:  np.all(u_strict >= 0) and np.all(u_strict <= 1)            -- two passes
      2-D:  np.all(u_strict >= 0, axis=-1) & np.all(u_strict <= 1, axis=-1)

  `Props/C16Py.lean` proves that this is `Model.Boundary.apply / apply2 / checkBounds / checkBounds2`
  (row by row, `None` = empty list, early exit = the general formula, two passes = one conjunction).
  Also: the `Sc Float32` instance (numpy keeps `float32` input in `float32`: NEP 50 weak Python scalars).
-/

instance : Sc Float32 where
  add := (· + ·)
  sub := (· - ·)
  mul := (· * ·)
  div := (· / ·)
  neg := fun a => -a
  ofNat := Float32.ofNat
  lit := fun m e => Float32.ofScientific m true e
  lt := fun a b => a < b
  le := fun a b => a ≤ b
  floor := Float32.floor
  isEven := fun n => n - 2.0 * Float32.floor (n / 2.0) == 0.0

namespace Model.BoundaryPy
open Model.Boundary
variable {α : Type} [Sc α]

/-- a numpy array of rank 1 (`shape = (n,)`) or rank 2 (`shape = (rows, ncols)`, rows listed) -/
inductive Arr (α : Type) where
  | d1 (u : List α)
  | d2 (ncols : Nat) (us : List (List α))
  deriving DecidableEq

/-- `u[..., idx] = f(u[..., idx])` -/
def colModify (i : Nat) (f : α → α) : Arr α → Arr α
  | .d1 u => .d1 (u.modify i f)
  | .d2 n us => .d2 n (us.map fun row => row.modify i f)

/-- `if idxs is not None: for idx in idxs: u[..., idx] = f(u[..., idx])` -/
def loop (idxs : Option (List Nat)) (f : α → α) (a : Arr α) : Arr α :=
  match idxs with
  | none => a
  | some l => l.foldl (fun v i => colModify i f v) a

/-- `apply_boundary_conditions(u, periodic, reflective)` -/
def applyPy (per refl : Option (List Nat)) (a : Arr α) : Arr α :=
  loop refl reflect (loop per periodic a)

/-- `special_indices` (as a membership test) -/
def special (per refl : Option (List Nat)) (i : Nat) : Bool :=
  (match per with | none => false | some l => l.contains i) ||
  (match refl with | none => false | some l => l.contains i)

/-- `strict_indices = list(set(range(n_dim)) - special_indices)` (order irrelevant: only used under `all`) -/
def strictIdx (per refl : Option (List Nat)) (nDim : Nat) : List Nat :=
  (List.range nDim).filter fun i => !special per refl i

/-- result of `check_bounds`: a scalar truth value for 1-D input, a boolean vector of length `shape[0]` for 2-D -/
inductive Res where
  | scalar (b : Bool)
  | vec (bs : List Bool)
  deriving DecidableEq, Repr

/-- `np.all(u[..., strict] >= 0)` then `np.all(u[..., strict] <= 1)` on one row -/
def rowCheck (strict : List Nat) (u : List α) : Bool :=
  (strict.all fun i => match u[i]? with | some x => Sc.le Sc.zero x | none => true) &&
  (strict.all fun i => match u[i]? with | some x => Sc.le x Sc.one | none => true)

/-- `check_bounds(u, periodic, reflective)` -/
def checkPy (per refl : Option (List Nat)) : Arr α → Res
  | .d1 u =>
    let strict := strictIdx per refl u.length
    if strict.isEmpty then .scalar true else .scalar (rowCheck strict u)
  | .d2 n us =>
    let strict := strictIdx per refl n
    if strict.isEmpty then .vec (List.replicate us.length true) else .vec (us.map (rowCheck strict))

/-- the tail of `_propose(k)`: `return apply_boundary_conditions(proposal, …)` on the 1-D proposal of one walker -/
def proposeRow (per refl : Option (List Nat)) (raw : List α) : List α :=
  match applyPy per refl (.d1 raw) with
  | .d1 v => v
  | .d2 _ _ => raw

/-- the call site `BaseMCMCRunner.run` (mcmc.py:155-166, after fix 9001dc4):
      u_prime[k] = apply_boundary_conditions(raw_k, …)        -- `_propose`, one 1-D call per walker
      in_bounds  = np.atleast_1d(check_bounds(u_prime, …))     -- ONE 2-D call
      u_prime[~in_bounds] = self.u[~in_bounds]                 -- rejected walkers evaluated where they are
    returns `(u_prime, in_bounds)`; `none` if `check_bounds` does not return one flag per walker -/
def proposeAll (per refl : Option (List Nat)) (nDim : Nat) (cur raws : List (List α)) :
    Option (List (List α) × List Bool) :=
  let folded := raws.map (proposeRow per refl)
  match checkPy per refl (.d2 nDim folded) with
  | .vec inb =>
    if inb.length = folded.length then
      some ((List.zip folded (List.zip inb cur)).map (fun t => if t.2.1 then t.1 else t.2.2), inb)
    else none
  | .scalar _ => none

end Model.BoundaryPy
