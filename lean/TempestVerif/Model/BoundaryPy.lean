import TempestVerif.Model.Boundary
/-
  C16, second pass — the GLUE of `tempest/mcmc.py: apply_boundary_conditions, check_bounds` that
  `Model/Boundary.lean` abstracts away, statement by statement:

      u = u.copy()
      if periodic is not None:                      -- `None` skips the loop (Option)
          for idx in periodic: u[..., idx] = u[..., idx] % 1.0        -- a whole COLUMN at a time on 2-D input
      if reflective is not None:
          for idx in reflective: … u[..., idx] = np.where(…)

      n_dim = u.shape[-1]
      strict_indices = list(set(range(n_dim)) - (set(periodic) | set(reflective)))
      if len(strict_indices) == 0:                  -- early exit: `True` (1-D) or `np.ones(u.shape[0], bool)` (2-D)
          …
      u_strict = u[..., strict_indices]
      1-D:  np.all(u_strict >= 0) and np.all(u_strict <= 1)            -- two passes
      2-D:  np.all(u_strict >= 0, axis=-1) & np.all(u_strict <= 1, axis=-1)

  `Props/C16Py.lean` proves that this is `Model.Boundary.apply / apply2 / checkBounds / checkBounds2`
  (row by row, `None` = empty list, early exit = the general formula, two passes = one conjunction).
  Also: the `Sc Float32` instance (numpy keeps `float32` input in `float32`: NEP 50 weak Python scalars).
-/

instance : Sc Float32 where
  add := (· + ·)
  sub := (· - ·)
  mul := (· * ·)
  div := (· / ·)
  neg := fun a => -a
  ofNat := Float32.ofNat
  lit := fun m e => Float32.ofScientific m true e
  lt := fun a b => a < b
  le := fun a b => a ≤ b
  floor := Float32.floor
  isEven := fun n => n - 2.0 * Float32.floor (n / 2.0) == 0.0

namespace Model.BoundaryPy
open Model.Boundary
variable {α : Type} [Sc α]

/-- a numpy array of rank 1 (`shape = (n,)`) or rank 2 (`shape = (rows, ncols)`, rows listed) -/
inductive Arr (α : Type) where
  | d1 (u : List α)
  | d2 (ncols : Nat) (us : List (List α))
  deriving DecidableEq

/-- `u[..., idx] = f(u[..., idx])` -/
def colModify (i : Nat) (f : α → α) : Arr α → Arr α
  | .d1 u => .d1 (u.modify i f)
  | .d2 n us => .d2 n (us.map fun row => row.modify i f)

/-- `if idxs is not None: for idx in idxs: u[..., idx] = f(u[..., idx])` -/
def loop (idxs : Option (List Nat)) (f : α → α) (a : Arr α) : Arr α :=
  match idxs with
  | none => a
  | some l => l.foldl (fun v i => colModify i f v) a

/-- `apply_boundary_conditions(u, periodic, reflective)` -/
def applyPy (per refl : Option (List Nat)) (a : Arr α) : Arr α :=
  loop refl reflect (loop per periodic a)

/-- `special_indices` (as a membership test) -/
def special (per refl : Option (List Nat)) (i : Nat) : Bool :=
  (match per with | none => false | some l => l.contains i) ||
  (match refl with | none => false | some l => l.contains i)

/-- `strict_indices = list(set(range(n_dim)) - special_indices)` (order irrelevant: only used under `all`) -/
def strictIdx (per refl : Option (List Nat)) (nDim : Nat) : List Nat :=
  (List.range nDim).filter fun i => !special per refl i

/-- result of `check_bounds`: a scalar truth value for 1-D input, a boolean vector of length `shape[0]` for 2-D -/
inductive Res where
  | scalar (b : Bool)
  | vec (bs : List Bool)
  deriving DecidableEq, Repr

/-- `np.all(u[..., strict] >= 0)` then `np.all(u[..., strict] <= 1)` on one row -/
def rowCheck (strict : List Nat) (u : List α) : Bool :=
  (strict.all fun i => match u[i]? with | some x => Sc.le Sc.zero x | none => true) &&
  (strict.all fun i => match u[i]? with | some x => Sc.le x Sc.one | none => true)

/-- `check_bounds(u, periodic, reflective)` -/
def checkPy (per refl : Option (List Nat)) : Arr α → Res
  | .d1 u =>
    let strict := strictIdx per refl u.length
    if strict.isEmpty then .scalar true else .scalar (rowCheck strict u)
  | .d2 n us =>
    let strict := strictIdx per refl n
    if strict.isEmpty then .vec (List.replicate us.length true) else .vec (us.map (rowCheck strict))

/-- the tail of `_propose(k)`: `return apply_boundary_conditions(proposal, …)` on the 1-D proposal of one walker -/
def proposeRow (per refl : Option (List Nat)) (raw : List α) : List α :=
  match applyPy per refl (.d1 raw) with
  | .d1 v => v
  | .d2 _ _ => raw

/-- the call site `BaseMCMCRunner.run` (mcmc.py:155-166, after fix 9001dc4):
      u_prime[k] = apply_boundary_conditions(raw_k, …)        -- `_propose`, one 1-D call per walker
      in_bounds  = np.atleast_1d(check_bounds(u_prime, …))     -- ONE 2-D call
      u_prime[~in_bounds] = self.u[~in_bounds]                 -- rejected walkers evaluated where they are
    returns `(u_prime, in_bounds)`; `none` if `check_bounds` does not return one flag per walker -/
def proposeAll (per refl : Option (List Nat)) (nDim : Nat) (cur raws : List (List α)) :
    Option (List (List α) × List Bool) :=
  let folded := raws.map (proposeRow per refl)
  match checkPy per refl (.d2 nDim folded) with
  | .vec inb =>
    if inb.length = folded.length then
      some ((List.zip folded (List.zip inb cur)).map (fun t => if t.2.1 then t.1 else t.2.2), inb)
    else none
  | .scalar _ => none

end Model.BoundaryPy

/-!
  ## numpy dictionary of the SOURCE-DERIVED terms (translator G15 → `Gen/BoundarySrc.lean`, theorems `Props/C16Source.lean`)

  The translator compiles the Python AST of `apply_boundary_conditions` / `check_bounds` into Lean terms: scalar arithmetic,
  comparisons and literals go to the interface `Sc α` directly; every numpy / builtin operation on ARRAYS, index sets and
  results goes to one of the definitions below (what the operation means on `Arr`).  These meanings are MODELLED numpy semantics
  (hand-written, tied to the real code by the suites pycall-*, boundary-*); which operation is applied to which operands, in
  which order, with which literal, is read from the source.
-/
namespace Model.Np
open Model.BoundaryPy
variable {α : Type} [Sc α]

/-- a non-negative numeric literal of the source: integer-valued (`1.0`, `0`, `2.0`) or decimal `m · 10^(-e)` -/
inductive Lit where
  | nat (n : Nat)
  | dec (m e : Nat)
  deriving DecidableEq, Repr

def Lit.val : Lit → α
  | .nat n => Sc.ofNat n
  | .dec m e => Sc.lit m e

/-- floored remainder with a computed modulus: `x - floor(x / m) * m` -/
def modG (x m : α) : α := Sc.sub x (Sc.mul (Sc.floor (Sc.div x m)) m)

/-- `x % m` / `np.mod(x, m)` with a literal modulus.  Modulus `1`: `x − floor x` (identical to numpy's float remainder
    for every finite double; MODELLED, compared bit for bit by suite boundary-F) -/
def mod (x : α) : Lit → α
  | .nat 1 => Sc.sub x (Sc.floor x)
  | m => modG x m.val

/-- `np.fmod(x, m)` (C remainder, sign of the dividend) with a literal modulus -/
def fmod (x : α) (m : Lit) : α :=
  let q := Sc.div x m.val
  let t := if Sc.lt q Sc.zero then Sc.neg (Sc.floor (Sc.neg q)) else Sc.floor q
  Sc.sub x (Sc.mul t m.val)

/-- `np.mod(n, m) == z` with literal `m`, `z`.  `m = 2`, `z = 0` is the parity test `Sc.isEven` of the interface -/
def modEq (n : α) : Lit → Lit → Bool
  | .nat 2, .nat 0 => Sc.isEven n
  | m, z => Sc.le (mod n m) z.val && Sc.le z.val (mod n m)

/-- `np.where(c, a, b)` on one element -/
def where_ (c : Bool) (a b : α) : α := if c then a else b

/-- `np.ceil` through the interface -/
def ceil (x : α) : α := Sc.neg (Sc.floor (Sc.neg x))

/-- the shape of an element access `u[…]` with one index variable -/
inductive Ix where
  | ellLast     -- `u[..., idx]`
  | first       -- `u[idx]`
  deriving DecidableEq, Repr

/-- `u[ix] = f(u[ix])`, `f` element-wise -/
def upd : Ix → Nat → (α → α) → Arr α → Arr α
  | .ellLast, i, f, a => colModify i f a
  | .first, i, f, .d1 u => .d1 (u.modify i f)
  | .first, i, f, .d2 n us => .d2 n (us.modify i (fun row => row.map f))

/-- `if o is not None: x = f(o)` (else `x` stays `dflt`): the value of `x` afterwards -/
def ifSome {β γ : Type} (o : Option β) (dflt : γ) (f : β → γ) : γ :=
  match o with
  | none => dflt
  | some b => f b

/-- `if o is None: x = e` (else `x = f(o)`) -/
def ifNone {β γ : Type} (o : Option β) (e : γ) (f : β → γ) : γ :=
  match o with
  | none => e
  | some b => f b

/-- `u.copy()` (the model is functional) -/
def copy (a : Arr α) : Arr α := a

/-- `u.ndim` -/
def ndim : Arr α → Nat
  | .d1 _ => 1
  | .d2 _ _ => 2

/-- `u.shape[k]` (0 where Python raises) -/
def shapeAt : Arr α → Int → Nat
  | .d1 u, k => if k = -1 ∨ k = 0 then u.length else 0
  | .d2 n us, k => if k = -1 ∨ k = 1 then n else if k = 0 ∨ k = -2 then us.length else 0

/-- Python `set` of indices: a list read through membership only -/
abbrev NSet := List Nat

/-- `set(range(n))` -/
def setRange (n : Nat) : NSet := List.range n
/-- `set()` -/
def setEmpty : NSet := []
/-- `s.update(l)` -/
def setUpdate (s : NSet) (l : List Nat) : NSet := s ++ l
/-- `a - b` -/
def setDiff (a b : NSet) : NSet := a.filter fun i => !b.contains i
/-- `a | b` -/
def setUnion (a b : NSet) : NSet := a ++ b
/-- `set(l)` -/
def setOf (l : List Nat) : NSet := l
/-- `list(s)` (some order; only read under `all`) -/
def toList (s : NSet) : List Nat := s

/-- `u[..., l]` with an index LIST (fancy indexing on the last axis) -/
def take : Arr α → List Nat → Arr α
  | .d1 u, l => .d1 (l.filterMap fun i => u[i]?)
  | .d2 _ us, l => .d2 l.length (us.map fun row => l.filterMap fun i => row[i]?)

/-- element-wise comparison of an array with a scalar: `u >= 0` -/
def cmp (p : α → Bool) : Arr α → Arr Bool
  | .d1 u => .d1 (u.map p)
  | .d2 n us => .d2 n (us.map fun row => row.map p)

/-- `np.all(b)` -/
def allFlat : Arr Bool → Res
  | .d1 u => .scalar (u.all id)
  | .d2 _ us => .scalar (us.all fun row => row.all id)

/-- `np.all(b, axis=k)` -/
def allAxis : Arr Bool → Int → Res
  | .d1 u, _ => .scalar (u.all id)
  | .d2 n us, k =>
    if k = -1 ∨ k = 1 then .vec (us.map fun row => row.all id)
    else .vec ((List.range n).map fun j => us.all fun row => match row[j]? with | some b => b | none => true)

/-- Python `a and b` on truth values -/
def andPy : Res → Res → Res
  | .scalar a, .scalar b => .scalar (a && b)
  | .scalar a, .vec bs => if a then .vec bs else .scalar a
  | .vec as, r => if as.isEmpty then .vec as else r      -- (a non-empty vector of length > 1 raises; not modelled)

/-- numpy `a & b` on boolean results (broadcasting a scalar) -/
def andBit : Res → Res → Res
  | .scalar a, .scalar b => .scalar (a && b)
  | .scalar a, .vec bs => .vec (bs.map fun b => a && b)
  | .vec as, .scalar b => .vec (as.map fun a => a && b)
  | .vec as, .vec bs => .vec (List.zipWith (fun a b => a && b) as bs)

/-- `np.ones(n, dtype=bool)` -/
def ones (n : Nat) : Res := .vec (List.replicate n true)

/-- `True` / `False` -/
def const (b : Bool) : Res := .scalar b

end Model.Np
