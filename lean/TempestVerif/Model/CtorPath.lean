import TempestVerif.Model.ConfigSpec
/-
  C18 — what happens to the constructor options AFTER validation: every place where the code downstream of
  `SamplerConfig(...)` consumes an option (component constructors, per-iteration glue, dispatch on the kernel / resampler
  names, index arrays of the boundary maps, pool dispatch, seeding, progress bar, FunctionWrapper).

  The TABLE of those places is not written here: it is regenerated from /repo's source on every run
  (translate/g8_ctorpath.py → Gen/CtorPath.lean: `uses`, `resampleLits`, `kernelBranches`, …).  This file fixes
    * the syntactic CONTEXTS a value can be consumed in (`Ctx`) and Python's / numpy's behaviour of each on the value
      universe `V` of Model/ConfigSpec.lean (`sem`: defined / raises which exception / not modelled),
    * the guard language under which a use is reached (`G`, three-valued evaluation),
    * an abstract domain of value SHAPES (`Shape`) with which "every use is defined for every value of the documented
      type" becomes a closed Boolean check on the generated table (`useSafe`), sound by the lemmas in Props/C18Path.lean,
    * the two name dispatches (`resampleBound`, `kernelRunner`).
  Core Lean only.
-/
namespace Model.CtorPath
open Model.ConfigSpec

inductive PyErr where
  | typeError | valueError | zeroDivision | attributeError | overflowError | indexError | unboundLocal
  deriving DecidableEq, Repr

def PyErr.name : PyErr → String
  | .typeError => "TypeError"
  | .valueError => "ValueError"
  | .zeroDivision => "ZeroDivisionError"
  | .attributeError => "AttributeError"
  | .overflowError => "OverflowError"
  | .indexError => "IndexError"
  | .unboundLocal => "UnboundLocalError"

/-- result of consuming a value in a context -/
inductive R where
  | ok
  | err (e : PyErr)
  | unmodelled          -- the universe / the model does not say (never counted as "defined")
  deriving DecidableEq, Repr

/-! ### guards -/

inductive G where
  | tt
  | unknown                          -- a test on run-time state the model does not follow
  | fact (name : String)             -- a test on run-time state whose course the model knows (`Ext.fact`)
  | truthy (f : Field)
  | isNone (f : Field)
  | isInt (f : Field)
  | cmpK (op : Cmp) (f : Field) (k : Int)      -- `self.f <op> k`
  | eqStr (f : Field) (s : String)             -- `self.f == "s"`
  | not (g : G)
  | and (a b : G)
  | or (a b : G)

/-- one downstream consumption of an option -/
structure Use where
  site : String
  opt : Field
  ctx : String
  guard : G

inductive Fact3 where
  | always | never | both | unknown

/-- what the model is told about the run besides the configuration -/
structure Ext where
  otherHasMap : Bool      -- the `object()` of the universe is a pool-like object (has a usable `.map`)
  blobs : Bool            -- the user's likelihood returns `(logl, blob, …)` tuples

def Ext.fact (e : Ext) (n : String) : Fact3 :=
  if n == "pbar" then .always            -- `self.pbar is not None`: run_sampling installs a ProgressBar before the loop
  else if n == "warmup" then .both       -- `beta == 0.0`: true in the first iterations of a run, false later
  else if n == "firstIter" then .both    -- history empty
  else if n == "blobs" then (if e.blobs then .always else .never)
  else .unknown

def and3 : Option Bool → Option Bool → Option Bool
  | some false, _ => some false
  | _, some false => some false
  | some true, some true => some true
  | _, _ => none

def or3 : Option Bool → Option Bool → Option Bool
  | some true, _ => some true
  | _, some true => some true
  | some false, some false => some false
  | _, _ => none

def factVal : Fact3 → Option Bool
  | .always => some true
  | .never => some false
  | .both => some true
  | .unknown => none

/-- a fact that takes both values during a run is "sometimes true" and so is its negation -/
def factNeg : Fact3 → Option Bool
  | .always => some false
  | .never => some true
  | .both => some true
  | .unknown => none

/-- three-valued evaluation: `some true` = the use is reached (in every complete run), `some false` = never, `none` = the
    model cannot tell -/
def G.eval (e : Ext) (c : Cfg) : G → Option Bool
  | .tt => some true
  | .unknown => none
  | .fact n => factVal (e.fact n)
  | .truthy f => some (c f).truthy
  | .isNone f => some (c f).isNone
  | .isInt f => some (c f).isInt
  | .cmpK op f k =>
    match (c f).cmpNum op (.int k) with
    | .ok b => some b
    | .error _ => none
  | .eqStr f s => some (match c f with
    | .str t => t == s
    | _ => false)
  | .not (.fact n) => factNeg (e.fact n)
  | .not g => (g.eval e c).map (!·)
  | .and a b => and3 (a.eval e c) (b.eval e c)
  | .or a b => or3 (a.eval e c) (b.eval e c)

/-! ### contexts -/

inductive Ctx where
  | safe                      -- stored, passed on, tested for None / truth / equality, formatted: cannot raise on `V`
  | call                      -- `x(…)`
  | num                       -- operand of arithmetic with a number / ordered against a number
  | numStrict                 -- … where a `str` / `list` operand is a TypeError too (`+`, `-`, ordering against a number)
  | numOrNone                 -- the same after `None` has been replaced by a numeric default
  | modRight                  -- `<int> % x`
  | intOfMul (other : Field)  -- `int(x * other)` / `int(other * x)`
  | intOfDerived              -- `int(<value computed from x through locals: products, min, max>)`
  | shape                     -- a dimension handed to numpy (`np.zeros(x)`, `np.random.rand(x, …)`, `size=x`, `reshape(…, x)`)
  | range                     -- `range(x)`
  | arange                    -- `np.arange(x)`
  | seed                      -- `np.random.seed(x)`
  | iter                      -- `for i in x`
  | elemIndex                 -- `u[..., i]` for every element `i` of `x`
  | setUpdate                 -- `set().update(x)`
  | attrMap                   -- `x.map`
  | poolCount                 -- `Pool(x)`
  | dtype                     -- `np.array(…, dtype=x)`
  | pathDiv                   -- `x / "<file name>"`
  | star                      -- `f(…, *x)` after `None → []`
  | dstar                     -- `f(…, **x)` after `None → {}`
  | toFloat                   -- `float(x)`
  | unknown                   -- a context this model has no semantics for
  deriving DecidableEq, Repr

/-- the context tags the translator can emit today and what they mean; anything else is `unknown` -/
def ctxTable : List (String × Ctx) :=
  [("store", .safe), ("isNone", .safe), ("truthy", .safe), ("eq:str", .safe), ("fmt", .safe), ("arg:str:0", .safe),
   ("arg:isinstance:0", .safe), ("arg:object.__setattr__:2", .safe), ("pass:SamplerConfig", .safe),
   ("wrapped|call", .safe), ("wrapped|arg:map:0", .safe), ("wrapped|arg:self._get_distribute_func():0", .safe),
   ("orDefault|isNone", .safe), ("orDefault|store", .safe),
   ("call", .call),
   ("add:right:expr", .numStrict), ("cmp:ge:expr", .numStrict), ("cmp:le:expr", .numStrict), ("cmp:rlt:expr", .numStrict),
   ("cmp:gt:expr", .numStrict), ("cmp:lt:expr", .numStrict), ("cmp:rgt:expr", .numStrict), ("cmp:rge:expr", .numStrict),
   ("cmp:rle:expr", .numStrict), ("add:left:expr", .numStrict),
   ("cmp:gt:k", .numStrict), ("cmp:le:k", .numStrict), ("cmp:lt:k", .numStrict), ("cmp:ge:k", .numStrict), ("sub:left:k", .numStrict), ("sub:right:expr", .numStrict),
   ("div:right:expr", .num), ("mul:left:expr", .num), ("mul:right:expr", .num), ("mul:right:k", .num),
   ("mul:left:opt:n_particles", .num), ("mul:right:opt:ess_ratio", .num),
   ("orDefault|cmp:rlt:expr", .numOrNone), ("orDefault|cmp:rge:expr", .numOrNone),
   ("mod:right:expr", .modRight),
   ("mul:left:opt:n_particles|arg:int:0", .intOfMul .n_particles), ("mul:right:opt:ess_ratio|arg:int:0", .intOfMul .ess_ratio),
   ("derived|arg:int:0", .intOfDerived),
   ("arg:np.zeros:0", .shape), ("arg:np.zeros:0:tuple", .shape), ("arg:np.ones:0", .shape), ("arg:np.empty:0", .shape),
   ("arg:np.eye:0", .shape), ("arg:np.eye().reshape:1", .shape), ("arg:np.eye().reshape:2", .shape),
   ("arg:np.random.rand:0", .shape), ("arg:np.random.rand:1", .shape), ("kw:np.random.choice:size", .shape),
   ("arg:range:0", .range), ("arg:np.arange:0", .arange), ("arg:np.random.seed:0", .seed),
   ("iter", .iter), ("elem|index", .elemIndex), ("arg:special_indices.update:0", .setUpdate),
   ("attr:map", .attrMap), ("arg:Pool:0", .poolCount),
   ("kw:np.array:dtype", .dtype), ("kw:np.empty:dtype", .dtype),
   ("div:left:fstr", .pathDiv),
   ("orDefault|star", .star), ("orDefault|dstar", .dstar),
   ("arg:float:0", .toFloat)]

def ctxOf (tag : String) : Ctx :=
  match ctxTable.find? (·.1 == tag) with
  | some (_, c) => c
  | none => .unknown

/-! ### Python / numpy semantics of the contexts on the universe -/

def isNumV : V → Bool
  | .int _ | .bool _ | .float _ => true
  | _ => false

/-- `str` and `list` support some arithmetic (`"ab" * 3`): left to `unmodelled` where the answer depends on the other
    operand -/
def isSeqV : V → Bool
  | .str _ | .list _ => true
  | _ => false

def FV.isFinite : FV → Bool
  | .fin _ => true
  | _ => false

def FV.mul : FV → FV → FV
  | .fin a, .fin b => .fin (a * b)
  | .nan, _ => .nan
  | _, .nan => .nan
  | .inf n, .fin b => if b = 0 then .nan else .inf (if b < 0 then !n else n)
  | .fin a, .inf n => if a = 0 then .nan else .inf (if a < 0 then !n else n)
  | .inf n, .inf m => .inf (n != m)

/-- dtype strings numpy accepts (a finite list: an arbitrary other string is `unmodelled`) / rejects -/
def goodDtypes : List String := ["f8", "f4", "i8", "i4", "float", "int", "float64", "int64", "object", "O", "bool"]
def badDtypes : List String := ["", "1", "0", "a", "ab", "tpcn", "rwm", "mult", "syst", "x"]

/-- `u[..., i]` for one element of an index list, `u` having `d` columns -/
def elemSem (d : Int) : V → R
  | .int i => if decide (-d ≤ i) && decide (i < d) then .ok else .err .indexError
  | .bool _ => .ok            -- numpy reads a Python bool as a MASK, not as the integer 0/1: no exception (see `boolIndexMisread`)
  | .none => .ok              -- `np.newaxis`
  | .list _ => .unmodelled    -- fancy index
  | _ => .err .indexError

def firstBad (f : V → R) : List V → R
  | [] => .ok
  | x :: xs =>
    match f x with
    | .ok => firstBad f xs
    | r => r

/-- a Python bool among the items of an index list: accepted by `isinstance(i, int)`, but numpy does not read it as an
    integer coordinate -/
def boolIndexMisread : V → Bool
  | .list l => l.any fun x => match x with
    | .bool _ => true
    | _ => false
  | _ => false

def sem (e : Ext) (c : Cfg) : Ctx → V → R
  | .safe, _ => .ok
  | .call, v => if v.isCallable then .ok else .err .typeError
  | .num, v => if isNumV v then .ok else if isSeqV v then .unmodelled else .err .typeError
  | .numStrict, v => if isNumV v then .ok else .err .typeError
  | .numOrNone, v => if isNumV v || v.isNone then .ok else if isSeqV v then .unmodelled else .err .typeError
  | .modRight, v =>
    match v with
    | .int n => if n = 0 then .err .zeroDivision else .ok
    | .bool b => if b then .ok else .err .zeroDivision
    | .float (.fin q) => if q = 0 then .err .zeroDivision else .ok
    | .float _ => .ok
    | _ => .err .typeError
  | .intOfMul other, v =>
    match v.toFV?, (c other).toFV? with
    | some a, some b =>
      match FV.mul a b with
      | .fin _ => .ok
      | .inf _ => .err .overflowError
      | .nan => .err .valueError
    | _, _ =>
      if isSeqV v || isSeqV (c other) then .unmodelled else .err .typeError
  | .intOfDerived, v =>
    -- finite numbers: the result is finite (the other factors are finite positive floats); what `min` / `max` do with a
    -- nan or an infinity depends on the argument position: not modelled here (C13 models `_calculate_adaptive_steps`)
    match v with
    | .int _ | .bool _ => .ok
    | .float (.fin _) => .ok
    | .float _ => .unmodelled
    | .str _ | .list _ => .unmodelled
    | _ => .err .typeError
  | .shape, v =>
    match v with
    | .int n => if n < 0 then .err .valueError else .ok
    | .bool _ => .err .typeError          -- numpy: "expected a sequence of integers or a single integer, got 'True'"
    | .float _ => .err .typeError
    | .callable | .path | .other => .err .typeError
    | _ => .unmodelled                     -- None means "scalar" for `size=`, strings / lists can be shapes
  | .range, v =>
    match v with
    | .int _ | .bool _ => .ok
    | _ => .err .typeError
  | .arange, v =>
    match v with
    | .int _ | .bool _ => .ok
    | .float (.fin _) => .ok
    | .float _ => .err .valueError
    | .list _ => .unmodelled
    | _ => .err .typeError
  | .seed, v =>
    match v with
    | .int n => if decide (0 ≤ n) && decide (n < 4294967296) then .ok else .err .valueError
    | .bool _ => .ok
    | .none => .ok
    | .list _ => .unmodelled
    | _ => .err .typeError
  | .iter, v => if v.iter?.isSome then .ok else .err .typeError
  | .elemIndex, v =>
    match v.iter?, (c .n_dim).intVal? with
    | some l, some d => firstBad (elemSem d) l
    | none, _ => .err .typeError
    | _, none => .unmodelled
  | .setUpdate, v =>
    match v.toSet with
    | .ok _ => .ok
    | .error _ => .err .typeError
  | .attrMap, v =>
    match v with
    | .other => if e.otherHasMap then .ok else .err .attributeError
    | _ => .err .attributeError
  | .poolCount, v =>
    match v with
    | .int n => if n < 1 then .err .valueError else .ok
    | _ => .unmodelled
  | .dtype, v =>
    match v with
    | .none => .ok
    | .str s => if goodDtypes.contains s then .ok else if badDtypes.contains s then .err .typeError else .unmodelled
    | .list _ => .unmodelled
    | _ => .err .typeError
  | .pathDiv, v => if v.isPath then .ok else .err .typeError
  | .star, v => if v.isNone || v.iter?.isSome then .ok else .err .typeError
  | .dstar, v => if v.isNone then .ok else .err .typeError          -- the universe has no mapping type
  | .toFloat, v =>
    match v.toFloat with
    | .ok _ => .ok
    | .error .valueError => .err .valueError
    | .error .typeError => .err .typeError
  | .unknown, _ => .unmodelled

def useSem (e : Ext) (c : Cfg) (u : Use) : R := sem e c (ctxOf u.ctx) (c u.opt)

/-- every use that is not definitely unreachable is defined -/
def useOK (e : Ext) (c : Cfg) (u : Use) : Bool :=
  u.guard.eval e c == some false || useSem e c u == .ok

def glueTotal (e : Ext) (uses : List Use) (c : Cfg) : Bool := uses.all (useOK e c)

/-- prediction for a complete run: exceptions of uses that are certainly reached / possibly reached, and the number of
    reachable uses the model has no answer for -/
structure Pred where
  definite : List PyErr
  possible : List PyErr
  unmodelled : Nat
  deriving DecidableEq, Repr

def predict (e : Ext) (uses : List Use) (c : Cfg) : Pred :=
  uses.foldl (fun p u =>
    match u.guard.eval e c, useSem e c u with
    | some false, _ => p
    | _, .ok => p
    | some true, .err k => { p with definite := if p.definite.contains k then p.definite else p.definite ++ [k] }
    | none, .err k => { p with possible := if p.possible.contains k then p.possible else p.possible ++ [k] }
    | _, .unmodelled => { p with unmodelled := p.unmodelled + 1 }) ⟨[], [], 0⟩

/-! ### shapes: an abstract domain for "the documented type of an option" -/

inductive Shape where
  | none
  | int (lo hi : Option Int)      -- a genuine Python int (not a bool) with lo ≤ n ≤ hi
  | boolTrue                      -- `True`
  | boolAny
  | floatPosFin                   -- a finite float > 0
  | floatNotLe0                   -- a float that is not `<= 0`: > 0, +inf or nan
  | floatAny
  | strIn (l : List String)
  | strAny
  | idxList                       -- a list of genuine ints `i` with `0 ≤ i < n_dim`
  | idxIter                       -- an iterable (list or str) whose items are ints or bools with `0 ≤ i < n_dim`
  | listAny
  | path
  | callable
  | otherMap                      -- the pool-like `object()` (only when `Ext.otherHasMap`)
  | any
  deriving DecidableEq, Repr

def inBounds (lo hi : Option Int) (n : Int) : Bool :=
  (match lo with
   | some l => decide (l ≤ n)
   | Option.none => true) &&
  (match hi with
   | some h => decide (n ≤ h)
   | Option.none => true)

def idxItem (d : Int) : V → Bool
  | .int i => decide (0 ≤ i) && decide (i < d)
  | _ => false

def idxItemB (d : Int) (x : V) : Bool :=
  match x.intVal? with
  | some i => decide (0 ≤ i) && decide (i < d)
  | Option.none => false

/-- every item passes the test for the integer value `d` of `n_dim` -/
def idxAll (c : Cfg) (p : Int → V → Bool) (l : List V) : Bool :=
  match (c .n_dim).intVal? with
  | some d => l.all (p d)
  | Option.none => false

def Shape.has (e : Ext) (c : Cfg) : Shape → V → Bool
  | .none, v => v.isNone
  | .int lo hi, .int n => inBounds lo hi n
  | .int _ _, _ => false
  | .boolTrue, .bool b => b
  | .boolTrue, _ => false
  | .boolAny, .bool _ => true
  | .boolAny, _ => false
  | .floatPosFin, .float (.fin q) => decide (0 < q)
  | .floatPosFin, _ => false
  | .floatNotLe0, .float f => !(f.le (.fin 0))
  | .floatNotLe0, _ => false
  | .floatAny, .float _ => true
  | .floatAny, _ => false
  | .strIn l, .str s => l.contains s
  | .strIn _, _ => false
  | .strAny, .str _ => true
  | .strAny, _ => false
  | .idxList, .list l => idxAll c idxItem l
  | .idxList, _ => false
  | .idxIter, v =>
    (match v.iter? with
     | some l => idxAll c idxItemB l
     | Option.none => false)
  | .listAny, .list _ => true
  | .listAny, _ => false
  | .path, v => v.isPath
  | .callable, v => v.isCallable
  | .otherMap, .other => e.otherHasMap
  | .otherMap, _ => false
  | .any, _ => true

/-- a type = the shapes a value may have -/
abbrev Ty := List Shape

def Ty.has (e : Ext) (c : Cfg) (t : Ty) (v : V) : Bool := t.any fun s => s.has e c v

/-- is every value of the shape a finite number whose product with every value of `t` is finite? (for `int(a * b)`) -/
def Shape.finiteNum : Shape → Bool
  | .int _ _ | .boolTrue | .boolAny | .floatPosFin => true
  | _ => false

def geOpt (lo : Option Int) (k : Int) : Bool :=
  match lo with
  | some l => decide (k ≤ l)
  | Option.none => false

def leOpt (hi : Option Int) (k : Int) : Bool :=
  match hi with
  | some h => decide (h ≤ k)
  | Option.none => false

/-- `sem ctx v = ok` for EVERY value of the shape (a sufficient syntactic condition) -/
def ctxSafe (tyOf : Field → Ty) : Ctx → Shape → Bool
  | .safe, _ => true
  | .call, .callable => true
  | .num, s => (match s with
    | .int _ _ | .boolTrue | .boolAny | .floatPosFin | .floatNotLe0 | .floatAny => true
    | _ => false)
  | .numStrict, s => (match s with
    | .int _ _ | .boolTrue | .boolAny | .floatPosFin | .floatNotLe0 | .floatAny => true
    | _ => false)
  | .numOrNone, s => (match s with
    | .none | .int _ _ | .boolTrue | .boolAny | .floatPosFin | .floatNotLe0 | .floatAny => true
    | _ => false)
  | .modRight, s => (match s with
    | .int lo hi => geOpt lo 1 || leOpt hi (-1)
    | .boolTrue | .floatPosFin | .floatNotLe0 => true
    | _ => false)
  | .intOfMul other, s => s.finiteNum && (tyOf other).all Shape.finiteNum
  | .intOfDerived, s => s.finiteNum
  | .shape, .int lo _ => geOpt lo 0
  | .range, s => (match s with
    | .int _ _ | .boolTrue | .boolAny => true
    | _ => false)
  | .arange, s => (match s with
    | .int _ _ | .boolTrue | .boolAny | .floatPosFin => true
    | _ => false)
  | .seed, s => (match s with
    | .none | .boolTrue | .boolAny => true
    | .int lo hi => geOpt lo 0 && leOpt hi 4294967295
    | _ => false)
  | .iter, s => (match s with
    | .idxList | .idxIter | .listAny | .strAny | .strIn _ => true
    | _ => false)
  | .elemIndex, s => (match s with
    | .idxList | .idxIter => true
    | _ => false)
  | .setUpdate, s => (match s with
    | .idxList | .idxIter | .strAny | .strIn _ => true
    | _ => false)
  | .attrMap, .otherMap => true
  | .poolCount, .int lo _ => geOpt lo 1
  | .dtype, s => (match s with
    | .none => true
    | .strIn l => l.all goodDtypes.contains
    | _ => false)
  | .pathDiv, .path => true
  | .star, s => (match s with
    | .none | .listAny | .idxList | .idxIter | .strAny | .strIn _ => true
    | _ => false)
  | .dstar, .none => true
  | .toFloat, s => (match s with
    | .int _ _ | .boolTrue | .boolAny | .floatPosFin | .floatNotLe0 | .floatAny => true
    | _ => false)
  | _, _ => false

/-- `n <op> k` for every `n` with `lo ≤ n ≤ hi`, when the interval decides it -/
def cmpAbs (op : Cmp) (lo hi : Option Int) (k : Int) : Option Bool :=
  match op with
  | .le => if leOpt hi k then some true else if geOpt lo (k + 1) then some false else Option.none
  | .lt => if leOpt hi (k - 1) then some true else if geOpt lo k then some false else Option.none
  | .gt => if geOpt lo (k + 1) then some true else if leOpt hi k then some false else Option.none
  | .ge => if geOpt lo k then some true else if leOpt hi (k - 1) then some false else Option.none

/-- abstract value of a guard when option `f` has shape `s` (atoms on other options, on run-time state and facts: unknown;
    a guard that is `some false` here is false for every value of the shape) -/
def G.aeval (f : Field) (s : Shape) : G → Option Bool
  | .tt => some true
  | .unknown => Option.none
  | .fact _ => Option.none
  | .truthy _ => Option.none
  | .isNone g => if g = f then (match s with
      | .none => some true
      | .any => Option.none
      | _ => some false) else Option.none
  | .isInt g => if g = f then (match s with
      | .int _ _ | .boolTrue | .boolAny => some true
      | .any => Option.none
      | _ => some false) else Option.none
  | .cmpK op g k => if g = f then (match s with
      | .int lo hi => cmpAbs op lo hi k
      | _ => Option.none) else Option.none
  | .eqStr g t => if g = f then (match s with
      | .strIn l => if l.contains t then Option.none else some false
      | .strAny | .any | .idxIter => Option.none
      | _ => some false) else Option.none
  | .not g => (g.aeval f s).map (!·)
  | .and a b => and3 (a.aeval f s) (b.aeval f s)
  | .or a b => or3 (a.aeval f s) (b.aeval f s)

/-- for an interval shape, the guard may also tell the two halves of `cmpK` apart: refine `int lo hi` by the comparisons
    with constants that occur in guards (only `≤ 1` / `> 1` today) so that each piece is decided -/
def splitInt (lo hi : Option Int) (k : Int) : List Shape :=
  [.int lo (some (match hi with
    | some h => min h k
    | Option.none => k)),
   .int (some (match lo with
    | some l => max l (k + 1)
    | Option.none => k + 1)) hi]

def cmpConsts : G → List Int
  | .cmpK _ _ k => [k]
  | .not g => cmpConsts g
  | .and a b => cmpConsts a ++ cmpConsts b
  | .or a b => cmpConsts a ++ cmpConsts b
  | _ => []

def refineShape (g : G) : Shape → List Shape
  | .int lo hi =>
    match cmpConsts g with
    | [] => [.int lo hi]
    | k :: _ => splitInt lo hi k
  | s => [s]

def emptyInt : Shape → Bool
  | .int (some l) (some h) => decide (h < l)
  | _ => false

/-- the closed check on one entry of the generated table: for every shape of the option's type (refined by the constants
    the guard compares with) the guard is certainly false or the context is defined -/
def useSafe (tyOf : Field → Ty) (u : Use) : Bool :=
  (tyOf u.opt).all fun s => (refineShape u.guard s).all fun s' =>
    emptyInt s' || u.guard.aeval u.opt s' == some false || ctxSafe tyOf (ctxOf u.ctx) s'

/-! ### the two name dispatches -/

/-- `Resampler.run`: after `if r == l₁: … elif r == l₂: …` the names `needed` are bound iff some branch matched and bound
    them, or a final `else` did -/
def resampleBound (lits : List String) (binds : List (List String)) (hasElse : Bool) (needed : List String) (v : V) : Bool :=
  match v with
  | .str s =>
    match lits.findIdx? (· == s) with
    | some i => needed.all fun n => (binds.getD i []).contains n
    | Option.none => hasElse && needed.all fun n => (binds.getD lits.length []).contains n
  | _ => hasElse && needed.all fun n => (binds.getD lits.length []).contains n

/-- `mcmc.parallel_mcmc`: the function a kernel name is dispatched to -/
def kernelFn (branches : List (String × String)) (other : Option String) (v : V) : Option String :=
  match v with
  | .str s =>
    match branches.find? (·.1 == s) with
    | some (_, f) => some f
    | Option.none => other
  | _ => other

/-- … and the runner class that function instantiates, provided the class defines every abstract method -/
def kernelRunner (branches : List (String × String)) (other : Option String) (runners : List (String × String))
    (abstract : List String) (methods : List (String × List String)) (v : V) : Option String :=
  match kernelFn branches other v with
  | Option.none => Option.none
  | some f =>
    match runners.find? (·.1 == f) with
    | Option.none => Option.none
    | some (_, cls) =>
      match methods.find? (·.1 == cls) with
      | Option.none => Option.none
      | some (_, ms) => if abstract.all ms.contains then some cls else Option.none

/-- the literal list of the `x not in [...]` rule of `validate()` for option `f` (read off the generated rule table) -/
def acceptedNames (rules : List Rule) (f : Field) : Option (List String) :=
  rules.findSome? fun r =>
    match r.cond with
    | .notIn g lits => if g = f then some lits else Option.none
    | _ => Option.none

end Model.CtorPath
