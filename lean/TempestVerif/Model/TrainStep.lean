import TempestVerif.Model.Modes
import TempestVerif.Model.Records
/-
  ONE annealing iteration as far as cluster labels and proposal modes are concerned (C14, second pass): the data flow of
  `SamplerCore.execute_iteration` (core.py:163-187) through `Trainer.run` (steps/train.py:81-135), `Resampler.run`
  (steps/resample.py:68-104) and the head of `Mutator.run` (steps/mutate.py:159-190), at β > 0 with clustering on:

      weights    = self.reweighter.run()
      # Trainer.run(weights)
      trim_idx, weights_trimmed = trim_weights(np.arange(len(weights)), weights, ess=TRIM_ESS, bins=TRIM_BINS)
      u = self.state.get_history("u", flat=True)[trim_idx]
      [ self.clusterer.fit(u, weights_trimmed); self._clusterer_fitted = True ]      # on the cadence, or not fitted yet
      labels     = self.clusterer.predict(u)
      mode_stats = ModeStatistics.from_particles(u, weights_trimmed, labels, dof_fallback=self.DOF_FALLBACK)
      # Resampler.run(weights)
      idx_resampled = <multinomial | systematic>(weights);  u_resampled = u_hist[idx_resampled]
      state["assignments"] = self.clusterer.predict(u_resampled)                    # the SAME clusterer object
      # Mutator.run(mode_stats)
      mode_index, mode_labels = mode_stats.mode_index(state["assignments"], state["u"])
      state["assignments"] = mode_labels
      parallel_mcmc(u=state["u"], …, assignments=mode_index, mode_stats=mode_stats, …)

  The four components are parameters (`Parts`): the theorems instantiate them with the executable models of the other
  properties (C20 `trim`, C15 `hfit`/`hpredict`, C19 `fromParticles` + C14 `construct`), the driver with the tagging doubles the
  harness uses on the real code (suite `iteration-dataflow`).  The drawn indices `idx_resampled` are an input (C06).
  Core Lean only, total, computable.
-/
namespace Model.TrainStep
open Model.Modes

/-- the components of one iteration: `P` particle (a row of `u`), `W` weight, `F` fitted clusterer, `O` mode object,
    `D` scalar of the distance row -/
structure Parts (P W F O D : Type) where
  /-- `trim_weights(arange(N), weights, …)` followed by `u[trim_idx]`: the kept rows and their renormalised weights -/
  trim : List P → List W → Option (List P × List W)
  /-- `clusterer.fit(u, weights_trimmed)` (`none` = raised) -/
  cfit : List P → List W → Option F
  /-- `clusterer.predict(X)` -/
  cpredict : F → List P → Option (List Nat)
  /-- `ModeStatistics.from_particles(u, weights_trimmed, labels, dof_fallback)` incl. the constructor (`none` = raised) -/
  build : List P → List W → List Nat → Option O
  /-- `ModeStatistics.labels` -/
  stored : O → List Nat
  /-- the particle's row of distances to the mode means (`np.linalg.norm(u - means, axis=…)`, or any monotone image of it) -/
  dist : O → P → List D

/-- what the kernel is handed for one active particle -/
structure Active (P : Type) where
  u : P
  raw : Nat          -- `clusterer.predict(u_resampled)[k]`
  index : Nat        -- `mode_index[k]`: the `assignments` argument of `parallel_mcmc`
  label : Nat        -- `mode_labels[k]`: written back to `state["assignments"]`

structure Out (P W F O : Type) where
  clf : F                       -- the clusterer after `Trainer.run` (shared with the Resampler)
  didFit : Bool
  trainU : List P               -- `u` (trimmed pool)
  trainW : List W               -- `weights_trimmed`
  trainLabels : List Nat        -- `labels`
  obj : O                       -- `mode_stats`
  active : List (Active P)

variable {P W F O D : Type} [Sc D]

/-- `mode_index` for all active particles (`none` = `np.argmin` of an empty row, i.e. `K = 0`) -/
def mapIndex (stored : List Nat) (dist : P → List D) : List P → List Nat → Option (List (Active P))
  | u :: us, a :: as =>
    match modeIndexD stored (dist u) a, mapIndex stored dist us as with
    | some i, some r => (stored[i]?).map fun l => ⟨u, a, i, l⟩ :: r
    | _, _ => none
  | [], [] => some []
  | _, _ => none

/-- the iteration once the pool is trimmed and the clusterer to use is known (`fopt = none`: `fit` raised, or the object is
    unfitted and no fit was due — `predict` raises) -/
def annealCore (pt : Parts P W F O D) (fopt : Option F) (mustFit : Bool) (u : List P) (wt : List W) (hist : List P)
    (idx : List Nat) : Option (Out P W F O) :=
  match fopt with
  | none => none
  | some f =>
    match pt.cpredict f u with
    | none => none
    | some labels =>
      match pt.build u wt labels with
      | none => none
      | some o =>
        match Model.Records.gather? hist idx with
        | none => none
        | some ures =>
          match pt.cpredict f ures with
          | none => none
          | some raw => (mapIndex (pt.stored o) (pt.dist o) ures raw).map fun act => ⟨f, mustFit, u, wt, labels, o, act⟩

/-- one annealing iteration with clustering on.  `prev` = the fit the shared clusterer object holds (`none`: unfitted),
    `mustFit` = `iter % cluster_every == 0 or iter == 0 or not self._clusterer_fitted`,
    `hist` / `w` = flat history rows and their weights, `idx` = the resampled indices -/
def annealIter (pt : Parts P W F O D) (prev : Option F) (mustFit : Bool) (hist : List P) (w : List W) (idx : List Nat) :
    Option (Out P W F O) :=
  match pt.trim hist w with
  | none => none
  | some (u, wt) => annealCore pt (if mustFit then pt.cfit u wt else prev) mustFit u wt hist idx

/-! ### a run of annealing iterations: the Trainer's flag and the shared clusterer carried along -/

/-- what survives from one iteration to the next in `Trainer` / the shared clusterer object -/
structure Comp (F : Type) where
  /-- `Trainer._clusterer_fitted` -/
  flag : Bool
  /-- the fit the clusterer object holds -/
  clf : Option F

/-- what an iteration reads from the `StateManager` (and the resampling draw) -/
structure IterIn (P W : Type) where
  iter : Nat
  hist : List P
  w : List W
  idx : List Nat

/-- the first branch condition of `Trainer.run`: `iter % cluster_every == 0 or iter == 0 or not self._clusterer_fitted` -/
def mustFit (ce : Nat) (flag : Bool) (iter : Nat) : Bool := (iter % ce == 0 || iter == 0) || !flag

/-- one complete annealing iteration on the carried components (`none`: a component raised) -/
def iterate (pt : Parts P W F O D) (ce : Nat) (c : Comp F) (i : IterIn P W) : Option (Comp F × Out P W F O) :=
  (annealIter pt c.clf (mustFit ce c.flag i.iter) i.hist i.w i.idx).map fun o => (⟨true, some o.clf⟩, o)

/-- consecutive annealing iterations, up to the first one that raises -/
def runAnneal (pt : Parts P W F O D) (ce : Nat) : Comp F → List (IterIn P W) → List (IterIn P W × Out P W F O)
  | _, [] => []
  | c, i :: is =>
    match iterate pt ce c i with
    | none => []
    | some (c', o) => (i, o) :: runAnneal pt ce c' is

/-! ### the distance row inside the model -/

/-- `Σ_j (u_j − m_j)²` -/
def sqDist (u m : List D) : D :=
  (List.zipWith (fun a b => Sc.mul (Sc.sub a b) (Sc.sub a b)) u m).foldl Sc.add Sc.zero

/-- the particle's row of SQUARED distances to the mode means (same `argmin` as the norms: `sqrt` is increasing) -/
def sqDistRow (means : List (List D)) (u : List D) : List D := means.map (sqDist u)

/-- core.py wiring of the clusterer's `min_points`: `None if n_max_clusters is None else 4 * n_dim` -/
def wiredMinPoints (nMax : Option Nat) (nDim : Nat) : Option Nat :=
  match nMax with
  | none => none
  | some _ => some (4 * nDim)

end Model.TrainStep
