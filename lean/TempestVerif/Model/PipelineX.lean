import TempestVerif.Model.Pipeline
import TempestVerif.Model.Kernel
import TempestVerif.Model.Steps
import TempestVerif.Model.Run
import TempestVerif.Model.Posterior
/-
  Extended whole-run model (C01, C02): `Model.Pipeline` with the parts that model took from the tape moved INTO the model.

      weights    = reweighter.run()          as in Model.Pipeline, BOTH modes: in volume-variation mode the metric value
                                             of every β the reweighter asks for is looked up in a table on the tape
                                             (the matrix algebra of `volume_variation` is C20's; the DECISION logic —
                                             `Model.Reweight.runDyn` — runs here on the pool's own ESS values)
      mode_stats = trainer.run(weights)      opaque: the fitted modes (mean, Cholesky factor, inverse covariance, dof) are on the tape
      resampler.run(weights)                 as in Model.Pipeline, on whole (u, logl) records; the cluster label of every
                                             resampled walker → index of its mode (`clusterer.predict`, `mode_index`): on the tape
      mutator.run(mode_stats)                beta = 0: as in Model.Pipeline (prior draws are rows of u)
                                             beta > 0: the WHOLE `BaseMCMCRunner.run` loop: per step, per walker the proposal of
                                             its own mode at that mode's current step size (`Model.Kernel`: tpCN / RWM, periodic
                                             and reflective folds, hard-boundary rejection), Hastings factor, accept/reject,
                                             then the per-cluster step-size adaptation, then the stopping rule
                                             (`_calculate_adaptive_steps`, `Model.Steps`) — the number of steps is an OUTPUT
      state.commit_current_to_history()      append (beta, logz, logl, u)
      run_sampling                           `while _not_termination(): …` then the evidence at beta = 1 (`Model.Run`)
      compute_posterior / compute_evidence   what the user receives (`Model.Posterior` on the final pool)

  On the tape remain: the random innovations (prior draws, resampling uniforms, gamma / normal / uniform draws of the
  kernel), the user's log-likelihood values, and the trainer's output (modes, labels).
-/
namespace Model.PipelineX
open Model.Weights Model.Reweight Model.Resample Model.Ess Model.Records Model.Pipeline Model.Kernel
variable {α : Type} [ScT α]

structure XBatch (α : Type) where
  b : Batch α                 -- (beta_t, logz_t, logl of the batch)
  us : List (List α)          -- the u rows of the batch

structure XState (α : Type) where
  hist : List (XBatch α)
  beta : α
  logz : α
  curU : List (List α)
  curL : List α

/-- one accept/reject step as the tape sees it: the innovations and the user's likelihood at the evaluated points -/
structure XStep (α : Type) where
  g : List α                  -- gamma draws (tpCN; unused by RWM)
  z : List (List α)           -- standard-normal vectors
  lp : List (Option α)        -- log-likelihood at the evaluated point (`none` = −inf)
  r : List α                  -- Metropolis uniforms

structure XTape (α : Type) where
  drawU : List (List α)       -- warm-up: `np.random.rand(n, d)` …
  drawL : List (Option α)     -- … and the log-likelihoods of those points
  picks : List Nat            -- warm-up: `np.random.choice(finite_idx, …)`
  resU : List α               -- resampling uniforms
  metric : List (α × α)       -- volume-variation mode: (β, metric value) for every β the reweighter evaluates
  modes : List (Mode α)       -- trainer output
  assign : List Nat           -- mode index of every resampled walker
  steps : List (XStep α)
  disc : Nat                  -- warm-up: prior draws discarded before the stored block (whole batches without a finite draw)

structure XCfg (α : Type) where
  rw : Reweight.Cfg α
  syst : Bool
  kind : Kind
  d : Nat
  nSteps : Nat
  nMax : Nat
  per : List Nat
  refl : List Nat

structure XOut (α : Type) where
  beta : α
  ess : α
  logzRw : α
  logz : α
  idx : List Nat
  masks : List (List Bool)
  branch : Reweight.Branch
  nsteps : Nat                -- `state["steps"]`
  sigmas : List α             -- step sizes when the mutation returned
  acceptance : α              -- `state["acceptance"]`
  efficiency : α              -- `state["efficiency"]`
  cands : List (List (List α))  -- per step: what `_propose` returned for every walker

def batches (h : List (XBatch α)) : List (Batch α) := h.map (·.b)
def poolU (h : List (XBatch α)) : List (List α) := h.flatMap (·.us)

/-! ### reweighting oracle in both modes -/

def lookup (tbl : List (α × α)) (b : α) : Option α := (tbl.find? fun p => eqv p.1 b).map (·.2)

/-- `_compute_metric_and_weights(beta)`: weights and ESS from the pool (as `Model.Pipeline.oracleM`); the metric is the
    ESS (ESS mode) or the tabulated volume variation (dynamic mode; a β missing from the table is caught by `covered`) -/
def oracleMX (vv : Bool) (h : List (Batch α)) (tbl : List (α × α)) (beta : α) : List α × α × α :=
  let o := oracleM h beta
  (o.1, o.2.1, if vv then (match lookup tbl beta with | some m => m | none => o.2.1) else o.2.1)

/-- every β at which the reweighter evaluated the metric is tabulated -/
def covered (vv : Bool) (tbl : List (α × α)) (calls : List α) : Bool :=
  !vv || calls.all fun b => (lookup tbl b).isSome

/-! ### the mutation loop -/

/-- `2.38 / np.sqrt(n_dim)` -/
def sigma0 (d : Nat) : α := Sc.div (Sc.lit 238 2) (ScT.sqrt (Sc.ofNat d))

/-- `_initialize_sigmas`: tpCN `np.ones(K) * np.minimum(sigma_0, 0.99)`, RWM `np.ones(K) * sigma_0` -/
def initSigmas (kind : Kind) (K d : Nat) : List α :=
  match kind with
  | .tpcn => List.replicate K (Sc.min (sigma0 d) (Sc.lit 99 2))
  | .rwm => List.replicate K (sigma0 d)

/-- the walkers of one step, zipped from the current population and the step's tape; `none` = shape mismatch.
    For a −inf proposal the `lp` field is a placeholder (never read: see `wx`). -/
def mkWalkers : List (List α) → List Nat → List α → List (Option α) → List α → List α → List (List α) →
    Option (List (Walker α × Option α))
  | [], [], [], [], [], [], [] => some []
  | u :: us, a :: as, l :: ls, lp :: lps, g :: gs, r :: rs, z :: zs =>
    (mkWalkers us as ls lps gs rs zs).map fun rest =>
      (⟨u, a, l, (match lp with | some v => v | none => l), g, r, z⟩, lp) :: rest
  | _, _, _, _, _, _, _ => none

structure WOut (α : Type) where
  cand : List α
  inb : Bool
  alpha : α
  accept : Bool
  u : List α
  l : α

/-- one walker: `Model.Kernel.walkerStep` (proposal of its own mode, fold, bounds check, factor, alpha, decision).
    A −inf log-likelihood at the evaluated point gives `alpha = exp(−inf) = 0` and no acceptance (`rand() ≥ 0`). -/
def wx (i : RunIn α) (w : Walker α) (lp : Option α) : Option (WOut α) :=
  (walkerStep i w).map fun o =>
    match lp with
    | some v => ⟨o.cand, o.inb, o.alpha, o.accept, o.newU, if o.accept then v else w.l⟩
    | none => ⟨o.cand, o.inb, Sc.zero, false, w.u, w.l⟩

structure SRes (α : Type) where
  us : List (List α)
  ls : List α
  sigmas : List α
  mask : List Bool
  alphas : List α
  cands : List (List α)

/-- one step of `BaseMCMCRunner.run` (`self.iteration = k` after the increment) -/
def stepX (c : XCfg α) (beta : α) (modes : List (Mode α)) (assign : List Nat) (k : Nat) (sig : List α)
    (us : List (List α)) (ls : List α) (st : XStep α) : Option (SRes α) :=
  (mkWalkers us assign ls st.lp st.g st.r st.z).bind fun ws =>
    let i : RunIn α := { kind := c.kind, modes := modes, sigmas := sig, beta := beta, per := c.per, refl := c.refl,
                         iter := Sc.ofNat k, sigma0 := sigma0 c.d, walkers := ws.map (·.1) }
    (ws.mapM fun p => wx i p.1 p.2).map fun outs =>
      let alphas := outs.map (·.alpha)
      ⟨outs.map (·.u), outs.map (·.l), adaptAll i alphas, outs.map (·.accept), alphas, outs.map (·.cand)⟩

/-- `cluster_sizes`: populations of the non-empty clusters, in cluster order -/
def clusterSizes (K : Nat) (assign : List Nat) : List Nat :=
  ((List.range K).map fun c => assign.count c).filter (0 < ·)

/-- `np.average(self.sigmas[: len(cluster_sizes)], weights=cluster_sizes)` -/
def weightedSigma (sig : List α) (sizes : List Nat) : α :=
  Sc.div (Sc.sum (List.zipWith (fun s w => Sc.mul s (Sc.ofNat w)) (sig.take sizes.length) sizes))
    (Sc.sum (sizes.map fun w => (Sc.ofNat w : α)))

/-- `mask_accept.mean()` -/
def accRate (mask : List Bool) : α := Sc.div (Sc.ofNat (mask.count true)) (Sc.ofNat mask.length)

structure MRes (α : Type) where
  us : List (List α)
  ls : List α
  masks : List (List Bool)
  sigmas : List α
  nsteps : Nat
  lastAlphas : List α
  cands : List (List (List α))
  leftover : Nat              -- tape steps NOT consumed (0 when the real run stopped where the model does)

/-- the `while True:` loop of `BaseMCMCRunner.run`; `k` steps were already made.  `none`: the tape ended before the
    stopping rule fired, or a shape / index error. -/
def mcmcX (c : XCfg α) (beta : α) (modes : List (Mode α)) (assign : List Nat) :
    Nat → List α → List (List α) → List α → List (XStep α) → Option (MRes α)
  | _, _, _, _, [] => none
  | k, sig, us, ls, st :: rest =>
    (stepX c beta modes assign (k + 1) sig us ls st).bind fun r =>
      let ws := weightedSigma r.sigmas (clusterSizes modes.length assign)
      if Model.Steps.converged c.nSteps c.nMax c.d (k + 1) (accRate r.mask) ws (sigma0 c.d) then
        some ⟨r.us, r.ls, [r.mask], r.sigmas, k + 1, r.alphas, [r.cands], rest.length⟩
      else
        (mcmcX c beta modes assign (k + 1) r.sigmas r.us r.ls rest).map fun m =>
          { m with masks := r.mask :: m.masks, cands := r.cands :: m.cands }

/-! ### one iteration -/

/-- warm-up mutation on rows of u: `Model.Pipeline.warmupR` (the warm-up after the repair of F8: `disc` discarded draws,
    `logz = log(n_finite / n_drawn)`) on the row numbers, then the rows themselves -/
def warmupX (t : XTape α) (logzRw : α) : Option (List (List α)) × List (Option α) × α :=
  let w := warmupR (⟨List.range t.drawL.length, t.drawL, t.picks, [], []⟩ : Tape α) t.disc logzRw
  (gather? t.drawU w.1, w.2.1, w.2.2)

def iterateX (c : XCfg α) (s : XState α) (t : XTape α) : Option (XState α × XOut α) :=
  let hb := batches s.hist
  let vv := c.rw.vv.isSome
  let r := Reweight.run c.rw hb.isEmpty (oracleMX vv hb t.metric) (oracleZ hb) isFin s.beta
  if !(covered vv t.metric r.calls) then none else
  let w := returnedWeights r.weightsTag
  if Reweight.eqv r.beta Sc.zero then
    let wu := warmupX t r.logz
    wu.1.bind fun us =>
      (allSome wu.2.1).bind fun l =>
        if l.isEmpty then none else          -- n_particles ≥ 1 (config validation): an empty batch is outside the model
        some (⟨s.hist ++ [⟨⟨r.beta, wu.2.2, l⟩, us⟩], r.beta, wu.2.2, us, l⟩,
              ⟨r.beta, r.ess, r.logz, wu.2.2, [], [], r.branch, 1, [], Sc.one, Sc.one, []⟩)
  else
    let idx? := if c.syst then
        (match t.resU with | [u0] => systematic c.rw.nPart w u0 | _ => none)
      else multinomial w t.resU
    idx?.bind fun idx =>
      (gather? (poolU s.hist) idx).bind fun us =>
        (gather? (flatLogl hb) idx).bind fun l =>
          (mcmcX c r.beta t.modes t.assign 0 (initSigmas c.kind t.modes.length c.d) us l t.steps).bind fun m =>
            if m.ls.isEmpty then none else
            some (⟨s.hist ++ [⟨⟨r.beta, r.logz, m.ls⟩, m.us⟩], r.beta, r.logz, m.us, m.ls⟩,
                  ⟨r.beta, r.ess, r.logz, r.logz, idx, m.masks, r.branch, m.nsteps, m.sigmas,
                   Model.Kernel.mean m.lastAlphas, Sc.div (Model.Kernel.mean m.sigmas) (sigma0 c.d), m.cands⟩)

def initX : XState α := ⟨[], Sc.zero, Sc.zero, [], []⟩

def runItersX (c : XCfg α) : XState α → List (XTape α) → Option (XState α × List (XOut α))
  | s, [] => some (s, [])
  | s, t :: ts => (iterateX c s t).bind fun (s', o) => (runItersX c s' ts).map fun (sf, os) => (sf, o :: os)

/-! ### `run_sampling`: the loop guard and the epilogue; what the user receives -/

/-- `_not_termination()` on the state -/
def contX (tol nTotal : α) (s : XState α) : Bool :=
  Model.Run.notTermination tol s.beta (logw (batches s.hist) Sc.one true).1 nTotal

/-- `while self._not_termination(): self.execute_iteration()` driven by exactly the given tapes: the guard must hold
    before every iteration and fail after the last one (`none` otherwise) -/
def runGuardedX (c : XCfg α) (tol nTotal : α) : XState α → List (XTape α) → Option (XState α × List (XOut α))
  | s, [] => if contX tol nTotal s then none else some (s, [])
  | s, t :: ts =>
    if contX tol nTotal s then
      (iterateX c s t).bind fun (s', o) => (runGuardedX c tol nTotal s' ts).map fun (sf, os) => (sf, o :: os)
    else none

/-- the epilogue: `_, logz = compute_logw_and_logz(1.0); state.set_current("logz", logz)` -/
def finalEvidenceX (s : XState α) : Option α := (logw (batches s.hist) Sc.one true).2

/-- `Sampler.run()` followed by `Sampler.evidence()[0]` -/
def runSamplingX (c : XCfg α) (tol nTotal : α) (ts : List (XTape α)) : Option (XState α × List (XOut α) × α) :=
  (runGuardedX c tol nTotal initX ts).bind fun (sf, os) =>
    (finalEvidenceX sf).map fun z => ({ sf with logz := z }, os, z)

/-- the arrays `compute_posterior` starts from: pool positions (standing for the rows of u / x), log-likelihoods,
    no blobs, and the normalised log-weights at beta = 1 -/
def posteriorArrs (s : XState α) : Model.Posterior.Arrs Nat α Unit α α :=
  ⟨List.range (nTotal (batches s.hist)), flatLogl (batches s.hist), [], (logw (batches s.hist) Sc.one true).1, []⟩

/-- the gathers of `compute_posterior` when there are no blobs (`if blobs is not None` is false) -/
def postFields : List String := ["x", "logl", "logw"]

/-- `Sampler.posterior(resample, trim_importance_weights, ess_trim, bins_trim)` on the final state; `u0` is the value
    of `np.random.random()` consumed by `systematic_resample` -/
def posteriorX (s : XState α) (essTrim : α) (bins : Nat) (u0 : α) (o : Model.Posterior.Opts) :
    Option (Model.Posterior.Arrs Nat α Unit α α) :=
  Model.Posterior.posterior postFields postFields essTrim bins u0 o (posteriorArrs s)

end Model.PipelineX
