/-
  Model of particle movement (C07; shared with C12, C14): a population is a struct of arrays
  `(u, x, logl, blobs)`; the code moves particles by applying an index vector or a boolean mask to
  SOME of the arrays.  Which arrays each site touches is not written here: it comes from
  `Gen/Tables.lean`, regenerated from /repo's source on every run, and is passed in as `fields`.
  Core Lean only.
-/
namespace Model.Records

structure Pop (U X L B : Type) where
  u : List U
  x : List X
  l : List L
  b : List B
deriving Repr

variable {U X L B α : Type}

/-- numpy fancy indexing `xs[idx]` (an out-of-range index is an IndexError → `none`) -/
def gather? (xs : List α) : List Nat → Option (List α)
  | [] => some []
  | i :: is =>
    match xs[i]?, gather? xs is with
    | some x, some r => some (x :: r)
    | _, _ => none

/-- apply `idx` to exactly the arrays named in `fields`; an array not named keeps its old content -/
def gatherFields (fields : List String) (idx : List Nat) (p : Pop U X L B) : Option (Pop U X L B) :=
  match (if fields.contains "u" then gather? p.u idx else some p.u),
        (if fields.contains "x" then gather? p.x idx else some p.x),
        (if fields.contains "logl" then gather? p.l idx else some p.l),
        (if fields.contains "blobs" then gather? p.b idx else some p.b) with
  | some u, some x, some l, some b => some ⟨u, x, l, b⟩
  | _, _, _, _ => none

/-- `cur[mask] = prop[mask]` on one array -/
def maskSet : List α → List α → List Bool → List α
  | c :: cs, q :: qs, m :: ms => (if m then q else c) :: maskSet cs qs ms
  | cs, _, _ => cs

/-- masked update of exactly the arrays whose (array, proposal) pair is listed -/
def maskedFields (pairs : List (String × String)) (mask : List Bool) (cur prop : Pop U X L B) : Pop U X L B :=
  { u := if pairs.contains ("u", "u_prime") then maskSet cur.u prop.u mask else cur.u
    x := if pairs.contains ("x", "x_prime") then maskSet cur.x prop.x mask else cur.x
    l := if pairs.contains ("logl", "logl_prime") then maskSet cur.l prop.l mask else cur.l
    b := if pairs.contains ("blobs", "blobs_prime") then maskSet cur.b prop.b mask else cur.b }

/-- `xs[tgt] = xs[src]` (right-hand side evaluated first, as numpy does) -/
def scatterFrom (xs : List α) : List Nat → List Nat → List α
  | t :: ts, s :: ss =>
    match xs[s]? with
    | some v => (scatterFrom xs ts ss).set t v
    | none => scatterFrom xs ts ss
  | _, _ => xs

def replaceFields (fields : List String) (tgt src : List Nat) (p : Pop U X L B) : Pop U X L B :=
  { u := if fields.contains "u" then scatterFrom p.u tgt src else p.u
    x := if fields.contains "x" then scatterFrom p.x tgt src else p.x
    l := if fields.contains "logl" then scatterFrom p.l tgt src else p.l
    b := if fields.contains "blobs" then scatterFrom p.b tgt src else p.b }

/-- a fresh batch built the way the code builds proposals and prior draws:
    `x = T u` row by row, `(logl, blob) = Lk x` row by row -/
def build (T : U → X) (Lk : X → L × B) (us : List U) : Pop U X L B :=
  let xs := us.map T
  { u := us, x := xs, l := xs.map (fun x => (Lk x).1), b := xs.map (fun x => (Lk x).2) }

/-- the persistent pool is the concatenation of the committed batches (`get_history(flat=True)`) -/
def pool (h : List (Pop U X L B)) : Pop U X L B :=
  { u := (h.map (·.u)).flatten, x := (h.map (·.x)).flatten, l := (h.map (·.l)).flatten, b := (h.map (·.b)).flatten }

/-- pipeline operations, parameterised by the generated field tables -/
structure Tables where
  resampleGather : List String
  mcmcMasked : List (String × String)
  warmupReplace : List String

inductive Op (U : Type) where
  | resample (idx : List Nat)                       -- Resampler.run (beta > 0)
  | mutate (props : List U) (mask : List Bool)      -- one accept/reject step of BaseMCMCRunner.run
  | priorDraw (us : List U)                         -- Mutator.run at beta = 0: fresh batch
  | replaceInf (tgt src : List Nat)                 -- Mutator.run at beta = 0: -inf particles overwritten
  | commit                                          -- commit_current_to_history

structure St (U X L B : Type) where
  hist : List (Pop U X L B)
  cur : Pop U X L B

def step (tb : Tables) (T : U → X) (Lk : X → L × B) (s : St U X L B) : Op U → Option (St U X L B)
  | .resample idx => (gatherFields tb.resampleGather idx (pool s.hist)).map fun c => { s with cur := c }
  | .mutate props mask => some { s with cur := maskedFields tb.mcmcMasked mask s.cur (build T Lk props) }
  | .priorDraw us => some { s with cur := build T Lk us }
  | .replaceInf tgt src => some { s with cur := replaceFields tb.warmupReplace tgt src s.cur }
  | .commit => some { s with hist := s.hist ++ [s.cur] }

def run (tb : Tables) (T : U → X) (Lk : X → L × B) (s : St U X L B) : List (Op U) → Option (St U X L B)
  | [] => some s
  | o :: os => (step tb T Lk s o).bind fun s' => run tb T Lk s' os

end Model.Records
