import TempestVerif.Sc
import TempestVerif.Model.Student
import TempestVerif.Model.Kernel
import TempestVerif.Model.Modes
/-
  Executable model of `ModeStatistics.__init__` (tempest/modes.py:57-108), numeric part included (C03, clause 15).

  Python:
      self.means = np.asarray(means); self.covariances = np.asarray(covariances)
      self.degrees_of_freedom = np.asarray(degrees_of_freedom)
      self.labels = None if labels is None else np.asarray(labels)
      if self.means.ndim == 1:               self.means = self.means.reshape(1, -1)
      if self.covariances.ndim == 2:         self.covariances = self.covariances.reshape(1, *self.covariances.shape)
      if self.degrees_of_freedom.ndim == 0:  self.degrees_of_freedom = np.array([self.degrees_of_freedom])
      K, n_dim = self.means.shape                                    -- tuple unpacking: ValueError unless ndim == 2
      if self.covariances.shape != (K, n_dim, n_dim):   raise ValueError
      if self.degrees_of_freedom.shape != (K,):         raise ValueError
      self.inv_covariances  = np.linalg.inv(self.covariances)        -- LinAlgError
      self.chol_covariances = np.linalg.cholesky(self.covariances)   -- LinAlgError
      K -> self.means.shape[0];   n_dim -> self.means.shape[1]

  An ndarray is a shape and its C-ordered data (`NDArr`); `np.asarray` of a well-formed array is the identity, the three
  reshape rules only touch the shape.  `np.linalg.cholesky` = LAPACK `potrf` (lower): reads ONLY the lower triangle,
  stops at the first pivot that is not `> 0` (NaN included: reference LAPACK semantics), returns the full d x d matrix with
  zeros above the diagonal — modelled row by row (Cholesky–Banachiewicz), sums folded left to right.
  `np.linalg.inv` (LU with partial pivoting) is modelled by `Model.Student.inv` (Gauss–Jordan WITHOUT pivoting, every pivot
  must be `> 0`): a different algorithm.  Both invert every symmetric positive definite matrix; on other input numpy's `inv`
  raises only on an exactly zero pivot whereas the model's raises on any non-positive one — for SYMMETRIC input the
  constructor's outcome class is nevertheless the same, because a symmetric matrix that is not positive definite makes
  `cholesky` raise.  The model is claimed on finite input whose covariances are symmetric (or have a positive definite
  symmetric part).  Core Lean only, total, computable.
-/
namespace Model.ModeStatsNum
open Model.Kernel (dotv)
variable {α : Type} [ScT α]

abbrev Mat (α : Type) := List (List α)

/-! ### `np.linalg.cholesky` of one matrix -/

/-- the entries left of the diagonal of row `i`: `prev` = the rows `j = acc.length, …, i-1` of `L` still to be used,
    `acc` = `L[i][0..j-1]`;  `L[i][j] = (a[j] - Σ_{k<j} L[i][k] L[j][k]) / L[j][j]`.
    (`dotv acc lj` runs over the common prefix, i.e. `k < j`.)  `none`: a row is too short. -/
def cholOff (a : List α) : List (List α) → List α → Option (List α)
  | [], acc => some acc
  | lj :: rest, acc =>
    match a[acc.length]?, lj[acc.length]? with
    | some aij, some ljj => cholOff a rest (acc ++ [Sc.div (Sc.sub aij (dotv acc lj)) ljj])
    | _, _ => none

/-- row `i = prev.length` of the factor of a `d × d` matrix whose row `i` is `a` (only `a[0..i]` is read):
    `none` = the pivot `a[i] - Σ_{k<i} L[i][k]²` is not `> 0` (`potrf` returns `info = i+1`, numpy raises `LinAlgError`) -/
def cholRow (d : Nat) (prev : List (List α)) (a : List α) : Option (List α) :=
  match cholOff a prev [] with
  | none => none
  | some off =>
    match a[prev.length]? with
    | none => none
    | some aii =>
      let s := Sc.sub aii (dotv off off)
      if Sc.lt Sc.zero s then some (off ++ [ScT.sqrt s] ++ List.replicate (d - prev.length - 1) Sc.zero) else none

/-- rows `prev.length, …` from the remaining rows of the input -/
def cholRows (d : Nat) : List (List α) → List (List α) → Option (List (List α))
  | [], prev => some prev
  | a :: as, prev =>
    match cholRow d prev a with
    | none => none
    | some r => cholRows d as (prev ++ [r])

/-- `np.linalg.cholesky(A)` for one matrix; `none` = `LinAlgError` (not square, or not positive definite) -/
def chol (A : Mat α) : Option (Mat α) :=
  if A.all (fun r => r.length == A.length) then cholRows A.length A [] else none

/-! ### ndarrays -/

/-- a numpy array: shape and C-ordered data -/
structure NDArr (α : Type) where
  shape : List Nat
  data : List α

def prod : List Nat → Nat
  | [] => 1
  | n :: ns => n * prod ns

def NDArr.ndim {β : Type} (a : NDArr β) : Nat := a.shape.length
/-- what `np.asarray` guarantees -/
def NDArr.wf {β : Type} (a : NDArr β) : Bool := a.data.length == prod a.shape

/-- `n` consecutive pieces of length `len` -/
def chunks {β : Type} (len : Nat) : Nat → List β → List (List β)
  | 0, _ => []
  | n + 1, xs => xs.take len :: chunks len n (xs.drop len)

/-- the `K` matrices of a `(K, d, d)` array -/
def matrices {β : Type} (K d : Nat) (data : List β) : List (Mat β) := (chunks (d * d) K data).map (chunks d d)

/-- `means.reshape(1, -1)` when 1-D -/
def reshapeMeans {β : Type} (m : NDArr β) : NDArr β :=
  if m.ndim == 1 then { m with shape := 1 :: m.shape } else m
/-- `covariances.reshape(1, *covariances.shape)` when 2-D -/
def reshapeCovs {β : Type} (c : NDArr β) : NDArr β :=
  if c.ndim == 2 then { c with shape := 1 :: c.shape } else c
/-- `np.array([dof])` when 0-D -/
def reshapeDofs {β : Type} (n : NDArr β) : NDArr β :=
  if n.ndim == 0 then { n with shape := [1] } else n

/-! ### the constructor -/

inductive Res (β : Type) where
  | ok (v : β)
  | valueError
  | linAlgError

structure Stats (α : Type) where
  means : NDArr α
  covariances : NDArr α
  dofs : NDArr α
  labels : Option (List Nat)
  invCovs : List (Mat α)
  cholCovs : List (Mat α)

/-- the numeric tail of `__init__` on validated shapes: `inv` of the stack first, then `cholesky` -/
def factorise (mats : List (Mat α)) : Option (List (Mat α) × List (Mat α)) :=
  match Model.Modes.mapOpt Model.Student.inv mats with
  | none => none
  | some is =>
    match Model.Modes.mapOpt chol mats with
    | none => none
    | some ls => some (is, ls)

/-- `ModeStatistics.__init__(means, covariances, degrees_of_freedom, labels)` -/
def init (means covs dofs : NDArr α) (labels : Option (List Nat)) : Res (Stats α) :=
  let means := reshapeMeans means
  let covs := reshapeCovs covs
  let dofs := reshapeDofs dofs
  match means.shape with
  | [K, d] =>
    if covs.shape != [K, d, d] then .valueError
    else if dofs.shape != [K] then .valueError
    else
      match factorise (matrices K d covs.data) with
      | none => .linAlgError
      | some (is, ls) =>
        .ok { means := means, covariances := covs, dofs := dofs, labels := labels, invCovs := is, cholCovs := ls }
  | _ => .valueError          -- `K, n_dim = self.means.shape` cannot be unpacked

/-- `ModeStatistics.K`: `self.means.shape[0]` (`none` = IndexError; cannot happen on a constructed object) -/
def Stats.K (s : Stats α) : Option Nat := s.means.shape[0]?
/-- `ModeStatistics.n_dim`: `self.means.shape[1]` -/
def Stats.nDim (s : Stats α) : Option Nat := s.means.shape[1]?

/-! ### what the kernels read -/

def zipModes : List (List α) → List (Mat α) → List (Mat α) → List α → List (Model.Kernel.Mode α)
  | mu :: mus, l :: ls, i :: is, nu :: nus => { mu := mu, chol := l, invcov := i, nu := nu } :: zipModes mus ls is nus
  | _, _, _, _ => []

/-- the per-mode records `(means[c], chol_covariances[c], inv_covariances[c], degrees_of_freedom[c])` the runners subscript
    (`Model.Kernel.RunIn.modes`) -/
def Stats.kernelModes (s : Stats α) : List (Model.Kernel.Mode α) :=
  match s.means.shape with
  | [K, d] => zipModes (chunks d K s.means.data) s.cholCovs s.invCovs s.dofs.data
  | _ => []

/-- constructor followed by the hand-over to the kernel model -/
def initModes (means covs dofs : NDArr α) : Res (List (Model.Kernel.Mode α)) :=
  match init means covs dofs none with
  | .ok s => .ok s.kernelModes
  | .valueError => .valueError
  | .linAlgError => .linAlgError

end Model.ModeStatsNum
