import TempestVerif.Model.GMM
import TempestVerif.Model.HGMM
/-
  Model of the WHOLE `tempest/cluster.py: HierarchicalGaussianMixture` (C15 clause audit): `fit` with the numerics
  inside (the split loop of `Model.HGMM` driven by the mixture fits of `Model.GMM` instead of recorded scores),
  the normalisation glue, the final per-cluster fits, `cluster_weights_`, `_compute_gaussian_probabilities`,
  `predict` and `predict_proba` on both paths.

  Python (fit):
      if self.normalize: self._data_min = np.min(X, axis=0); self._data_max = np.max(X, axis=0); X = self._normalize_data(X)
      min_points = self.min_points if self.min_points is not None else 2 * n_features
      … split loop (Model.HGMM), per examined cluster:
          data = X[indices]; weights = sample_weight[indices]
          bic_threshold = self.threshold_modifier * self._compute_bic_tolerance(n_features, weights)
          parent_gmm = GaussianMixture(n_components=1, covariance_type=…, n_init=…, random_state=42).fit(data, weights)
          child_gmm  = GaussianMixture(n_components=2, …, random_state=42).fit(data, weights)
          improvement = parent_gmm.bic(data) - child_gmm.bic(data);   labels = child_gmm.predict(data)
      for cluster_idx, indices in enumerate(clusters):
          if len(data) >= n_features: gmm = GaussianMixture(n_components=1, …).fit(data, weights)
              center = gmm.means_[0]; cov = gmm.covariances_[0] if covariance_type == "full" else gmm.covariances_
          else: center = np.mean(data, axis=0); cov = np.eye(n_features)
          if self.normalize: center = self._denormalize_data(center); cov = self._denormalize_covariance(cov)
      self.cluster_weights_ = [np.sum(sample_weight[labels == i]) / total_weight …]

  `random_state=42` makes every inner fit draw the same `rand()` values: the tape is a parameter.
  Covariances are kept as the 2-D arrays the Python stores: `d × d` ('full', and the `np.eye` of a tiny cluster) or
  `1 × d` ('diag': `gmm.covariances_` of a one-component mixture) — the broadcasting that follows is modelled as numpy does it.
  `none` = the Python raises.
-/
namespace Model.HFit
open Model.EM Model.GMM Model.HGMM
variable {α : Type} [ScT α]

structure HCfg (α : Type) where
  sing : Mat α → Bool
  diagT : Bool
  normalize : Bool
  tiny : α
  /-- every `1e-10` of the file -/
  eps : α
  /-- `reg_covar` of the inner mixtures (default 1e-6) -/
  reg : α
  /-- `tol` of the inner mixtures (default 1e-3) -/
  tol : α
  /-- `max_iter` of the inner mixtures (default 1000) -/
  gmmMaxIter : Nat
  nInit : Nat
  maxIterations : Nat
  minPoints : Option Nat
  modifier : α
  d : Nat
  /-- what `np.random.RandomState(42).rand()` returns, call after call -/
  tape : List α
  /-- the literal `1e-6` of `_compute_gaussian_probabilities` -/
  regP : α
  /-- the literal `1e-8` of the distance fall-back of `predict_proba` -/
  epsD : α

/-- configuration of an inner `GaussianMixture(n_components=K, …, random_state=42)` -/
def gmmCfg (c : HCfg α) (K : Nat) : Cfg α :=
  { sing := c.sing, diagT := c.diagT, tiny := c.tiny, eps := c.eps, reg := c.reg, tol := c.tol, d := c.d, K := K,
    maxIter := c.gmmMaxIter, nInit := c.nInit }

/-! ### normalisation -/

/-- `np.min(X, axis=0)` / `np.max(X, axis=0)`; `none` for an empty column (numpy raises on a zero-size array) -/
def colExt (pick : α → α → α) (d : Nat) (X : Mat α) : Option (List α) :=
  mapOpt (fun j => match col X j with | [] => none | x :: xs => some (xs.foldl pick x)) (List.range d)

/-- `(x - data_min) / (data_max - data_min + 1e-10)` -/
def normRow (eps : α) (mn mx x : List α) : List α :=
  List.zipWith (fun xi (ab : α × α) => Sc.div (Sc.sub xi ab.1) (Sc.add (Sc.sub ab.2 ab.1) eps)) x (List.zip mn mx)

/-- `x_norm * (data_max - data_min) + data_min` -/
def denormRow (mn mx x : List α) : List α :=
  List.zipWith (fun xi (ab : α × α) => Sc.add (Sc.mul xi (Sc.sub ab.2 ab.1)) ab.1) x (List.zip mn mx)

/-- numpy broadcasting of a 2-D array against a `d × d` one: a single row / a single column is repeated -/
def bcast (d : Nat) (A : Mat α) : Option (Mat α) :=
  let rows? : Option (Mat α) :=
    if A.length = d then some A else match A with | [r] => some (List.replicate d r) | _ => none
  rows?.bind fun rows => mapOpt (fun r : List α =>
    if r.length = d then some r else match r with | [x] => some (List.replicate d x) | _ => none) rows

/-- `np.outer(scale, scale)` with `scale = data_max - data_min` -/
def outerScale (mn mx : List α) : Mat α :=
  let sc := List.zipWith Sc.sub mx mn
  sc.map fun a => sc.map fun b => Sc.mul a b

/-- `A ∘ B` entry by entry after broadcasting `A` to the shape of the `d × d` matrix `B` -/
def bcastOp (f : α → α → α) (d : Nat) (A B : Mat α) : Option (Mat α) :=
  (bcast d A).map fun A' => List.zipWith (fun ra rb => List.zipWith f ra rb) A' B

/-- `_denormalize_covariance` for a 2-D array: `cov_norm * np.outer(scale, scale)` -/
def denormCov (d : Nat) (mn mx : List α) (C : Mat α) : Option (Mat α) := bcastOp Sc.mul d C (outerScale mn mx)

/-! ### threshold -/

/-- `1.0 / np.sum((w / np.sum(w)) ** 2)` -/
def essOf (w : List α) : α :=
  let t := Sc.sum w
  Sc.div Sc.one (Sc.sum (w.map fun x => let y := Sc.div x t; Sc.mul y y))

/-- `D + D * (D + 1) / 2 + 1` as the float the Python computes -/
def tolParams (d : Nat) : α := Sc.add (Sc.add (Sc.ofNat d) (Sc.div (Sc.ofNat (d * (d + 1))) Sc.two)) Sc.one

/-- `threshold_modifier * (n_params * np.log(N_eff))` -/
def threshold (modifier : α) (d : Nat) (w : List α) : α :=
  Sc.mul modifier (Sc.mul (tolParams d) (ScT.log (essOf w)))

/-! ### the numbers behind one examined cluster -/

/-- `X[indices]` (`none`: an index is out of range — numpy raises) -/
def gather {β : Type} (X : List β) (idx : List Nat) : Option (List β) := mapOpt (fun i => X[i]?) idx

/-- everything the split loop needs to know about one cluster: parent and child mixture, their BIC, the threshold
    and what the child mixture predicts for the members -/
def entry? (c : HCfg α) (X : Mat α) (w : List α) (members : List Nat) : Option (Entry α) :=
  match gather X members, gather w members with
  | some data, some wts =>
    match fit (gmmCfg c 1) data wts c.tape, fit (gmmCfg c 2) data wts c.tape with
    | some par, some chi =>
      match mapOpt id (predict (gmmCfg c 2) chi.params data) with
      | some labels =>
        some ⟨Sc.sub (bic (gmmCfg c 1) par.params data) (bic (gmmCfg c 2) chi.params data),
              threshold c.modifier c.d wts, labels⟩
      | none => none
    | _, _ => none
  | _, _ => none

/-- the oracle handed to `Model.HGMM.loop`.  Where the Python would raise, the entry is one that can never be
    accepted (score 0 against threshold 0) — `loopOK` below reports such a run as raising. -/
def entryD (c : HCfg α) (X : Mat α) (w : List α) : Nat → Nat → List Nat → Entry α :=
  fun _ _ members =>
    match entry? c X w members with
    | some e => e
    | none => ⟨Sc.zero, Sc.zero, members.map fun _ => 0⟩

/-- no examined cluster of one pass makes the Python raise -/
def passOK (c : HCfg α) (X : Mat α) (w : List α) (minPts : Nat) (clusters : List (List Nat)) : Bool :=
  clusters.all fun m => decide (m.length < minPts) || (entry? c X w m).isSome

/-- the same recursion as `Model.HGMM.loop`, checking every pass -/
def loopOK (c : HCfg α) (X : Mat α) (w : List α) (minPts : Nat) : Nat → Nat → List (List Nat) → Bool
  | 0, _, _ => true
  | fuel + 1, it, clusters =>
    passOK c X w minPts clusters &&
    match scan (entryD c X w (it + 1)) minPts 0 clusters none with
    | none => true
    | some b => loopOK c X w minPts fuel (it + 1) (applySplit clusters b)

/-! ### the final per-cluster fits -/

/-- `np.mean(data, axis=0)` -/
def colMean (d : Nat) (data : Mat α) : List α :=
  (List.range d).map fun j => Sc.div (Sc.sum (col data j)) (Sc.ofNat data.length)

/-- centre and covariance array of one final cluster, in the (possibly normalised) working coordinates -/
def clusterParams (c : HCfg α) (data : Mat α) (wts : List α) : Option (List α × Mat α) :=
  if c.d ≤ data.length then
    match fit (gmmCfg c 1) data wts c.tape with
    | none => none
    | some g =>
      match g.params.means with
      | [] => none
      | m0 :: _ =>
        if c.diagT then some (m0, g.params.covDiag)
        else match g.params.covFull with
          | [] => none
          | c0 :: _ => some (m0, c0)
  else some (colMean c.d data, scaledEye c.d Sc.one)

structure HFitOut (α : Type) where
  clusters : List (List Nat)
  labels : List (Option Nat)
  centers : Mat α
  covs : List (Mat α)
  weights : List α
  dataMin : List α
  dataMax : List α

/-- `min_points = self.min_points if self.min_points is not None else 2 * n_features` -/
def minPts (c : HCfg α) : Nat := match c.minPoints with | some m => m | none => 2 * c.d

/-- `HierarchicalGaussianMixture.fit(X, sample_weight=w)` -/
def hfit (c : HCfg α) (X : Mat α) (w : List α) : Option (HFitOut α) :=
  let bounds : Option (List α × List α) :=
    if c.normalize then
      match colExt Sc.min c.d X, colExt Sc.max c.d X with
      | some mn, some mx => some (mn, mx)
      | _, _ => none
    else some ([], [])
  match bounds with
  | none => none
  | some (mn, mx) =>
    let Xw := if c.normalize then X.map (normRow c.eps mn mx) else X
    let n := X.length
    if loopOK c Xw w (minPts c) c.maxIterations 0 [List.range n] then
      let clusters := fitClusters (entryD c Xw w) n (minPts c) c.maxIterations
      let per := mapOpt (fun m : List Nat =>
        match gather Xw m, gather w m with
        | some data, some wts =>
          match clusterParams c data wts with
          | none => none
          | some (ctr, cov) =>
            if c.normalize then (denormCov c.d mn mx cov).map fun cv => (denormRow mn mx ctr, cv, Sc.sum wts)
            else some (ctr, cov, Sc.sum wts)
        | _, _ => none) clusters
      per.map fun ps =>
        let tot := Sc.sum w
        { clusters := clusters, labels := assemble n clusters, centers := ps.map (·.1), covs := ps.map (·.2.1),
          weights := ps.map fun p => Sc.div p.2.2 tot, dataMin := mn, dataMax := mx }
    else none

/-! ### `_compute_gaussian_probabilities`, `predict`, `predict_proba` -/

/-- `np.diag(A)` of a 2-D array: its main diagonal -/
def diag2 (A : Mat α) : List α := A.zipIdx.filterMap fun p => p.1[p.2]?

/-- `v + np.eye(len(v)) * reg` for a 1-D `v`: entry (i, j) is `v[j] (+ reg if i = j)` -/
def vecPlusEye (reg : α) (v : List α) : Mat α :=
  (List.range v.length).map fun i => v.zipIdx.map fun q => if q.2 == i then Sc.add q.1 reg else q.1

/-- the log-density column of cluster k: the regularised covariance, and the identity when scipy refuses it -/
def probCol (c : HCfg α) (mean : List α) (cov : Mat α) (Xq : Mat α) : Option (List α) :=
  let M := if c.diagT then vecPlusEye c.regP (diag2 cov) else addDiag c.regP cov
  match logpdfCol c.sing c.d M mean Xq with
  | some l => some l
  | none => logpdfCol c.sing c.d (scaledEye mean.length Sc.one) mean Xq

/-- is `x - x = 0`, i.e. `x` finite -/
def isFinite (x : α) : Bool := let z := Sc.sub x x; Sc.le z Sc.zero && Sc.le Sc.zero z

/-- `scipy.special.logsumexp` of one non-empty row: the maximum is pulled out (replaced by 0 when it is not finite) -/
def logsumexp (x : α) (xs : List α) : α :=
  let m0 := rowMax x xs
  let m := if isFinite m0 then m0 else Sc.zero
  Sc.add (ScT.log (Sc.sum ((x :: xs).map fun t => ScT.exp (Sc.sub t m)))) m

/-- `np.exp(log_probabilities - logsumexp(log_probabilities, axis=1, keepdims=True))` for one row -/
def softmaxRow : List α → List α
  | [] => []
  | x :: xs => let l := logsumexp x xs; (x :: xs).map fun t => ScT.exp (Sc.sub t l)

/-- `_compute_gaussian_probabilities(Xq)` (`Xq` already normalised when normalisation is on) -/
def gaussProbs (c : HCfg α) (f : HFitOut α) (Xq : Mat α) : Option (Mat α) :=
  let cols := mapOpt (fun t : List α × Mat α × α =>
    let mean := if c.normalize then normRow c.eps f.dataMin f.dataMax t.1 else t.1
    let cov? := if c.normalize then bcastOp Sc.div c.d t.2.1 (outerScale f.dataMin f.dataMax) else some t.2.1
    match cov? with
    | none => none
    | some cov => (probCol c mean cov Xq).map fun l => l.map fun u => Sc.add u (ScT.log (Sc.add t.2.2 c.eps)))
    (List.zip f.centers (List.zip f.covs f.weights))
  cols.map fun cs => (rowsOfCols Xq.length cs).map softmaxRow

/-- `np.linalg.norm(X[:, None, :] - centers[None, :, :], axis=2)` -/
def distRows (centers Xq : Mat α) : Mat α :=
  Xq.map fun x => centers.map fun ctr => ScT.sqrt (sqdist x ctr)

def isNaN (x : α) : Bool := !(Sc.le x x)

/-- `predict(Xq)`; `ready` is `self._gmm_ready` -/
def hpredict (c : HCfg α) (f : HFitOut α) (ready : Bool) (Xq : Mat α) : List (Option Nat) :=
  let Xn := if c.normalize then Xq.map (normRow c.eps f.dataMin f.dataMax) else Xq
  let ctrs := if c.normalize then f.centers.map (normRow c.eps f.dataMin f.dataMax) else f.centers
  match (if ready then gaussProbs c f Xn else none) with
  | some P => P.map (npArgmax Sc.le isNaN)
  | none => (distRows ctrs Xn).map (npArgmin Sc.le isNaN)

/-- `predict_proba(Xq)` -/
def hpredictProba (c : HCfg α) (f : HFitOut α) (ready : Bool) (Xq : Mat α) : Mat α :=
  let Xn := if c.normalize then Xq.map (normRow c.eps f.dataMin f.dataMax) else Xq
  let ctrs := if c.normalize then f.centers.map (normRow c.eps f.dataMin f.dataMax) else f.centers
  match (if ready then gaussProbs c f Xn else none) with
  | some P => P
  | none => (distRows ctrs Xn).map fun row =>
      let inv := row.map fun dd => Sc.div Sc.one (Sc.add dd c.epsD)
      let t := Sc.sum inv
      inv.map fun v => Sc.div v t

end Model.HFit
