import TempestVerif.Sc
/-
  Model of the split loop of `tempest/cluster.py: HierarchicalGaussianMixture.fit`, the label
  assembly and the index part of `predict` (C15).

  Python:
      min_points = self.min_points if self.min_points is not None else 2 * n_features
      clusters = [[i for i in range(n_samples)]];  iteration = 0
      while iteration < self.max_iterations:
          iteration += 1
          best_improvement = -np.inf;  best_split = None;  best_parent_idx = None
          for idx, indices in enumerate(clusters):
              if len(indices) < min_points: continue
              ... fit parent (1 component) and child (2 components) mixtures on X[indices] ...
              improvement = parent_bic - child_bic
              if improvement > bic_threshold and improvement > best_improvement:
                  labels = child_gmm.predict(data)
                  child1 = [indices[i] for i in range(len(indices)) if labels[i] == 0]
                  child2 = [indices[i] for i in range(len(indices)) if labels[i] == 1]
                  if len(child1) >= min_points and len(child2) >= min_points:
                      best_improvement = improvement; best_split = (child1, child2); best_parent_idx = idx
          if best_split is None: break
          clusters.pop(best_parent_idx);  clusters.extend(best_split)
      labels = np.full(n_samples, -1)
      for cluster_idx, indices in enumerate(clusters): labels[indices] = cluster_idx
      n_clusters_ = len(clusters)
      predict:  np.argmax(probabilities, axis=1)   /   fallback np.argmin(distances, axis=1)

  Everything numerical (the two mixture fits, BIC, the threshold, the child mixture's `predict`) is
  supplied from outside by an oracle `iteration → idx → members → Entry`; the model is the control
  flow on index lists.  Scores only need `<`, so the scalar is any `Sc` type.
-/
namespace Model.HGMM
variable {α : Type} [Sc α]

/-- what the numerics say about one examined cluster -/
structure Entry (α : Type) where
  improvement : α
  threshold : α
  /-- `child_gmm.predict(data)`, one label per member (only looked at when the score test passes) -/
  childLabels : List Nat

/-- `best_improvement, best_split, best_parent_idx` once a split has been accepted in this pass -/
structure Best (α : Type) where
  improvement : α
  child1 : List Nat
  child2 : List Nat
  parentIdx : Nat

/-- `[indices[i] for i in range(len(indices)) if labels[i] == c]`
    (Python raises if `labels` is shorter than `indices`; theorems assume equal lengths) -/
def pick (members labels : List Nat) (c : Nat) : List Nat :=
  ((members.zip labels).filter fun p => p.2 == c).map fun p => p.1

/-- `improvement > best_improvement`, where "no split yet" stands for `-inf`.
    (`improvement > threshold` already excludes NaN and `-inf`, for which `> -inf` would be false.) -/
def beats (imp : α) : Option (Best α) → Bool
  | none => true
  | some b => Sc.lt b.improvement imp

/-- the body of `for idx, indices in enumerate(clusters)` for one cluster -/
def examine (oracle : Nat → List Nat → Entry α) (minPts idx : Nat) (c : List Nat)
    (best : Option (Best α)) : Option (Best α) :=
  if c.length < minPts then best else
  let e := oracle idx c
  if Sc.lt e.threshold e.improvement && beats e.improvement best then
    let c1 := pick c e.childLabels 0
    let c2 := pick c e.childLabels 1
    if minPts ≤ c1.length && minPts ≤ c2.length then some ⟨e.improvement, c1, c2, idx⟩ else best
  else best

/-- one pass over `clusters` starting at position `idx` -/
def scan (oracle : Nat → List Nat → Entry α) (minPts : Nat) :
    Nat → List (List Nat) → Option (Best α) → Option (Best α)
  | _, [], best => best
  | idx, c :: cs, best => scan oracle minPts (idx + 1) cs (examine oracle minPts idx c best)

/-- `clusters.pop(best_parent_idx); clusters.extend(best_split)` -/
def applySplit (clusters : List (List Nat)) (b : Best α) : List (List Nat) :=
  clusters.eraseIdx b.parentIdx ++ [b.child1, b.child2]

/-- the `while iteration < max_iterations` loop; `fuel = max_iterations - iteration` -/
def loop (oracle : Nat → Nat → List Nat → Entry α) (minPts : Nat) :
    (fuel : Nat) → (iteration : Nat) → List (List Nat) → List (List Nat)
  | 0, _, clusters => clusters
  | fuel + 1, iteration, clusters =>
    match scan (oracle (iteration + 1)) minPts 0 clusters none with
    | none => clusters
    | some b => loop oracle minPts fuel (iteration + 1) (applySplit clusters b)

/-- final `clusters` of `fit` on `n` points -/
def fitClusters (oracle : Nat → Nat → List Nat → Entry α) (n minPts maxIt : Nat) : List (List Nat) :=
  loop oracle minPts maxIt 0 [List.range n]

/-- `labels = np.full(n, -1); for cluster_idx, indices in enumerate(clusters): labels[indices] = cluster_idx`
    (`none` is the `-1` that was never overwritten) -/
def assignFrom (k : Nat) : List (List Nat) → List (Option Nat) → List (Option Nat)
  | [], labels => labels
  | c :: cs, labels => assignFrom (k + 1) cs (c.foldl (fun l i => l.set i (some k)) labels)

def assemble (n : Nat) (clusters : List (List Nat)) : List (Option Nat) :=
  assignFrom 0 clusters (List.replicate n none)

/-- `np.argmax` of a non-empty row `x :: xs` scanning from position `i`: first maximum wins (NaN-free) -/
def argmaxFrom : (i bestIdx : Nat) → (bestVal : α) → List α → Nat
  | _, bi, _, [] => bi
  | i, bi, bv, x :: xs => if Sc.lt bv x then argmaxFrom (i + 1) i x xs else argmaxFrom (i + 1) bi bv xs

/-- `np.argmax(row)`; on an empty row numpy raises: `none` -/
def argmax : List α → Option Nat
  | [] => none
  | x :: xs => some (argmaxFrom 1 0 x xs)

def argminFrom : (i bestIdx : Nat) → (bestVal : α) → List α → Nat
  | _, bi, _, [] => bi
  | i, bi, bv, x :: xs => if Sc.lt x bv then argminFrom (i + 1) i x xs else argminFrom (i + 1) bi bv xs

/-- `np.argmin(row)` (nearest-centre fallback) -/
def argmin : List α → Option Nat
  | [] => none
  | x :: xs => some (argminFrom 1 0 x xs)

/-- `np.argmax(probabilities, axis=1)` -/
def predict (P : List (List α)) : List (Option Nat) := P.map argmax

/-- `np.argmin(distances, axis=1)` -/
def predictNearest (D : List (List α)) : List (Option Nat) := D.map argmin

end Model.HGMM
