import TempestVerif.Model.RecSM
/-
  `Model.RecSM`, the code AS IT IS after /repo 959029e (C07).  `Model/RecSM.lean` is left exactly as committed because
  another property's theorems (`Props/C11SM.lean`) are stated on its `warmup` / `Tape` / `iterate`; those describe the
  warm-up BEFORE 959029e (one batch, a batch without a finite draw stored as it was — finding F8).  Here, with suffix `R`:

    * `drawLoop`, `warmupKept`, `warmupR` — `Mutator.run` at beta = 0 with the REDRAW loop (mutate.py:105-170): the batch is
      drawn again while every draw is infinite (cap 1000·n_particles → ValueError), the copy is guarded by
      `len(infinite_idx) > 0` and its sources are `np.random.choice(finite_idx, …)`;
    * `mcmcStepR`, `mcmcStepsR`, `mutateR` — one MCMC pass in which a proposal of infinite log-likelihood is never accepted
      (`alpha = exp(beta·(−inf − logl)) = 0`; the previous model left that to the tape);
    * `TapeR` (the warm-up draws are a LIST of batches), `iterateStatesR`, `iterateR`, `runItersR`.
  All theorems of `Props/C07SM.lean` and the driver command `c07sm.run` are about these.  Core Lean only.
-/
namespace Model.RecSM
open Model.Records

variable {U X L B W α : Type}

/-- `np.all(np.isinf(logl))` -/
def allInf (isInf : L → Bool) (l : List L) : Bool := l.all isInf

/-- the redraw loop of /repo 959029e: `batch` is the batch just evaluated, `drawn` = `n_drawn` so far, `rest` the batches
    `np.random.rand` hands out next.  While every draw of the batch is infinite: at the cap (`n_drawn >= 1000·n_particles`)
    ValueError, else the next batch.  Returns the batch that is kept and `n_drawn`.  (`none` also when the tape has no
    further batch although the loop asks for one.) -/
def drawLoop (allInfB : List U → Bool) (n : Nat) : List (List U) → List U → Nat → Option (List U × Nat)
  | [], batch, drawn => if allInfB batch then none else some (batch, drawn)
  | b :: bs, batch, drawn =>
    if allInfB batch then
      if drawn ≥ 1000 * n then none else drawLoop allInfB n bs b (drawn + n)
    else some (batch, drawn)

/-- the part of the warm-up after the redraw loop, on the batch `us` that is kept.
    `picks` = the result of `np.random.choice(finite_idx, size=len(infinite_idx))`: numpy returns `len(infinite_idx)`
    elements OF `finite_idx` — a tape that says otherwise is not a possible run (`none`). -/
def warmupKept (cfg : Cfg) (T : U → X) (Lk : X → L × B) (isInf : L → Bool) (us : List U) (picks : List Nat)
    (s : St U X L B) : Option (St U X L B) :=
  let x := us.map T
  let ll := logLike cfg Lk x
  let l := ll.1
  let s1 : St U X L B := { s with cur := ⟨some us, some x, some l, ll.2⟩ }
  let ii := infIdx isInf l
  let fi := finIdx isInf l
  -- `if np.any(inf) or n_drawn > n_particles:` only guards the evidence correction; the copy is under
  -- `if len(infinite_idx) > 0:`
  if ii.isEmpty then some s1 else
  if picks.length ≠ ii.length ∨ (picks.all fun p => fi.contains p) = false then none else
  let x' := scatterFrom x ii picks
  let u' := scatterFrom us ii picks
  let l' := scatterFrom l ii picks
  if cfg.gate ll.2 then                  -- evaluated after `update_current({…, "blobs": blobs, …})`
    match ll.2 with
    | none => none                       -- `blobs[infinite_idx] = …` on None: TypeError
    | some b => some { s with cur := ⟨some u', some x', some l', some (scatterFrom b ii picks)⟩ }
  else some { s with cur := ⟨some u', some x', some l', ll.2⟩ }

/-- `Mutator.run` at beta = 0 as of /repo 959029e.  `batches` = successive results of `np.random.rand(n_particles, n_dim)` -/
def warmupR (cfg : Cfg) (T : U → X) (Lk : X → L × B) (isInf : L → Bool) (batches : List (List U)) (picks : List Nat)
    (s : St U X L B) : Option (St U X L B) :=
  match batches with
  | [] => none
  | b0 :: rest =>
    (drawLoop (fun b => allInf isInf (logLike cfg Lk (b.map T)).1) b0.length rest b0 b0.length).bind fun kept =>
      warmupKept cfg T Lk isInf kept.1 picks s

/-- as `Step`: the accept bits are the outcome of `u_rand < alpha` per walker as it would be WITHOUT the
    `alpha[~in_bounds] = 0` line and for a proposal of finite log-likelihood (a proposal with logl = −inf has
    `alpha = exp(−inf) = 0`, or NaN → 0: never accepted — that factor is applied by the model, `negInf`) -/
def mcmcStepR (cfg : Cfg) (T : U → X) (Lk : X → L × B) (negInf : L → Bool) (fold : U → U) (chk : U → Bool)
    (r : Runner U X L B) (st : Step U) : Option (Runner U X L B) :=
  if st.raw.length ≠ r.u.length ∨ st.acc.length ≠ r.u.length then none else   -- one proposal, one uniform per walker
  let p := st.raw.map fold
  let inb := p.map chk
  let u' := substitute p inb r.u
  let x' := u'.map T
  let ll := logLike cfg Lk x'
  let mask := andMask (andMask st.acc inb) (ll.1.map fun v => !negInf v)
  match r.b with
  | none => some ⟨maskSet r.u u' mask, maskSet r.x x' mask, maskSet r.l ll.1 mask, none⟩
  | some b =>
    match ll.2 with
    | none => none                       -- `blobs_prime[mask_accept]` on None: TypeError
    | some b' => some ⟨maskSet r.u u' mask, maskSet r.x x' mask, maskSet r.l ll.1 mask, some (maskSet b b' mask)⟩

def mcmcStepsR (cfg : Cfg) (T : U → X) (Lk : X → L × B) (negInf : L → Bool) (fold : U → U) (chk : U → Bool) :
    Runner U X L B → List (Step U) → Option (Runner U X L B)
  | r, [] => some r
  | r, st :: sts => (mcmcStepR cfg T Lk negInf fold chk r st).bind fun r' => mcmcStepsR cfg T Lk negInf fold chk r' sts

/-! ### Mutator.run at beta > 0 -/

def mutateR (cfg : Cfg) (T : U → X) (Lk : X → L × B) (negInf : L → Bool) (fold : U → U) (chk : U → Bool) (steps : List (Step U))
    (s : St U X L B) : Option (St U X L B) :=
  match s.cur.u, s.cur.x, s.cur.l with
  | some u, some x, some l =>
    -- blobs = get_current("blobs") if have_blobs and it is not None else None
    let b0 := if cfg.gate s.cur.b then s.cur.b else none
    (mcmcStepsR cfg T Lk negInf fold chk ⟨u, x, l, b0⟩ steps).bind fun r =>
      if cfg.gate s.cur.b then           -- `update_current` of u, x, logl in between leaves the blobs slot alone
        match r.b with
        | none => none                   -- `blobs.copy()` on None: AttributeError
        | some b => some { s with cur := ⟨some r.u, some r.x, some r.l, some b⟩ }
      else some { s with cur := { s.cur with u := some r.u, x := some r.x, l := some r.l } }
  | _, _, _ => none                      -- `x.shape` of None

/-! ### execute_iteration -/

structure TapeR (U : Type) where
  warm : Bool                 -- `state beta == 0.0` after the reweighting step
  draws : List (List U)       -- warm-up: the successive `np.random.rand(n_particles, n_dim)` batches (redraw loop), row by row
  picks : List Nat            -- warm-up: `np.random.choice(finite_idx, …)`
  idx : List Nat              -- annealing: `idx_resampled`
  steps : List (Step U)       -- annealing: the passes of the MCMC loop
deriving Repr, DecidableEq

/-- state after `resampler.run`, after `mutator.run`, after the commit (`none` = an exception) -/
def iterateStatesR (cfg : Cfg) (T : U → X) (Lk : X → L × B) (isInf : L → Bool) (fold : U → U) (chk : U → Bool)
    (s : St U X L B) (t : TapeR U) : Option (St U X L B × St U X L B × St U X L B) :=
  if t.warm then
    (warmupR cfg T Lk isInf t.draws t.picks s).map fun s2 => (s, s2, commit s2)
  else
    (resample cfg t.idx s).bind fun s1 =>
      (mutateR cfg T Lk isInf fold chk t.steps s1).map fun s2 => (s1, s2, commit s2)

/-- `Sampler.sample()`: the new state and the dictionary it returns (`get_current()`, record fields) -/
def iterateR (cfg : Cfg) (T : U → X) (Lk : X → L × B) (isInf : L → Bool) (fold : U → U) (chk : U → Bool)
    (s : St U X L B) (t : TapeR U) : Option (St U X L B × Cur U X L B) :=
  (iterateStatesR cfg T Lk isInf fold chk s t).map fun r => (r.2.2, r.2.2.cur)

/-- any number of iterations; the returned dictionaries are collected -/
def runItersR (cfg : Cfg) (T : U → X) (Lk : X → L × B) (isInf : L → Bool) (fold : U → U) (chk : U → Bool) :
    St U X L B → List (TapeR U) → Option (St U X L B × List (Cur U X L B))
  | s, [] => some (s, [])
  | s, t :: ts =>
    (iterateR cfg T Lk isInf fold chk s t).bind fun r =>
      (runItersR cfg T Lk isInf fold chk r.1 ts).map fun q => (q.1, r.2 :: q.2)

end Model.RecSM
