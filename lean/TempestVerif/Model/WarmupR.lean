/-
  The redraw loop of `Mutator.run` at beta = 0 (C11; /repo 959029e), generic in what a "block" is:

      logl, blobs = self.log_likelihood(x)                 -- the first block
      n_drawn = self.n_particles
      while np.all(np.isinf(logl)):                        -- no finite draw in the block at hand
          if n_drawn >= 1000 * self.n_particles: raise ValueError
          u = np.random.rand(...); x = …; logl, blobs = self.log_likelihood(x)     -- the next block
          n_drawn += self.n_particles

  `pending` are the further blocks `np.random.rand` would deliver, in order (the tape).  `none` = the ValueError of the
  cap, or a tape that ends before the loop does (outside the model).  Core Lean only.
-/
namespace Model.WarmupR

/-- the literal `1000` of the cap `1000 * self.n_particles` -/
def capFactor : Nat := 1000

/-- returns the block that is kept and `n_drawn` -/
def drawLoop {β : Type} (hasFin : β → Bool) (n : Nat) : List β → β → Nat → Option (β × Nat)
  | [], cur, nd => if hasFin cur then some (cur, nd) else none
  | b :: rest, cur, nd =>
    if hasFin cur then some (cur, nd)
    else if capFactor * n ≤ nd then none
    else drawLoop hasFin n rest b (nd + n)

/-- `Mutator.run`'s loop from its start: first block `cur`, `n_drawn = n_particles` -/
def draw {β : Type} (hasFin : β → Bool) (n : Nat) (cur : β) (pending : List β) : Option (β × Nat) :=
  drawLoop hasFin n pending cur n

end Model.WarmupR
