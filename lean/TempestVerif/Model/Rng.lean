/-
  Abstract model of the process-wide random stream (C09; used by C02).
  A generator is a state type with a deterministic `next` and a `seed` map; library code is an effect
  program: a sequence of draws and (re)seedings.  Core Lean only.
-/
namespace Model.Rng

structure Gen (S V : Type) where
  next : S → S × V
  seed : Nat → S

inductive Eff where
  | draw                      -- one draw from the global stream
  | seedLit (k : Nat)         -- np.random.seed(<literal k>)
  | seedArg                   -- np.random.seed(<the user's random_state>)
deriving DecidableEq, Repr

variable {S V : Type}

/-- run an effect program from state `s`; `a` is the user's random_state -/
def exec (g : Gen S V) (a : Nat) : List Eff → S → S × List V
  | [], s => (s, [])
  | .draw :: p, s =>
    let (s', v) := g.next s
    let (s'', vs) := exec g a p s'
    (s'', v :: vs)
  | .seedLit k :: p, _ => exec g a p (g.seed k)
  | .seedArg :: p, _ => exec g a p (g.seed a)

def hasSeedLit : List Eff → Bool
  | [] => false
  | .seedLit _ :: _ => true
  | _ :: p => hasSeedLit p

def hasSeed : List Eff → Bool
  | [] => false
  | .draw :: p => hasSeed p
  | _ :: _ => true

end Model.Rng
