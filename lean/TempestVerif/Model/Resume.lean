import TempestVerif.Model.Checkpoint
import TempestVerif.Model.FS
/-
  Whole-`SamplerCore` model of checkpointing and resuming (C08; core Lean only).

  Mirrors, statement by statement (tempest/core.py as of /repo db2b14b):
    save_sampler_state   d = self.state.to_dict(); d["random_state"] = config.random_state;
                         d["n_total"] = getattr(self, "n_total", None); d["logz_err"] = getattr(self, "logz_err", None);
                         d["rng_state"] = np.random.get_state(); d["sampler"] = dill.dumps(self)  (pool detached);
                         mkdir; temp-file protocol (Model.FS.samplerSave)
    load_sampler_state   d = dill.load(f); state.update_from_dict(d); defaults loop;
                         if "n_total" in d: self.n_total = d["n_total"]; if "logz_err" in d: self.logz_err = d["logz_err"];
                         if d.get("rng_state") is not None: np.random.set_state(d["rng_state"])
                         — `d["sampler"]` and `d["random_state"]` are never read; no component of the receiving
                         SamplerCore (reweighter / trainer / resampler / mutator / shared clusterer) is touched
    _initialize_fresh    seed iff random_state is not None; iter = calls = 0, beta = logz = 0.0
    _initialize_from_resume + run_sampling prologue   t0 = int(restored iter); self.n_total = int(n_total) (this call's argument)
    run_sampling without a path (since /repo aeb0399)   history non-empty ⇒ continue (t0 = int(iter)); else _initialize_fresh
    run_sampling         while _not_termination(): execute_iteration;  logz = Z(1); logz_err = None; final save; pbar.close()
    execute_iteration    cadence save (BEFORE Reweighter.run increments iter), then the iteration, then commit

  What evolves during a run is a `World`: the StateManager (`Model.Checkpoint.State`), the position `G` of numpy's global
  generator, the cross-iteration state `C` of the four step components (`Trainer._clusterer_fitted` and the fitted shared
  clusterer are the only such state in /repo: sigmas and ModeStatistics are rebuilt inside every iteration), and the
  attributes `n_total`, `logz_err`, `t0` of the core.  One iteration is an arbitrary function `F` of (StateManager, generator
  position, component state): the user's functions are pure, every random draw goes through the global generator.
-/
namespace Model.Resume
open Model.Checkpoint

/-- attributes assigned on `self` anywhere in class `SamplerCore` (sorted; equality with the regenerated list is
    `Props.C08.C08_gen_core_attrs`) -/
def coreAttrs : List String :=
  ["config", "logz_err", "mutator", "n_total", "pbar", "resampler", "reweighter", "state", "t0", "trainer"]

/-- keys `save_sampler_state` adds to the three of `to_dict()`, in source order, with the expression stored -/
def ckptExtraKeys : List (String × String) :=
  [("random_state", "self.config.random_state"), ("n_total", "getattr(self, 'n_total', None)"),
   ("logz_err", "getattr(self, 'logz_err', None)"), ("rng_state", "np.random.get_state()"), ("sampler", "dill.dumps(self)")]

/-- what `load_sampler_state` does with the top-level keys besides `update_from_dict`: (key, guard, action) -/
def loadTable : List (String × String × String) :=
  [("n_total", "key_present", "attr:n_total"), ("logz_err", "key_present", "attr:logz_err"),
   ("rng_state", "value_not_none", "np.random.set_state")]

/-- the part of a `SamplerCore` that a checkpoint can concern -/
structure Core (C : Type) where
  sm : State                  -- `self.state`
  comp : C                    -- cross-iteration state of reweighter / trainer / resampler / mutator (+ shared clusterer)
  randomState : Option Int    -- `config.random_state`
  nTotal : Option Val         -- attribute `n_total`; `none` = the attribute does not exist (run() never called, nothing loaded)
  logzErr : Option Val        -- attribute `logz_err`
  t0 : Int

structure World (G C : Type) where
  core : Core C
  rng : G                     -- `np.random.get_state()`

/-- the pickled dictionary.  An outer `none` = the key is absent (files written by older versions) -/
structure CkDict (G B : Type) where
  base : Dict                          -- `_current`, `_history`, `n_dim`
  randomState : Option (Option Int)
  nTotal : Option Val
  logzErr : Option Val
  rngState : Option (Option G)         -- `some none` = key present with value `None`
  sampler : Option B                   -- `dill.dumps(self)`

variable {G C B : Type}

/-- `getattr(self, name, None)` -/
def attrOrNone (a : Option Val) : Val := match a with | some v => v | none => Val.none

/-- dictionary part of `save_sampler_state` -/
def saveDict (pickle : Core C → B) (w : World G C) : CkDict G B :=
  { base := toDict w.core.sm
    randomState := some w.core.randomState
    nTotal := some (attrOrNone w.core.nTotal)
    logzErr := some (attrOrNone w.core.logzErr)
    rngState := some (some w.rng)
    sampler := some (pickle w.core) }

/-- `load_sampler_state` once the file has been unpickled.  `none` = the defaults loop raised (a `_current` without one of
    the seven keys).  Nothing here can reseed: the generator is either set to the stored position or left alone. -/
def loadCore (w : World G C) (d : CkDict G B) : Option (World G C) :=
  (loadDict w.core.sm d.base).map fun sm' =>
    { core := { w.core with
                sm := sm'
                nTotal := (match d.nTotal with | some v => some v | none => w.core.nTotal)
                logzErr := (match d.logzErr with | some v => some v | none => w.core.logzErr) }
      rng := (match d.rngState with | some (some g) => g | _ => w.rng) }

/-- `run_sampling(resume_state_path=…, n_total=nT)` up to the loop: `_initialize_from_resume` (load; `self.t0 = int(iter)`),
    `t0 = int(iter_val)`, `self.n_total = int(n_total)`, `self.t0 = t0`.  After the defaults loop `iter` is never `None`;
    an `iter` that is not a Python int is outside the value language (`none`). -/
def prologueResume (w : World G C) (d : CkDict G B) (nT : Int) : Option (World G C) :=
  (loadCore w d).bind fun w1 =>
    match getInt "iter" w1.core.sm.current with
    | some t => some { w1 with core := { w1.core with t0 := t, nTotal := some (Val.int nT) } }
    | none => none

/-- `run_sampling(n_total=nT)` without a checkpoint: `_initialize_fresh` (seed iff `random_state is not None`) -/
def prologueFresh (seed : Int → G) (w : World G C) (nT : Int) : World G C :=
  let cur := setKey "logz" (Val.real 0) (setKey "beta" (Val.real 0) (setKey "calls" (Val.int 0)
    (setKey "iter" (Val.int 0) w.core.sm.current)))
  { core := { w.core with sm := { w.core.sm with current := cur }, t0 := 0, nTotal := some (Val.int nT) }
    rng := (match w.core.randomState with | some r => seed r | none => w.rng) }

/-- `StateManager.get_history_length()`: `len(self._history["beta"])` (`none` = no such list: KeyError) -/
def historyLength (s : State) : Option Nat := (lookup "beta" s.history).map List.length

/-- `run_sampling(n_total=nT)` WITHOUT `resume_state_path`, as of /repo aeb0399 (three-way branch): committed history present —
    a state was loaded with `load_state()`, or a finished run is being extended by a second `run()` — ⇒ continue it:
    `t0 = int(iter)`, no `_initialize_fresh` (counters, temperature and generator stay); empty history ⇒ `_initialize_fresh`.
    (`iter` not an int while history exists: `t0 = 0` and the first `Reweighter.run` raises on `iter + 1`: `none`.) -/
def prologueRun (seed : Int → G) (w : World G C) (nT : Int) : Option (World G C) :=
  match historyLength w.core.sm with
  | none => none
  | some 0 => some (prologueFresh seed w nT)
  | some (_ + 1) =>
    match getInt "iter" w.core.sm.current with
    | some t => some { w with core := { w.core with t0 := t, nTotal := some (Val.int nT) } }
    | none => none

/-- one `execute_iteration` without its cadence save: what the iteration writes is a function of the StateManager, the
    generator position and the component state -/
def iterate (F : State → G → C → StepIn × G × C) (w : World G C) : Option (World G C) :=
  let r := F w.core.sm w.rng w.core.comp
  (iteration w.core.sm r.1).map fun sm' => { core := { w.core with sm := sm', comp := r.2.2 }, rng := r.2.1 }

def iterateN (F : State → G → C → StepIn × G × C) : Nat → World G C → Option (World G C)
  | 0, w => some w
  | n + 1, w => (iterate F w).bind (iterateN F n)

/-! ### the run with its checkpoint files -/

structure Env (G C B : Type) where
  F : State → G → C → StepIn × G × C
  cont : State → Option Val → Bool          -- `_not_termination()`: a function of the StateManager and `n_total`
  z1 : State → Val                          -- `compute_logw_and_logz(1.0)[1]`
  enc : CkDict G B → Model.FS.Bytes         -- `dill.dump(d, f)`
  pickle : Core C → B
  dir : Model.FS.Path                       -- `config.output_dir`
  periodic : Int → Model.FS.Path            -- `output_dir / f"{label}_{iter}.state"`
  final : Model.FS.Path                     -- `output_dir / f"{label}_final.state"`

/-- a complete `save_sampler_state(p)` -/
def saveTo (env : Env G C B) (p : Model.FS.Path) (w : World G C) (fs : Model.FS.FS) : Model.FS.FS :=
  Model.FS.run fs (Model.FS.samplerSave env.dir p (env.enc (saveDict env.pickle w)))

/-- the head of `execute_iteration`.  Returns the file system and the (path, world) saved, if any.
    `none`: `iter` is not an integer (`iter_val - t0` raises). -/
def periodicSave (env : Env G C B) (k : Option Int) (w : World G C) (fs : Model.FS.FS) :
    Option (Model.FS.FS × List (Model.FS.Path × World G C)) :=
  match k with
  | none => some (fs, [])
  | some k =>
    match getInt "iter" w.core.sm.current with
    | some it =>
      if savesAt w.core.t0 k it then some (saveTo env (env.periodic it) w fs, [(env.periodic it, w)]) else some (fs, [])
    | none => none

/-- `while self._not_termination(): self.execute_iteration(save_every, t0)` with fuel (`none` = out of fuel or an
    iteration raised); also returns the log of checkpoints written, oldest first -/
def loop (env : Env G C B) (k : Option Int) : Nat → World G C → Model.FS.FS →
    Option (World G C × Model.FS.FS × List (Model.FS.Path × World G C))
  | 0, w, fs => if env.cont w.core.sm w.core.nTotal then none else some (w, fs, [])
  | n + 1, w, fs =>
    if env.cont w.core.sm w.core.nTotal then
      (periodicSave env k w fs).bind fun p =>
      (iterate env.F w).bind fun w' =>
      (loop env k n w' p.1).map fun r => (r.1, r.2.1, p.2 ++ r.2.2)
    else some (w, fs, [])

/-- after the loop: `set_current("logz", Z(1))`, `self.logz_err = None`, final save iff `save_every is not None` -/
def epilogue (env : Env G C B) (k : Option Int) (w : World G C) (fs : Model.FS.FS) :
    World G C × Model.FS.FS × List (Model.FS.Path × World G C) :=
  let cur := setKey "logz" (env.z1 w.core.sm) w.core.sm.current
  let w1 : World G C := { w with core := { w.core with sm := { w.core.sm with current := cur }, logzErr := some Val.none } }
  match k with
  | some _ => (w1, saveTo env env.final w1 fs, [(env.final, w1)])
  | none => (w1, fs, [])

/-- `run_sampling` from a world whose prologue has run -/
def runFrom (env : Env G C B) (k : Option Int) (fuel : Nat) (w : World G C) (fs : Model.FS.FS) :
    Option (World G C × Model.FS.FS × List (Model.FS.Path × World G C)) :=
  (loop env k fuel w fs).map fun r =>
    let e := epilogue env k r.1 r.2.1
    (e.1, e.2.1, r.2.2 ++ e.2.2)

/-- the loop without the file system (what the worlds do does not depend on the checkpoint files) -/
def loopW (F : State → G → C → StepIn × G × C) (cont : State → Option Val → Bool) : Nat → World G C → Option (World G C)
  | 0, w => if cont w.core.sm w.core.nTotal then none else some w
  | n + 1, w => if cont w.core.sm w.core.nTotal then (iterate F w).bind (loopW F cont n) else some w

/-! ### invariants of the StateManager maps (the key ORDER of `_current` / `_history` never changes) -/

/-- the association lists hold exactly the StateManager's keys, in the order `StateManager.__init__` created them -/
def WellKeyed (s : State) : Prop :=
  s.current.map (·.1) = currentKeys ∧ s.history.map (·.1) = historyKeys

/-- the seven keys with a default in `load_sampler_state` hold a value that is not `None` (true of every state a run
    commits: Reweighter.run sets iter/beta/logz, Mutator.run sets calls/steps/acceptance/efficiency) -/
def DefaultsSet (s : State) : Prop :=
  ∀ kv ∈ defaults, ∃ v, lookup kv.1 s.current = some v ∧ v ≠ Val.none

/-- what an iteration may write: only StateManager keys (`update_current` raises otherwise), and the five non-counter
    default keys get values that are not `None` -/
def StepOK (i : StepIn) : Prop :=
  (∀ kv ∈ i.vals, kv.1 ∈ currentKeys) ∧
  ∀ k ∈ ["beta", "logz", "steps", "acceptance", "efficiency"],
    ∃ v, lookup k (i.vals.filter fun kv => !counterKeys.contains kv.1) = some v ∧ v ≠ Val.none

/-! ### which clusterer events a resume changes (bridge to `Model.Cadence`, C14) — see Props.C08Resume -/

end Model.Resume
