import TempestVerif.Sc
import TempestVerif.Model.Ess
import TempestVerif.Model.Student
/-
  Executable model of `tempest/tools.py: volume_variation(x, w=None)` (C20), statement by statement.

      x = np.asarray(x);  n_samples, n_dim = x.shape
      if n_samples < n_dim + 1: return 1e10
      if w is None: w = np.ones(n_samples)
      w = np.asarray(w);  w = w / np.sum(w)
      weighted_mean = np.sum(x * w[:, np.newaxis], axis=0)
      xc = x - weighted_mean
      cov = np.dot(xc.T, xc * w[:, np.newaxis])
      if np.linalg.matrix_rank(cov) < n_dim:
          reg = 1e-6 * np.trace(cov);  cov = cov + np.eye(n_dim) * reg
      try:    cov_inv = np.linalg.inv(cov)
      except np.linalg.LinAlgError: return 1e10
      d2 = np.sum(xc @ cov_inv * xc, axis=1)
      deviation = np.clip(d2 - n_dim, -1e6, 1e6)
      cv = 0.5 * np.sqrt(np.sum(w**2 * deviation**2))
      return cv

  SOURCE-DERIVED: `Props/C20Source.lean` proves (`C20_src_volvar_shape`, by `rfl`; `C20_src_volvar`) that `volvar` below is the
  function compiled from the current `tools.py` by translator G16 (`Gen/ToolsSrc.lean`): `wmean`, `centre`, `wcov`, `addRidge`,
  `maha2`, `radicand` are written exactly as the source writes them (operand order included).  Keep them that way.

  Data layout: `x` is the list of its `n_samples` rows, each a list of `n_dim` numbers; `n_dim` is passed explicitly
  (numpy reads it from `x.shape`, also for an empty array).  `cov` is the sum of the outer products
  `Σ_i xc_i ⊗ (xc_i·w_i)` (`dotT`; BLAS computes the same numbers in another order).
  `np.linalg.matrix_rank(cov) < n_dim` and `np.linalg.inv` raising are both modelled by the Gauss–Jordan inverse of
  `Model.Student` (no pivoting; it answers `none` as soon as a pivot is not `> 0`): `cov` is a weighted Gram matrix, hence
  positive semi-definite, and for such a matrix "some pivot is ≤ 0" is "singular" in exact arithmetic.  In floating point
  numpy's rank test has a tolerance (`S.max() * max(M,N) * eps`); the correspondence check compares the branch taken only where
  the matrix is exactly singular or safely regular.
-/
namespace Model.VolVar
open Model.Ess Model.Student
variable {α : Type} [Sc α]

inductive Branch where
  | tooFew      -- n_samples < n_dim + 1            -> 1e10
  | main        -- full-rank covariance
  | ridge       -- rank-deficient covariance, ridge-regularised matrix inverted
  | singular    -- the regularised matrix is singular too (`LinAlgError`)  -> 1e10
  deriving Repr, DecidableEq

/-- which branch was taken and the number under the square root, `Σ w_i² · deviation_i²` (`0` on the sentinel branches) -/
structure Out (α : Type) where
  branch : Branch
  radicand : α

/-- the sentinel `1e10` -/
def big : α := Sc.ofNat 10000000000

/-- `a ⊗ b` -/
def outer (a b : List α) : Mat α := a.map fun ai => b.map fun bj => Sc.mul ai bj

def madd (A B : Mat α) : Mat α := List.zipWith vadd A B

def mzero (d : Nat) : Mat α := List.replicate d (List.replicate d Sc.zero)

/-! ### numpy routines (hand-written models; `Gen/ToolsSrc.lean` — regenerated from `tools.py` — refers to these by name) -/

/-- `np.sum(M, axis=0)` of a matrix with `d` columns: the rows added up, left to right -/
def sumAxis0 (d : Nat) (M : Mat α) : List α := M.foldl vadd (List.replicate d Sc.zero)

/-- `np.dot(A.T, B)` for `A`, `B` with the same number of rows and `d` columns: `Σ_i A_i ⊗ B_i` -/
def dotT (d : Nat) (A B : Mat α) : Mat α := (List.zipWith outer A B).foldl madd (mzero d)

/-- `A @ B` where `B` has `d` columns: row `r` of `A` becomes `Σ_k r_k · B_k` -/
def matmul (d : Nat) (A B : Mat α) : Mat α := A.map fun r => lincomb d r B

/-- `np.eye(d)` -/
def eye (d : Nat) : Mat α := (List.range d).map fun k => identRow d k

/-- `np.trace` -/
def trace (M : Mat α) : α := Sc.sum (M.zipIdx.filterMap fun (r, i) => r[i]?)

/-- `np.clip(t, lo, hi) = minimum(maximum(t, lo), hi)` -/
def clip (t lo hi : α) : α := Sc.min (Sc.max t lo) hi

/-! ### the statements of `volume_variation`, each written exactly as the source writes it (operand order included):
    `Props/C20Source.lean` proves that the whole function, compiled from the source, is built from these terms -/

/-- `np.sum(x * w[:, np.newaxis], axis=0)` -/
def wmean (d : Nat) (x : Mat α) (w : List α) : List α :=
  sumAxis0 d (List.zipWith (fun r c => r.map fun t => Sc.mul t c) x w)

/-- `x - weighted_mean` -/
def centre (x : Mat α) (m : List α) : Mat α := x.map fun row => List.zipWith Sc.sub row m

/-- `np.dot(xc.T, xc * w[:, np.newaxis])` -/
def wcov (d : Nat) (xc : Mat α) (w : List α) : Mat α :=
  dotT d xc (List.zipWith (fun r c => r.map fun t => Sc.mul t c) xc w)

/-- `cov + np.eye(n_dim) * reg` -/
def addRidge (d : Nat) (M : Mat α) (reg : α) : Mat α :=
  madd M ((eye d).map fun r => r.map fun t => Sc.mul t reg)

/-- `np.sum(xc @ cov_inv * xc, axis=1)` -/
def maha2 (d : Nat) (xc : Mat α) (Sinv : Mat α) : List α :=
  (List.zipWith (fun r s => List.zipWith (fun t u => Sc.mul t u) r s) (matmul d xc Sinv) xc).map fun r => Sc.sum r

/-- `np.sum(w**2 * np.clip(d2 - n_dim, -1e6, 1e6)**2)` -/
def radicand (d : Nat) (w d2 : List α) : α :=
  let dev := (d2.map fun t => Sc.sub t (Sc.ofNat d)).map fun t => clip t (Sc.neg (Sc.ofNat 1000000)) (Sc.ofNat 1000000)
  Sc.sum (List.zipWith (fun t u => Sc.mul t u) (w.map fun t => Sc.mul t t) (dev.map fun t => Sc.mul t t))

/-- everything up to the square root -/
def out (d : Nat) (x : Mat α) (w0 : Option (List α)) : Out α :=
  if x.length < d + 1 then ⟨.tooFew, Sc.zero⟩ else
  let w := normalise (match w0 with
    | none => List.replicate x.length Sc.one
    | some w => w)
  let xc := centre x (wmean d x w)
  let cov := wcov d xc w
  match inv cov with
  | some Sinv => ⟨.main, radicand d w (maha2 d xc Sinv)⟩
  | none =>
    let reg := Sc.mul (Sc.lit 1 6) (trace cov)
    match inv (addRidge d cov reg) with
    | some Sinv => ⟨.ridge, radicand d w (maha2 d xc Sinv)⟩
    | none => ⟨.singular, Sc.zero⟩

/-- `volume_variation(x, w)` -/
def volvar {α : Type} [ScT α] (d : Nat) (x : Mat α) (w0 : Option (List α)) : α :=
  let o := out d x w0
  match o.branch with
  | .tooFew | .singular => big
  | .main | .ridge => Sc.mul (Sc.lit 5 1) (ScT.sqrt o.radicand)

end Model.VolVar
