import TempestVerif.Sc
import TempestVerif.Model.Ess
import TempestVerif.Model.Student
/-
  Executable model of `tempest/tools.py: volume_variation(x, w=None)` (C20), statement by statement.

      x = np.asarray(x);  n_samples, n_dim = x.shape
      if n_samples < n_dim + 1: return 1e10
      if w is None: w = np.ones(n_samples)
      w = np.asarray(w);  w = w / np.sum(w)
      weighted_mean = np.sum(x * w[:, np.newaxis], axis=0)
      xc = x - weighted_mean
      cov = np.dot(xc.T, xc * w[:, np.newaxis])
      if np.linalg.matrix_rank(cov) < n_dim:
          reg = 1e-6 * np.trace(cov);  cov = cov + np.eye(n_dim) * reg
      try:    cov_inv = np.linalg.inv(cov)
      except np.linalg.LinAlgError: return 1e10
      d2 = np.sum(xc @ cov_inv * xc, axis=1)
      deviation = np.clip(d2 - n_dim, -1e6, 1e6)
      cv = 0.5 * np.sqrt(np.sum(w**2 * deviation**2))
      return cv

  Data layout: `x` is the list of its `n_samples` rows, each a list of `n_dim` numbers; `n_dim` is passed explicitly
  (numpy reads it from `x.shape`, also for an empty array).  `cov` is the weighted sum of the outer products
  `Σ_i xc_i ⊗ (w_i·xc_i)` (BLAS computes the same numbers in another order).
  `np.linalg.matrix_rank(cov) < n_dim` and `np.linalg.inv` raising are both modelled by the Gauss–Jordan inverse of
  `Model.Student` (no pivoting; it answers `none` as soon as a pivot is not `> 0`): `cov` is a weighted Gram matrix, hence
  positive semi-definite, and for such a matrix "some pivot is ≤ 0" is "singular" in exact arithmetic.  In floating point
  numpy's rank test has a tolerance (`S.max() * max(M,N) * eps`); the correspondence check compares the branch taken only where
  the matrix is exactly singular or safely regular.
-/
namespace Model.VolVar
open Model.Ess Model.Student
variable {α : Type} [Sc α]

inductive Branch where
  | tooFew      -- n_samples < n_dim + 1            -> 1e10
  | main        -- full-rank covariance
  | ridge       -- rank-deficient covariance, ridge-regularised matrix inverted
  | singular    -- the regularised matrix is singular too (`LinAlgError`)  -> 1e10
  deriving Repr, DecidableEq

/-- which branch was taken and the number under the square root, `Σ w_i² · deviation_i²` (`0` on the sentinel branches) -/
structure Out (α : Type) where
  branch : Branch
  radicand : α

/-- the sentinel `1e10` -/
def big : α := Sc.ofNat 10000000000

/-- `a ⊗ b` -/
def outer (a b : List α) : Mat α := a.map fun ai => b.map fun bj => Sc.mul ai bj

def madd (A B : Mat α) : Mat α := List.zipWith vadd A B

def mzero (d : Nat) : Mat α := List.replicate d (List.replicate d Sc.zero)

/-- `np.sum(x * w[:, None], axis=0)` -/
def wmean (d : Nat) (x : Mat α) (w : List α) : List α := lincomb d w x

/-- `x - weighted_mean` -/
def centre (x : Mat α) (m : List α) : Mat α := x.map fun row => List.zipWith Sc.sub row m

/-- `np.dot(xc.T, xc * w[:, None])` -/
def wcov (d : Nat) (xc : Mat α) (w : List α) : Mat α :=
  (List.zipWith (fun r wi => outer r (r.map fun v => Sc.mul v wi)) xc w).foldl madd (mzero d)

/-- `np.trace` -/
def trace (M : Mat α) : α := Sc.sum (M.zipIdx.filterMap fun (r, i) => r[i]?)

/-- `cov + np.eye(d) * reg` -/
def addRidge (M : Mat α) (reg : α) : Mat α :=
  M.zipIdx.map fun (r, i) => r.zipIdx.map fun (v, j) => if i == j then Sc.add v reg else v

/-- `np.clip(t, lo, hi) = minimum(maximum(t, lo), hi)` -/
def clip (t lo hi : α) : α := Sc.min (Sc.max t lo) hi

/-- `np.sum(xc @ cov_inv * xc, axis=1)` -/
def maha2 (d : Nat) (xc : Mat α) (Sinv : Mat α) : List α :=
  xc.map fun r => dot (lincomb d r Sinv) r

/-- `np.sum(w**2 * np.clip(d2 - n_dim, -1e6, 1e6)**2)` -/
def radicand (d : Nat) (w d2 : List α) : α :=
  let lim : α := Sc.ofNat 1000000
  Sc.sum (List.zipWith (fun wi t =>
    let dev := clip (Sc.sub t (Sc.ofNat d)) (Sc.neg lim) lim
    Sc.mul (Sc.mul wi wi) (Sc.mul dev dev)) w d2)

/-- everything up to the square root -/
def out (d : Nat) (x : Mat α) (w0 : Option (List α)) : Out α :=
  if x.length < d + 1 then ⟨.tooFew, Sc.zero⟩ else
  let w := normalise (match w0 with
    | none => List.replicate x.length Sc.one
    | some w => w)
  let xc := centre x (wmean d x w)
  let cov := wcov d xc w
  match inv cov with
  | some Sinv => ⟨.main, radicand d w (maha2 d xc Sinv)⟩
  | none =>
    let reg := Sc.mul (Sc.lit 1 6) (trace cov)
    match inv (addRidge cov reg) with
    | some Sinv => ⟨.ridge, radicand d w (maha2 d xc Sinv)⟩
    | none => ⟨.singular, Sc.zero⟩

/-- `volume_variation(x, w)` -/
def volvar {α : Type} [ScT α] (d : Nat) (x : Mat α) (w0 : Option (List α)) : α :=
  let o := out d x w0
  match o.branch with
  | .tooFew | .singular => big
  | .main | .ridge => Sc.mul (Sc.lit 5 1) (ScT.sqrt o.radicand)

end Model.VolVar
