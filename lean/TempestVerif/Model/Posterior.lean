import TempestVerif.Model.Records
/-
  Model of `SamplerCore.compute_posterior` (C12): which arrays are gathered in the trimming and in the
  resampling branch comes from `Gen/Tables.lean` (regenerated from source) and is passed in as field lists.
  Trimming (`trim_weights`, C20) and systematic resampling (C06) are parameters: `trimFn w = (idx, w')`,
  `resFn w = idx`.
-/
namespace Model.Posterior
open Model.Records

structure Arrs (X L B W α : Type) where
  x : List X
  l : List L
  b : List B
  lw : List W          -- logw
  w : List α           -- weights
deriving Repr

variable {X L B W α : Type}

def gatherArrs (fields : List String) (idx : List Nat) (a : Arrs X L B W α) : Option (Arrs X L B W α) :=
  match (if fields.contains "x" then gather? a.x idx else some a.x),
        (if fields.contains "logl" then gather? a.l idx else some a.l),
        (if fields.contains "blobs" then gather? a.b idx else some a.b),
        (if fields.contains "logw" then gather? a.lw idx else some a.lw) with
  | some x, some l, some b, some lw => some { a with x := x, l := l, b := b, lw := lw }
  | _, _, _, _ => none

structure Opts where
  resample : Bool
  trim : Bool
  returnBlobs : Bool
  returnLogw : Bool

/-- the body of `compute_posterior` up to the return statement -/
def body (trimFields resFields : List String) (trimFn : List α → List Nat × List α) (resFn : List α → List Nat)
    (uniform : Nat → List α) (o : Opts) (a : Arrs X L B W α) : Option (Arrs X L B W α) :=
  let a1 : Option (Arrs X L B W α) :=
    if o.trim then
      let (idx, w') := trimFn a.w
      (gatherArrs trimFields idx a).map fun a' => { a' with w := w' }
    else some a
  a1.bind fun a1 =>
    if o.resample then
      let idx := resFn a1.w
      (gatherArrs resFields idx a1).map fun a' => { a' with w := uniform idx.length }
    else some a1

/-- which of the four return tuples is used (names as in the source) -/
def returnNames (haveBlobs : Bool) (o : Opts) : List String :=
  if o.returnBlobs && haveBlobs then
    (if o.returnLogw then ["x", "weights", "logl", "blobs", "logw"] else ["x", "weights", "logl", "blobs"])
  else
    (if o.returnLogw then ["x", "weights", "logl", "logw"] else ["x", "weights", "logl"])

end Model.Posterior
