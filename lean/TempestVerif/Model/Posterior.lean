import TempestVerif.Model.Records
import TempestVerif.Model.Ess
import TempestVerif.Model.Trim
import TempestVerif.Model.Resample
/-
  Model of `SamplerCore.compute_posterior` (C12): which arrays are gathered in the trimming and in the
  resampling branch comes from `Gen/Tables.lean` (regenerated from source) and is passed in as field lists.
  Trimming (`trim_weights`, C20) and systematic resampling (C06) are parameters: `trimFn w = (idx, w')`,
  `resFn w = idx`.
-/
namespace Model.Posterior
open Model.Records

structure Arrs (X L B W α : Type) where
  x : List X
  l : List L
  b : List B
  lw : List W          -- logw
  w : List α           -- weights
deriving Repr

variable {X L B W α : Type}

def gatherArrs (fields : List String) (idx : List Nat) (a : Arrs X L B W α) : Option (Arrs X L B W α) :=
  match (if fields.contains "x" then gather? a.x idx else some a.x),
        (if fields.contains "logl" then gather? a.l idx else some a.l),
        (if fields.contains "blobs" then gather? a.b idx else some a.b),
        (if fields.contains "logw" then gather? a.lw idx else some a.lw) with
  | some x, some l, some b, some lw => some { a with x := x, l := l, b := b, lw := lw }
  | _, _, _, _ => none

structure Opts where
  resample : Bool
  trim : Bool
  returnBlobs : Bool
  returnLogw : Bool

/-- the body of `compute_posterior` up to the return statement -/
def body (trimFields resFields : List String) (trimFn : List α → List Nat × List α) (resFn : List α → List Nat)
    (uniform : Nat → List α) (o : Opts) (a : Arrs X L B W α) : Option (Arrs X L B W α) :=
  let a1 : Option (Arrs X L B W α) :=
    if o.trim then
      let (idx, w') := trimFn a.w
      (gatherArrs trimFields idx a).map fun a' => { a' with w := w' }
    else some a
  a1.bind fun a1 =>
    if o.resample then
      let idx := resFn a1.w
      (gatherArrs resFields idx a1).map fun a' => { a' with w := uniform idx.length }
    else some a1

/-- which of the four return tuples is used (names as in the source) -/
def returnNames (haveBlobs : Bool) (o : Opts) : List String :=
  if o.returnBlobs && haveBlobs then
    (if o.returnLogw then ["x", "weights", "logl", "blobs", "logw"] else ["x", "weights", "logl", "blobs"])
  else
    (if o.returnLogw then ["x", "weights", "logl", "logw"] else ["x", "weights", "logl"])

/-! ### the whole `compute_posterior`, with the modelled `trim_weights` (C20) and `systematic_resample` (C06)

      logw, logz = self.state.compute_logw_and_logz(1.0)
      weights = np.exp(logw - np.max(logw)); weights /= np.sum(weights)
      if trim_importance_weights:
          idx, weights = trim_weights(np.arange(len(weights)), weights, ess=ess_trim, bins=bins_trim);  <gathers>
      if resample:
          idx = systematic_resample(len(weights), weights);  <gathers>;  weights = np.ones(len(idx)) / len(idx)

  `a.lw` is the vector returned by `compute_logw_and_logz(1.0)` (C04/C11), `u0` the value of `np.random.random()`. -/
section full
variable {α : Type} [ScT α]

/-- `np.exp(logw - np.max(logw))` of the non-empty vector `x :: xs` -/
def expShift (x : α) (xs : List α) : List α :=
  let m := Model.Ess.maxOf x xs
  (x :: xs).map fun l => ScT.exp (Sc.sub l m)

/-- the importance weights before trimming; `none` = the `ValueError` of `np.max` on an empty history -/
def weights0 : List α → Option (List α)
  | [] => none
  | x :: xs => some (Model.Ess.normalise (expShift x xs))

/-- `np.ones(n) / n` -/
def uniformW (n : Nat) : List α := List.replicate n (Sc.div Sc.one (Sc.ofNat n))

def posterior (trimFields resFields : List String) (essTrim : α) (bins : Nat) (u0 : α) (o : Opts)
    (a : Arrs X L B α α) : Option (Arrs X L B α α) :=
  (weights0 a.lw).bind fun w0 =>
  (if o.trim then Model.Trim.trim (List.range w0.length) w0 essTrim bins else some ([], [])).bind fun t =>
  let w1 := if o.trim then t.2 else w0
  (if o.resample then Model.Resample.systematic w1.length w1 u0 else some []).bind fun ridx =>
  body trimFields resFields (fun _ => t) (fun _ => ridx) uniformW o { a with w := w0 }

end full

end Model.Posterior
