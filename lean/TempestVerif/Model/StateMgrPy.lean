import TempestVerif.Model.StateMgr
import TempestVerif.Model.StateMgrN
/-
  Python primitives of `tempest/state_manager.py` on the heaps of the two StateManager reference models (C17; core Lean
  only).  Translator G22 (translate/g22_statemgr.py) compiles the BODY of every accessor / mutator of `StateManager` into a
  term over the definitions of this file (`Gen/StateMgrSrc.lean`, regenerated on every run); `Props/C17Source.lean` proves
  that `Model.StateMgr.step` / `Model.StateMgrN.step` compute exactly those terms.  One hand-written definition per Python
  construct that occurs in the file:

    heap operations      `bufCopy` (`value.copy()`), `deepCopy` (`copy.deepcopy(value)`), alias = the value itself,
                         `npArray` / `npConcat` (`np.array(list)` / `np.concatenate(list)`, with or without the
                         `copy.deepcopy(out) if out.dtype.hasobject else out` that follows), `logwCall`
    reads                `curOf` / `histOf` / `cacheOf` (`self._current` …), `withItem` (`d[k]`, KeyError), `pyGet?` (`l[i]`)
    writes               `storeCur` (a value the manager owns), `storeCurAlias` (the caller's own object: ghost `imported`),
                         `appendHist` (`self._history[k].append(v)`), `updateCur` / `updateHist` (`d.update(e)`),
                         `setCache` / `cachePut`
    comprehensions       `mapList` (`[f(x) for x in l]`), `mapAssoc` (`{k: f(v) for k, v in d.items()}`), threading the heap
    control              `K` = state × (`none` = fell through | `some r` = returned / raised), `seq`, `forEach`, `finish`,
                         `ret*` (what is handed out: recorded as escaped / allocated with owner `usr` when the receiver is
                         the caller, `Owner.usr`; nothing recorded when the receiver is the manager itself, `Owner.lib`)
    tests                `isNoneV`, `isNoneO`, `isInst`, `hasObject`, `inKeys`

  The same names exist in namespace `F` (flat model, Model/StateMgr.lean) and `N` (nested model, Model/StateMgrN.lean) so
  that ONE generated text is elaborated against both.
-/
namespace Model.StateMgrPy
open Model.StateMgr (Addr Content Key Val Err lookup insert adjust updateAll currentKeys historyKeys)
open Model.StateMgrN (Owner)

/-- the key sets the source names -/
def keySet : String → List Key
  | "CURRENT_STATE_KEYS" => currentKeys
  | "HISTORY_STATE_KEYS" => historyKeys
  | "REQUIRED_COMMIT_KEYS" => ["beta", "logl"]
  | _ => []

def inKeys (set : String) (k : Key) : Bool := (keySet set).contains k

def isNoneV : Val → Bool
  | .none => true
  | _ => false

/-- `d.get(k) is None` / a missing slot -/
def isNoneO : Option Val → Bool
  | some .none => true
  | none => true
  | _ => false

/-- Python `l[i]` (negative indices count from the end) -/
def pyGet? {α : Type} (l : List α) (i : Int) : Option α :=
  if i < 0 then (if l.length < i.natAbs then none else l[l.length - i.natAbs]?) else l[i.toNat]?

/-- `[f(x) for x in l]` where `f` may allocate -/
def mapList {H β : Type} (f : H → β → H × β) (h : H) : List β → H × List β
  | [] => (h, [])
  | v :: vs => ((mapList f (f h v).1 vs).1, (f h v).2 :: (mapList f (f h v).1 vs).2)

/-- `{k: f(v) for k, v in d.items()}` where `f` may allocate -/
def mapAssoc {H β : Type} (f : H → β → H × β) (h : H) : List (Key × β) → H × List (Key × β)
  | [] => (h, [])
  | (k, v) :: r => ((mapAssoc f (f h v).1 r).1, (k, (f h v).2) :: (mapAssoc f (f h v).1 r).2)

/-- `for x in xs: body` — stops at the first iteration that returns / raises -/
def forEach {σ ρ α : Type} (xs : List α) (s : σ) (body : σ → α → σ × Option ρ) : σ × Option ρ :=
  match xs with
  | [] => (s, none)
  | x :: r => match body s x with
    | (s1, none) => forEach r s1 body
    | q => q

/-- statement sequencing -/
def seq {σ ρ : Type} (a : σ × Option ρ) (k : σ → σ × Option ρ) : σ × Option ρ :=
  match a with
  | (s1, none) => k s1
  | q => q

/-- `d[k]` of a dictionary: KeyError when the slot is missing -/
def withItem {σ ρ α : Type} (o : Option α) (s : σ) (keyError : ρ) (k : α → σ × Option ρ) : σ × Option ρ :=
  match o with
  | none => (s, some keyError)
  | some v => k v

/-! ## flat model -/
namespace F
open Model.StateMgr
abbrev St := Model.StateMgr.State
abbrev R := Model.StateMgr.Res
abbrev H := Model.StateMgr.Heap
abbrev K := St × Option R

def heapOf (s : St) : H := s.heap
def setHeap (s : St) (h : H) : St := { s with heap := h }
def curOf (s : St) := s.current
def histOf (s : St) := s.history
def cacheOf (s : St) := s.cache
def setCache (s : St) (c : Option (List (Key × Val))) : St := { s with cache := c }
/-- `self._results_dict[k] = v` -/
def cachePut (s : St) (k : Key) (v : Val) : St := { s with cache := some (insert k v (entries s.cache)) }

/-- numeric ndarrays are the only references of the flat model -/
def isInst (_h : H) (v : Val) (tys : List String) : Bool := v.isRef && tys.contains "ndarray"
def hasObject (_h : H) (_v : Val) : Bool := false
/-- `value.copy()` -/
def bufCopy (_o : Owner) (h : H) : Val → H × Val
  | .ref a => (h ++ [rd h a], .ref h.length)
  | v => (h, v)
/-- `copy.deepcopy(value)` -/
def deepCopy (o : Owner) (h : H) (v : Val) : H × Val := bufCopy o h v

def keyErr : R := .err .keyError
def raise (s : St) (e : Err) : K := (s, some (.err e))
def escape (o : Owner) (s : St) (as : List Addr) : St :=
  match o with
  | .usr => { s with escaped := as ++ s.escaped }
  | .lib => s
def retVal (o : Owner) (s : St) (v : Val) : K := (escape o s v.addrs, some (.val v))
def retDict (o : Owner) (s : St) (d : List (Key × Val)) : K := (escape o s (dictAddrs d), some (.dict d))
def retExport (o : Owner) (s : St) (c : List (Key × Val)) (h : List (Key × List Val)) : K :=
  (escape o s (dictAddrs c ++ histAddrs h), some (.export c h))
/-- a parameter handed back (`return default`): the caller's own object -/
def retParam (s : St) (v : Val) : K := (s, some (.val v))
def finish (q : K) : St × R := (q.1, q.2.getD .unit)

/-- a value owned by the manager goes into `_current[k]` -/
def storeCur (s : St) (k : Key) (v : Val) : St := { s with current := insert k v s.current }
/-- the caller's object itself goes into `_current[k]` (ghost: recorded as imported) -/
def storeCurAlias (s : St) (k : Key) (v : Val) : St :=
  { s with current := insert k v s.current, imported := v.addrs ++ s.imported }
def appendHist (s : St) (k : Key) (v : Val) : St := { s with history := adjust k (fun l => l ++ [v]) s.history }
def updateCur (s : St) (d : List (Key × Val)) : St := { s with current := updateAll s.current d }
def updateHist (s : St) (d : List (Key × List Val)) : St := { s with history := updateAll s.history d }

/-- `np.array(l)` (then, when `deep`, `copy.deepcopy(out) if out.dtype.hasobject else out`): a new array -/
def npArray (_deep : Bool) (_o : Owner) (s : St) (l : List Val) (k : St → Val → K) : K :=
  k { s with heap := s.heap ++ [stack s.heap l] } (.ref s.heap.length)
/-- `np.concatenate(l)`: ValueError for an empty list or zero-dimensional entries -/
def npConcat (deep : Bool) (o : Owner) (s : St) (l : List Val) (k : St → Val → K) : K :=
  if l.isEmpty || !l.all Val.isRef then raise s .valueError else npArray deep o s l k
/-- `self.compute_logw_and_logz(…)[0]` (property C04): a new array, stand-in payload -/
def logwCall (_o : Owner) (s : St) (k : St → Val → K) : K :=
  k { s with heap := s.heap ++ [logwStub s.heap s.history] } (.ref s.heap.length)
/-- a public accessor called by the manager itself: exceptions propagate, the returned value is bound -/
def callVal (q : K) (k : St → Val → K) : K :=
  match q with
  | (s, some (.val v)) => k s v
  | (s, some (.err e)) => (s, some (.err e))
  | (s, _) => k s .none
/-! shapes the present source does not have (an internal object handed out / a caller's object stored as is): they exist so
    that a source that has them still elaborates and the theorem of the method concerned fails -/
def retInternalDict (s : St) (d : List (Key × Val)) : K := ({ s with escaped := dictAddrs d ++ s.escaped }, some (.dict d))
def appendHistAlias (s : St) (k : Key) (v : Val) : St :=
  { s with history := adjust k (fun l => l ++ [v]) s.history, imported := v.addrs ++ s.imported }
def appendHistShared (s : St) (k : Key) (v : Val) : St := appendHistAlias s k v
def updateCurAlias (s : St) (d : List (Key × Val)) : St :=
  { s with current := updateAll s.current d, imported := dictAddrs d ++ s.imported }
def updateHistAlias (s : St) (d : List (Key × List Val)) : St :=
  { s with history := updateAll s.history d, imported := histAddrs d ++ s.imported }
end F

/-! ## nested model -/
namespace N
open Model.StateMgrN
abbrev St := Model.StateMgrN.State
abbrev R := Model.StateMgrN.Res
abbrev H := Model.StateMgrN.Heap
abbrev K := St × Option R

def heapOf (s : St) : H := s.heap
def setHeap (s : St) (h : H) : St := { s with heap := h }
def curOf (s : St) := s.current
def histOf (s : St) := s.history
def cacheOf (s : St) := s.cache
def setCache (s : St) (c : Option (List (Key × Val))) : St := { s with cache := c }
def cachePut (s : St) (k : Key) (v : Val) : St := { s with cache := some (insert k v (Model.StateMgr.entries s.cache)) }

/-- a `data` cell is a plain ndarray; an `objs` cell is an object-dtype ndarray (lists / tuples / dicts are the same kind
    of cell: `C17_src_container_rule` shows the source gives them the rule of object arrays); an unreadable cell is copied
    to an unreadable cell whichever rule applies -/
def isInst (_h : H) (v : Val) (tys : List String) : Bool := Model.StateMgrN.Val.isRef v && tys.contains "ndarray"
def hasObject (h : H) (v : Val) : Bool := isObjs h v
/-- `value.copy()`: new buffer / new container with the SAME elements -/
def bufCopy (o : Owner) (h : H) : Val → H × Val
  | .ref a =>
    match bodyAt h a with
    | some (.data c) => alloc h (.data c) o
    | some (.objs es) => alloc h (.objs es) o
    | _ => alloc h .opaque o
  | v => (h, v)
/-- `copy.deepcopy(value)`: the elements are copied as well -/
def deepCopy (o : Owner) (h : H) : Val → H × Val
  | .ref a =>
    match bodyAt h a with
    | some (.data c) => alloc h (.data c) o
    | some (.objs es) => alloc (copyElems o h es).1 (.objs (copyElems o h es).2) o
    | _ => alloc h .opaque o
  | v => (h, v)

def keyErr : R := .err .keyError
def raise (s : St) (e : Err) : K := (s, some (.err e))
def retVal (_o : Owner) (s : St) (v : Val) : K := (s, some (.val v))
def retDict (_o : Owner) (s : St) (d : List (Key × Val)) : K := (s, some (.dict d))
def retExport (_o : Owner) (s : St) (c : List (Key × Val)) (h : List (Key × List Val)) : K := (s, some (.export c h))
def retParam (s : St) (v : Val) : K := (s, some (.val v))
def finish (q : K) : St × R := (q.1, q.2.getD .unit)

def storeCur (s : St) (k : Key) (v : Val) : St := { s with current := insert k v s.current }
def storeCurAlias (s : St) (k : Key) (v : Val) : St :=
  { s with current := insert k v s.current, imported := closure s.heap v ++ s.imported }
def appendHist (s : St) (k : Key) (v : Val) : St := { s with history := adjust k (fun l => l ++ [v]) s.history }
def updateCur (s : St) (d : List (Key × Val)) : St := { s with current := updateAll s.current d }
def updateHist (s : St) (d : List (Key × List Val)) : St := { s with history := updateAll s.history d }

def npArray (deep : Bool) (o : Owner) (s : St) (l : List Val) (k : St → Val → K) : K :=
  k { s with heap := (stackAlloc deep o s.heap l).1 } (stackAlloc deep o s.heap l).2
def npConcat (deep : Bool) (o : Owner) (s : St) (l : List Val) (k : St → Val → K) : K :=
  if l.isEmpty || !l.all Model.StateMgrN.Val.isRef then raise s .valueError else npArray deep o s l k
def logwCall (o : Owner) (s : St) (k : St → Val → K) : K :=
  k { s with heap := (alloc s.heap (logwStub s.heap s.history) o).1 } (alloc s.heap (logwStub s.heap s.history) o).2
def callVal (q : K) (k : St → Val → K) : K :=
  match q with
  | (s, some (.val v)) => k s v
  | (s, some (.err e)) => (s, some (.err e))
  | (s, _) => k s .none
def retInternalDict (s : St) (d : List (Key × Val)) : K := (s, some (.dict d))
def appendHistAlias (s : St) (k : Key) (v : Val) : St :=
  { s with history := adjust k (fun l => l ++ [v]) s.history, imported := closure s.heap v ++ s.imported }
def appendHistShared (s : St) (k : Key) (v : Val) : St := appendHistAlias s k v
def updateCurAlias (s : St) (d : List (Key × Val)) : St :=
  { s with current := updateAll s.current d, imported := d.flatMap (fun kv => closure s.heap kv.2) ++ s.imported }
def updateHistAlias (s : St) (d : List (Key × List Val)) : St :=
  { s with history := updateAll s.history d, imported := d.flatMap (fun kv => kv.2.flatMap (closure s.heap)) ++ s.imported }
end N

end Model.StateMgrPy
