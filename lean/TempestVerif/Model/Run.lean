import TempestVerif.Sc
/-
  Model of `SamplerCore.run_sampling` / `_not_termination` (C12; shared with C08, C10).
      while self._not_termination(): self.execute_iteration(...)
      _, logz = self.state.compute_logw_and_logz(1.0); self.state.set_current("logz", logz)
  `_not_termination`:  empty history → True;  else  `1.0 - beta >= tol  or  ess < n_total`
  where `ess` is the ESS of the weights at beta = 1 over the whole history.
-/
namespace Model.Run
variable {α : Type} [Sc α] {S : Type}

/-- the guard for a non-empty history -/
def notTerm (tol beta ess nTotal : α) : Bool :=
  Sc.le tol (Sc.sub Sc.one beta) || Sc.lt ess nTotal

/-- `while cont s: s = iter s` with explicit fuel; `none` = out of fuel (termination is NOT claimed) -/
def loop (cont : S → Bool) (iter : S → S) : Nat → S → Option S
  | 0, s => if cont s then none else some s
  | n + 1, s => if cont s then loop cont iter n (iter s) else some s

/-- the whole `run_sampling`: loop, then the evidence is recomputed at beta = 1 from the final history
    and written to the current state (nothing else happens in between) -/
def runSampling (cont : S → Bool) (iter : S → S) (z1 : S → α) (setLogz : S → α → S)
    (fuel : Nat) (s : S) : Option S :=
  (loop cont iter fuel s).map fun s' => setLogz s' (z1 s')

end Model.Run
