import TempestVerif.Sc
import TempestVerif.Model.Ess
/-
  Model of `SamplerCore.run_sampling` / `_not_termination` (C12; shared with C08, C10).
      while self._not_termination(): self.execute_iteration(...)
      _, logz = self.state.compute_logw_and_logz(1.0); self.state.set_current("logz", logz)
  `_not_termination`:  empty history → True;  else  `1.0 - beta >= tol  or  ess < n_total`
  where `ess` is the ESS of the weights at beta = 1 over the whole history.
-/
namespace Model.Run
variable {α : Type} [Sc α] {S : Type}

/-- the guard for a non-empty history -/
def notTerm (tol beta ess nTotal : α) : Bool :=
  Sc.le tol (Sc.sub Sc.one beta) || Sc.lt ess nTotal

/-- `while cont s: s = iter s` with explicit fuel; `none` = out of fuel (termination is NOT claimed) -/
def loop (cont : S → Bool) (iter : S → S) : Nat → S → Option S
  | 0, s => if cont s then none else some s
  | n + 1, s => if cont s then loop cont iter n (iter s) else some s

/-- the whole `run_sampling`: loop, then the evidence is recomputed at beta = 1 from the final history
    and written to the current state (nothing else happens in between) -/
def runSampling (cont : S → Bool) (iter : S → S) (z1 : S → α) (setLogz : S → α → S)
    (fuel : Nat) (s : S) : Option S :=
  (loop cont iter fuel s).map fun s' => setLogz s' (z1 s')

/-- the whole `_not_termination`, with the ESS computed as the code does from the log-weights at beta = 1:
      logw, _ = compute_logw_and_logz(1.0)
      if len(logw) == 0: return True
      weights = np.exp(logw - np.max(logw)); ess = effective_sample_size(weights)
      return 1.0 - beta >= tol or ess < n_total -/
def notTermination {α : Type} [ScT α] (tol beta : α) (logw : List α) (nTotal : α) : Bool :=
  match logw with
  | [] => true
  | x :: xs =>
    let m := Model.Ess.maxOf x xs
    notTerm tol beta (Model.Ess.ess ((x :: xs).map fun l => ScT.exp (Sc.sub l m))) nTotal

/-- a concrete state for `run_sampling`: the stored history (opaque), and the two current scalars the guard and the
    epilogue touch.  `set_current("logz", v)` writes `logz` and nothing else. -/
structure RunState (H α : Type) where
  hist : H
  beta : α
  logz : α

def RunState.setLogz {H α : Type} (s : RunState H α) (v : α) : RunState H α := { s with logz := v }

/-- `run_sampling` on `RunState`: `logw1 h` / `z1 h` are the two results of `compute_logw_and_logz(1.0)` on history `h` -/
def runConcrete {H α : Type} [ScT α] (tol nTotal : α) (logw1 : H → List α) (z1 : H → α)
    (iter : RunState H α → RunState H α) (fuel : Nat) (s : RunState H α) : Option (RunState H α) :=
  runSampling (fun s => notTermination tol s.beta (logw1 s.hist) nTotal) iter (fun s => z1 s.hist) RunState.setLogz fuel s

end Model.Run
