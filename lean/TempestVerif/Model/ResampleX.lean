import TempestVerif.Model.Resample
/-
  C06, second pass — more of the real code around the two resampling schemes.

  (1) numpy's validation of `p` in legacy `RandomState.choice` (numpy/random/mtrand.pyx), which is the
      "rounding tolerance the routine itself accepts" of the multinomial scheme:

          pop_size = a.shape[0]
          if pop_size == 0 and np.prod(size) != 0: raise ValueError("'a' cannot be empty unless no samples are taken")
          atol = np.sqrt(np.finfo(np.float64).eps)                       -- 2^-26 for a float64 `p`
          p_sum = kahan_sum(pix, d)
          if np.isnan(p_sum):               raise ValueError("probabilities contain NaN")
          if np.logical_or.reduce(p < 0):   raise ValueError("probabilities are not non-negative")
          if abs(p_sum - 1.) > atol:        raise ValueError("probabilities do not sum to 1")

          cdef double kahan_sum(double *darr, npy_intp n):
              sum = darr[0]; c = 0.0
              for i from 1 <= i < n:
                  y = darr[i] - c;  t = sum + y;  c = (t - sum) - y;  sum = t
              return sum

      (`kahan_sum` reads `darr[0]` of an EMPTY array when `size` is 0 as well: undefined, tag `undefined`.)

  (2) the call sites.  steps/reweight.py `_finalize_iteration`:  `weights = weights / np.sum(weights)`;
      core.py `execute_iteration`:
          weights = self.reweighter.run()
          mode_stats = self.trainer.run(weights)      -- beta != 0: `trim_weights` does `weights /= np.sum(weights)` IN PLACE
          self.resampler.run(weights)                 -- the same array object
      core.py `compute_posterior`:
          weights = np.exp(logw - np.max(logw)); weights /= np.sum(weights)
          [trim: idx, weights = trim_weights(...)  -- returns `weights[mask] / np.sum(weights[mask])`]
          if resample: idx = systematic_resample(len(weights), weights)
-/
namespace Model.ResampleX
open Model.Resample
variable {α : Type} [Sc α]

/-! ### numpy's `kahan_sum` and the validation of `p` -/

/-- the loop of `kahan_sum` on the remaining entries, state `(sum, c)` -/
def kahanLoop : List α → α → α → α
  | [], s, _ => s
  | x :: xs, s, c =>
    let y := Sc.sub x c
    let t := Sc.add s y
    kahanLoop xs t (Sc.sub (Sc.sub t s) y)

/-- `kahan_sum(p, len p)`; `none` = the undefined read of `darr[0]` on an empty array -/
def kahanSum : List α → Option α
  | [] => none
  | x :: xs => some (kahanLoop xs x Sc.zero)

inductive ChoiceCheck where
  | ok
  | emptyPop        -- "'a' cannot be empty unless no samples are taken"
  | undefined       -- empty `p` and size 0: numpy reads past the array
  | nan             -- "probabilities contain NaN"
  | negative        -- "probabilities are not non-negative"
  | notSumOne       -- "probabilities do not sum to 1"
  deriving DecidableEq, Repr

/-- the checks `choice(np.arange(len p), size, replace=True, p=p)` performs, in numpy's order.
    `np.isnan(s)` is `¬ (s ≤ s)` (true for no real or rational number). -/
def choiceCheck (size : Nat) (p : List α) : ChoiceCheck :=
  match kahanSum p with
  | none => if size ≠ 0 then .emptyPop else .undefined
  | some s =>
    if !(Sc.le s s) then .nan
    else if p.any (fun x => Sc.lt x Sc.zero) then .negative
    else if Sc.gt (Sc.abs (Sc.sub s Sc.one)) sqrtEps then .notSumOne
    else .ok

/-- `np.random.choice(np.arange(len w), size=len us, replace=True, p=w)`: the validation, then the inverse-cdf lookup -/
def choice (w : List α) (us : List α) : Except ChoiceCheck (List Nat) :=
  match choiceCheck us.length w with
  | .ok => match multinomial w us with
    | some idx => .ok idx
    | none => .error .emptyPop          -- not reachable: `ok` implies a non-empty `w`
  | e => .error e

/-- `Resampler.run` with numpy's validation inside (scheme "mult" raises ValueError exactly when `choiceCheck` fails) -/
def resamplerRunX (betaIsZero : Bool) (scheme : Scheme) (nParticles : Nat) (w : List α) (u0 : α) (us : List α) :
    RunResult :=
  if betaIsZero then .skipped else
  match scheme with
  | .mult => match choice w us with
    | .ok idx => .indices idx
    | .error _ => .valueError
  | .syst => match systematicNp nParticles w u0 with
    | some idx => .indices idx
    | none => .indexError
  | .other => .unbound

/-! ### the call sites -/

/-- `weights / np.sum(weights)` (reweight.py `_finalize_iteration`; `weights /= np.sum(weights)` in `trim_weights`
    and `compute_posterior`) with numpy's pairwise `np.sum` -/
def normaliseNp (w : List α) : List α :=
  let s := npSum w
  w.map fun x => Sc.div x s

/-- the array `execute_iteration` hands to `resampler.run`: `w` = the unnormalised weights `exp(logw − max)` of
    `_compute_metric_and_weights`; `_finalize_iteration` normalises them, `trainer.run` normalises the same array once more
    in place unless `beta == 0` -/
def weightsAtResampler (betaIsZero : Bool) (w : List α) : List α :=
  let w1 := normaliseNp w
  if betaIsZero then w1 else normaliseNp w1

/-- reweight → train → resample of one `execute_iteration`, seen from the index vector -/
def iterationResample (betaIsZero : Bool) (scheme : Scheme) (nParticles : Nat) (w : List α) (u0 : α) (us : List α) :
    RunResult :=
  resamplerRunX betaIsZero scheme nParticles (weightsAtResampler betaIsZero w) u0 us

/-- `compute_posterior(resample=True, trim_importance_weights=False)` from the unnormalised weights `exp(logw − max)` -/
def posteriorResampleNoTrim (w : List α) (u0 : α) : Option (List Nat) :=
  posteriorResample (normaliseNp w) u0

/-- `compute_posterior(resample=True, trim_importance_weights=True)`: `keep` = the mask of the stopping pass of
    `trim_weights` (C20's); `trim_weights` first normalises its argument once more in place, and the kept weights are
    divided by their sum before they are resampled -/
def posteriorResampleTrim (w : List α) (keep : List Bool) (u0 : α) : Option (List Nat) :=
  let w1 := normaliseNp (normaliseNp w)
  let kept := (w1.zip keep).filterMap fun q => if q.2 then some q.1 else none
  posteriorResample (normaliseNp kept) u0

/-- how the line protocol (and `Resampler.run`) name the scheme: `self.resample == "mult"` / `== "syst"`, anything else falls
    through both tests.  The driver decodes its `scheme=` argument with this function; `Props/C06Source.lean` proves it is the
    dispatch read from /repo's `steps/resample.py`. -/
def _root_.Model.Resample.Scheme.ofString (s : String) : Scheme :=
  if s == "mult" then .mult else if s == "syst" then .syst else .other

end Model.ResampleX
