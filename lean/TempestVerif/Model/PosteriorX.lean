import TempestVerif.Model.Posterior
/-
  `SamplerCore.compute_posterior` as of /repo 9130321, WITH the parts the first model (`Model.Posterior`) left to its caller
  (C12, second pass):

      logw, logz = self.state.compute_logw_and_logz(1.0)
      weights = np.exp(logw - np.max(logw)); weights /= np.sum(weights)          # ValueError on an empty history
      u, x, logl = get_history(.., flat=True)
      if self.config.blobs_dtype is not None or self.state.get_current("blobs") is not None:
          blobs = self.state.get_history("blobs", flat=True)                     # np.concatenate: ValueError when nothing was committed
      else:
          blobs = None
      if trim_importance_weights: idx, weights = trim_weights(arange(len(weights)), weights, ess_trim, bins_trim)
          u = u[idx]; x = x[idx]; logl = logl[idx]; logw = logw[idx]
          if blobs is not None: blobs = blobs[idx]
      if resample: idx = systematic_resample(len(weights), weights); <the same gathers>; weights = np.ones(len(idx)) / len(idx)
      if return_blobs and blobs is not None:  return (x, weights, logl, blobs, logw) if return_logw else (x, weights, logl, blobs)
      else:                                   return (x, weights, logl, logw)        if return_logw else (x, weights, logl)

  so: blobs are OPTIONAL (present when declared through `blobs_dtype` OR when the likelihood returned some — the "undeclared
  blobs" of the user guide), they are gathered only when present, and `return_blobs=True` silently yields the blob-less tuple
  when there are none.  Which arrays each branch gathers still comes from the regenerated tables (`fields`).  Core Lean only.
-/
namespace Model.PosteriorX
open Model.Posterior Model.Records

/-- the arrays of `compute_posterior` with `blobs` possibly `None` -/
structure ArrsO (X L B α : Type) where
  x : List X
  l : List L
  b : Option (List B)
  lw : List α
  w : List α
deriving Repr

variable {X L B α : Type}

/-- `if blobs is not None: blobs = blobs[idx]` (only when the table names `blobs` for this branch) -/
def gatherBlobs (fields : List String) (idx : List Nat) : Option (List B) → Option (Option (List B))
  | none => some none
  | some b => if fields.contains "blobs" then (gather? b idx).map some else some (some b)

def gatherArrsO (fields : List String) (idx : List Nat) (a : ArrsO X L B α) : Option (ArrsO X L B α) :=
  match (if fields.contains "x" then gather? a.x idx else some a.x),
        (if fields.contains "logl" then gather? a.l idx else some a.l),
        gatherBlobs fields idx a.b,
        (if fields.contains "logw" then gather? a.lw idx else some a.lw) with
  | some x, some l, some b, some lw => some { a with x := x, l := l, b := b, lw := lw }
  | _, _, _, _ => none

/-- what the StateManager holds when `compute_posterior` is called -/
structure Hist (X L B α : Type) where
  x : List X
  l : List L
  /-- `_history["blobs"]`: one array per committed iteration that HAD blobs (`commit_current_to_history` skips `None`) -/
  blobsHist : List (List B)
  /-- `compute_logw_and_logz(1.0)[0]` -/
  lw : List α
  /-- `config.blobs_dtype is not None` -/
  declared : Bool
  /-- `state.get_current("blobs") is not None` -/
  curBlobs : Bool

/-- the blob gate and `get_history("blobs", flat=True)`; outer `none` = the `ValueError` of `np.concatenate([])` -/
def blobsOf (h : Hist X L B α) : Option (Option (List B)) :=
  if h.declared || h.curBlobs then
    (match h.blobsHist with
     | [] => none
     | bs => some (some bs.flatten))
  else some none

/-- one returned array -/
inductive Col (X L B α : Type)
  | x (v : List X)
  | weights (v : List α)
  | logl (v : List L)
  | blobs (v : List B)
  | logw (v : List α)
deriving Repr

def Col.name : Col X L B α → String
  | .x _ => "x" | .weights _ => "weights" | .logl _ => "logl" | .blobs _ => "blobs" | .logw _ => "logw"

def Col.len : Col X L B α → Nat
  | .x v => v.length | .weights v => v.length | .logl v => v.length | .blobs v => v.length | .logw v => v.length

/-- the four `return` statements -/
def select (o : Opts) (a : ArrsO X L B α) : List (Col X L B α) :=
  match (if o.returnBlobs then a.b else none) with          -- `return_blobs and blobs is not None`
  | some b =>
    if o.returnLogw then [.x a.x, .weights a.w, .logl a.l, .blobs b, .logw a.lw] else [.x a.x, .weights a.w, .logl a.l, .blobs b]
  | none =>
    if o.returnLogw then [.x a.x, .weights a.w, .logl a.l, .logw a.lw] else [.x a.x, .weights a.w, .logl a.l]

/-- the body between the blob gate and the return statement, generic in the trimming / resampling routines (`none` = the
    routine raises); the correspondence suite runs THIS with the index vectors the real routines returned -/
def bodyOWith (trimFields resFields : List String) (trimFn : List α → Option (List Nat × List α))
    (resFn : List α → Option (List Nat)) (uniform : Nat → List α) (o : Opts) (a : ArrsO X L B α) :
    Option (ArrsO X L B α) :=
  (if o.trim then
      (trimFn a.w).bind fun t =>
        (gatherArrsO trimFields t.1 a).map fun a' => { a' with w := t.2 }
    else some a).bind fun a1 =>
  if o.resample then
    (resFn a1.w).bind fun idx =>
      (gatherArrsO resFields idx a1).map fun a' => { a' with w := uniform idx.length }
  else some a1

/-- everything after the weights were computed (`w0 = none`: `np.max` raised on an empty history) -/
def computePosteriorWith (trimFields resFields : List String) (trimFn : List α → Option (List Nat × List α))
    (resFn : List α → Option (List Nat)) (uniform : Nat → List α) (o : Opts) (h : Hist X L B α) (w0 : Option (List α)) :
    Option (List (Col X L B α)) :=
  w0.bind fun w0 =>
  (blobsOf h).bind fun bl =>
  (bodyOWith trimFields resFields trimFn resFn uniform o ⟨h.x, h.l, bl, h.lw, w0⟩).map (select o)

section full
variable {α : Type} [ScT α]

/-- the body with the modelled `trim_weights(np.arange(len(w)), w, ess_trim, bins_trim)` (C20) and
    `systematic_resample(len(w), w)` (C06) -/
def bodyO (trimFields resFields : List String) (essTrim : α) (bins : Nat) (u0 : α) (o : Opts) (a : ArrsO X L B α) :
    Option (ArrsO X L B α) :=
  bodyOWith trimFields resFields (fun w => Model.Trim.trim (List.range w.length) w essTrim bins)
    (fun w => Model.Resample.systematic w.length w u0) uniformW o a

/-- the whole `compute_posterior`; `none` = it raises -/
def computePosterior (trimFields resFields : List String) (essTrim : α) (bins : Nat) (u0 : α) (o : Opts)
    (h : Hist X L B α) : Option (List (Col X L B α)) :=
  computePosteriorWith trimFields resFields (fun w => Model.Trim.trim (List.range w.length) w essTrim bins)
    (fun w => Model.Resample.systematic w.length w u0) uniformW o h (weights0 h.lw)

end full

end Model.PosteriorX
