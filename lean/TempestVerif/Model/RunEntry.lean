import TempestVerif.Model.ClosedLoop
/-
  The WHOLE `SamplerCore.run_sampling` as of /repo aeb0399 (C12, second pass): the three-way entry, the assignment of
  `self.n_total`, the loop with the guard reading that attribute, the epilogue — on the closed-loop state of
  `Model.ClosedLoop` — plus `save_sampler_state` / `load_sampler_state` as far as they concern `n_total`, the history and
  the current values, and `compute_evidence`.

      if resume_state_path is not None:
          self._initialize_from_resume(resume_state_path)          # load_sampler_state; self.t0 = int(iter)
          iter_val = self.state.get_current("iter"); t0 = int(iter_val) if iter_val is not None else 0
          if iter_val is None: self.state.set_current("iter", t0)
      elif self.state.get_history_length() > 0:
          iter_val = self.state.get_current("iter"); t0 = int(iter_val) if iter_val is not None else 0
      else:
          t0 = 0; self._initialize_fresh()
      self.n_total = int(n_total); self.t0 = t0
      <progress bar>
      while self._not_termination(): self.execute_iteration(save_every=save_every, t0=t0)
      _, logz = self.state.compute_logw_and_logz(1.0); self.state.set_current("logz", logz); self.logz_err = None
      <final save, pbar.close()>

  `_not_termination` reads `getattr(self, "n_total", 0)`: the ATTRIBUTE, which `load_sampler_state` overwrites with the value
  stored in the file and `run_sampling` overwrites again, after the entry branch, with this call's argument.

  Not modelled: the progress bar, `logz_err`, the file system (C08), which loop-top states `save_every` writes (C14: here EVERY
  loop-top state may be written), `iter is None` inside a file (files of older versions; `load_sampler_state` fills the default 0,
  after which `iter` is never `None`).  Core Lean only.
-/
namespace Model.RunEntry
open Model.ClosedLoop

variable {α P MS TS G : Type}

/-- which arm of the `if / elif / else` at the head of `run_sampling` runs -/
inductive Entry
  | resume      -- `resume_state_path is not None`
  | continue_   -- `self.state.get_history_length() > 0`
  | fresh       -- else
  deriving DecidableEq, Repr

def Entry.name : Entry → String
  | .resume => "resume" | .continue_ => "continue" | .fresh => "fresh"

/-- the tests, in source order: the path is looked at first, the history only without a path -/
def entryBranch (resumePath : Bool) (histLen : Nat) : Entry :=
  if resumePath then .resume else if histLen > 0 then .continue_ else .fresh

/-- a `SamplerCore` as far as `run_sampling` / `compute_evidence` / `save` / `load` are concerned -/
structure Core (α P TS G : Type) where
  /-- the StateManager, the shared clusterer and numpy's global stream -/
  st : CState α P TS G
  /-- `false`: nothing has run and nothing was loaded — every value of `_current` is still `None` -/
  started : Bool
  /-- the attribute `n_total`; `none` = absent (or `None`, after loading a file written before any `run()`) -/
  nTotal : Option Nat
  t0 : Nat

/-- the pickled dictionary of `save_sampler_state`, as far as `load_sampler_state` reads it -/
structure CkFile (α P G : Type) where
  sm : Ckpt α P            -- `state.to_dict()`
  nTotal : Option Nat      -- `d["n_total"] = getattr(self, "n_total", None)`
  rng : Option G           -- `d["rng_state"]` (`none`: a file written before /repo db2b14b)

/-- `save_sampler_state` -/
def saveCore (c : Core α P TS G) : CkFile α P G := ⟨checkpoint c.st, c.nTotal, some c.st.g⟩

/-- the file `save_every` writes at the top of the loop when the StateManager / stream are in state `s` -/
def ckptAt (c : Core α P TS G) (s : CState α P TS G) : CkFile α P G := ⟨checkpoint s, c.nTotal, some s.g⟩

/-- `StateManager.update_from_dict`: current values and history are replaced; the clusterer of the RECEIVING sampler stays -/
def restore (k : Ckpt α P) (ts : TS) (g : G) : CState α P TS G :=
  ⟨k.hist, k.beta, k.logz, k.ess, k.iter, k.calls, k.cur, k.curL, k.assign, k.steps, k.acceptance, k.efficiency, ts, g⟩

/-- `load_sampler_state`: `update_from_dict`; `self.n_total = d["n_total"]`; the stream is set to the stored position -/
def loadCore (c : Core α P TS G) (f : CkFile α P G) : Core α P TS G :=
  { st := restore f.sm c.st.ts (match f.rng with | some g => g | none => c.st.g)
    started := true
    nTotal := f.nTotal
    t0 := c.t0 }

section scalar
variable [ScT α]

/-- `_initialize_fresh`: `iter = calls = 0`, `beta = logz = 0.0`; `reseed` is `np.random.seed(random_state)` (the identity
    when `random_state is None`).  Nothing else is touched — in particular NOT the history (the branch is only taken when
    it is empty). -/
def initFresh (reseed : G → G) (s : CState α P TS G) : CState α P TS G :=
  { s with iter := 0, calls := 0, beta := Sc.zero, logz := Sc.zero, g := reseed s.g }

/-- one call `run(n_total, resume_state_path)`; `nTotal` is `int(n_total)` -/
structure Call (α P G : Type) where
  nTotal : Nat
  resume : Option (CkFile α P G)

/-- `run_sampling` down to (and including) `self.n_total = int(n_total); self.t0 = t0` -/
def prologue (reseed : G → G) (c : Core α P TS G) (call : Call α P G) : Core α P TS G :=
  let c1 : Core α P TS G :=
    match call.resume with
    | some f =>
      let l := loadCore c f
      { l with t0 := l.st.iter }
    | none =>
      match entryBranch false c.st.hist.length with
      | .fresh => { c with st := initFresh reseed c.st, started := true, t0 := 0 }
      | _ => { c with t0 := c.st.iter }
  { c1 with nTotal := some call.nTotal }

/-- `getattr(self, "n_total", 0)` -/
def attrNTotal (c : Core α P TS G) : Nat := match c.nTotal with | some n => n | none => 0

/-- the configuration `_not_termination` works with: the tolerance literal and the ATTRIBUTE `n_total` -/
def guardCfg (cfg : CCfg α) (c : Core α P TS G) : CCfg α := { cfg with nTotal := Sc.ofNat (attrNTotal c) }

/-- the whole `run_sampling`: prologue, `while self._not_termination(): self.execute_iteration()` (`Model.ClosedLoop.runLoop`
    with the guard reading the attribute), epilogue `logz = compute_logw_and_logz(1.0)[1]` (`Model.ClosedLoop.finalLogz`).  Also
    returns the loop-top states (what `save_every` may write) and the iteration records. -/
def runFull (W : World α P MS TS G) (cfg : CCfg α) (reseed : G → G) (fuel : Nat) (c : Core α P TS G) (call : Call α P G) :
    Option (Core α P TS G × List (CState α P TS G) × List (CIterOut α P)) :=
  let c1 := prologue reseed c call
  (runLoop W (guardCfg cfg c1) fuel c1.st).bind fun q =>
    (finalLogz q.1).map fun z => ({ c1 with st := { q.1 with logz := z } }, q.2.1, q.2.2)

/-- `Sampler.load_state(path)` followed by `run(n_total)` WITHOUT a path ("manual resume") -/
def manualResume (W : World α P MS TS G) (cfg : CCfg α) (reseed : G → G) (fuel : Nat) (c : Core α P TS G)
    (f : CkFile α P G) (nT : Nat) :=
  runFull W cfg reseed fuel (loadCore c f) ⟨nT, none⟩

end scalar

/-- `compute_evidence()[0]`: `get_current("logz")`, which is `None` until something ran or was loaded -/
def evidence (c : Core α P TS G) : Option α := if c.started then some c.st.logz else none

/-- `Sampler.n_total`: `getattr(self._core, "n_total", None)` -/
def nTotalProp (c : Core α P TS G) : Option Nat := c.nTotal

/-- a sampler right after construction -/
def newCore [ScT α] (ts : TS) (g : G) : Core α P TS G := ⟨Model.ClosedLoop.init ts g, false, none, 0⟩

end Model.RunEntry
