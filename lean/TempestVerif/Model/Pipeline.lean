import TempestVerif.Model.Weights
import TempestVerif.Model.Ess
import TempestVerif.Model.Reweight
import TempestVerif.Model.Resample
import TempestVerif.Model.Records
import TempestVerif.Gen.Kernel
/-
  Model of one whole iteration of the sampler (`SamplerCore.execute_iteration`) as the COMPOSITION of
  the per-step models (C01, C02, C10):

      weights    = reweighter.run()          Model.Reweight.run over the oracles induced by the pool
                                             (Model.Weights.logw → exp(logw − max) → Model.Ess.ess)
      mode_stats = trainer.run(weights)      opaque: proposals / Hastings factors arrive on the tape
      resampler.run(weights)                 Model.Resample.{systematic, multinomial} + gather of whole records
      mutator.run(mode_stats)                beta = 0: prior draws, −inf replacement, logz := log(n_fin/n)
                                             beta > 0: accept/reject steps with the acceptance of Gen.Kernel
      state.commit_current_to_history()      append (beta, logz, logl, tags)

  Everything random or user-supplied is on the `Tape`: uniforms, proposal records (tag + log-likelihood,
  `none` = −inf), Hastings log-factors.  ESS mode only (the volume metric needs matrix algebra); clustering
  and the Student-t fit enter only through the tape.  A particle is a tag (its (u, x) record) plus its logl.
-/
namespace Model.Pipeline
open Model.Weights Model.Reweight Model.Resample Model.Ess Model.Records
variable {α : Type} [ScT α]

structure PBatch (α : Type) where
  b : Batch α            -- (beta_t, logz_t, logl of the batch) as compute_logw_and_logz sees it
  tags : List Nat        -- which (u, x) records these are

structure PState (α : Type) where
  hist : List (PBatch α)
  beta : α
  logz : α
  curTags : List Nat
  curL : List α

structure Step (α : Type) where
  propTags : List Nat
  propL : List (Option α)     -- log-likelihood of each proposal (`none` = −inf)
  factor : List α             -- Hastings log-factor of each proposal (0 for RWM)
  r : List α                  -- the uniforms of the Metropolis test

structure Tape (α : Type) where
  drawTags : List Nat         -- warm-up: fresh prior draws …
  drawL : List (Option α)     -- … and their log-likelihoods
  picks : List Nat            -- warm-up: positions chosen by np.random.choice(finite_idx, …)
  resU : List α               -- resampling uniforms: one offset (systematic) or n draws (multinomial)
  steps : List (Step α)       -- annealing: the accept/reject steps that were run

structure PCfg (α : Type) where
  rw : Reweight.Cfg α
  syst : Bool                 -- resample == "syst"

structure IterOut (α : Type) where
  beta : α
  ess : α
  logzRw : α                  -- evidence written by the reweighting step
  logz : α                    -- evidence committed with the batch
  idx : List Nat              -- resampled pool indices ([] during warm-up)
  masks : List (List Bool)    -- accept masks of the steps
  branch : Reweight.Branch

def batches (h : List (PBatch α)) : List (Batch α) := h.map (·.b)
def poolTags (h : List (PBatch α)) : List Nat := h.flatMap (·.tags)

/-- `x` is finite  (x − x == 0 fails for NaN and ±inf) -/
def isFin (x : α) : Bool := Reweight.eqv (Sc.sub x x) Sc.zero

/-- `_compute_metric_and_weights(beta)` in ESS mode: weights = exp(logw − max logw) for the NORMALISED logw -/
def oracleM (h : List (Batch α)) (beta : α) : List α × α × α :=
  let lw := (logw h beta true).1
  let w := match lw with
    | [] => []
    | x :: xs => let m := maxOf x xs; lw.map fun v => ScT.exp (Sc.sub v m)
  let e := ess w
  (w, e, e)

/-- `compute_logw_and_logz(beta)[1]`; only evaluated on a non-empty history, where it is `some` -/
def oracleZ (h : List (Batch α)) (beta : α) : α := ((logw h beta true).2).getD Sc.zero

/-- the weights `Reweighter.run` returns: `np.ones(n)/n` or `w / np.sum(w)` -/
def returnedWeights : WTag (List α) → List α
  | .uniform n => List.replicate n (Sc.div Sc.one (Sc.ofNat n))
  | .of w => normalise w

def countSome (l : List (Option α)) : Nat := l.countP Option.isSome

/-- warm-up mutation: −inf draws are overwritten by whole copies of the picked finite ones -/
def warmup (t : Tape α) (logzRw : α) : List Nat × List (Option α) × α :=
  let n := t.drawL.length
  let nfin := countSome t.drawL
  if nfin < n then
    let infIdx := (List.range n).filter fun i => !((t.drawL[i]?).join.isSome)
    let tags := if nfin > 0 then scatterFrom t.drawTags infIdx t.picks else t.drawTags
    let ls := if nfin > 0 then scatterFrom t.drawL infIdx t.picks else t.drawL
    (tags, ls, ScT.log (Sc.div (Sc.ofNat nfin) (Sc.ofNat n)))
  else (t.drawTags, t.drawL, logzRw)

/-- one accept/reject step on (tags, logl) -/
def mcmcStep (beta : α) : List Nat → List α → List Nat → List (Option α) → List α → List α →
    List Nat × List α × List Bool
  | tg :: tgs, l :: ls, pt :: pts, pl :: pls, f :: fs, r :: rs =>
    let acc := match pl with
      | none => false                                   -- exp(−inf) = 0: never accepted
      | some lp => Gen.Kernel.acceptDecision r (Gen.Kernel.acceptProb beta l lp f)
    let (a, b, c) := mcmcStep beta tgs ls pts pls fs rs
    ((if acc then pt else tg) :: a,
     (if acc then (match pl with | some lp => lp | none => l) else l) :: b, acc :: c)
  | tgs, ls, _, _, _, _ => (tgs, ls, [])

def mcmcSteps (beta : α) : List (Step α) → List Nat → List α → List Nat × List α × List (List Bool)
  | [], tg, l => (tg, l, [])
  | s :: ss, tg, l =>
    let (tg', l', m) := mcmcStep beta tg l s.propTags s.propL s.factor s.r
    let (tg'', l'', ms) := mcmcSteps beta ss tg' l'
    (tg'', l'', m :: ms)

def allSome : List (Option α) → Option (List α)
  | [] => some []
  | none :: _ => none
  | some x :: xs => (allSome xs).map (x :: ·)

/-- one iteration; `none` = an outcome outside the model (index error, a batch with no finite draw) -/
def iterate (c : PCfg α) (s : PState α) (t : Tape α) : Option (PState α × IterOut α) :=
  let hb := batches s.hist
  let r := Reweight.run c.rw hb.isEmpty (oracleM hb) (oracleZ hb) isFin s.beta
  let w := returnedWeights r.weightsTag
  if Reweight.eqv r.beta Sc.zero then
    -- warm-up: resampling is skipped, fresh prior draws
    let (tags, ls, lz) := warmup t r.logz
    (allSome ls).map fun l =>
      ({ hist := s.hist ++ [⟨⟨r.beta, lz, l⟩, tags⟩], beta := r.beta, logz := lz, curTags := tags, curL := l },
       ⟨r.beta, r.ess, r.logz, lz, [], [], r.branch⟩)
  else
    let idx? := if c.syst then
        (match t.resU with | [u0] => systematic c.rw.nPart w u0 | _ => none)
      else multinomial w t.resU
    idx?.bind fun idx =>
      (gather? (poolTags s.hist) idx).bind fun tg =>
        (gather? (flatLogl hb) idx).map fun l =>
          let (tg', l', ms) := mcmcSteps r.beta t.steps tg l
          ({ hist := s.hist ++ [⟨⟨r.beta, r.logz, l'⟩, tg'⟩], beta := r.beta, logz := r.logz, curTags := tg', curL := l' },
           ⟨r.beta, r.ess, r.logz, r.logz, idx, ms, r.branch⟩)

def init : PState α := ⟨[], Sc.zero, Sc.zero, [], []⟩

def runIters (c : PCfg α) : PState α → List (Tape α) → Option (PState α × List (IterOut α))
  | s, [] => some (s, [])
  | s, t :: ts => (iterate c s t).bind fun (s', o) => (runIters c s' ts).map fun (sf, os) => (sf, o :: os)

/-- `run_sampling`'s epilogue: evidence at beta = 1 over the final history -/
def finalEvidence (s : PState α) : Option α := (logw (batches s.hist) Sc.one true).2

/-! ### warm-up after the repair of F8 (commit 959029e) — ADDED; nothing above is changed

  `Mutator.run` at beta = 0 now draws the whole batch AGAIN while no draw has a finite likelihood:

      u = rand(n, d); x = …; logl = L(x);  n_drawn = n
      while np.all(np.isinf(logl)):   (cap 1000·n draws: ValueError)
          u = rand(n, d); x = …; logl = L(x);  n_drawn += n
      …
      if np.any(inf_mask) or n_drawn > n:
          if len(infinite_idx) > 0: idx = choice(finite_idx, size=len(infinite_idx)); copy whole records
          logz = np.log(n_finite / n_drawn)

  The tape keeps its shape: `drawTags / drawL` are the LAST block (the one that is stored); `disc = n_drawn − n` is the number of
  discarded draws.  With `disc = 0` this is `warmup` / `iterate` (`warmupR_zero`, `iterateW_warmup` in Props/C01X.lean). -/

/-- warm-up mutation when `disc` prior draws (whole batches without a finite likelihood) were discarded first -/
def warmupR (t : Tape α) (disc : Nat) (logzRw : α) : List Nat × List (Option α) × α :=
  let n := t.drawL.length
  let nfin := countSome t.drawL
  if nfin < n || 0 < disc then
    let infIdx := (List.range n).filter fun i => !((t.drawL[i]?).join.isSome)
    let tags := if nfin > 0 then scatterFrom t.drawTags infIdx t.picks else t.drawTags
    let ls := if nfin > 0 then scatterFrom t.drawL infIdx t.picks else t.drawL
    (tags, ls, ScT.log (Sc.div (Sc.ofNat nfin) (Sc.ofNat (n + disc))))
  else (t.drawTags, t.drawL, logzRw)

/-- `iterate` with the warm-up mutation as a parameter (`iterateW warmup = iterate` by definition) -/
def iterateW (wu : Tape α → α → List Nat × List (Option α) × α) (c : PCfg α) (s : PState α) (t : Tape α) :
    Option (PState α × IterOut α) :=
  let hb := batches s.hist
  let r := Reweight.run c.rw hb.isEmpty (oracleM hb) (oracleZ hb) isFin s.beta
  let w := returnedWeights r.weightsTag
  if Reweight.eqv r.beta Sc.zero then
    let (tags, ls, lz) := wu t r.logz
    (allSome ls).map fun l =>
      ({ hist := s.hist ++ [⟨⟨r.beta, lz, l⟩, tags⟩], beta := r.beta, logz := lz, curTags := tags, curL := l },
       ⟨r.beta, r.ess, r.logz, lz, [], [], r.branch⟩)
  else
    let idx? := if c.syst then
        (match t.resU with | [u0] => systematic c.rw.nPart w u0 | _ => none)
      else multinomial w t.resU
    idx?.bind fun idx =>
      (gather? (poolTags s.hist) idx).bind fun tg =>
        (gather? (flatLogl hb) idx).map fun l =>
          let (tg', l', ms) := mcmcSteps r.beta t.steps tg l
          ({ hist := s.hist ++ [⟨⟨r.beta, r.logz, l'⟩, tg'⟩], beta := r.beta, logz := r.logz, curTags := tg', curL := l' },
           ⟨r.beta, r.ess, r.logz, r.logz, idx, ms, r.branch⟩)

/-- one iteration of the sampler as it is now: `disc` discarded prior draws before the stored block -/
def iterateR (c : PCfg α) (s : PState α) (t : Tape α) (disc : Nat) : Option (PState α × IterOut α) :=
  iterateW (fun t z => warmupR t disc z) c s t

def runItersR (c : PCfg α) : PState α → List (Tape α × Nat) → Option (PState α × List (IterOut α))
  | s, [] => some (s, [])
  | s, (t, d) :: ts => (iterateR c s t d).bind fun (s', o) => (runItersR c s' ts).map fun (sf, os) => (sf, o :: os)

end Model.Pipeline
