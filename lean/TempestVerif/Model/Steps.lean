import TempestVerif.Sc
/-
  Model of the mutation loop's stopping rule (`BaseMCMCRunner._calculate_adaptive_steps`, `_check_convergence`,
  the `while True` of `run`) — used by C13 (how many batches one mutation evaluates).

      n_steps_min      = n_steps * n_dim
      n_steps_adaptive = n_steps * n_dim * (0.234 / max(0.01, acc)) * (sigma_0 / max(1e-6, weighted_sigma)) ** 2
      n_steps_final    = max(n_steps_min, n_steps_adaptive)
      return int(min(n_steps_final, n_max * n_dim))
      … break as soon as  iteration >= that
  `acc` (fraction accepted in the step) and `weighted_sigma` (np.average of the step sizes) are inputs.
-/
namespace Model.Steps
variable {α : Type} [Sc α]

/-- the value handed to `int(…)` -/
def adaptiveRaw (nSteps nMax d : Nat) (acc wsigma sigma0 : α) : α :=
  let nmin := Sc.ofNat (nSteps * d)
  let r := Sc.div sigma0 (Sc.max (Sc.lit 1 6) wsigma)
  let a := Sc.mul (Sc.mul nmin (Sc.div (Sc.lit 234 3) (Sc.max (Sc.lit 1 2) acc))) (Sc.mul r r)
  Sc.min (Sc.max nmin a) (Sc.ofNat (nMax * d))

/-- `int(x)` for x ≥ 0 -/
def adaptiveSteps (nSteps nMax d : Nat) (acc wsigma sigma0 : α) : α :=
  Sc.floor (adaptiveRaw nSteps nMax d acc wsigma sigma0)

/-- `self.iteration >= adaptive_steps` -/
def converged (nSteps nMax d : Nat) (iteration : Nat) (acc wsigma sigma0 : α) : Bool :=
  Sc.le (adaptiveSteps nSteps nMax d acc wsigma sigma0) (Sc.ofNat iteration)

/-- the loop: iteration k = 1, 2, … sees (acc_k, wsigma_k); returns the number of steps executed (`none`: fuel exhausted) -/
def loopSteps (nSteps nMax d : Nat) (sigma0 : α) (obs : Nat → α × α) : Nat → Nat → Option Nat
  | 0, _ => none
  | fuel + 1, k =>
    let (acc, ws) := obs (k + 1)
    if converged nSteps nMax d (k + 1) acc ws sigma0 then some (k + 1)
    else loopSteps nSteps nMax d sigma0 obs fuel (k + 1)

end Model.Steps
