import TempestVerif.Model.Student
/-
  The degrees-of-freedom update of `tempest/student.py: fit_mvstud` (C19): `opt_nu`, its score function `func0` and
  scipy's `optimize.bisect` — and the ECME loop driven by THIS `opt_nu` instead of a tape (`loopF`, `fitF`).

  Python (student.py):
      def opt_nu(delta_iobs, nu):                     -- the argument `nu` is never read (shadowed)
          def func0(nu):
              w_iobs = (nu + dim) / (nu + delta_iobs)
              f = (-special.psi(nu / 2) + np.log(nu / 2) + np.sum(np.log(w_iobs)) / n - np.sum(w_iobs) / n + 1
                   + special.psi((nu + dim) / 2) - np.log((nu + dim) / 2))
              return f
          nu_max = 1e6
          if func0(nu_max) >= 0: nu = np.inf
          else:                  nu = optimize.bisect(func0, 1e-300, nu_max)
          return nu

  scipy (optimize/_zeros_py.py: bisect; optimize/Zeros/bisect.c), defaults xtol = 2e-12, rtol = 4*eps, maxiter = 100:
      f = _wrap_nan_raise(f)                          -- ValueError as soon as an evaluation returns NaN
      fa = f(xa); fb = f(xb)
      if fa == 0: return xa
      if fb == 0: return xb
      if signbit(fa) == signbit(fb): SIGNERR          -- ValueError "f(a) and f(b) must have different signs"
      dm = xb - xa
      for i in range(iter):
          dm *= .5; xm = xa + dm; fm = f(xm)
          if signbit(fm) == signbit(fa): xa = xm      -- (as the installed scipy 1.18 behaves; `fm*fa >= 0` of older sources misfires when the product underflows: refuted by suite bisect-F)
          if fm == 0 or fabs(dm) < xtol + rtol*fabs(xm): return xm
      CONVERR                                         -- RuntimeError "Failed to converge" (disp=True): NOT caught by fit_mvstud

  `special.psi` is a parameter (`psi : α → α`); `np.log` is `ScT.log`; `np.sum` is the sequential sum (tolerance in the
  correspondence).  Core Lean only, total, computable.
-/
namespace Model.Student
variable {α : Type}

section Bisect
variable [Sc α]

/-- `x != x` -/
def isNaN (x : α) : Bool := !(Sc.le x x)

/-- `x == 0` (true for `-0.0` as well) -/
def isZero (x : α) : Bool := Sc.le x Sc.zero && Sc.le Sc.zero x

/-- C `signbit` of a value that is neither NaN nor a zero (the only place it is used) -/
def signbit (x : α) : Bool := Sc.lt x Sc.zero

inductive BisRes (α : Type) where
  | root (x : α)        -- CONVERGED
  | signErr             -- ValueError: f(a) and f(b) must have different signs
  | nanErr (x : α)      -- ValueError: the function value at x is NaN
  | convErr             -- RuntimeError: failed to converge after `iter` iterations

structure BisOut (α : Type) where
  res : BisRes α
  /-- the points at which `f` was evaluated, in order (observable: compared with the real run) -/
  evals : List α

/-- the `for` loop of `bisect.c`; `fuel = iter - i`, `ev` = evaluation points so far, latest first -/
def bisectLoop (f : α → α) (xtol rtol fa : α) : Nat → α → α → List α → BisOut α
  | 0, _, _, ev => ⟨.convErr, ev.reverse⟩
  | k+1, xa, dm, ev =>
    let dm' := Sc.mul dm (Sc.lit 5 1)
    let xm := Sc.add xa dm'
    let fm := f xm
    if isNaN fm then ⟨.nanErr xm, (xm :: ev).reverse⟩
    else
      let xa' := if signbit fm == signbit fa then xm else xa
      if isZero fm || Sc.lt (Sc.abs dm') (Sc.add xtol (Sc.mul rtol (Sc.abs xm))) then ⟨.root xm, (xm :: ev).reverse⟩
      else bisectLoop f xtol rtol fa k xa' dm' (xm :: ev)

/-- `scipy.optimize.bisect(f, xa, xb, xtol=xtol, rtol=rtol, maxiter=iter)` -/
def bisect (f : α → α) (xa xb xtol rtol : α) (iter : Nat) : BisOut α :=
  let fa := f xa
  if isNaN fa then ⟨.nanErr xa, [xa]⟩
  else
    let fb := f xb
    if isNaN fb then ⟨.nanErr xb, [xa, xb]⟩
    else if isZero fa then ⟨.root xa, [xa, xb]⟩
    else if isZero fb then ⟨.root xb, [xa, xb]⟩
    else if signbit fa == signbit fb then ⟨.signErr, [xa, xb]⟩
    else bisectLoop f xtol rtol fa iter xa (Sc.sub xb xa) [xb, xa]

/-- scipy's defaults `_xtol = 2e-12`, `_rtol = 4 * np.finfo(float).eps = 8.881784197001252e-16`, `_iter = 100` -/
def bisXtol : α := Sc.lit 2 12
def bisRtol : α := Sc.lit 8881784197001252 31
def bisIter : Nat := 100

/-- the bracket of `opt_nu`: `optimize.bisect(func0, 1e-300, nu_max)`, `nu_max = 1e6` -/
def nuLo : α := Sc.lit 1 300
def nuMax : α := Sc.lit 1000000 0

/-- what one call of `opt_nu` does -/
inductive NuOut (α : Type) where
  | val (x : α)     -- the root `bisect` returned
  | inf             -- `func0(nu_max) >= 0`
  | fail            -- `bisect` raised `ValueError` (no sign change / NaN): caught by the loop (`break`)
  | raise           -- `bisect` raised `RuntimeError` (no convergence): escapes `fit_mvstud`

/-- `opt_nu` with its score function given (`f = func0`); second component: the evaluation points of `f`, in order -/
def optNuWith (f : α → α) : NuOut α × List α :=
  if Sc.le Sc.zero (f nuMax) then (.inf, [nuMax])
  else
    let r := bisect f nuLo nuMax bisXtol bisRtol bisIter
    (match r.res with
     | .root x => .val x
     | .signErr => .fail
     | .nanErr _ => .fail
     | .convErr => .raise, nuMax :: r.evals)

end Bisect

section Func0
variable [ScT α]

/-- `func0(nu)` of `opt_nu` for the squared distances `dl` (`delta_iobs`), evaluated left to right as the Python does -/
def func0 (psi : α → α) (dim n : Nat) (dl : List α) (nu : α) : α :=
  let w := weights dim nu dl
  let nn : α := Sc.ofNat n
  let h := Sc.div nu Sc.two
  let hd := Sc.div (Sc.add nu (Sc.ofNat dim)) Sc.two
  let t1 := Sc.add (Sc.neg (psi h)) (ScT.log h)
  let t2 := Sc.add t1 (Sc.div (Sc.sum (w.map ScT.log)) nn)
  let t3 := Sc.sub t2 (Sc.div (Sc.sum w) nn)
  let t4 := Sc.add t3 Sc.one
  let t5 := Sc.add t4 (psi hd)
  Sc.sub t5 (ScT.log hd)

/-- `opt_nu(delta_iobs, nu)` -/
def optNu (psi : α → α) (dim n : Nat) (dl : List α) : NuOut α := (optNuWith (func0 psi dim n dl)).1

end Func0

section LoopF
variable [Sc α]

/-- the loop of `fit_mvstud` with `opt_nu` a function of the `delta`s (instead of the tape of `loop`);
    `none` = an exception escaped `fit_mvstud` (`RuntimeError` of a non-converged `bisect`) -/
def loopF (optNu : List α → NuOut α) (tol : α) (n : Nat) (X : Mat α) : Nat → State α → α → α → Option (Result α)
  | 0, st, nu, _ => some ⟨[st], .maxIter, some nu, true⟩
  | fuel+1, st, nu, lastNu =>
    if Sc.lt tol (Sc.abs (Sc.sub lastNu nu)) then
      match stateDeltas n X st with
      | none => some ⟨[st], .notPD, some nu, fuel == 0⟩
      | some dl =>
        match optNu dl with
        | .raise => none
        | .fail => some ⟨[st], .nuFail, some nu, fuel == 0⟩
        | .inf => some ⟨[st], .infNu, none, false⟩
        | .val nu' =>
          let st' := update n X (diffs X st.mu) (weights X.length nu' dl)
          match inv st'.sigma with
          | none => some ⟨[st], .sigmaNotPD, some nu, fuel == 0⟩
          | some _ =>
            (loopF optNu tol n X fuel st' nu' nu).map fun r => ⟨st :: r.iterates, r.stop, r.nu, r.warned⟩
    else some ⟨[st], .converged, some nu, false⟩

/-- `fit_mvstud(data, tol, max_iter)` with `opt_nu` given as a function (outer `none`: bad shape / `n < 2`; inner `none`: raised) -/
def fitWith (optNu : List α → NuOut α) (tol : α) (maxIter : Nat) (n : Nat) (X : Mat α) : Option (Option (Result α)) :=
  (init n X).map fun st => loopF optNu tol n X maxIter st (Sc.ofNat 20) Sc.zero

/-- the defaults of `fit_mvstud(data, tolerance=1e-6, max_iter=100)` — the way `modes.py` calls it -/
def defaultTol : α := Sc.lit 1 6
def defaultMaxIter : Nat := 100

end LoopF

/-- `fit_mvstud` complete: `opt_nu` is the model above, only `special.psi` is a parameter -/
def fitF [ScT α] (psi : α → α) (tol : α) (maxIter : Nat) (n : Nat) (X : Mat α) : Option (Option (Result α)) :=
  fitWith (optNu psi X.length n) tol maxIter n X

end Model.Student
