import TempestVerif.Sc
import TempestVerif.Model.Ess
import TempestVerif.Model.Trim
import TempestVerif.Model.Records
/-
  Call sites of the weight utilities (C20 clause audit): what the sampler passes to
  `trim_weights` / `effective_sample_size` / `volume_variation` and what it does with the answers.

  (1) steps/train.py `Trainer.run(weights)` (lines 82-125):
        beta_val = state.get_current("beta")
        if beta_val == 0.0: return <dummy ModeStatistics>            -- `weights` not touched
        trim_idx, weights_trimmed = trim_weights(np.arange(len(weights)), weights, ess=TRIM_ESS, bins=TRIM_BINS)
        u = state.get_history("u", flat=True)[trim_idx]             -- in each of the three branches
        <clusterer.fit(u, weights_trimmed) / from_particles(u, weights_trimmed, …) / from_global(u, weights_trimmed, …)>
      `trim_weights` divides `weights` by its sum IN PLACE, and core.py `execute_iteration` hands the same array object to
      `resampler.run(weights)` afterwards: the resampler sees `weights / sum(weights)` whenever beta != 0.

  (2) steps/reweight.py `_compute_metric_and_weights(beta)` (lines 93-105), core.py `_not_termination` (389-390):
        weights = np.exp(logw - np.max(logw));  ess_est = effective_sample_size(weights)
        [dynamic mode]  weights_norm = weights / np.sum(weights);  metric_val = volume_variation(u, weights_norm)

  (3) `compute_ess(logw)` with `-inf` entries (zero weights given as logs): an entry is `none` for `-inf`;
      IEEE: `-inf - m = -inf`, `exp(-inf) = 0`; if every entry is `-inf` the maximum is `-inf` and `-inf - -inf` is NaN.
-/
namespace Model.TrimSites
open Model.Ess Model.Trim Model.Records

/-- what `Trainer.run` hands to the fitting routines, and the caller's `weights` array after the call:
    `none` = raised; `some (none, w)` = the `beta == 0` early return (nothing trimmed, `weights` untouched);
    `some (some (u_kept, weights_trimmed), weights_after)` otherwise -/
def trainerRun {σ α : Type} [Sc α] (betaZero : Bool) (u : List σ) (w : List α) (e : α) (bins : Nat) :
    Option (Option (List σ × List α) × List α) :=
  if betaZero then some (none, w) else
  (trim (List.range w.length) w e bins).bind fun r =>
    (gather? u r.1).map fun uk => (some (uk, r.2), normalise w)

/-- the array `execute_iteration` passes on to `resampler.run` after `trainer.run(weights)` returned -/
def weightsAfterTrainer {σ α : Type} [Sc α] (betaZero : Bool) (u : List σ) (w : List α) (e : α) (bins : Nat) :
    Option (List α) :=
  (trainerRun betaZero u w e bins).map (·.2)

/-- `np.exp(logw - np.max(logw))` of the non-empty vector `x :: xs` -/
def expShift {α : Type} [ScT α] (x : α) (xs : List α) : List α :=
  let m := maxOf x xs
  (x :: xs).map fun l => ScT.exp (Sc.sub l m)

/-- `_compute_metric_and_weights`: `(weights, ess_est, metric_val)`; the volume metric is a parameter
    (`vv = none`: ESS mode); `none` = the `ValueError` of `np.max` on an empty history -/
def metricAndWeights {σ α : Type} [ScT α] (vv : Option (List σ → List α → α)) (u : List σ) (logw : List α) :
    Option (List α × α × α) :=
  match logw with
  | [] => none
  | x :: xs =>
    let w := expShift x xs
    let e := ess w
    some (w, e, match vv with
      | none => e
      | some f => f u (normalise w))

/-! ### log-weights with `-inf` entries -/

/-- maximum of the finite entries (`none`: all entries are `-inf`, or the array is empty) -/
def maxFinite {α : Type} [Sc α] : List (Option α) → Option α
  | [] => none
  | none :: r => maxFinite r
  | some a :: r => match maxFinite r with
    | none => some a
    | some m => some (Sc.max a m)

/-- `np.exp(l - m)` entry by entry, `-inf ↦ 0` -/
def expShiftE {α : Type} [ScT α] (m : α) (lw : List (Option α)) : List α :=
  lw.map fun
    | none => Sc.zero
    | some l => ScT.exp (Sc.sub l m)

/-- `compute_ess(logw)` for log-weights that may be `-inf`; `none`: empty array (raises) or all `-inf` (NaN) -/
def computeEssE {α : Type} [ScT α] (lw : List (Option α)) : Option α :=
  (maxFinite lw).map fun m =>
    let wts := normalise (expShiftE m lw)
    Sc.div (Sc.div Sc.one (sumSq wts)) (Sc.ofNat lw.length)

end Model.TrimSites
