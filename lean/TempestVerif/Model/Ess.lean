import TempestVerif.Sc
/-
  Model of `tempest/tools.py: effective_sample_size, compute_ess` (C20).

      def effective_sample_size(weights):
          weights = weights / np.sum(weights)
          return 1.0 / np.sum(weights**2.0)          -- numpy evaluates `x**2.0` as `x*x`

      def compute_ess(logw):
          logw_max = np.max(logw)                    -- raises on an empty array  -> `none`
          logw_normed = logw - logw_max
          weights = np.exp(logw_normed) / np.sum(np.exp(logw_normed))
          return 1.0 / np.sum(weights * weights) / len(weights)

  SOURCE-DERIVED: `Props/C20Source.lean` (`C20_src_ess`, `C20_src_compute_ess`) proves that `ess` / `computeEss` are the functions
  compiled from the current `tools.py` (translator G16, `Gen/ToolsSrc.lean`).

  `np.sum` is modelled as a left fold (numpy sums pairwise: identical over ℝ and over exact dyadics,
  different rounding over doubles — the correspondence uses a tolerance there).
-/
namespace Model.Ess
variable {α : Type} [Sc α]

/-- `w / np.sum(w)` -/
def normalise (w : List α) : List α :=
  let s := Sc.sum w
  w.map fun x => Sc.div x s

/-- `np.sum(w**2.0)` -/
def sumSq (w : List α) : α := Sc.sum (w.map fun x => Sc.mul x x)

/-- `effective_sample_size` -/
def ess (w : List α) : α := Sc.div Sc.one (sumSq (normalise w))

/-- `np.max` of a non-empty array -/
def maxOf (x : α) (xs : List α) : α := xs.foldl Sc.max x

/-- `compute_ess`; `none` = the `ValueError` of `np.max` on an empty array -/
def computeEss {α : Type} [ScT α] (logw : List α) : Option α :=
  match logw with
  | [] => none
  | x :: xs =>
    let m := maxOf x xs
    let e := (x :: xs).map fun l => ScT.exp (Sc.sub l m)
    let wts := normalise e
    some (Sc.div (Sc.div Sc.one (sumSq wts)) (Sc.ofNat (x :: xs).length))

/-- `np.max` (`none` = the `ValueError` on an empty array); referred to by the regenerated `Gen/ToolsSrc.lean` -/
def amax? : List α → Option α
  | [] => none
  | x :: xs => some (maxOf x xs)

end Model.Ess
