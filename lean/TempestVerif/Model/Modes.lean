import TempestVerif.Model.HGMM
/-
  Model of the label / proposal-mode bookkeeping between
    * `ModeStatistics.from_particles`   (tempest/modes.py)     — builds the modes,
    * `Resampler.run`                   (steps/resample.py)    — `assignments = clusterer.predict(u_resampled)` (RAW labels),
    * `ModeStatistics.mode_index`, `Mutator.run`              — raw label → index of the mode fitted from that label (since 88d298f),
    * `TPCNRunner/RWMRunner._propose`   (tempest/mcmc.py)      — `self.means[self.assignments[k]]` (lookup by the index it is handed),
    * `ModeStatistics.__init__`                                 — `inv` / `cholesky` of every covariance, raising on failure.

  Everything is on `List Nat`: a label vector is the list of `predict` labels of the (trimmed) training particles,
  a particle is its index in that vector.  Core Lean only, total, computable.
-/
namespace Model.Modes

/-- insertion into a strictly increasing list (no duplicates) -/
def insertU (a : Nat) : List Nat → List Nat
  | [] => [a]
  | b :: bs => if a < b then a :: b :: bs else if a = b then b :: bs else b :: insertU a bs

/-- `np.unique(labels)`: the distinct labels PRESENT, in increasing order -/
def uniqueSorted (labels : List Nat) : List Nat := labels.foldr insertU []

/-- `np.where(labels == label)[0]`: the training particles carrying `label`, in index order -/
def indicesOf (labels : List Nat) (label : Nat) : List Nat :=
  (List.range labels.length).filter fun i => labels[i]? == some label

/-- a proposal mode is identified with the training particles `fit_mvstud` was fed from -/
abbrev Mode := List Nat

/-- `ModeStatistics.from_particles`: `for label in np.unique(labels)`: one mode per distinct PRESENT label, in sorted order -/
def fromParticles (labels : List Nat) : List Mode :=
  (uniqueSorted labels).map (indicesOf labels)

/-- `ModeStatistics.K` -/
def numModes (labels : List Nat) : Nat := (fromParticles labels).length

/-- `ModeStatistics.labels` as stored by `from_particles` (`labels=unique_labels`): the label each mode was fitted from -/
def labelsOf (labels : List Nat) : List Nat := uniqueSorted labels

/-- the kernel's lookup `self.means[self.assignments[k]]`: by whatever INDEX it is handed; `none` = `IndexError`.
    (Before commit 88d298f the kernels were handed the RAW cluster labels.) -/
def modeOfRaw (modes : List Mode) (index : Nat) : Option Mode := modes[index]?

/-- `np.searchsorted(stored, a)` (side="left") on an increasing array: the first position whose entry is `≥ a` -/
def searchsorted : List Nat → Nat → Nat
  | [], _ => 0
  | b :: bs, a => if b < a then searchsorted bs a + 1 else 0

/-- `ModeStatistics.mode_index` for one particle, `self.labels = stored` (not None):
    `index = clip(searchsorted(stored, a), 0, K-1)`; if `stored[index] != a` (a label without a mode) the particle is reassigned to
    `nearest` = the `argmin` of its distances to the mode means (an index the caller supplies; `< K` by C15's argmin range). -/
def modeIndex (stored : List Nat) (nearest : Nat) (a : Nat) : Nat :=
  let i := min (searchsorted stored a) (stored.length - 1)
  if stored[i]? == some a then i else nearest

/-- `mode_index` including the `self.labels is None` path (`from_global`, dummy statistics): the assignment itself -/
def modeIndexOpt (stored : Option (List Nat)) (nearest : Nat) (a : Nat) : Nat :=
  match stored with
  | none => a
  | some st => modeIndex st nearest a

/-- `mode_index` for one particle with the nearest-mean fallback INSIDE the model: `drow` = the particle's row of
    `dist = ||u - means||` (one entry per mode; only computed/consulted for a label without a mode),
    `np.argmin(dist, axis=1)` = first minimum (`Model.HGMM.argmin`; `none` only on an empty row, i.e. `K = 0`) -/
def modeIndexD {α : Type} [Sc α] (stored : List Nat) (drow : List α) (a : Nat) : Option Nat :=
  let i := min (searchsorted stored a) (stored.length - 1)
  if stored[i]? == some a then some i else Model.HGMM.argmin drow

/-- `from_particles` / `from_global`: `if ~np.isfinite(dof): dof = dof_fallback`.
    `none` = `fit_mvstud` returned `inf` (the representation used by C19's model of the fit) -/
def applyDofFallback {D : Type} (nu : Option D) (fallback : D) : D :=
  match nu with
  | some v => v
  | none => fallback

/-- core.py wiring of the clusterer: `max_iterations = 1000 if n_max_clusters is None else n_max_clusters - 1`.
    (For `n_max_clusters = 0` Python gives `-1`, Nat gives `0`: either way `while iteration < max_iterations` never runs.) -/
def wiredMaxIterations : Option Nat → Nat
  | none => 1000
  | some n => n - 1

/-- second component of `mode_index`: `self.labels[index]`, written back to `state["assignments"]` by `Mutator.run` -/
def relabel (stored : List Nat) (nearest : Nat) (a : Nat) : Option Nat := stored[modeIndex stored nearest a]?

/-- the mode a particle with RAW cluster label `a` is mutated with, as the code is now:
    `Mutator.run` maps the label through `mode_index` and the kernel indexes the modes with the result -/
def modeOf (labels : List Nat) (nearest : Nat) (a : Nat) : Option Mode :=
  modeOfRaw (fromParticles labels) (modeIndex (labelsOf labels) nearest a)

/-- `u_cluster[idx_resample]` with `idx_resample = np.random.choice(n_cluster, …)`: the multiset of training particles
    actually handed to `fit_mvstud`, given the tape of LOCAL indices drawn (`none` if a draw is out of `range(n_cluster)`) -/
def fitInput (mode : Mode) : List Nat → Option (List Nat)
  | [] => some []
  | j :: js => match mode[j]?, fitInput mode js with
    | some i, some r => some (i :: r)
    | _, _ => none

/-- all modes together with what each fit was fed, one tape per mode in order (`none` on a tape/mode count mismatch) -/
def fitInputs : List Mode → List (List Nat) → Option (List (List Nat))
  | [], [] => some []
  | m :: ms, t :: ts => match fitInput m t, fitInputs ms ts with
    | some a, some r => some (a :: r)
    | _, _ => none
  | _, _ => none

/-! ### `ModeStatistics.__init__` -/

/-- `[f(x) for x in xs]` where `f` may raise -/
def mapOpt {α β : Type} (f : α → Option β) : List α → Option (List β)
  | [] => some []
  | x :: xs => match f x, mapOpt f xs with
    | some y, some r => some (y :: r)
    | _, _ => none

/-- the mode object handed to the kernels (`V` vectors, `M` matrices, `D` degrees of freedom) -/
structure ModeStats (V M D : Type) where
  means : List V
  covs : List M
  dofs : List D
  invs : List M
  chols : List M

def ModeStats.K {V M D : Type} (ms : ModeStats V M D) : Nat := ms.means.length

/-- `ModeStatistics.__init__`: shape validation (raises `ValueError`), then `np.linalg.inv` and `np.linalg.cholesky` of
    every covariance (each raises `LinAlgError`); `none` = the constructor raised, no object exists -/
def mkModeStats {V M D : Type} (inv? cholesky? : M → Option M) (means : List V) (covs : List M) (dofs : List D) :
    Option (ModeStats V M D) :=
  if covs.length = means.length ∧ dofs.length = means.length then
    match mapOpt inv? covs, mapOpt cholesky? covs with
    | some is, some ls => some { means := means, covs := covs, dofs := dofs, invs := is, chols := ls }
    | _, _ => none
  else none

end Model.Modes
