import TempestVerif.Sc
import TempestVerif.Model.Records
/-
  Model of the prior-sampling (beta = 0) phase (C11), in LINEAR space so that it runs exactly at `Rat`:
  `Z = exp(logz)`.

  One warm-up iteration (reweight → [train, resample skipped] → mutate → commit):
    reweight:  history empty  →  logz := 0                       (Z = 1)
               otherwise      →  logz := compute_logw_and_logz(0)[1]; with every stored beta_t = 0 this is
                                 -log Σ_t (n_t/N) exp(-z_t)       (Z = 1 / Σ_t (n_t/N)/Z_t)
    mutate:    draw n prior points; nfin of them have finite likelihood
               if some are -inf:  (nfin > 0: overwrite them with copies of finite ones)
                                  logz := log(nfin / n)            (SET, after the fix; Z = nfin/n)
    commit:    the batch (n, logz) is appended
-/
namespace Model.Warmup
variable {α : Type} [Sc α]

/-- total number of stored particles -/
def total (h : List (Nat × α)) : Nat := (h.map (·.1)).foldl (· + ·) 0

/-- `Σ_t (n_t/N) / Z_t` -/
def invMix (h : List (Nat × α)) : α :=
  let N := Sc.ofNat (total h)
  h.foldl (fun acc b => Sc.add acc (Sc.div (Sc.div (Sc.ofNat b.1) N) b.2)) Sc.zero

/-- evidence written by the reweighting step of a warm-up iteration -/
def reweightZ (h : List (Nat × α)) : α :=
  if h.isEmpty then Sc.one else Sc.div Sc.one (invMix h)

/-- evidence recorded for a batch of `n` draws of which `nfin` are finite -/
def batchZ (h : List (Nat × α)) (n nfin : Nat) : α :=
  if nfin < n then Sc.div (Sc.ofNat nfin) (Sc.ofNat n) else reweightZ h

/-- the behaviour BEFORE the fix (kept to document the repaired defect): the correction was added on top -/
def batchZOld (h : List (Nat × α)) (n nfin : Nat) : α :=
  if nfin < n then Sc.mul (reweightZ h) (Sc.div (Sc.ofNat nfin) (Sc.ofNat n)) else reweightZ h

/-- run `k` warm-up iterations; returns the committed (n_t, Z_t) -/
def run (bz : List (Nat × α) → Nat → Nat → α) : List (Nat × α) → List (Nat × Nat) → List (Nat × α)
  | h, [] => h
  | h, (n, nfin) :: rest => run bz (h ++ [(n, bz h n nfin)]) rest

end Model.Warmup

/-! ### after /repo 959029e (C11, added): a batch without a single finite draw is drawn again

  `Mutator.run` at beta = 0 now repeats `np.random.rand` → prior transform → likelihood until the batch has a finite
  draw (at most `1000·n` draws, then ValueError); the discarded draws count: `n_drawn` accumulates, and

      if np.any(inf_logl_mask) or n_drawn > n_particles:   logz := log(n_finite / n_drawn)

  A committed batch is therefore `(n, nfin, ndrawn)` with `nfin ≥ 1` and `ndrawn = K·n`, `K` = number of blocks drawn.
  `batchZ` above stays as the model of the rule BEFORE the fix (and of every iteration in which nothing is redrawn:
  `batchZR h n nfin n = batchZ h n nfin`). -/
namespace Model.Warmup
variable {α : Type} [Sc α]

/-- evidence recorded for a stored batch of `n` particles, `nfin` of them finite draws, after `ndrawn` draws in all -/
def batchZR (h : List (Nat × α)) (n nfin ndrawn : Nat) : α :=
  if nfin < n ∨ n < ndrawn then Sc.div (Sc.ofNat nfin) (Sc.ofNat ndrawn) else reweightZ h

/-- run warm-up iterations given `(n, nfin, ndrawn)` per iteration; returns the committed (n_t, Z_t) -/
def runR : List (Nat × α) → List (Nat × Nat × Nat) → List (Nat × α)
  | h, [] => h
  | h, (n, nfin, ndrawn) :: rest => runR (h ++ [(n, batchZR h n nfin ndrawn)]) rest

end Model.Warmup
