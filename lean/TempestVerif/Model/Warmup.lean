import TempestVerif.Sc
import TempestVerif.Model.Records
/-
  Model of the prior-sampling (beta = 0) phase (C11), in LINEAR space so that it runs exactly at `Rat`:
  `Z = exp(logz)`.

  One warm-up iteration (reweight → [train, resample skipped] → mutate → commit):
    reweight:  history empty  →  logz := 0                       (Z = 1)
               otherwise      →  logz := compute_logw_and_logz(0)[1]; with every stored beta_t = 0 this is
                                 -log Σ_t (n_t/N) exp(-z_t)       (Z = 1 / Σ_t (n_t/N)/Z_t)
    mutate:    draw n prior points; nfin of them have finite likelihood
               if some are -inf:  (nfin > 0: overwrite them with copies of finite ones)
                                  logz := log(nfin / n)            (SET, after the fix; Z = nfin/n)
    commit:    the batch (n, logz) is appended
-/
namespace Model.Warmup
variable {α : Type} [Sc α]

/-- total number of stored particles -/
def total (h : List (Nat × α)) : Nat := (h.map (·.1)).foldl (· + ·) 0

/-- `Σ_t (n_t/N) / Z_t` -/
def invMix (h : List (Nat × α)) : α :=
  let N := Sc.ofNat (total h)
  h.foldl (fun acc b => Sc.add acc (Sc.div (Sc.div (Sc.ofNat b.1) N) b.2)) Sc.zero

/-- evidence written by the reweighting step of a warm-up iteration -/
def reweightZ (h : List (Nat × α)) : α :=
  if h.isEmpty then Sc.one else Sc.div Sc.one (invMix h)

/-- evidence recorded for a batch of `n` draws of which `nfin` are finite -/
def batchZ (h : List (Nat × α)) (n nfin : Nat) : α :=
  if nfin < n then Sc.div (Sc.ofNat nfin) (Sc.ofNat n) else reweightZ h

/-- the behaviour BEFORE the fix (kept to document the repaired defect): the correction was added on top -/
def batchZOld (h : List (Nat × α)) (n nfin : Nat) : α :=
  if nfin < n then Sc.mul (reweightZ h) (Sc.div (Sc.ofNat nfin) (Sc.ofNat n)) else reweightZ h

/-- run `k` warm-up iterations; returns the committed (n_t, Z_t) -/
def run (bz : List (Nat × α) → Nat → Nat → α) : List (Nat × α) → List (Nat × Nat) → List (Nat × α)
  | h, [] => h
  | h, (n, nfin) :: rest => run bz (h ++ [(n, bz h n nfin)]) rest

end Model.Warmup
