import TempestVerif.Model.Records
/-
  Record movement at the level of the StateManager (C07, clause audit): the same movement primitives as
  `Model.Records` (`gather?`, `maskSet`, `scatterFrom`), but with the GLUE of the real code around them,
  statement by statement:

    * `_current[k]` is `None` or an array (`Option (List _)`), `_history[k]` is a LIST of arrays per key;
      `commit_current_to_history` appends key by key and skips `None` (state_manager.py:408-413),
      `get_history(k, flat=True)` is `np.concatenate` of that key's list (ValueError on an empty list);
    * every blob movement is gated: the property `have_blobs` of `Resampler` / `Mutator`
      (`self._have_blobs or self.state.get_current("blobs") is not None`, re-evaluated at every use:
      resample.py:82, 103; mutate.py:140, 146, 158-162, 209) and the same disjunction in `compute_posterior`
      (core.py:199-202), where `_have_blobs = config.blobs_dtype is not None`; `self.blobs is not None` in
      `BaseMCMCRunner` (mcmc.py:44, 84, 188) — whereas `_log_like` returns a blobs array whenever the user's
      likelihood returns tuples (`lkBlobs`).  Before /repo 9130321 the gate was `_have_blobs` alone
      (`Cfg.stateGate = false` reproduces that rule; it is kept only for the theorem that documents the defect);
    * one MCMC step (mcmc.py:148-189): proposals are `apply_boundary_conditions(raw)` (last line of both
      `_propose`), `in_bounds = check_bounds(u_prime)`, `u_prime[~in_bounds] = self.u[~in_bounds]`,
      `x_prime = T(u_prime)` row by row, `(logl_prime, blobs_prime) = log_likelihood(x_prime)`,
      `alpha[~in_bounds] = 0` (so such a walker is never accepted), joint masked update;
    * warm-up (mutate.py:101-151): fresh draws, `update_current` of all four (blobs possibly `None`), the
      −inf rows computed from `logl` itself, joint replacement, `set_current` of the moved arrays;
    * `execute_iteration` (core.py:168-179): resampler.run → mutator.run → commit → `return get_current()`;
    * `compute_posterior` (core.py:195-238) with its own gate and its `blobs is not None` tests.

  User functions `T`, `Lk` and the numpy pieces `fold` (= apply_boundary_conditions on one row), `chk`
  (= check_bounds on one row), `isInf` (= np.isinf) are parameters; everything random is on the tape.
  Exceptions of the Python (IndexError, ValueError of concatenate, TypeError on `None[...]`) are `none`.
  Core Lean only.
-/
namespace Model.RecSM
open Model.Records

structure Cur (U X L B : Type) where
  u : Option (List U)
  x : Option (List X)
  l : Option (List L)
  b : Option (List B)
deriving Repr, DecidableEq

structure Hist (U X L B : Type) where
  u : List (List U)
  x : List (List X)
  l : List (List L)
  b : List (List B)
deriving Repr, DecidableEq

structure St (U X L B : Type) where
  cur : Cur U X L B
  hist : Hist U X L B
deriving Repr, DecidableEq

/-- `StateManager.__init__`: every current slot `None`, every history list empty -/
def init {U X L B : Type} : St U X L B := ⟨⟨none, none, none, none⟩, ⟨[], [], [], []⟩⟩

structure Cfg where
  haveBlobs : Bool      -- `config.blobs_dtype is not None`  (`_have_blobs`)
  lkBlobs : Bool        -- the user's likelihood returns `(logl, blob, …)`: `_log_like` returns a blobs array
  stateGate : Bool := true   -- the code as it is: `have_blobs = _have_blobs or current blobs is not None`
deriving Repr, DecidableEq

/-- the property `have_blobs`, evaluated while the current blobs slot holds `b` -/
def Cfg.gate {B : Type} (cfg : Cfg) (b : Option (List B)) : Bool :=
  cfg.haveBlobs || (cfg.stateGate && b.isSome)

variable {U X L B W α : Type}

/-- what `SamplerCore._log_like` hands to the steps: `(logl, blobs)` with `blobs = None` when the
    likelihood returns bare numbers (the packing itself is `Model.LogLike`) -/
def logLike (cfg : Cfg) (Lk : X → L × B) (xs : List X) : List L × Option (List B) :=
  (xs.map fun x => (Lk x).1, if cfg.lkBlobs then some (xs.map fun x => (Lk x).2) else none)

/-! ### StateManager -/

def appendSome (h : List (List α)) : Option (List α) → List (List α)
  | some v => h ++ [v]
  | none => h

/-- `commit_current_to_history`: key by key, `None` values are skipped -/
def commit (s : St U X L B) : St U X L B :=
  { s with hist := ⟨appendSome s.hist.u s.cur.u, appendSome s.hist.x s.cur.x,
                    appendSome s.hist.l s.cur.l, appendSome s.hist.b s.cur.b⟩ }

/-- `get_history(key, flat=True)` = `np.concatenate(list)`; an empty list is a ValueError -/
def flat? : List (List α) → Option (List α)
  | [] => none
  | h => some h.flatten

/-! ### Resampler.run (beta > 0; at beta = 0 it writes `assignments` only) -/

def resample (cfg : Cfg) (idx : List Nat) (s : St U X L B) : Option (St U X L B) :=
  (flat? s.hist.u).bind fun u =>
  (flat? s.hist.x).bind fun x =>
  (flat? s.hist.l).bind fun l =>
  (if cfg.gate s.cur.b then (flat? s.hist.b).map some else some none).bind fun b? =>
  (gather? u idx).bind fun u' =>
  (gather? x idx).bind fun x' =>
  (gather? l idx).bind fun l' =>
  match b? with
  | none => some { s with cur := { s.cur with u := some u', x := some x', l := some l' } }
  | some b => (gather? b idx).map fun b' => { s with cur := ⟨some u', some x', some l', some b'⟩ }

/-! ### Mutator.run at beta = 0 -/

def infIdx (isInf : L → Bool) (l : List L) : List Nat :=
  (List.range l.length).filter fun i => match l[i]? with | some v => isInf v | none => false

def finIdx (isInf : L → Bool) (l : List L) : List Nat :=
  (List.range l.length).filter fun i => match l[i]? with | some v => !isInf v | none => false

/-- `picks` = the result of `np.random.choice(finite_idx, size=len(infinite_idx))` (any list: the theorems
    do not need it to lie in `finite_idx`) -/
def warmup (cfg : Cfg) (T : U → X) (Lk : X → L × B) (isInf : L → Bool) (us : List U) (picks : List Nat)
    (s : St U X L B) : Option (St U X L B) :=
  let x := us.map T
  let ll := logLike cfg Lk x
  let l := ll.1
  let s1 : St U X L B := { s with cur := ⟨some us, some x, some l, ll.2⟩ }
  let ii := infIdx isInf l
  let fi := finIdx isInf l
  if ii.isEmpty || fi.isEmpty then some s1 else
  let x' := scatterFrom x ii picks
  let u' := scatterFrom us ii picks
  let l' := scatterFrom l ii picks
  if cfg.gate ll.2 then                  -- evaluated after `update_current({…, "blobs": blobs, …})`
    match ll.2 with
    | none => none                       -- `blobs[infinite_idx] = …` on None: TypeError
    | some b => some { s with cur := ⟨some u', some x', some l', some (scatterFrom b ii picks)⟩ }
  else some { s with cur := ⟨some u', some x', some l', ll.2⟩ }

/-! ### BaseMCMCRunner -/

/-- the runner's private copies -/
structure Runner (U X L B : Type) where
  u : List U
  x : List X
  l : List L
  b : Option (List B)
deriving Repr, DecidableEq

/-- one pass of the `while True` body: raw proposals (before the boundary fold) and the outcome of
    `u_rand < alpha` per walker as it would be WITHOUT the `alpha[~in_bounds] = 0` line -/
structure Step (U : Type) where
  raw : List U
  acc : List Bool
deriving Repr, DecidableEq

/-- `u_prime[~in_bounds] = self.u[~in_bounds]` -/
def substitute : List U → List Bool → List U → List U
  | p :: ps, c :: cs, u :: us => (if c then p else u) :: substitute ps cs us
  | _, _, _ => []

def andMask : List Bool → List Bool → List Bool
  | a :: as, c :: cs => (a && c) :: andMask as cs
  | _, _ => []

def mcmcStep (cfg : Cfg) (T : U → X) (Lk : X → L × B) (fold : U → U) (chk : U → Bool)
    (r : Runner U X L B) (st : Step U) : Option (Runner U X L B) :=
  if st.raw.length ≠ r.u.length ∨ st.acc.length ≠ r.u.length then none else   -- one proposal, one uniform per walker
  let p := st.raw.map fold
  let inb := p.map chk
  let u' := substitute p inb r.u
  let x' := u'.map T
  let ll := logLike cfg Lk x'
  let mask := andMask st.acc inb
  match r.b with
  | none => some ⟨maskSet r.u u' mask, maskSet r.x x' mask, maskSet r.l ll.1 mask, none⟩
  | some b =>
    match ll.2 with
    | none => none                       -- `blobs_prime[mask_accept]` on None: TypeError
    | some b' => some ⟨maskSet r.u u' mask, maskSet r.x x' mask, maskSet r.l ll.1 mask, some (maskSet b b' mask)⟩

def mcmcSteps (cfg : Cfg) (T : U → X) (Lk : X → L × B) (fold : U → U) (chk : U → Bool) :
    Runner U X L B → List (Step U) → Option (Runner U X L B)
  | r, [] => some r
  | r, st :: sts => (mcmcStep cfg T Lk fold chk r st).bind fun r' => mcmcSteps cfg T Lk fold chk r' sts

/-! ### Mutator.run at beta > 0 -/

def mutate (cfg : Cfg) (T : U → X) (Lk : X → L × B) (fold : U → U) (chk : U → Bool) (steps : List (Step U))
    (s : St U X L B) : Option (St U X L B) :=
  match s.cur.u, s.cur.x, s.cur.l with
  | some u, some x, some l =>
    -- blobs = get_current("blobs") if have_blobs and it is not None else None
    let b0 := if cfg.gate s.cur.b then s.cur.b else none
    (mcmcSteps cfg T Lk fold chk ⟨u, x, l, b0⟩ steps).bind fun r =>
      if cfg.gate s.cur.b then           -- `update_current` of u, x, logl in between leaves the blobs slot alone
        match r.b with
        | none => none                   -- `blobs.copy()` on None: AttributeError
        | some b => some { s with cur := ⟨some r.u, some r.x, some r.l, some b⟩ }
      else some { s with cur := { s.cur with u := some r.u, x := some r.x, l := some r.l } }
  | _, _, _ => none                      -- `x.shape` of None

/-! ### execute_iteration -/

structure Tape (U : Type) where
  warm : Bool                 -- `state beta == 0.0` after the reweighting step
  draws : List U              -- warm-up: `np.random.rand(n_particles, n_dim)`, row by row
  picks : List Nat            -- warm-up: `np.random.choice(finite_idx, …)`
  idx : List Nat              -- annealing: `idx_resampled`
  steps : List (Step U)       -- annealing: the passes of the MCMC loop
deriving Repr, DecidableEq

/-- state after `resampler.run`, after `mutator.run`, after the commit (`none` = an exception) -/
def iterateStates (cfg : Cfg) (T : U → X) (Lk : X → L × B) (isInf : L → Bool) (fold : U → U) (chk : U → Bool)
    (s : St U X L B) (t : Tape U) : Option (St U X L B × St U X L B × St U X L B) :=
  if t.warm then
    (warmup cfg T Lk isInf t.draws t.picks s).map fun s2 => (s, s2, commit s2)
  else
    (resample cfg t.idx s).bind fun s1 =>
      (mutate cfg T Lk fold chk t.steps s1).map fun s2 => (s1, s2, commit s2)

/-- `Sampler.sample()`: the new state and the dictionary it returns (`get_current()`, record fields) -/
def iterate (cfg : Cfg) (T : U → X) (Lk : X → L × B) (isInf : L → Bool) (fold : U → U) (chk : U → Bool)
    (s : St U X L B) (t : Tape U) : Option (St U X L B × Cur U X L B) :=
  (iterateStates cfg T Lk isInf fold chk s t).map fun r => (r.2.2, r.2.2.cur)

/-- any number of iterations; the returned dictionaries are collected -/
def runIters (cfg : Cfg) (T : U → X) (Lk : X → L × B) (isInf : L → Bool) (fold : U → U) (chk : U → Bool) :
    St U X L B → List (Tape U) → Option (St U X L B × List (Cur U X L B))
  | s, [] => some (s, [])
  | s, t :: ts =>
    (iterate cfg T Lk isInf fold chk s t).bind fun r =>
      (runIters cfg T Lk isInf fold chk r.1 ts).map fun q => (q.1, r.2 :: q.2)

/-! ### compute_posterior (record fields and logw; the weights themselves are C12's) -/

structure Post (X L B W : Type) where
  x : List X
  l : List L
  b : Option (List B)        -- `None` unless `return_blobs and blobs is not None`
  lw : List W
deriving Repr, DecidableEq

structure Work (U X L B W : Type) where
  u : List U
  x : List X
  l : List L
  b : Option (List B)
  lw : List W

/-- `u = u[idx]; x = x[idx]; logl = logl[idx]; logw = logw[idx]; if blobs is not None: blobs = blobs[idx]` -/
def gatherWork (idx : List Nat) (w : Work U X L B W) : Option (Work U X L B W) :=
  (gather? w.u idx).bind fun u =>
  (gather? w.x idx).bind fun x =>
  (gather? w.l idx).bind fun l =>
  (gather? w.lw idx).bind fun lw =>
  match w.b with
  | none => some ⟨u, x, l, none, lw⟩
  | some b => (gather? b idx).map fun b' => ⟨u, x, l, some b', lw⟩

/-- `logw` = first result of `compute_logw_and_logz(1.0)`; `trimIdx` / `resIdx` = the index vectors returned by
    `trim_weights` / `systematic_resample` when the corresponding option is on -/
def poolWork (cfg : Cfg) (logw : List W) (s : St U X L B) : Option (Work U X L B W) :=
  (flat? s.hist.u).bind fun u =>
  (flat? s.hist.x).bind fun x =>
  (flat? s.hist.l).bind fun l =>
  (if cfg.gate s.cur.b then (flat? s.hist.b).map some else some none).map fun b? => ⟨u, x, l, b?, logw⟩

def optGather (idx? : Option (List Nat)) (w : Work U X L B W) : Option (Work U X L B W) :=
  match idx? with
  | some idx => gatherWork idx w
  | none => some w

def posteriorWork (cfg : Cfg) (logw : List W) (trimIdx resIdx : Option (List Nat))
    (s : St U X L B) : Option (Work U X L B W) :=
  (poolWork cfg logw s).bind fun w0 => (optGather trimIdx w0).bind fun w1 => optGather resIdx w1

def posterior (cfg : Cfg) (logw : List W) (trimIdx resIdx : Option (List Nat)) (returnBlobs : Bool)
    (s : St U X L B) : Option (Post X L B W) :=
  (posteriorWork cfg logw trimIdx resIdx s).map fun w =>
    ⟨w.x, w.l, if returnBlobs then w.b else none, w.lw⟩

/-! ### results(), checkpoints -/

/-- `results()` = `compute_results()`: per key the list of committed arrays (record keys only) -/
def results (s : St U X L B) : Hist U X L B := s.hist

/-- `to_dict()` (what `save_sampler_state` pickles): copies of every current value and every history item -/
def toDict (s : St U X L B) : Cur U X L B × Hist U X L B := (s.cur, s.hist)

/-- `update_from_dict` of a dictionary that carries every key (what `to_dict` produces): every slot replaced -/
def updateFromDict (_s : St U X L B) (d : Cur U X L B × Hist U X L B) : St U X L B := ⟨d.1, d.2⟩

end Model.RecSM
