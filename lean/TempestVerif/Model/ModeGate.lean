import TempestVerif.Model.StudentModes
/-
  `ModeStatistics.__init__` applied to what the constructor functions `from_particles` / `from_global` / the dummy branch of
  `Trainer.run` hand over (tempest/modes.py:58-107), with the two LAPACK calls made concrete (C14, second pass):

      self.means = np.asarray(means) …                      # (K, n_dim); a 1-d `means` is reshaped to (1, -1)
      K, n_dim = self.means.shape
      if self.covariances.shape != (K, n_dim, n_dim): raise ValueError        # K = 0: means (1, 0) vs covariances (0,) ⇒ raises
      if self.degrees_of_freedom.shape != (K,): raise ValueError
      self.inv_covariances = np.linalg.inv(self.covariances)                  # LinAlgError on a singular matrix
      self.chol_covariances = np.linalg.cholesky(self.covariances)            # LinAlgError unless positive definite

  The gate `pdGate` is the exact-arithmetic criterion for BOTH calls succeeding on a symmetric matrix: every pivot of the
  Gauss–Jordan elimination without pivoting (`Model.Student.inv`) is `> 0` — the same convention as C19's model of
  `solve` / `cholesky` inside `fit_mvstud` (H_lapack; proved equivalent to positive definiteness on positive semidefinite
  input in `Lemmas/GaussJordan.lean`, compared with the real constructor by C14's suites 5 and 7).
  Core Lean only, total, computable.
-/
namespace Model.ModeGate
open Model.Student Model.StudentModes Model.Modes
variable {α : Type} [Sc α]

/-- both `np.linalg.inv(S)` and `np.linalg.cholesky(S)` return -/
def pdGate (S : Mat α) : Bool := (inv S).isSome

/-- a `ModeStatistics` object: the arguments it was built from and the precomputed inverses -/
structure Obj (α : Type) where
  ms : MS α
  invs : List (Mat α)

def Obj.K (o : Obj α) : Nat := o.ms.means.length

/-- `ModeStatistics.__init__`; `none` = it raised (`ValueError` on the shapes — in particular `K = 0` — or `LinAlgError`) -/
def construct (ms : MS α) : Option (Obj α) :=
  if ms.means.length = 0 then none
  else if ms.covs.length = ms.means.length ∧ ms.dofs.length = ms.means.length then
    (mapOpt inv ms.covs).map fun is => ⟨ms, is⟩
  else none

/-- what `Trainer.run` returns to `execute_iteration` (`none` = an exception left it: the iteration stops before
    `Resampler.run` / `Mutator.run`, mutation does not run) -/
def trainerObject (b : Built α) : Option (Obj α) :=
  match b with
  | .ok ms => construct ms
  | _ => none

end Model.ModeGate
