import TempestVerif.Model.StateMgr
/-
  Reference-level model of `StateManager` with NESTED values (C17, clause audit; core Lean only).

  `Model/StateMgr.lean` knows three kinds of values: `None`, scalars, and numeric ndarrays (one heap cell each).  The
  real manager also stores containers that hold references to further arrays: object-dtype ndarrays (blobs that are
  arrays, dicts, ragged objects, tuples `(array, "tag")`), lists, dicts.  For those, "copy" is ambiguous — a copy of the
  container that keeps the element references still shares every nested array.  This file models exactly that:

    heap cell = `data payload` (numeric / structured ndarray: `.copy()` duplicates the buffer)
              | `objs elements` (object ndarray, list, dict values: the elements are `Val`s, i.e. references)
              | `opaque`        (something the model does not represent)

  and every copy made by the manager goes through `copyVal deep …`:
    `deep = true`   the code as it is since `fix: object-dtype blobs (and lists) were copied shallowly` (b0f244e):
                    `_ensure_copy` = `copy.deepcopy` for object arrays / list / tuple / dict, `.copy()` for plain arrays;
                    `get_history(key)` / `(key, flat=True)` = `np.array` / `np.concatenate` followed by `copy.deepcopy`
                    when the result has object dtype
    `deep = false`  the rule before that commit (`value.copy()` of an object array = new container, same elements;
                    `np.concatenate` of object arrays = new container, same elements) — kept to state the counter-example
                    `C17N_old_shallow_copy_aliases`
  Nesting depth in the model is 2 (a container of arrays): an element that refers to another container is copied as an
  `opaque` cell.  Deeper nesting (object array of dicts of arrays) is exercised on the real code only.

  Ownership is a ghost label on every cell: `lib` = allocated by the manager for its own storage, `usr` = created by
  the caller or handed out to it.  The caller can write only into `usr` cells.  (`Model/StateMgr.lean` keeps a list
  `escaped` instead; a label per cell makes "everything reachable from a returned container" a local notion.)

  Alphabet: set_current(copy), get_current(key | None), get_history(key, index | None, flat), get_last_history, commit(strict),
  compute_results (with the cache), to_dict, update_from_dict, and the caller's writes: `scribble` (overwrite the buffer
  of an array), `scribbleElems` (`o[...] = x`: overwrite every element of a container).
  `update_current` = the same store in a loop; `compute_logw_and_logz` touches only `beta/logz/logl` (plain arrays):
  both stay in the flat model.
-/
namespace Model.StateMgrN
open Model.StateMgr (Addr Content Key Val Err lookup insert adjust updateAll currentKeys historyKeys commitKeys entries isNone)

inductive Owner where
  | lib
  | usr
  deriving DecidableEq, Repr

inductive Body where
  | data (c : Content)
  | objs (es : List Val)
  | opaque
  deriving DecidableEq, Repr

structure Cell where
  body : Body
  owner : Owner
  deriving DecidableEq, Repr

abbrev Heap := List Cell

def bodyAt (h : Heap) (a : Addr) : Option Body := (h[a]?).map Cell.body
def ownerAt (h : Heap) (a : Addr) : Option Owner := (h[a]?).map Cell.owner

def alloc (h : Heap) (b : Body) (o : Owner) : Heap × Val := (h ++ [⟨b, o⟩], .ref h.length)

/-! ### copies -/

/-- copy of one element of a container (depth 2: a plain array is duplicated, a nested container is not followed) -/
def copyElem (o : Owner) (h : Heap) : Val → Heap × Val
  | .ref b =>
    match bodyAt h b with
    | some (.data c) => alloc h (.data c) o
    | _ => alloc h .opaque o
  | v => (h, v)

def copyElems (o : Owner) (h : Heap) : List Val → Heap × List Val
  | [] => (h, [])
  | v :: vs => ((copyElems o (copyElem o h v).1 vs).1, (copyElem o h v).2 :: (copyElems o (copyElem o h v).1 vs).2)

/-- `_ensure_copy(value)`; the new cells get owner `o` -/
def copyVal (deep : Bool) (o : Owner) (h : Heap) : Val → Heap × Val
  | .ref a =>
    match bodyAt h a with
    | some (.data c) => alloc h (.data c) o
    | some (.objs es) =>
      if deep then alloc (copyElems o h es).1 (.objs (copyElems o h es).2) o
      else alloc h (.objs es) o
    | _ => alloc h .opaque o
  | v => (h, v)

def copyList (deep : Bool) (o : Owner) (h : Heap) : List Val → Heap × List Val
  | [] => (h, [])
  | v :: vs =>
    ((copyList deep o (copyVal deep o h v).1 vs).1, (copyVal deep o h v).2 :: (copyList deep o (copyVal deep o h v).1 vs).2)

def copyDict (deep : Bool) (o : Owner) (h : Heap) : List (Key × Val) → Heap × List (Key × Val)
  | [] => (h, [])
  | (k, v) :: r =>
    ((copyDict deep o (copyVal deep o h v).1 r).1, (k, (copyVal deep o h v).2) :: (copyDict deep o (copyVal deep o h v).1 r).2)

def copyHist (deep : Bool) (o : Owner) (h : Heap) : List (Key × List Val) → Heap × List (Key × List Val)
  | [] => (h, [])
  | (k, l) :: r =>
    ((copyHist deep o (copyList deep o h l).1 r).1, (k, (copyList deep o h l).2) :: (copyHist deep o (copyList deep o h l).1 r).2)

/-! ### `np.array(list)` / `np.concatenate(list)` -/

def Val.isRef : Val → Bool
  | .ref _ => true
  | _ => false

/-- payload contributed by one entry when every entry is a scalar or a plain array -/
def cellOf (h : Heap) : Val → Option Content
  | .none => none
  | .scalar x => some [x]
  | .ref a => match bodyAt h a with
    | some (.data c) => some c
    | _ => none

def stackData (h : Heap) : List Val → Option Content
  | [] => some []
  | v :: vs =>
    match cellOf h v, stackData h vs with
    | some c, some cs => some (c ++ cs)
    | _, _ => none

/-- elements contributed by one entry when every entry is a container -/
def elemsOf (h : Heap) : Val → Option (List Val)
  | .ref a => match bodyAt h a with
    | some (.objs es) => some es
    | _ => none
  | _ => none

def stackObjs (h : Heap) : List Val → Option (List Val)
  | [] => some []
  | v :: vs =>
    match elemsOf h v, stackObjs h vs with
    | some e, some es => some (e ++ es)
    | _, _ => none

def isObjs (h : Heap) : Val → Bool
  | .ref a => match bodyAt h a with
    | some (.objs _) => true
    | _ => false
  | _ => false

/-- the array `get_history(key)` / `get_history(key, flat=True)` builds; object dtype ⇒ `copy.deepcopy(out)` (deep) -/
def stackAlloc (deep : Bool) (o : Owner) (h : Heap) (l : List Val) : Heap × Val :=
  if !l.isEmpty && l.all (isObjs h) then
    match stackObjs h l with
    | some es =>
      if deep then alloc (copyElems o h es).1 (.objs (copyElems o h es).2) o
      else alloc h (.objs es) o
    | none => alloc h .opaque o
  else
    match stackData h l with
    | some c => alloc h (.data c) o
    | none => alloc h .opaque o

/-! ### caller-side arguments -/

/-- an element the caller puts into a container it builds -/
inductive Arg1 where
  | none
  | scalar (x : Int)
  | fresh (p : Content)
  | held (a : Addr)
  deriving DecidableEq, Repr

inductive Arg where
  | none
  | scalar (x : Int)
  | fresh (p : Content)
  | held (a : Addr)
  | freshObjs (es : List Arg1)      -- a new object array / list whose elements are `es`
  deriving DecidableEq, Repr

def isUsr (h : Heap) (a : Addr) : Bool := ownerAt h a == some Owner.usr

def isData (h : Heap) (a : Addr) : Bool :=
  match bodyAt h a with
  | some (.data _) => true
  | _ => false

/-- a caller cannot forge references; an element it passes must be a plain array (nesting depth 2) -/
def Arg1.legal (h : Heap) : Arg1 → Bool
  | .held a => isUsr h a && isData h a
  | _ => true

def Arg.legal (h : Heap) : Arg → Bool
  | .held a => isUsr h a
  | .freshObjs es => es.all (Arg1.legal h)
  | _ => true

def resolve1 (h : Heap) : Arg1 → Heap × Val
  | .none => (h, .none)
  | .scalar x => (h, .scalar x)
  | .fresh p => alloc h (.data p) .usr
  | .held a => (h, .ref a)

def resolveElems (h : Heap) : List Arg1 → Heap × List Val
  | [] => (h, [])
  | x :: xs => ((resolveElems (resolve1 h x).1 xs).1, (resolve1 h x).2 :: (resolveElems (resolve1 h x).1 xs).2)

def resolveArg (h : Heap) : Arg → Heap × Val
  | .none => (h, .none)
  | .scalar x => (h, .scalar x)
  | .fresh p => alloc h (.data p) .usr
  | .held a => (h, .ref a)
  | .freshObjs es => alloc (resolveElems h es).1 (.objs (resolveElems h es).2) .usr

def resolveList (h : Heap) : List Arg → Heap × List Val
  | [] => (h, [])
  | x :: xs => ((resolveList (resolveArg h x).1 xs).1, (resolveArg h x).2 :: (resolveList (resolveArg h x).1 xs).2)

def resolveDict (h : Heap) : List (Key × Arg) → Heap × List (Key × Val)
  | [] => (h, [])
  | (k, x) :: xs => ((resolveDict (resolveArg h x).1 xs).1, (k, (resolveArg h x).2) :: (resolveDict (resolveArg h x).1 xs).2)

def resolveHist (h : Heap) : List (Key × List Arg) → Heap × List (Key × List Val)
  | [] => (h, [])
  | (k, l) :: xs => ((resolveHist (resolveList h l).1 xs).1, (k, (resolveList h l).2) :: (resolveHist (resolveList h l).1 xs).2)

def dictLegal (h : Heap) (d : List (Key × Arg)) : Bool := d.all fun kv => kv.2.legal h
def histLegal (h : Heap) (d : List (Key × List Arg)) : Bool := d.all fun kv => kv.2.all fun x => x.legal h

/-! ### state and operations -/

structure State where
  current : List (Key × Val)
  history : List (Key × List Val)
  cache : Option (List (Key × Val))
  heap : Heap
  imported : List Addr     -- ghost: caller-owned cells stored by reference into `_current` (`copy=False`), with their elements

def init : State :=
  { current := currentKeys.map fun k => (k, Val.none)
    history := historyKeys.map fun k => (k, [])
    cache := none
    heap := []
    imported := [] }

inductive Res where
  | unit
  | val (v : Val)
  | dict (d : List (Key × Val))
  | export (cur : List (Key × Val)) (hist : List (Key × List Val))
  | err (e : Err)
  deriving DecidableEq, Repr

inductive Op where
  | setCurrent (k : Key) (v : Arg) (copy : Bool)
  | getCurrent (k : Option Key)
  | getHistory (k : Key) (index : Option Int) (flat : Bool)
  | getLastHistory (k : Key)
  | commit (strict : Bool)
  | computeResults
  | toDict
  | updateFromDict (cur : Option (List (Key × Arg))) (hist : Option (List (Key × List Arg)))
  | scribble (a : Addr) (p : Content)
  | scribbleElems (a : Addr) (x : Int)
  deriving Repr

/-- the elements of the container at `a` that are references (empty for anything else) -/
def kids (h : Heap) (a : Addr) : List Addr :=
  match bodyAt h a with
  | some (.objs es) => es.flatMap Val.addrs
  | _ => []

/-- a value together with what it contains -/
def closure (h : Heap) : Val → List Addr
  | .ref a => a :: kids h a
  | _ => []

def commitLoop (deep : Bool) : List Key → State → State
  | [], s => s
  | k :: ks, s =>
    match lookup k s.current with
    | some v =>
      if v = Val.none then commitLoop deep ks s
      else commitLoop deep ks { s with heap := (copyVal deep .lib s.heap v).1,
                                       history := adjust k (fun l => l ++ [(copyVal deep .lib s.heap v).2]) s.history }
    | none => commitLoop deep ks s

/-- `for key in self._history.keys(): self._results_dict[key] = self.get_history(key)` -/
def fillCache (deep : Bool) : List (Key × List Val) → Heap → List (Key × Val) → Heap × List (Key × Val) × Bool
  | [], h, c => (h, c, true)
  | (k, l) :: r, h, c =>
    if historyKeys.contains k then
      fillCache deep r (stackAlloc deep .lib h l).1 (insert k (stackAlloc deep .lib h l).2 c)
    else (h, c, false)

/-- stand-in for the payload of `logw` (as in the flat model): reads `beta` / `logl` entries only -/
def logwStub (h : Heap) (hist : List (Key × List Val)) : Body :=
  match lookup "beta" hist, lookup "logl" hist with
  | some (_ :: _), some l => (match stackData h l with | some c => .data c | none => .opaque)
  | _, _ => .data []

def step (deep : Bool) (s : State) : Op → State × Res
  | .setCurrent k x copy =>
    if !x.legal s.heap then (s, .err .illegal) else
    let r := resolveArg s.heap x
    let s1 := { s with heap := r.1 }
    if !currentKeys.contains k then (s1, .err .valueError) else
    if copy then
      let c := copyVal deep .lib s1.heap r.2
      ({ s1 with heap := c.1, current := insert k c.2 s1.current, cache := none }, .unit)
    else
      ({ s1 with current := insert k r.2 s1.current, imported := closure s1.heap r.2 ++ s1.imported, cache := none }, .unit)
  | .getCurrent (some k) =>
    if !currentKeys.contains k then (s, .err .valueError) else
    match lookup k s.current with
    | none => (s, .err .keyError)
    | some v =>
      let r := copyVal deep .usr s.heap v
      ({ s with heap := r.1 }, .val r.2)
  | .getCurrent none =>
    let r := copyDict deep .usr s.heap s.current
    ({ s with heap := r.1 }, .dict r.2)
  | .getHistory k index flat =>
    if !historyKeys.contains k then (s, .err .valueError) else
    match lookup k s.history with
    | none => (s, .err .keyError)
    | some l =>
      match index with
      | none =>
        if flat && (l.isEmpty || !l.all Val.isRef) then (s, .err .valueError) else
        let r := stackAlloc deep .usr s.heap l
        ({ s with heap := r.1 }, .val r.2)
      | some i =>
        if i < 0 then (s, .err .indexError) else
        match l[i.toNat]? with
        | none => (s, .err .indexError)
        | some v =>
          let r := copyVal deep .usr s.heap v
          ({ s with heap := r.1 }, .val r.2)
  | .getLastHistory k =>
    if !historyKeys.contains k then (s, .err .valueError) else
    match lookup k s.history with
    | none => (s, .err .keyError)
    | some l =>
      match l.getLast? with
      | none => (s, .val .none)
      | some v =>
        let r := copyVal deep .usr s.heap v
        ({ s with heap := r.1 }, .val r.2)
  | .commit strict =>
    if strict && (isNone (lookup "beta" s.current) || isNone (lookup "logl" s.current)) then (s, .err .valueError) else
    ({ commitLoop deep commitKeys s with cache := none }, .unit)
  | .computeResults =>
    match s.cache with
    | some c =>
      let r := copyDict deep .usr s.heap c
      ({ s with heap := r.1 }, .dict r.2)
    | none =>
      let f := fillCache deep s.history s.heap []
      if !f.2.2 then ({ s with heap := f.1, cache := some f.2.1 }, .err .valueError) else
      let w := alloc f.1 (logwStub f.1 s.history) .lib
      let c := insert "logw" w.2 f.2.1
      let r := copyDict deep .usr w.1 c
      ({ s with heap := r.1, cache := some c }, .dict r.2)
  | .toDict =>
    let rc := copyDict deep .usr s.heap s.current
    let rh := copyHist deep .usr rc.1 s.history
    ({ s with heap := rh.1 }, .export rc.2 rh.2)
  | .updateFromDict cur hist =>
    let cur' := entries cur
    let hist' := entries hist
    if !(dictLegal s.heap cur' && histLegal s.heap hist') then (s, .err .illegal) else
    let rc := resolveDict s.heap cur'
    let rh := resolveHist rc.1 hist'
    let cc := copyDict deep .lib rh.1 rc.2
    let ch := copyHist deep .lib cc.1 rh.2
    ({ s with heap := ch.1,
              current := updateAll s.current cc.2,
              history := updateAll s.history ch.2,
              cache := none }, .unit)
  | .scribble a p =>
    match s.heap[a]? with
    | some ⟨.data _, .usr⟩ => ({ s with heap := s.heap.set a ⟨.data p, .usr⟩ }, .unit)
    | _ => (s, .err .illegal)
  | .scribbleElems a x =>
    match s.heap[a]? with
    | some ⟨.objs es, .usr⟩ => ({ s with heap := s.heap.set a ⟨.objs (es.map fun _ => Val.scalar x), .usr⟩ }, .unit)
    | _ => (s, .err .illegal)

def run (deep : Bool) (s : State) : List Op → State
  | [] => s
  | o :: os => run deep (step deep s o).1 os

/-! ### observable reads (payloads, never addresses) -/

inductive P1 where
  | none
  | scalar (x : Int)
  | arr (c : Content)
  | opaque
  deriving DecidableEq, Repr

inductive PVal where
  | none
  | scalar (x : Int)
  | arr (c : Content)
  | objs (es : List P1)
  | opaque
  deriving DecidableEq, Repr

def deref1 (h : Heap) : Val → P1
  | .none => .none
  | .scalar x => .scalar x
  | .ref b => match bodyAt h b with
    | some (.data c) => .arr c
    | _ => .opaque

def deref (h : Heap) : Val → PVal
  | .none => .none
  | .scalar x => .scalar x
  | .ref a => match bodyAt h a with
    | some (.data c) => .arr c
    | some (.objs es) => .objs (es.map (deref1 h))
    | _ => .opaque

def derefDict (h : Heap) (d : List (Key × Val)) : List (Key × PVal) := d.map fun kv => (kv.1, deref h kv.2)
def derefHist (h : Heap) (d : List (Key × List Val)) : List (Key × List PVal) :=
  d.map fun kv => (kv.1, kv.2.map (deref h))

inductive PRes where
  | unit
  | val (v : PVal)
  | dict (d : List (Key × PVal))
  | export (cur : List (Key × PVal)) (hist : List (Key × List PVal))
  | err (e : Err)
  deriving DecidableEq, Repr

def derefRes (h : Heap) : Res → PRes
  | .unit => .unit
  | .val v => .val (deref h v)
  | .dict d => .dict (derefDict h d)
  | .export c hi => .export (derefDict h c) (derefHist h hi)
  | .err e => .err e

structure Obs where
  current : List (Key × PVal)
  history : List (Key × List PVal)
  results : PRes
  deriving DecidableEq, Repr

def observe (deep : Bool) (s : State) : Obs :=
  { current := derefDict s.heap s.current
    history := derefHist s.heap s.history
    results := derefRes (step deep s .computeResults).1.heap (step deep s .computeResults).2 }

end Model.StateMgrN
