import TempestVerif.Model.LLEval
import TempestVerif.Model.Dispatch
/-
  Whole-run model of likelihood-call accounting (C13): the CONTROL FLOW of

    core.py    run_sampling (three-way start: resume path | committed history ⇒ continue | fresh), _initialize_fresh,
               _initialize_from_resume + load_sampler_state (the `calls` key only)
    core.py    execute_iteration           reweight → train → resample → mutate → commit
    mutate.py  Mutator.run                 warm-up branch (beta == 0) with its REDRAW loop (`while np.all(np.isinf(logl))`,
                                           `n_drawn`, cap) | parallel_mcmc + `calls + mcmc_calls`
    mcmc.py    BaseMCMCRunner.__init__ (n_calls = 0, n_walkers = x.shape[0]), run (`while True`), _evaluate_likelihood

  with everything numerical left OPAQUE (`Algo`): the opaque parts can read the whole state and every likelihood VALUE
  they were handed, but they have no access to the call counter, to the strategy, or to the likelihood itself — the only
  way to a likelihood value is `ev`, the model of `_log_like` (Model.LLEval.logLike under some strategy).
  The counter increments are not written here: they are the expressions regenerated from source (Gen/Dispatch.lean),
  interpreted by `Model.Dispatch.exprSize`.

  Ghost output: `asked`, the batches handed to `_log_like`, in order.  Core Lean only.
-/
namespace Model.CallsRun
open Model.Dispatch

/-- the opaque parts of the sampler.  `S`: sampler state without the counter, `M`: state of one MCMC runner,
    `X`: a point, `V`: what `_log_like` returns. -/
structure Algo (S M X V : Type) where
  notTerm : S → Bool                 -- `_not_termination()`
  prep : S → S                       -- `reweighter.run(); trainer.run(w); resampler.run(w)`  (no likelihood evaluation)
  beta0 : S → Bool                   -- `beta == 0.0` as read by `Mutator.run`
  draw : S → List X                  -- `u = rand(n_particles, n_dim); x = [prior_transform(u[i]) for i in range(n_particles)]`
  afterDraw : S → S                  -- the state once those random numbers are consumed (a redraw sees a different stream)
  allInf : V → Bool                  -- `np.all(np.isinf(logl))`
  warmStore : S → List X → V → Nat → S   -- `update_current({...})`, the −inf replacement, logz := log(n_finite / n_drawn)
  mcmcInit : S → M                   -- runner construction: copies of u, x, logl, blobs; sigmas; iteration = 0
  nWalkers : S → Nat                 -- `self.n_walkers, self.n_dim = x.shape`
  propose : M → List X               -- `iteration += 1`; `_propose(k)` for every walker, bounds check, `prior_transform`
  accept : M → List X → V → M        -- acceptance probability, Metropolis test, masked update, sigma adaptation
  converged : M → Bool               -- `_check_convergence(mask_accept.mean())`
  mcmcStore : S → M → S              -- `update_current({u, x, logl, efficiency, acceptance, steps})`, blobs
  commit : S → S                     -- `_update_progress_bar(); commit_current_to_history()`
  finish : S → S                     -- final `compute_logw_and_logz(1.0)`, `set_current("logz", …)`

/-- the source-derived accounting expressions -/
structure RunTable where
  calls : CallTable                  -- increments and batch sizes at the two counting sites
  nCallsInit : String                -- `self.n_calls = 0` in `BaseMCMCRunner.__init__`
  freshCalls : String                -- `_initialize_fresh`: `set_current("calls", 0)`
  resumeDefault : String             -- `load_sampler_state`: `required_keys["calls"]`, used when the loaded value is None
  warmDrawnInit : String             -- `n_drawn = self.n_particles`
  warmDrawnStep : String             -- `n_drawn += self.n_particles` inside the redraw loop
  warmCap : String                   -- `if n_drawn >= 1000 * self.n_particles: raise ValueError`

/-- value of an integer literal as it appears in the source (the counter's initial values); anything else is unknown -/
def litNat : String → Option Nat
  | "0" => some 0
  | "1" => some 1
  | "2" => some 2
  | _ => none

/-- the redraw cap as it appears in the source; `none` in the table = no cap -/
def capValue (nP : Nat) : String → Option (Option Nat)
  | "1000 * self.n_particles" => some (some (1000 * nP))
  | "none" => some none
  | _ => none

/-- `n_drawn >= cap` -/
def capReached (cap : Option Nat) (nDrawn : Nat) : Bool :=
  match cap with
  | some c => decide (c ≤ nDrawn)
  | none => false

/-- the expression the warm-up site adds to `calls`: the local `n_drawn`, or (older source) a size expression -/
def warmIncrement (e : Env) (nDrawn : Nat) (expr : String) : Option Nat :=
  if expr == "n_drawn" then some nDrawn else exprSize e expr

variable {S M X V : Type}

structure RS (S X : Type) where
  s : S
  calls : Nat                        -- `state["calls"]`
  asked : List (List X)              -- ghost: batches handed to `_log_like` in this process, oldest first
deriving Repr

/-- the `while True:` of `BaseMCMCRunner.run`; `ev j xs` is the j-th call of `_log_like` in this process.
    Returns (runner, n_calls, asked).  `none`: fuel exhausted, an unknown increment expression, or the likelihood raised. -/
def mcmcLoop (t : RunTable) (A : Algo S M X V) (ev : Nat → List X → Option V) (env : Env) :
    Nat → M → Nat → List (List X) → Option (M × Nat × List (List X))
  | 0, _, _, _ => none
  | fuel + 1, m, nCalls, asked =>
    let xp := A.propose m
    (ev asked.length xp).bind fun v =>                        -- `self.log_likelihood(x_prime)` inside `_evaluate_likelihood`
      (exprSize env t.calls.stepIncrement).bind fun inc =>    -- `self.n_calls += self.n_walkers`
        let m' := A.accept m xp v
        if A.converged m' then some (m', nCalls + inc, asked ++ [xp])
        else mcmcLoop t A ev env fuel m' (nCalls + inc) (asked ++ [xp])

/-- the redraw loop of the warm-up branch:
      while np.all(np.isinf(logl)):
          if n_drawn >= cap: raise ValueError
          u = rand(...); x = [...]; logl, blobs = self.log_likelihood(x); n_drawn += self.n_particles
    Returns (state after the draws, x, value, n_drawn, asked).  `none`: ValueError at the cap, fuel, unknown expression,
    or the likelihood raised. -/
def warmLoop (t : RunTable) (A : Algo S M X V) (ev : Nat → List X → Option V) (env : Env) (cap : Option Nat) :
    Nat → S → List X → V → Nat → List (List X) → Option (S × List X × V × Nat × List (List X))
  | 0, s, x, v, nDrawn, asked => if A.allInf v then none else some (s, x, v, nDrawn, asked)
  | fuel + 1, s, x, v, nDrawn, asked =>
    if A.allInf v then
      if capReached cap nDrawn then none
      else
        let x' := A.draw s               -- `s` already has the previous draw's random numbers consumed
        let s' := A.afterDraw s
        (ev asked.length x').bind fun v' =>
          (exprSize env t.warmDrawnStep).bind fun inc =>
            warmLoop t A ev env cap fuel s' x' v' (nDrawn + inc) (asked ++ [x'])
    else some (s, x, v, nDrawn, asked)

/-- `Mutator.run(mode_stats)`; `wfuel` bounds the number of redraws the model follows -/
def mutate (t : RunTable) (A : Algo S M X V) (ev : Nat → List X → Option V) (nP : Nat) (fuel : Nat) (r : RS S X)
    (wfuel : Nat := 1001) : Option (RS S X) :=
  if A.beta0 r.s then
    let env : Env := ⟨nP, A.nWalkers r.s⟩
    let x := A.draw r.s
    (ev r.asked.length x).bind fun v =>                                    -- `logl, blobs = self.log_likelihood(x)`
      (exprSize env t.warmDrawnInit).bind fun n0 =>                        -- `n_drawn = self.n_particles`
        (capValue nP t.warmCap).bind fun cap =>
          (warmLoop t A ev env cap wfuel (A.afterDraw r.s) x v n0 (r.asked ++ [x])).bind fun (s', x', v', nDrawn, asked') =>
            (warmIncrement env nDrawn t.calls.warmupIncrement).map fun inc =>    -- `calls = get_current("calls") + n_drawn`
              { s := A.warmStore s' x' v' nDrawn, calls := r.calls + inc, asked := asked' }
  else
    (litNat t.nCallsInit).bind fun n0 =>                                   -- `self.n_calls = 0`
      (mcmcLoop t A ev ⟨nP, A.nWalkers r.s⟩ fuel (A.mcmcInit r.s) n0 r.asked).map fun (m, mcmcCalls, asked') =>
        { s := A.mcmcStore r.s m, calls := r.calls + mcmcCalls, asked := asked' }   -- `get_current("calls") + mcmc_calls`

/-- `execute_iteration` -/
def iteration (t : RunTable) (A : Algo S M X V) (ev : Nat → List X → Option V) (nP fuel : Nat) (r : RS S X) :
    Option (RS S X) :=
  (mutate t A ev nP fuel { r with s := A.prep r.s }).map fun r' => { r' with s := A.commit r'.s }

/-- exactly `k` iterations (the unit in which checkpoints are taken) -/
def iterN (t : RunTable) (A : Algo S M X V) (ev : Nat → List X → Option V) (nP fuel : Nat) : Nat → RS S X → Option (RS S X)
  | 0, r => some r
  | k + 1, r => (iteration t A ev nP fuel r).bind (iterN t A ev nP fuel k)

/-- `while self._not_termination(): self.execute_iteration(...)` -/
def loop (t : RunTable) (A : Algo S M X V) (ev : Nat → List X → Option V) (nP fuel : Nat) : Nat → RS S X → Option (RS S X)
  | 0, r => if A.notTerm r.s then none else some r
  | n + 1, r => if A.notTerm r.s then (iteration t A ev nP fuel r).bind (loop t A ev nP fuel n) else some r

/-- how a run starts -/
inductive Start (S : Type) where
  | fresh (s : S)                              -- no path, empty history: `_initialize_fresh()`
  | resume (s : S) (savedCalls : Option Nat)   -- `load_sampler_state(path)`: the loaded state, and its "calls" entry
                                               -- (`None` when an old state file lacks it)
  | continued (s : S) (calls : Nat)            -- no path, committed history (a second `run()`, or `load_state()` then
                                               -- `run()`): nothing is initialised, the counter keeps its current value

/-- the counter after initialisation; the ghost log of THIS process starts empty -/
def begin (t : RunTable) : Start S → Option (RS S X)
  | .fresh s => (litNat t.freshCalls).map fun c => ⟨s, c, []⟩
  | .resume s (some c) => some ⟨s, c, []⟩
  | .resume s none => (litNat t.resumeDefault).map fun c => ⟨s, c, []⟩
  | .continued s c => some ⟨s, c, []⟩

/-- the if-chain at the top of `run_sampling` -/
inductive StartKind where
  | fresh | resume | continued
deriving DecidableEq, Repr

def startKind (chain : List (String × String)) (havePath : Bool) (historyLength : Nat) : Option StartKind :=
  match chain with
  | [] => none
  | (test, act) :: rest =>
    let holds := match test with
      | "path" => havePath
      | "history" => decide (historyLength > 0)
      | "else" => true
      | _ => false
    if holds then (match act with
      | "resume" => some .resume
      | "continue" => some .continued
      | "fresh" => some .fresh
      | _ => none)
    else startKind rest havePath historyLength

/-- `run_sampling` -/
def runSampling (t : RunTable) (A : Algo S M X V) (ev : Nat → List X → Option V) (nP fuel iters : Nat) (st : Start S) :
    Option (RS S X) :=
  (begin t st).bind fun r0 => (loop t A ev nP fuel iters r0).map fun r => { r with s := A.finish r.s }

/-- total number of points in a list of batches -/
def points (bs : List (List X)) : Nat := (bs.map List.length).sum

/-! ### `_log_like` under a strategy as the evaluator of a run -/
open Model.LLEval in
/-- the j-th call of `_log_like`; the pool completes the `n` tasks of that batch in the order `sched j n` -/
def evOf {Y B : Type} (how : HowV) (sched : Nat → Nat → List Nat) (f : X → Res Y B) (fvec : List X → List Y) :
    Nat → List X → Option (Out Y B) :=
  fun j xs => logLike how (sched j xs.length) f fvec xs

open Model.LLEval in
/-- the points at which the user's likelihood was evaluated over a whole list of `_log_like` calls (call j = j0, j0+1, …) -/
def evaluatedPoints (how : HowV) (sched : Nat → Nat → List Nat) : Nat → List (List X) → List X
  | _, [] => []
  | j, b :: bs => logLikeLog how (sched j b.length) b ++ evaluatedPoints how sched (j + 1) bs

/-! ### an executable instance: a run scripted by its iteration kinds -/

inductive ItKind where
  | warm (redraws : Nat)     -- a warm-up iteration whose first `redraws` batches had no finite draw
  | mcmc (steps : Nat)
deriving Repr

/-- remaining script; `notTerm` = something left.  Points are `Unit`; the value of a batch is the flag "all −inf". -/
def scripted (nP nW : Nat) : Algo (List ItKind) Nat Unit Bool where
  notTerm s := !s.isEmpty
  prep s := s
  beta0 s := match s with | .warm _ :: _ => true | _ => false
  draw _ := List.replicate nP ()
  afterDraw s := s
  allInf v := v
  warmStore s _ _ _ := s.drop 1
  mcmcInit s := match s with | .mcmc k :: _ => k | _ => 0
  nWalkers _ := nW
  propose _ := List.replicate nW ()
  accept m _ _ := m - 1
  converged m := m == 0
  mcmcStore s _ := s.drop 1
  commit s := s
  finish s := s

/-- the flags the scripted evaluator returns, call by call -/
def scriptFlags : List ItKind → List Bool
  | [] => []
  | .warm r :: rest => List.replicate r true ++ [false] ++ scriptFlags rest
  | .mcmc k :: rest => List.replicate (max 1 k) false ++ scriptFlags rest

def scriptEv (flags : List Bool) : Nat → List Unit → Option Bool := fun j _ => flags[j]?

end Model.CallsRun
