import TempestVerif.Model.LLEval
import TempestVerif.Model.Dispatch
/-
  Whole-run model of likelihood-call accounting (C13): the CONTROL FLOW of

    core.py    run_sampling / _initialize_fresh / _initialize_from_resume + load_sampler_state (the `calls` key only)
    core.py    execute_iteration           reweight → train → resample → mutate → commit
    mutate.py  Mutator.run                 warm-up branch (beta == 0) | parallel_mcmc + `calls + mcmc_calls`
    mcmc.py    BaseMCMCRunner.__init__ (n_calls = 0, n_walkers = x.shape[0]), run (`while True`), _evaluate_likelihood

  with everything numerical left OPAQUE (`Algo`): the opaque parts can read the whole state and every likelihood VALUE
  they were handed, but they have no access to the call counter, to the strategy, or to the likelihood itself — the only
  way to a likelihood value is `ev`, the model of `_log_like` (Model.LLEval.logLike under some strategy).
  The counter increments are not written here: they are the expressions regenerated from source (Gen/Dispatch.lean),
  interpreted by `Model.Dispatch.exprSize`.

  Ghost output: `asked`, the batches handed to `_log_like`, in order.  Core Lean only.
-/
namespace Model.CallsRun
open Model.Dispatch

/-- the opaque parts of the sampler.  `S`: sampler state without the counter, `M`: state of one MCMC runner,
    `X`: a point, `V`: what `_log_like` returns. -/
structure Algo (S M X V : Type) where
  notTerm : S → Bool                 -- `_not_termination()`
  prep : S → S                       -- `reweighter.run(); trainer.run(w); resampler.run(w)`  (no likelihood evaluation)
  beta0 : S → Bool                   -- `beta == 0.0` as read by `Mutator.run`
  draw : S → List X                  -- `u = rand(n_particles, n_dim); x = [prior_transform(u[i]) for i in range(n_particles)]`
  warmStore : S → List X → V → S     -- `update_current({...})`, the −inf replacement and the logz correction
  mcmcInit : S → M                   -- runner construction: copies of u, x, logl, blobs; sigmas; iteration = 0
  nWalkers : S → Nat                 -- `self.n_walkers, self.n_dim = x.shape`
  propose : M → List X               -- `iteration += 1`; `_propose(k)` for every walker, bounds check, `prior_transform`
  accept : M → List X → V → M        -- acceptance probability, Metropolis test, masked update, sigma adaptation
  converged : M → Bool               -- `_check_convergence(mask_accept.mean())`
  mcmcStore : S → M → S              -- `update_current({u, x, logl, efficiency, acceptance, steps})`, blobs
  commit : S → S                     -- `_update_progress_bar(); commit_current_to_history()`
  finish : S → S                     -- final `compute_logw_and_logz(1.0)`, `set_current("logz", …)`

/-- the source-derived accounting expressions -/
structure RunTable where
  calls : CallTable                  -- increments and batch sizes at the two counting sites
  nCallsInit : String                -- `self.n_calls = 0` in `BaseMCMCRunner.__init__`
  freshCalls : String                -- `_initialize_fresh`: `set_current("calls", 0)`
  resumeDefault : String             -- `load_sampler_state`: `required_keys["calls"]`, used when the loaded value is None

/-- value of an integer literal as it appears in the source (the counter's initial values); anything else is unknown -/
def litNat : String → Option Nat
  | "0" => some 0
  | "1" => some 1
  | "2" => some 2
  | _ => none

variable {S M X V : Type}

structure RS (S X : Type) where
  s : S
  calls : Nat                        -- `state["calls"]`
  asked : List (List X)              -- ghost: batches handed to `_log_like` in this process, oldest first
deriving Repr

/-- the `while True:` of `BaseMCMCRunner.run`; `ev j xs` is the j-th call of `_log_like` in this process.
    Returns (runner, n_calls, asked).  `none`: fuel exhausted, an unknown increment expression, or the likelihood raised. -/
def mcmcLoop (t : RunTable) (A : Algo S M X V) (ev : Nat → List X → Option V) (env : Env) :
    Nat → M → Nat → List (List X) → Option (M × Nat × List (List X))
  | 0, _, _, _ => none
  | fuel + 1, m, nCalls, asked =>
    let xp := A.propose m
    (ev asked.length xp).bind fun v =>                        -- `self.log_likelihood(x_prime)` inside `_evaluate_likelihood`
      (exprSize env t.calls.stepIncrement).bind fun inc =>    -- `self.n_calls += self.n_walkers`
        let m' := A.accept m xp v
        if A.converged m' then some (m', nCalls + inc, asked ++ [xp])
        else mcmcLoop t A ev env fuel m' (nCalls + inc) (asked ++ [xp])

/-- `Mutator.run(mode_stats)` -/
def mutate (t : RunTable) (A : Algo S M X V) (ev : Nat → List X → Option V) (nP : Nat) (fuel : Nat) (r : RS S X) :
    Option (RS S X) :=
  if A.beta0 r.s then
    let x := A.draw r.s
    (ev r.asked.length x).bind fun v =>                                    -- `logl, blobs = self.log_likelihood(x)`
      (exprSize ⟨nP, A.nWalkers r.s⟩ t.calls.warmupIncrement).map fun inc =>   -- `calls = get_current("calls") + self.n_particles`
        { s := A.warmStore r.s x v, calls := r.calls + inc, asked := r.asked ++ [x] }
  else
    (litNat t.nCallsInit).bind fun n0 =>                                   -- `self.n_calls = 0`
      (mcmcLoop t A ev ⟨nP, A.nWalkers r.s⟩ fuel (A.mcmcInit r.s) n0 r.asked).map fun (m, mcmcCalls, asked') =>
        { s := A.mcmcStore r.s m, calls := r.calls + mcmcCalls, asked := asked' }   -- `get_current("calls") + mcmc_calls`

/-- `execute_iteration` -/
def iteration (t : RunTable) (A : Algo S M X V) (ev : Nat → List X → Option V) (nP fuel : Nat) (r : RS S X) :
    Option (RS S X) :=
  (mutate t A ev nP fuel { r with s := A.prep r.s }).map fun r' => { r' with s := A.commit r'.s }

/-- exactly `k` iterations (the unit in which checkpoints are taken) -/
def iterN (t : RunTable) (A : Algo S M X V) (ev : Nat → List X → Option V) (nP fuel : Nat) : Nat → RS S X → Option (RS S X)
  | 0, r => some r
  | k + 1, r => (iteration t A ev nP fuel r).bind (iterN t A ev nP fuel k)

/-- `while self._not_termination(): self.execute_iteration(...)` -/
def loop (t : RunTable) (A : Algo S M X V) (ev : Nat → List X → Option V) (nP fuel : Nat) : Nat → RS S X → Option (RS S X)
  | 0, r => if A.notTerm r.s then none else some r
  | n + 1, r => if A.notTerm r.s then (iteration t A ev nP fuel r).bind (loop t A ev nP fuel n) else some r

/-- how a run starts -/
inductive Start (S : Type) where
  | fresh (s : S)                              -- `_initialize_fresh()`
  | resume (s : S) (savedCalls : Option Nat)   -- `load_sampler_state(path)`: the loaded state, and its "calls" entry
                                               -- (`None` when an old state file lacks it)

/-- the counter after initialisation; the ghost log of THIS process starts empty -/
def begin (t : RunTable) : Start S → Option (RS S X)
  | .fresh s => (litNat t.freshCalls).map fun c => ⟨s, c, []⟩
  | .resume s (some c) => some ⟨s, c, []⟩
  | .resume s none => (litNat t.resumeDefault).map fun c => ⟨s, c, []⟩

/-- `run_sampling` -/
def runSampling (t : RunTable) (A : Algo S M X V) (ev : Nat → List X → Option V) (nP fuel iters : Nat) (st : Start S) :
    Option (RS S X) :=
  (begin t st).bind fun r0 => (loop t A ev nP fuel iters r0).map fun r => { r with s := A.finish r.s }

/-- total number of points in a list of batches -/
def points (bs : List (List X)) : Nat := (bs.map List.length).sum

/-! ### `_log_like` under a strategy as the evaluator of a run -/
open Model.LLEval in
/-- the j-th call of `_log_like`; the pool completes the `n` tasks of that batch in the order `sched j n` -/
def evOf {Y B : Type} (how : HowV) (sched : Nat → Nat → List Nat) (f : X → Res Y B) (fvec : List X → List Y) :
    Nat → List X → Option (Out Y B) :=
  fun j xs => logLike how (sched j xs.length) f fvec xs

open Model.LLEval in
/-- the points at which the user's likelihood was evaluated over a whole list of `_log_like` calls (call j = j0, j0+1, …) -/
def evaluatedPoints (how : HowV) (sched : Nat → Nat → List Nat) : Nat → List (List X) → List X
  | _, [] => []
  | j, b :: bs => logLikeLog how (sched j b.length) b ++ evaluatedPoints how sched (j + 1) bs

/-! ### an executable instance: a run scripted by its iteration kinds -/

inductive ItKind where
  | warm
  | mcmc (steps : Nat)
deriving Repr

/-- remaining script; `notTerm` = something left.  Points and values are `Unit`. -/
def scripted (nP nW : Nat) : Algo (List ItKind) Nat Unit Unit where
  notTerm s := !s.isEmpty
  prep s := s
  beta0 s := match s with | .warm :: _ => true | _ => false
  draw _ := List.replicate nP ()
  warmStore s _ _ := s.drop 1
  mcmcInit s := match s with | .mcmc k :: _ => k | _ => 0
  nWalkers _ := nW
  propose _ := List.replicate nW ()
  accept m _ _ := m - 1
  converged m := m == 0
  mcmcStore s _ := s.drop 1
  commit s := s
  finish s := s

end Model.CallsRun
