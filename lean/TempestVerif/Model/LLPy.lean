import TempestVerif.Model.LLEval
import TempestVerif.Model.CallsRun
/-
  Vocabulary of the SOURCE-DERIVED terms of property C13 (Gen/LogLikeSrc.lean, written by translator G21).

  G21 compiles the Python expressions of `_log_like`, `_get_distribute_func`, `FunctionWrapper`, `_evaluate_likelihood`,
  `Mutator.run` and `run_sampling` into Lean terms.  The terms speak about the model's value domains
  (`Model.LLEval.PoolV` — the `pool` option, `Model.LLEval.Res` — what the user's likelihood returns for one point), so the
  meaning of each Python PRIMITIVE on those domains has to be written down once, by hand: that is this file, and nothing
  else of the generated terms is hand-written.  One definition per primitive:

      e is None / isinstance(e, int) / hasattr(e, "map") / e <= k, e < k, e > k, e >= k, e == k     on a pool value
      map / Pool(e).map / e.map                                                                        as a strategy
      isinstance(e, (tuple, list)) / len(e) / float(e) / float(e[i]) / e[i:]                           on a per-point result
      and / or / not / if-else                                                                         with exceptions

  A test is an `Option Bool`, a value an `Option _`: `none` = evaluating the expression raises (TypeError, AttributeError,
  IndexError).  `and` / `or` are short-circuit, as in Python: the right operand is not evaluated — and cannot raise — when the
  left one decides.  Core Lean only.
-/
namespace Model.LLPy
open Model.LLEval

/-! ### tests with exceptions -/

/-- `a and b` -/
def pAnd (a b : Option Bool) : Option Bool :=
  match a with
  | some true => b
  | some false => some false
  | none => none

/-- `a or b` -/
def pOr (a b : Option Bool) : Option Bool :=
  match a with
  | some true => some true
  | some false => b
  | none => none

/-- `not a` -/
def pNot (a : Option Bool) : Option Bool := a.map (!·)

/-- `if c: t else: e` / `t if c else e` where evaluating `c` may raise -/
def pIf {β : Type} (c : Option Bool) (t e : Option β) : Option β :=
  match c with
  | some true => t
  | some false => e
  | none => none

/-! ### the `pool` option -/

/-- `pool is None` -/
def PoolV.isNone : PoolV → Bool
  | .none => true
  | _ => false

/-- `isinstance(pool, int)` (`True` / `False` are ints) -/
def PoolV.isInt : PoolV → Bool
  | .int _ => true
  | _ => false

/-- `hasattr(pool, "map")` -/
def PoolV.hasMap : PoolV → Bool
  | .obj h => h
  | _ => false

/-- `pool <= k` — ordering `None` or an arbitrary object against an int is a TypeError -/
def PoolV.le? : PoolV → Int → Option Bool
  | .int n, k => some (decide (n ≤ k))
  | _, _ => none

/-- `pool < k` -/
def PoolV.lt? : PoolV → Int → Option Bool
  | .int n, k => some (decide (n < k))
  | _, _ => none

/-- `pool > k` -/
def PoolV.gt? : PoolV → Int → Option Bool
  | .int n, k => some (decide (n > k))
  | _, _ => none

/-- `pool >= k` -/
def PoolV.ge? : PoolV → Int → Option Bool
  | .int n, k => some (decide (n ≥ k))
  | _, _ => none

/-- `pool == k` (never raises: `None == 1` is `False`) -/
def PoolV.eq? : PoolV → Int → Option Bool
  | .int n, k => some (decide (n = k))
  | _, _ => some false

/-- the builtin `map` as a strategy -/
def builtinMap : Option HowV := some .map

/-- `Pool(pool).map` with `Pool` imported from `multiprocess`: a new pool of `pool` processes (an int is required;
    `Pool(None)` — a pool of cpu_count processes — and `Pool(<object>)` are outside the model) -/
def PoolV.newPoolMap : PoolV → Option HowV
  | .int k => some (.newPoolMap k)
  | _ => none

/-- `pool.map`: `None` and ints have no such attribute (AttributeError) -/
def PoolV.attrMap : PoolV → Option HowV
  | .obj true => some .objMap
  | _ => none

/-! ### what the user's likelihood returned for one point -/

variable {Y B : Type}

/-- `isinstance(r, <classes>)`.  The model's `.seq` stands for "a tuple or a list" without saying which, so it is certainly an
    instance only when BOTH classes are accepted; a number and a malformed result (`.bad`: None, a string, an empty tuple —
    for which every use the source makes of this test, a conjunction with `len(r) > 1`, is false as well) are not. -/
def Res.isInst (r : Res Y B) (classes : List String) : Bool :=
  match r with
  | .seq _ _ => classes.contains "tuple" && classes.contains "list"
  | _ => false

/-- `len(r)`: a number has no `len` (TypeError) -/
def Res.len? : Res Y B → Option Nat
  | .seq _ bs => some (bs.length + 1)
  | _ => none

/-- `float(r[i])`: entry 0 of a tuple/list result is the log-likelihood; `float` of a blob cell, or subscripting a number, is
    outside the model / a TypeError -/
def Res.floatAt? : Res Y B → Nat → Option Y
  | .seq y _, 0 => some y
  | _, _ => none

/-- `r[i:]` for `i ≥ 1`: the blobs from position i on (`r[0:]` would mix the log-likelihood into the blobs: outside the model) -/
def Res.tailFrom? : Res Y B → Nat → Option (List B)
  | .seq _ bs, i + 1 => some (bs.drop i)
  | _, _ => none

/-! ### how a run starts -/
open Model.CallsRun in
/-- which of `_initialize_from_resume` / `_initialize_fresh` a path of `run_sampling` calls -/
def startOf (resume fresh : Bool) : Option StartKind :=
  match resume, fresh with
  | true, false => some .resume
  | false, true => some .fresh
  | false, false => some .continued
  | true, true => none

end Model.LLPy
