import TempestVerif.Model.EM
/-
  Model of the WHOLE `tempest/cluster.py: GaussianMixture` (C15 clause audit): `fit` (weighted k-means++
  initialisation from a tape of `rand()` values, E-step with the Gaussian density, M-step, lower bound,
  convergence test, `n_init` restarts, `n_iter_`/`converged_`/`lower_bound_`), `predict`, `bic`,
  for the covariance structures `full` and `diag`.

  Python (as it is now):
      sample_weight = sample_weight / np.sum(sample_weight)
      best_params = None; best_lower_bound = -np.inf
      for init in range(self.n_init):
          weights, means, covariances = self._initialize_parameters(X, sample_weight)
          lower_bound = -np.inf
          for iteration in range(self.max_iter):
              responsibilities = self._e_step(X, weights, means, covariances)
              weights, means, covariances = self._m_step(X, responsibilities, sample_weight)
              new_lower_bound = self._compute_lower_bound(X, weights, means, covariances, sample_weight)
              if new_lower_bound - lower_bound < self.tol: break
              lower_bound = new_lower_bound
          if lower_bound > best_lower_bound:
              best_lower_bound = lower_bound; best_params = (weights, means, covariances, iteration + 1)
      self.weights_, self.means_, self.covariances_, self.n_iter_ = best_params
      self.converged_ = self.n_iter_ < self.max_iter; self.lower_bound_ = best_lower_bound

  `_e_step` (after fix 632b97e):
              log_resp[:, k] = np.log(weights[k]) + multivariate_normal.logpdf(X, mean=means[k], cov=cov + np.eye(d) * reg_covar)
              except (LinAlgError, ValueError): … cov=np.eye(d) * reg_covar
              log_resp -= np.max(log_resp, axis=1, keepdims=True); responsibilities = np.exp(log_resp)
              responsibilities /= np.sum(responsibilities, axis=1, keepdims=True)
  `_compute_lower_bound`:  log_likelihood += weights[k] * np.exp(logpdf(…))   (a component scipy refuses is skipped: `pass`)
              np.sum(sample_weight * np.log(log_likelihood + 1e-10))
  `predict`:  argmax_k  np.log(weights_[k] + 1e-10) + logpdf(…)   (a refused component gets the column -inf)

  What is NOT modelled: scipy's `multivariate_normal` works through an eigendecomposition and refuses (raises) a
  covariance whose smallest eigenvalue is below ~2.2e-10 times the largest.  Here the density is the same
  mathematical function computed through a Cholesky factor (lower triangle read, like LAPACK), and scipy's decision
  to refuse a matrix is an ORACLE `sing : matrix → Bool` (every theorem is for every oracle).  The model itself
  treats a matrix without a Cholesky factor (a non-positive pivot) as refused as well.

  `-inf` is `none` (lower bounds) — there is no infinity in the scalar interface.
  A result `none` of a function of this file = the Python raises.
-/
namespace Model.GMM
open Model.EM
variable {α : Type} [ScT α]

abbrev Mat (α : Type) := List (List α)

def mapOpt {β γ : Type} (f : β → Option γ) : List β → Option (List γ)
  | [] => some []
  | x :: xs =>
    match f x, mapOpt f xs with
    | some y, some ys => some (y :: ys)
    | _, _ => none

/-! ### constants -/
def half : α := Sc.lit 5 1
/-- the double nearest to π (numpy's `np.pi`) -/
def piLit : α := Sc.lit 3141592653589793 15
/-- scipy's `_LOG_2PI = np.log(2 * np.pi)` -/
def log2pi : α := ScT.log (Sc.mul Sc.two piLit)

/-! ### small matrix helpers -/

/-- `C + np.eye(C.shape[0]) * reg` -/
def addDiag (reg : α) (C : Mat α) : Mat α :=
  C.zipIdx.map fun p => p.1.zipIdx.map fun q => if q.2 == p.2 then Sc.add q.1 reg else q.1

/-- `np.eye(d) * reg` -/
def scaledEye (d : Nat) (reg : α) : Mat α :=
  (List.range d).map fun i => (List.range d).map fun j => if i == j then reg else Sc.zero

/-- `np.diag(v)` for a 1-D `v` -/
def diagMat (v : List α) : Mat α :=
  v.zipIdx.map fun p => (List.range v.length).map fun j => if j == p.2 then p.1 else Sc.zero

/-- the transpose of a list of columns of length `n`: row `i` collects entry `i` of every column -/
def rowsOfCols (n : Nat) (cols : List (List α)) : Mat α := (List.range n).map fun i => col cols i

/-! ### Cholesky factor, forward substitution, Gaussian log-density -/

/-- one row of a lower-triangular factor: the entries left of the diagonal, and the diagonal entry -/
structure LRow (α : Type) where
  offs : List α
  diag : α

/-- right-looking Cholesky of the symmetric matrix whose LOWER triangle is that of the argument.
    `none`: a pivot is not `> 0` (also NaN), or the rows are too short.  `fuel` ≥ number of rows. -/
def cholAux : Nat → Mat α → Option (List (LRow α))
  | _, [] => some []
  | 0, _ :: _ => none
  | n + 1, row :: rows =>
    match row with
    | [] => none
    | a :: _ =>
      if Sc.lt Sc.zero a then
        let l := ScT.sqrt a
        match mapOpt (fun r : List α => match r with | [] => none | x :: t => some (Sc.div x l, t)) rows with
        | none => none
        | some ct =>
          let c := ct.map (·.1)
          let S := ct.map fun p => List.zipWith (fun t cj => Sc.sub t (Sc.mul p.1 cj)) p.2 c
          match cholAux n S with
          | none => none
          | some L => some (⟨[], l⟩ :: List.zipWith (fun ci r => ⟨ci :: r.offs, r.diag⟩) c L)
      else none

def chol (C : Mat α) : Option (List (LRow α)) := cholAux C.length C

/-- solve `L y = b` (forward substitution); `ys` = the part of `y` already known, in order -/
def fwdAux : List (LRow α) → List α → List α → Option (List α)
  | [], [], ys => some ys
  | r :: rs, b :: bs, ys => fwdAux rs bs (ys ++ [Sc.div (Sc.sub b (dot r.offs ys)) r.diag])
  | _, _, _ => none

/-- a factorised covariance: the rows of `L` and `log det = 2 Σ log L_ii` -/
structure Factor (α : Type) where
  rows : List (LRow α)
  logdet : α

def factor? (C : Mat α) : Option (Factor α) :=
  (chol C).map fun L => ⟨L, Sc.mul Sc.two (Sc.sum (L.map fun r => ScT.log r.diag))⟩

/-- squared Mahalanobis distance `|L⁻¹ (x − m)|²` -/
def maha? (F : Factor α) (m x : List α) : Option α :=
  (fwdAux F.rows (List.zipWith Sc.sub x m) []).map fun y => Sc.sum (y.map fun t => Sc.mul t t)

/-- `-0.5 * (d * log(2π) + log det + maha)` -/
def logpdf? (d : Nat) (F : Factor α) (m x : List α) : Option α :=
  (maha? F m x).map fun q =>
    Sc.mul (Sc.neg half) (Sc.add (Sc.add (Sc.mul (Sc.ofNat d) log2pi) F.logdet) q)

/-- `multivariate_normal.logpdf(X, mean=m, cov=M)` for all rows of `X`; `none` = scipy raises
    (the oracle says so, or `M` has no Cholesky factor, or a shape is wrong) -/
def logpdfCol (sing : Mat α → Bool) (d : Nat) (M : Mat α) (m : List α) (X : Mat α) : Option (List α) :=
  if sing M then none else
  match factor? M with
  | none => none
  | some F => mapOpt (logpdf? d F m) X

/-! ### `_get_covariance`, E-step, lower bound -/

/-- the matrices `_get_covariance(covariances, k)` returns, k = 0 … K-1:
    `covariances[k]` ('full') or `np.diag(covariances[k])` ('diag') -/
def covMats (diagT : Bool) (p : MStep α) : List (Mat α) :=
  if diagT then p.covDiag.map diagMat else p.covFull

/-- `np.log(weights[k])`: `-inf` (`none`) for a zero weight (a negative or NaN weight does not occur) -/
def logW (w : α) : Option α := if Sc.lt Sc.zero w then some (ScT.log w) else none

/-- column k of `log_resp`: `np.log(weights[k]) + logpdf(X, means[k], cov + reg I)`, with the `except` branch
    `cov = np.eye(d) * reg`.  Outer `none` = the Python raises; an entry `none` = `-inf` -/
def estepCol (sing : Mat α → Bool) (reg : α) (d : Nat) (w : α) (m : List α) (C : Mat α) (X : Mat α) :
    Option (List (Option α)) :=
  let lp := match logpdfCol sing d (addDiag reg C) m X with
    | some l => some l
    | none => logpdfCol sing d (scaledEye d reg) m X
  lp.map fun l => l.map fun t => (logW w).map fun lw => Sc.add lw t

def estepCols (sing : Mat α → Bool) (reg : α) (d : Nat) (ws : List α) (ms : Mat α) (Cs : List (Mat α))
    (X : Mat α) : Option (List (List (Option α))) :=
  mapOpt (fun t : α × List α × Mat α => estepCol sing reg d t.1 t.2.1 t.2.2 X) (List.zip ws (List.zip ms Cs))

/-- `np.max` of a row, ignoring the `-inf` entries; `none` if every entry is `-inf` -/
def rowMaxO : List (Option α) → Option α
  | [] => none
  | none :: xs => rowMaxO xs
  | some x :: xs => match rowMaxO xs with | none => some x | some m => some (Sc.max x m)

/-- `row -= np.max(row); r = np.exp(row); r /= np.sum(r)` on one row of `log_resp`.
    A row whose every entry is `-inf` gives `-inf - -inf = NaN` in the Python: no value here (`none`). -/
def softRow (row : List (Option α)) : Option (List α) :=
  match rowMaxO row with
  | none => none
  | some m =>
    let e := row.map fun o => match o with | some t => ScT.exp (Sc.sub t m) | none => Sc.zero
    let tot := Sc.sum e
    some (e.map fun p => Sc.div p tot)

/-- `_e_step` (as it is now: normalisation in log space, no `+1e-10`) -/
def estep (sing : Mat α → Bool) (reg : α) (d : Nat) (ws : List α) (ms : Mat α) (Cs : List (Mat α))
    (X : Mat α) : Option (Mat α) :=
  (estepCols sing reg d ws ms Cs X).bind fun cols => mapOpt softRow (rowsOfCols X.length cols)

/-- the columns `weights[k] * np.exp(log_prob)` of `_compute_lower_bound`; a refused component is skipped (`pass`) -/
def lbCols (sing : Mat α → Bool) (reg : α) (d : Nat) (ws : List α) (ms : Mat α) (Cs : List (Mat α))
    (X : Mat α) : List (List α) :=
  (List.zip ws (List.zip ms Cs)).filterMap fun t =>
    (logpdfCol sing d (addDiag reg t.2.2) t.2.1 X).map fun l => l.map fun u => Sc.mul t.1 (ScT.exp u)

/-- `_compute_lower_bound`: `np.sum(sample_weight * np.log(Σ_k weights[k] pdf_k + 1e-10))` -/
def lowerBound (sing : Mat α → Bool) (reg eps : α) (d : Nat) (ws : List α) (ms : Mat α) (Cs : List (Mat α))
    (X : Mat α) (s : List α) : α :=
  let cols := lbCols sing reg d ws ms Cs X
  dot s ((List.range X.length).map fun i => ScT.log (Sc.add (Sc.sum (col cols i)) eps))

/-! ### one EM iteration and the loop -/

/-- the fixed inputs of one `fit` -/
structure Cfg (α : Type) where
  sing : Mat α → Bool
  diagT : Bool
  tiny : α
  eps : α
  reg : α
  tol : α
  d : Nat
  K : Nat
  maxIter : Nat
  nInit : Nat

/-- E-step, M-step, new lower bound -/
def emIter (c : Cfg α) (X : Mat α) (s : List α) (p : MStep α) : Option (MStep α × α) :=
  match estep c.sing c.reg c.d p.weights p.means (covMats c.diagT p) X with
  | none => none
  | some R =>
    let p' := mstep c.tiny c.eps c.d c.K X R s
    some (p', lowerBound c.sing c.reg c.eps c.d p'.weights p'.means (covMats c.diagT p') X s)

structure LoopOut (α : Type) where
  params : MStep α
  /-- `lower_bound` when the loop ends (`none` = `-inf`) -/
  lb : Option α
  /-- the loop variable `iteration` when the loop ends -/
  iter : Nat

/-- `new_lower_bound - lower_bound < tol` (`lower_bound = -inf`: the difference is `+inf`, never below `tol`) -/
def converged (tol new : α) : Option α → Bool
  | none => false
  | some l => Sc.lt (Sc.sub new l) tol

/-- `for iteration in range(max_iter)`; `fuel` = iterations left.  `fuel = 0` at entry means `max_iter = 0`:
    the Python then fails on the unbound name `iteration` -/
def emLoop (c : Cfg α) (X : Mat α) (s : List α) : Nat → Nat → Option α → MStep α → Option (LoopOut α)
  | 0, _, _, _ => none
  | fuel + 1, it, lb, p =>
    match emIter c X s p with
    | none => none
    | some (p', new) =>
      if converged c.tol new lb then some ⟨p', lb, it⟩
      else if fuel = 0 then some ⟨p', some new, it⟩
      else emLoop c X s fuel (it + 1) (some new) p'

/-! ### `_initialize_parameters` -/

/-- numpy's sort order for doubles (`a < b`, NaN last), used by `np.searchsorted` -/
def npLt (a b : α) : Bool := Sc.lt a b || (!(Sc.le b b) && Sc.le a a)

/-- `np.searchsorted(a, v)` (side 'left') on a sorted array: the number of leading entries `< v` -/
def searchsorted : List α → α → Nat
  | [], _ => 0
  | x :: xs, v => if npLt x v then searchsorted xs v + 1 else 0

/-- `np.cumsum` continued from the running total `acc` -/
def cumsumFrom (acc : α) : List α → List α
  | [] => []
  | x :: xs => Sc.add acc x :: cumsumFrom (Sc.add acc x) xs

/-- `cumsum = np.cumsum(p); r = u * cumsum[-1]; np.searchsorted(cumsum, r)`  (`none`: `p` is empty) -/
def pickIdx (p : List α) (u : α) : Option Nat :=
  let c := cumsumFrom Sc.zero p
  c.getLast?.map fun last => searchsorted c (Sc.mul u last)

/-- `np.sum((x - m) ** 2)` -/
def sqdist (x m : List α) : α := Sc.sum ((List.zipWith Sc.sub x m).map fun t => Sc.mul t t)

/-- squared distance to the nearest of the centres `c0 :: cs` -/
def nearestDist (c0 : List α) (cs : Mat α) (x : List α) : α :=
  cs.foldl (fun acc c => Sc.min acc (sqdist x c)) (sqdist x c0)

/-- the centres after the first: `probabilities = distances * sample_weight; probabilities /= np.sum(probabilities)`,
    then a weighted draw.  Returns the centres (in order), the chosen indices and the unused tape. -/
def moreCentres (X : Mat α) (s : List α) (c0 : List α) :
    Nat → List α → Mat α → List Nat → Option (Mat α × List Nat × List α)
  | 0, tape, cs, picks => some (cs, picks, tape)
  | _ + 1, [], _, _ => none
  | k + 1, u :: tape, cs, picks =>
    let prob := List.zipWith Sc.mul (X.map (nearestDist c0 cs)) s
    let tot := Sc.sum prob
    match pickIdx (prob.map fun p => Sc.div p tot) u with
    | none => none
    | some i =>
      match X[i]? with
      | none => none
      | some c => moreCentres X s c0 k tape (cs ++ [c]) (picks ++ [i])

/-- all `K` centres of the weighted k-means++ draw (`K ≥ 1`) -/
def centres (X : Mat α) (s : List α) (K : Nat) (tape : List α) : Option (Mat α × List Nat × List α) :=
  match K, tape with
  | 0, _ => none
  | _, [] => none
  | K + 1, u :: tape =>
    match pickIdx s u with
    | none => none
    | some i =>
      match X[i]? with
      | none => none
      | some c0 =>
        (moreCentres X s c0 K tape [] [i]).map fun r => (c0 :: r.1, r.2.1, r.2.2)

/-- `log_resp[:, k] = -0.5 * np.sum((X - means[k]) ** 2, axis=1)` -/
def logResp (X : Mat α) (cs : Mat α) : Mat α :=
  X.map fun x => cs.map fun c => Sc.mul (Sc.neg half) (sqdist x c)

/-- `_initialize_parameters`: parameters, chosen indices, unused tape -/
def initFit (c : Cfg α) (X : Mat α) (s : List α) (tape : List α) : Option (MStep α × List Nat × List α) :=
  (centres X s c.K tape).map fun r => (initParams c.tiny c.eps c.d c.K X (logResp X r.1) s, r.2.1, r.2.2)

/-! ### `fit` -/

/-- `lower_bound > best_lower_bound` with `none` = `-inf` on either side (a NaN bound never wins) -/
def better : Option α → Option α → Bool
  | none, _ => false
  | some l, none => Sc.le l l
  | some l, some b => Sc.lt b l

structure Best (α : Type) where
  params : MStep α
  nIter : Nat
  lb : α

structure FitOut (α : Type) where
  params : MStep α
  nIter : Nat
  converged : Bool
  lb : α
  /-- the k-means++ indices of every restart (observation only) -/
  picks : List (List Nat)

/-- `for init in range(n_init)` -/
def fitInits (c : Cfg α) (X : Mat α) (s : List α) :
    Nat → List α → Option (Best α) → List (List Nat) → Option (Option (Best α) × List (List Nat))
  | 0, _, best, picks => some (best, picks)
  | n + 1, tape, best, picks =>
    match initFit c X s tape with
    | none => none
    | some (p0, pk, tape') =>
      match emLoop c X s c.maxIter 0 none p0 with
      | none => none
      | some o =>
        let best' := if better o.lb (best.map (·.lb)) then
            (match o.lb with | some l => some ⟨o.params, o.iter + 1, l⟩ | none => best) else best
        fitInits c X s n tape' best' (picks ++ [pk])

/-- `sample_weight / np.sum(sample_weight)` -/
def normWeights (w : List α) : List α := let t := Sc.sum w; w.map fun x => Sc.div x t

/-- `GaussianMixture.fit(X, sample_weight=w)`; `none` = the Python raises (e.g. `best_params` is still `None`) -/
def fit (c : Cfg α) (X : Mat α) (w : List α) (tape : List α) : Option (FitOut α) :=
  match fitInits c X (normWeights w) c.nInit tape none [] with
  | none => none
  | some (none, _) => none
  | some (some b, picks) => some ⟨b.params, b.nIter, decide (b.nIter < c.maxIter), b.lb, picks⟩

/-! ### `predict` and `bic` -/

/-- a double that is `-inf` (`a < 0` and `a - a` is NaN); never true of a real number -/
def isNegInf (a : α) : Bool := Sc.lt a Sc.zero && !(Sc.le (Sc.sub a a) (Sc.sub a a))

/-- `x <= y` on values where `none` stands for `-inf` (IEEE: false when either side is NaN) -/
def leO : Option α → Option α → Bool
  | none, none => true
  | none, some y => Sc.le y y
  | some x, none => isNegInf x
  | some x, some y => Sc.le x y

def isNaNO : Option α → Bool
  | none => false
  | some x => !(Sc.le x x)

variable {β : Type}

/-- `np.argmax` as numpy computes it on doubles: a later entry wins iff `!(x <= best)`; the first NaN wins outright -/
def npArgmaxFrom (le : β → β → Bool) (nan : β → Bool) : (i bestIdx : Nat) → (bestVal : β) → List β → Nat
  | _, bi, _, [] => bi
  | i, bi, bv, x :: xs =>
    if !(le x bv) then (if nan x then i else npArgmaxFrom le nan (i + 1) i x xs)
    else npArgmaxFrom le nan (i + 1) bi bv xs

def npArgmax (le : β → β → Bool) (nan : β → Bool) : List β → Option Nat
  | [] => none
  | x :: xs => some (if nan x then 0 else npArgmaxFrom le nan 1 0 x xs)

/-- `np.argmin`: a later entry wins iff `!(x >= best)` -/
def npArgminFrom (le : β → β → Bool) (nan : β → Bool) : (i bestIdx : Nat) → (bestVal : β) → List β → Nat
  | _, bi, _, [] => bi
  | i, bi, bv, x :: xs =>
    if !(le bv x) then (if nan x then i else npArgminFrom le nan (i + 1) i x xs)
    else npArgminFrom le nan (i + 1) bi bv xs

def npArgmin (le : β → β → Bool) (nan : β → Bool) : List β → Option Nat
  | [] => none
  | x :: xs => some (if nan x then 0 else npArgminFrom le nan 1 0 x xs)

/-- column k of `log_probabilities` in `GaussianMixture.predict`: `np.log(weights_[k] + 1e-10) + logpdf`, or `-inf` -/
def predictCol (sing : Mat α → Bool) (reg eps : α) (d : Nat) (n : Nat) (w : α) (m : List α) (C : Mat α) (X : Mat α) :
    List (Option α) :=
  match logpdfCol sing d (addDiag reg C) m X with
  | some l => l.map fun t => some (Sc.add (ScT.log (Sc.add w eps)) t)
  | none => List.replicate n none

/-- `GaussianMixture.predict(X)` -/
def predict (c : Cfg α) (p : MStep α) (X : Mat α) : List (Option Nat) :=
  let cols := (List.zip p.weights (List.zip p.means (covMats c.diagT p))).map fun t =>
    predictCol c.sing c.reg c.eps c.d X.length t.1 t.2.1 t.2.2 X
  (List.range X.length).map fun i => npArgmax leO isNaNO (col cols i)

/-- the number of free parameters, as the float the Python computes:
    `(K - 1) + K d + K d (d + 1) / 2` ('full'), `(K - 1) + K d + K d` ('diag') -/
def nParameters (diagT : Bool) (K d : Nat) : α :=
  let covp : α := if diagT then Sc.ofNat (K * d) else Sc.div (Sc.ofNat (K * d * (d + 1))) Sc.two
  Sc.add (Sc.ofNat ((K - 1) + K * d)) covp

/-- `GaussianMixture.bic(X)` -/
def bic (c : Cfg α) (p : MStep α) (X : Mat α) : α :=
  let n : α := Sc.ofNat X.length
  let u := List.replicate X.length (Sc.div Sc.one n)
  let ll := Sc.mul (lowerBound c.sing c.reg c.eps c.d p.weights p.means (covMats c.diagT p) X u) n
  Sc.add (Sc.mul (Sc.neg Sc.two) ll) (Sc.mul (nParameters c.diagT c.K c.d) (ScT.log n))

end Model.GMM
