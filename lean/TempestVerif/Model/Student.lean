import TempestVerif.Sc
/-
  Executable twin of `tempest/student.py: fit_mvstud` (C19), polymorphic in the scalar.

  Layout follows the Python after `data = data.T`: the data are `dim` columns `X[a]` of `n` numbers.
  Vectors are lists, matrices lists of rows.  `np.linalg.solve(Sigma, diffs)` is modelled by the
  Gauss–Jordan inverse without pivoting (a non-positive pivot makes `inv` answer `none`, never a default value).
  `opt_nu` (scipy's `psi` + `bisect` on `[1e-300, nu_max = 1e6]`, `inf` when `func0(nu_max) >= 0`) is NOT modelled:
  the answer of every iteration is supplied from outside as a tape event (`NuEv`): a value, `inf` (early return)
  or `fail` (`bisect` raised `ValueError`, caught by the loop).
  `np.linalg.solve` raising `LinAlgError` is modelled by `inv` answering `none`; `np.linalg.cholesky(new_Sigma)`
  succeeding is modelled by `inv new_Sigma` being defined (all pivots `> 0`: the same criterion in exact arithmetic).

  Python (student.py, commit 3acbd02):
      mu = median(data, 1);  Sigma = cov(data)*(n-1)/n + (1/n)*diag(var(data, 1));  nu = 20; last_nu = 0; i = 0
      while |last_nu - nu| > tol and i < max_iter:
          i += 1; diffs = data - mu
          try:    delta = sum(diffs * solve(Sigma, diffs), 0); new_nu = opt_nu(delta, nu)
          except (LinAlgError, ValueError): break                       -- keep the last (mu, Sigma, nu)
          last_nu = nu; nu = new_nu;  if nu == inf: return mu, Sigma, nu
          w = (nu + dim)/(nu + delta);  new_Sigma = dot(w*diffs, diffs.T)/n
          try:    cholesky(new_Sigma)
          except LinAlgError: nu = last_nu; break                       -- previous nu, previous (mu, Sigma)
          Sigma = new_Sigma;  mu = sum(w*data, 1)/sum(w)
      if i == max_iter: print warning
      return mu, Sigma, nu
  and `modes.py`: `if ~np.isfinite(dof): dof = dof_fallback`.
-/
namespace Model.Student
variable {α : Type} [Sc α]

abbrev Mat (α : Type) := List (List α)

def vadd (a b : List α) : List α := List.zipWith Sc.add a b
def vmul (a b : List α) : List α := List.zipWith Sc.mul a b
def dot (a b : List α) : α := Sc.sum (vmul a b)
def smul (c : α) (a : List α) : List α := a.map (Sc.mul c)
/-- `Σ_k cs[k] · vs[k]` for vectors of length `n` -/
def lincomb (n : Nat) (cs : List α) (vs : Mat α) : List α :=
  (List.zipWith smul cs vs).foldl vadd (List.replicate n Sc.zero)

/-! ### inverse of a symmetric positive definite matrix (Gauss–Jordan, no pivoting) -/

def identRow (d k : Nat) : List α := (List.range d).map fun j => if j == k then Sc.one else Sc.zero

/-- eliminate column `k` of the augmented rows `M` with pivot row `k`; `none` if the pivot is not `> 0`
    or the shape is wrong -/
def gjStep (k : Nat) (M : Mat α) : Option (Mat α) := do
  let rk ← M[k]?
  let p ← rk[k]?
  if Sc.lt Sc.zero p then
    let rk' := rk.map (fun x => Sc.div x p)
    M.zipIdx.mapM fun (ri, i) =>
      if i == k then some rk' else do
        let f ← ri[k]?
        some (List.zipWith (fun x y => Sc.sub x (Sc.mul f y)) ri rk')
  else none

/-- pivots `k, k+1, …, k+fuel-1` -/
def gj : Nat → Nat → Mat α → Option (Mat α)
  | 0, _, M => some M
  | f+1, k, M => (gjStep k M).bind (gj f (k+1))

def inv (S : Mat α) : Option (Mat α) :=
  let d := S.length
  if S.all (fun r => r.length == d) then
    (gj d 0 (S.zipIdx.map fun (r, i) => r ++ identRow d i)).map fun M => M.map (List.drop d)
  else none

/-! ### initialisation -/

def mean (l : List α) : α := Sc.div (Sc.sum l) (Sc.ofNat l.length)

/-- `np.median` of a non-empty list: middle order statistic, or the mean of the two middle ones -/
def median (l : List α) : Option α :=
  let s := l.mergeSort (fun a b => Sc.le a b)
  let n := s.length
  if n == 0 then none
  else if n % 2 == 1 then s[n / 2]?
  else do
    let a ← s[n / 2 - 1]?
    let b ← s[n / 2]?
    some (Sc.div (Sc.add a b) Sc.two)

structure State (α : Type) where
  mu : List α
  sigma : Mat α

def center (col : List α) : List α := let m := mean col; col.map fun x => Sc.sub x m

/-- `np.cov(data)*(n-1)/n + (1/n)*np.diag(np.var(data, axis=1))` on the columns `X` (`n ≥ 2` points each) -/
def initSigma (n : Nat) (X : Mat α) : Mat α :=
  let nn : α := Sc.ofNat n
  let n1 : α := Sc.ofNat (n - 1)
  let C := X.map center
  C.zipIdx.map fun (ca, a) => C.zipIdx.map fun (cb, b) =>
    let cov := Sc.div (dot ca cb) n1
    let var := if a == b then Sc.div (dot ca ca) nn else Sc.zero
    Sc.add (Sc.div (Sc.mul cov n1) nn) (Sc.mul (Sc.div Sc.one nn) var)

def init (n : Nat) (X : Mat α) : Option (State α) :=
  if n < 2 || !(X.all (fun c => c.length == n)) then none else do
    let mu ← X.mapM median
    some ⟨mu, initSigma n X⟩

/-! ### loop body -/

def diffs (X : Mat α) (mu : List α) : Mat α :=
  List.zipWith (fun col m => col.map fun x => Sc.sub x m) X mu

/-- `delta_i = d_iᵀ Σ⁻¹ d_i`, given `Σ⁻¹` -/
def deltas (n : Nat) (D : Mat α) (Sinv : Mat α) : List α :=
  let sol := Sinv.map fun row => lincomb n row D
  (List.zipWith vmul D sol).foldl vadd (List.replicate n Sc.zero)

def weights (dim : Nat) (nu : α) (dl : List α) : List α :=
  dl.map fun δ => Sc.div (Sc.add nu (Sc.ofNat dim)) (Sc.add nu δ)

/-- the `Sigma`/`mu` update of one iteration once `nu` is known -/
def update (n : Nat) (X : Mat α) (D : Mat α) (w : List α) : State α :=
  let nn : α := Sc.ofNat n
  let sigma := D.map fun da => let wd := vmul w da; D.map fun db => Sc.div (dot wd db) nn
  let sw := Sc.sum w
  ⟨X.map fun col => Sc.div (Sc.sum (vmul w col)) sw, sigma⟩

/-- the `delta`s the iteration starting at `st` sees (`none`: `Sigma` not numerically positive definite) -/
def stateDeltas (n : Nat) (X : Mat α) (st : State α) : Option (List α) :=
  (inv st.sigma).map fun Sinv => deltas n (diffs X st.mu) Sinv

/-- one ECME iteration with the value of `nu` supplied -/
def step (n : Nat) (X : Mat α) (st : State α) (nu : α) : Option (State α) :=
  (stateDeltas n X st).map fun dl => update n X (diffs X st.mu) (weights X.length nu dl)

inductive Stop where
  | converged      -- `|last_nu - nu| <= tol` with iterations to spare
  | maxIter        -- `i == max_iter` at the loop test
  | infNu          -- `opt_nu` answered inf: early return
  | tapeEnd        -- (driver only) the supplied tape was too short
  | notPD          -- `solve(Sigma, diffs)` raised: stop BEFORE any update, last (mu, Sigma, nu) kept
  | nuFail         -- `opt_nu` raised (`bisect` `ValueError`): same effect as `notPD`
  | sigmaNotPD     -- `cholesky(new_Sigma)` raised: the PREVIOUS nu and the previous (mu, Sigma) are kept
  deriving Repr, DecidableEq

/-- what `opt_nu` did in one iteration -/
inductive NuEv (α : Type) where
  | val (x : α)
  | inf
  | fail

structure Result (α : Type) where
  iterates : List (State α)      -- every (mu, Sigma) the loop went through, the initial one first
  stop : Stop
  nu : Option α                  -- final value, `none` = inf
  warned : Bool                  -- `i == max_iter` when the function returns normally (warning printed)

/-- `fuel = max_iter - i`.  `tape`: what `opt_nu` did, one event per iteration. -/
def loop (tol : α) (n : Nat) (X : Mat α) : Nat → State α → α → α → List (NuEv α) → Result α
  | 0, st, nu, _, _ => ⟨[st], .maxIter, some nu, true⟩
  | fuel+1, st, nu, lastNu, tape =>
    if Sc.lt tol (Sc.abs (Sc.sub lastNu nu)) then
      match stateDeltas n X st with
      | none => ⟨[st], .notPD, some nu, fuel == 0⟩
      | some dl =>
        match tape with
        | [] => ⟨[st], .tapeEnd, some nu, fuel == 0⟩
        | .fail :: _ => ⟨[st], .nuFail, some nu, fuel == 0⟩
        | .inf :: _ => ⟨[st], .infNu, none, false⟩
        | .val nu' :: rest =>
          let st' := update n X (diffs X st.mu) (weights X.length nu' dl)
          match inv st'.sigma with
          | none => ⟨[st], .sigmaNotPD, some nu, fuel == 0⟩
          | some _ =>
            let r := loop tol n X fuel st' nu' nu rest
            ⟨st :: r.iterates, r.stop, r.nu, r.warned⟩
    else ⟨[st], .converged, some nu, false⟩

/-- `fit_mvstud(data, tol, max_iter)` with the `opt_nu` events on a tape -/
def fit (tol : α) (maxIter : Nat) (n : Nat) (X : Mat α) (tape : List (NuEv α)) : Option (Result α) :=
  (init n X).map fun st => loop tol n X maxIter st (Sc.ofNat 20) Sc.zero tape

/-! ### `if ~np.isfinite(dof): dof = dof_fallback`  (modes.py) -/

/-- what `fit_mvstud` can hand back as degrees of freedom: a finite number, `inf`, or NaN -/
inductive Dof (α : Type) where
  | fin (x : α)
  | inf
  | nan

def Dof.isFinite : Dof α → Bool
  | .fin _ => true
  | _ => false

/-- the `dof` variable after the fallback statement (`fb` is the configured finite fallback) -/
def applyFallback (fb : α) (t : Dof α) : Dof α :=
  if !t.isFinite then .fin fb else t

end Model.Student
