import TempestVerif.Model.Weights
/-
  KEY-LEVEL model of `StateManager.compute_logw_and_logz` and of the glue around it (C04, second clause pass).

  `Model.Weights.logw` takes the history as ONE list of batches `(beta_t, logz_t, logl_t)`.  The real object stores
  three INDEPENDENT per-key lists (`_history["beta"]`, `_history["logz"]`, `_history["logl"]`) which
  `commit_current_to_history` extends key by key, skipping `None` values, and which `update_from_dict` replaces
  wholesale; the function then re-associates them by position.  Here that re-association is modelled statement by
  statement, including every branch that is taken when the three lists do NOT line up:

      beta = np.asarray(self.get_history("beta"))
      if beta.size == 0: return np.array([]), -np.inf                 -- whatever the other keys hold
      logz_iter = np.asarray(self.get_history("logz"))
      logl_all = self.get_history("logl", flat=True)                  -- np.concatenate([]) : ValueError
      A = logl_all * beta_final
      n_per_iter = np.array([len(logl_per_iter[t]) for t in range(len(beta))])    -- IndexError when fewer arrays than betas
      N_total = n_per_iter.sum()                                      -- only the first len(beta) arrays are counted
      b = logl_all[:, None] * beta[None, :] - logz_iter[None, :]      -- numpy broadcasting of (T,) against (Z,)
      b_weighted = b + (np.log(n_per_iter) - np.log(N_total))[None, :]
      B = np.logaddexp.reduce(b_weighted, axis=1)
      logw = A - B;  logz_new = np.logaddexp.reduce(logw) - np.log(logw.size)     -- logw.size = ALL flattened particles
      if normalize and logw.size: logw = logw - np.logaddexp.reduce(logw)

  and `compute_results` with its cache `_results_dict` (state_manager.py:483-505):

      if self._results_dict is None:
          self._results_dict = dict()                                 -- assigned BEFORE it is filled
          for key in self._history.keys(): self._results_dict[key] = self.get_history(key)   -- np.array(list): ValueError if ragged
          logw, _ = self.compute_logw_and_logz(1.0);  self._results_dict["logw"] = logw
      return {copies}

  `_invalidate_cache()` (`_results_dict = None`) is called by `set_current`, `update_current`,
  `commit_current_to_history`, `update_from_dict`.  Core Lean only.
-/
namespace Model.WeightsKeys
open Model.Weights

/-- the three per-key history lists the function reads -/
structure KHist (α : Type) where
  beta : List α
  logz : List α
  logl : List (List α)
deriving Repr

/-- what a call does: returns `(logw, logz_new)` (`z = none` where Python's value is non-finite by construction, as in
    `Model.Weights.finish`), raises, or leaves the domain of the scalar model -/
inductive Out (α : Type) where
  | ok (w : List α) (z : Option α)
  | valueError       -- `np.concatenate([])`; operands could not be broadcast together
  | indexError       -- `logl_per_iter[t]` with fewer stored arrays than stored betas
  | outside          -- zero mixture columns (one beta, no logz): `B = −inf` by the ufunc identity, `logw = +inf`
deriving Repr

/-- numpy broadcasting of two 1-D shapes -/
def bshape (a b : Nat) : Option Nat :=
  if a = b then some a else if a = 1 then some b else if b = 1 then some a else none

/-- a 1-D array viewed with `n` columns: itself, or its single element repeated -/
def bcast {γ : Type} (xs : List γ) (n : Nat) : Option (List γ) :=
  if xs.length = n then some xs else
  match xs with
  | [x] => some (List.replicate n x)
  | _ => none

/-- one column of `b_weighted`: its temperature, evidence value and batch size -/
structure Col (α : Type) where
  beta : α
  logz : α
  n : Nat
deriving Repr

def cols {α : Type} : List α → List α → List Nat → List (Col α)
  | b :: bs, z :: zs, n :: ns => ⟨b, z, n⟩ :: cols bs zs ns
  | _, _, _ => []

variable {α : Type} [ScT α]

/-- `b_weighted[s, j] = (logl_s * beta_j - logz_j) + (log n_j - log N)` -/
def entryK (logN l : α) (c : Col α) : α :=
  Sc.add (Sc.sub (Sc.mul l c.beta) c.logz) (Sc.sub (ScT.log (Sc.ofNat c.n)) logN)

/-- `logw = A - B` over all flattened particles; `none` when there is no column to reduce over -/
def rawK (cs : List (Col α)) (logN : α) (ls : List α) (betaF : α) : Option (List α) :=
  match cs with
  | [] => none
  | c0 :: cr =>
    some (ls.map fun l => Sc.sub (Sc.mul l betaF) (logaddexpReduce1 (entryK logN l c0) (cr.map (entryK logN l))))

/-- `compute_logw_and_logz(beta_final, normalize)` on the three per-key lists -/
def logwK (k : KHist α) (betaF : α) (normalize : Bool) : Out α :=
  if k.beta.isEmpty then .ok [] none
  else if k.logl.isEmpty then .valueError
  else if k.logl.length < k.beta.length then .indexError
  else
    let T := k.beta.length
    let nPer := (k.logl.take T).map List.length
    match bshape T k.logz.length with
    | none => .valueError
    | some C =>
      match bcast k.beta C, bcast k.logz C, bcast nPer C with
      | some bs, some zs, some ns =>
        match rawK (cols bs zs ns) (ScT.log (Sc.ofNat nPer.sum)) k.logl.flatten betaF with
        | none => .outside
        | some raw => .ok (finish raw normalize).1 (finish raw normalize).2
      | _, _, _ => .valueError     -- not reachable: `bshape` succeeded (theorem `C04K_bcast_total`)

/-- the per-key lists of a history in which every iteration stored all three values -/
def ofBatches (h : List (Batch α)) : KHist α := ⟨h.map (·.beta), h.map (·.logz), h.map (·.logl)⟩

/-! ### `_current` and `commit_current_to_history` (the three keys read here) -/

structure KCur (α : Type) where
  beta : Option α
  logz : Option α
  logl : Option (List α)
deriving Repr

def appendSome {γ : Type} (h : List γ) : Option γ → List γ
  | some v => h ++ [v]
  | none => h

/-- `for key …: if value is not None: self._history[key].append(copy(value))` -/
def commitK (c : KCur α) (k : KHist α) : KHist α :=
  ⟨appendSome k.beta c.beta, appendSome k.logz c.logz, appendSome k.logl c.logl⟩

/-! ### the cache of `compute_results` -/

/-- `np.array(list_of_1d_arrays)` raises `ValueError` exactly when the arrays differ in length -/
def ragged {γ : Type} : List (List γ) → Bool
  | [] => false
  | l :: r => r.any fun m => m.length != l.length

/-- what the cached / returned dictionary holds under `"logw"` -/
inductive Entry (α : Type) where
  | nologw                      -- no `"logw"` key (what an exception inside the filling loop leaves behind)
  | logw (w : List α)
  | outside                     -- a `"logw"` array that is NaN by construction (zero mixture columns: `inf − inf`)
deriving Repr

/-- the manager as far as `compute_results()["logw"]` can see it.  `cache = none`: `_results_dict is None`. -/
structure SMK (α : Type) where
  cur : KCur α
  hist : KHist α
  cache : Option (Entry α)

def SMK.init : SMK α := ⟨⟨none, none, none⟩, ⟨[], [], []⟩, none⟩

inductive Res (α : Type) where
  | dict (e : Entry α)          -- a dictionary is returned
  | raised
deriving Repr

/-- `compute_results()`: new state and what the caller gets -/
def computeResults (s : SMK α) : SMK α × Res α :=
  match s.cache with
  | some d => (s, .dict d)
  | none =>
    if ragged s.hist.logl then ({ s with cache := some .nologw }, .raised)
    else
      match logwK s.hist Sc.one true with
      | .ok w _ => ({ s with cache := some (.logw w) }, .dict (.logw w))
      | .outside => ({ s with cache := some .outside }, .dict .outside)
      | _ => ({ s with cache := some .nologw }, .raised)

inductive Op (α : Type) where
  | setBeta (v : Option α)
  | setLogz (v : Option α)
  | setLogl (v : Option (List α))
  | commit
  | load (k : KHist α)          -- `update_from_dict({"_history": {...}})` with these three keys
  | roundtrip                   -- `StateManager.from_dict(self.to_dict())` / `save_state` + `load_state` into a new manager:
                                --   current values and history are copied, the new object starts with an empty cache
  | results                     -- `compute_results()`
  | weights (beta : α) (normalize : Bool)     -- `compute_logw_and_logz(beta, normalize)`

/-- what an observing operation shows the caller -/
inductive Obs (α : Type) where
  | res (r : Res α)
  | out (o : Out α)

def step (s : SMK α) : Op α → SMK α × Option (Obs α)
  | .setBeta v => ({ s with cur := { s.cur with beta := v }, cache := none }, none)
  | .setLogz v => ({ s with cur := { s.cur with logz := v }, cache := none }, none)
  | .setLogl v => ({ s with cur := { s.cur with logl := v }, cache := none }, none)
  | .commit => ({ s with hist := commitK s.cur s.hist, cache := none }, none)
  | .load k => ({ s with hist := k, cache := none }, none)
  | .roundtrip => ({ s with cache := none }, none)
  | .results => ((computeResults s).1, some (.res (computeResults s).2))
  | .weights b n => (s, some (.out (logwK s.hist b n)))

/-- a sequence of calls: final state and everything the caller observed, in order -/
def runOps : SMK α → List (Op α) → SMK α × List (Obs α)
  | s, [] => (s, [])
  | s, op :: ops =>
    let r := step s op
    let q := runOps r.1 ops
    (q.1, match r.2 with | some o => o :: q.2 | none => q.2)

end Model.WeightsKeys
