import TempestVerif.Model.Pipeline
import TempestVerif.Model.Trim
import TempestVerif.Model.Run
import TempestVerif.Model.Steps
import TempestVerif.Model.Kernel
import TempestVerif.Model.Posterior
/-
  CLOSED-LOOP model of a whole seeded run (`SamplerCore.run_sampling`), property C10.

  `Model.Pipeline` takes the proposals, their log-likelihoods and the NUMBER of accept/reject steps from a tape.
  In the real sampler none of these is an input: the proposals are produced from the mode statistics the trainer
  fitted to the (trimmed) weights, from the adapted step sizes `sigmas` and from the random stream; the number of
  steps is decided by `_check_convergence` from the accept mask and the step sizes; the number of iterations by
  `_not_termination`.  Here all of that is INSIDE the model.  What stays abstract is a `World`:

      like        the user's log-likelihood on a particle record (`none` = −inf)
      priorDraw   `np.random.rand(n, d)` + `prior_transform` (+ blobs): n fresh records
      choice      `np.random.choice(finite_idx, size=k)`
      resampleU   the resampling uniforms (`np.random.random()` / `random_sample(n)`)
      train       `Trainer.run` after the trimming: clustering / Student-t fit (stateful: the shared clusterer)
      predict     `clusterer.predict(u_resampled)` (zeros when clustering is off)
      modeIndex   `ModeStatistics.mode_index`
      propose     `_propose` for every walker + `check_bounds` + `_compute_acceptance_factor`
      unif        `np.random.rand(n_walkers)`
      volvar      `tools.volume_variation(u_history, normalised weights)`  (the extra β argument is only there so
                  that a recorded table can be looked up by β; a world may ignore it)

  all of them arbitrary FUNCTIONS of what the Python passes to them (and of the generator state `G`, which is
  threaded through every random call in program order).  No function except `like` sees a log-likelihood.

  Statement-by-statement sources: core.py `run_sampling`, `execute_iteration`, `_not_termination`;
  steps/reweight.py (through `Model.Reweight.run`), steps/train.py, steps/resample.py, steps/mutate.py;
  mcmc.py `BaseMCMCRunner.run`, `_calculate_adaptive_steps`, `_adapt_sigma` (generated expressions of `Gen.Kernel`).
-/
namespace Model.ClosedLoop
open Model.Weights Model.Reweight Model.Resample Model.Ess Model.Records Model.Pipeline

structure World (α P MS TS G : Type) where
  like : P → Option α
  priorDraw : G → Nat → List P × G
  choice : G → List Nat → Nat → List Nat × G
  resampleU : G → Nat → List α × G
  /-- `(trimmed pool records, trimmed weights, beta, iter)` → mode statistics, new clusterer state, generator -/
  train : TS → G → List P → List α → α → Nat → MS × TS × G
  /-- the dummy `ModeStatistics` returned at beta = 0 -/
  dummy : MS
  predict : TS → List P → List Nat
  /-- `(index, labels)` -/
  modeIndex : MS → List Nat → List P → List Nat × List Nat
  nModes : MS → Nat
  /-- per walker: the point handed to transform/likelihood, the Hastings log-factor, `in_bounds` -/
  propose : MS → List α → List Nat → List P → G → List (P × α × Bool) × G
  unif : G → Nat → List α × G
  volvar : List P → List α → α → α

/-- one committed iteration: every key of `HISTORY_STATE_KEYS` (`u`, `x`, `blobs` together are the record `P`) -/
structure CBatch (α P : Type) where
  beta : α
  logz : α
  ess : α
  pts : List P
  logl : List α
  iter : Nat
  calls : Nat
  steps : Nat
  acceptance : α
  efficiency : α

/-- the `StateManager` (current values + history) together with the two pieces of state outside it that a run
    carries from one iteration to the next: the shared clusterer (`ts`) and the random stream (`g`) -/
structure CState (α P TS G : Type) where
  hist : List (CBatch α P)
  beta : α
  logz : α
  ess : α
  iter : Nat
  calls : Nat
  cur : List P
  curL : List α
  assign : List Nat
  steps : Nat
  acceptance : α
  efficiency : α
  ts : TS
  g : G

structure CCfg (α : Type) where
  rw : Reweight.Cfg α
  syst : Bool            -- resample == "syst"
  tpcn : Bool            -- sample == "tpcn"
  nSteps : Nat
  nMax : Nat
  nDim : Nat
  sigma0 : α             -- 2.38 / sqrt(n_dim)
  trimEss : α            -- TRIM_ESS
  trimBins : Nat         -- TRIM_BINS
  tolTerm : α            -- the literal 1e-4 of `_not_termination`
  nTotal : α
  mcFuel : Nat

variable {α P MS TS G : Type} [ScT α]

def toBatch (b : CBatch α P) : Batch α := ⟨b.beta, b.logz, b.logl⟩
def batchesOf (h : List (CBatch α P)) : List (Batch α) := h.map toBatch
/-- `get_history("u", flat=True)` (and `x`, `blobs`: the same records) -/
def poolOf (h : List (CBatch α P)) : List P := h.flatMap (·.pts)

/-! ### `Reweighter._compute_metric_and_weights` in both metric modes -/

/-- ESS mode: `Model.Pipeline.oracleM`.  Volume-variation mode: same weights and ESS, the metric is
    `volume_variation(u_history, weights / np.sum(weights))` -/
def oracleMV (W : World α P MS TS G) (vv : Option α) (pool : List P) (h : List (Batch α)) (beta : α) :
    List α × α × α :=
  let r := oracleM h beta
  match vv with
  | none => r
  | some _ => (r.1, r.2.1, W.volvar pool (normalise r.1) beta)

def reweightStep (W : World α P MS TS G) (c : CCfg α) (s : CState α P TS G) : RunOut α (List α) :=
  let hb := batchesOf s.hist
  Reweight.run c.rw hb.isEmpty (oracleMV W c.rw.vv (poolOf s.hist) hb) (oracleZ hb) isFin s.beta

/-! ### `Trainer.run` -/

/-- what `Trainer.run(weights)` hands to the clusterer / Student-t fit: `u_history[trim_idx]`, the trimmed weights -/
def trainInput (c : CCfg α) (w : List α) (pool : List P) : Option (List P × List α) :=
  (Model.Trim.trim (List.range w.length) w c.trimEss c.trimBins).bind fun t =>
    (gather? pool t.1).map fun u => (u, t.2)

def trainStep (W : World α P MS TS G) (c : CCfg α) (ts : TS) (g : G) (w : List α) (pool : List P) (beta : α)
    (iter : Nat) : Option (MS × TS × G) :=
  if Reweight.eqv beta Sc.zero then some (W.dummy, ts, g)
  else (trainInput c w pool).map fun t => W.train ts g t.1 t.2 beta iter

/-! ### `Resampler.run` (beta > 0) -/

structure Resampled (α P G : Type) where
  idx : List Nat
  pts : List P
  logl : List α
  assign : List Nat
  g : G

def resampleStep (W : World α P MS TS G) (c : CCfg α) (h : List (CBatch α P)) (w : List α) (ts : TS) (g : G) :
    Option (Resampled α P G) :=
  let n := c.rw.nPart
  let ug := W.resampleU g (if c.syst then 1 else n)
  let idx? := if c.syst then (match ug.1 with | [u0] => systematic n w u0 | _ => none) else multinomial w ug.1
  idx?.bind fun idx =>
    (gather? (poolOf h) idx).bind fun pts =>
      (gather? (flatLogl (batchesOf h)) idx).map fun l =>
        ⟨idx, pts, l, W.predict ts pts, ug.2⟩

/-! ### `Mutator.run` at beta = 0 -/

structure Drawn (α P G : Type) where
  pts : List P
  logl : List α
  /-- `some z`: the warm-up correction `log(n_finite / n_drawn)` overwrites the evidence -/
  logz : Option α
  /-- `n_drawn`: every prior draw evaluated, the discarded all-(−inf) batches included (`calls += n_drawn`) -/
  drawn : Nat
  g : G

/-- the literal `1000` of `if n_drawn >= 1000 * self.n_particles: raise ValueError` -/
def drawCap : Nat := 1000

/-- the first draw and the redraw loop
        u = rand(n, d); x = …; logl = like(x); n_drawn = n
        while np.all(np.isinf(logl)):
            if n_drawn >= 1000 * n: raise ValueError
            u = rand(n, d); x = …; logl = like(x); n_drawn += n
    `drawn` = draws made before this call; result `(records, logl, n_drawn, generator)`; `none` = the ValueError.
    The fuel is the number of batches that may still be drawn: `drawCap` suffices (`Props.C10.drawLoop_fuel`). -/
def drawLoop (W : World α P MS TS G) (n : Nat) : Nat → G → Nat → Option (List P × List (Option α) × Nat × G)
  | 0, _, _ => none
  | fuel + 1, g, drawn =>
    let dg := W.priorDraw g n
    let ls := dg.1.map W.like
    let nd := drawn + n
    if countSome ls = 0 then
      (if nd ≥ drawCap * n then none else drawLoop W n fuel dg.2 nd)
    else some (dg.1, ls, nd, dg.2)

/-- `Mutator.run` at beta = 0 after the draw loop: the replacement branch is taken when the kept batch has a −inf draw
    OR batches were discarded (`np.any(inf_logl_mask) or n_drawn > n_particles`); `np.random.choice` is called only when
    there is something to replace; the correction is `log(n_finite / n_drawn)` -/
def warmupStep (W : World α P MS TS G) (c : CCfg α) (g : G) : Option (Drawn α P G) :=
  let n := c.rw.nPart
  (drawLoop W n drawCap g 0).bind fun d =>
    let pts := d.1
    let ls := d.2.1
    let nd := d.2.2.1
    let nfin := countSome ls
    if nfin < ls.length || n < nd then
      let infIdx := (List.range ls.length).filter fun i => !((ls[i]?).join.isSome)
      let finIdx := (List.range ls.length).filter fun i => (ls[i]?).join.isSome
      let z := ScT.log (Sc.div (Sc.ofNat nfin) (Sc.ofNat nd))
      if infIdx.length > 0 then
        let cg := W.choice d.2.2.2 finIdx infIdx.length
        (allSome (scatterFrom ls infIdx cg.1)).map fun l => ⟨scatterFrom pts infIdx cg.1, l, some z, nd, cg.2⟩
      else (allSome ls).map fun l => ⟨pts, l, some z, nd, d.2.2.2⟩
    else (allSome ls).map fun l => ⟨pts, l, none, nd, d.2.2.2⟩

/-! ### `BaseMCMCRunner.run` -/

/-- one walker: `(new record, new logl, alpha, accepted)`.  An out-of-cube proposal has `alpha = 0`; a proposal of
    likelihood zero has `alpha = exp(−inf) = 0`; the Metropolis uniforms are non-negative, so neither is accepted. -/
def stepOne (W : World α P MS TS G) (beta : α) (pt : P) (l : α) (q : P × α × Bool) (r : α) : P × α × α × Bool :=
  if q.2.2 then
    match W.like q.1 with
    | none => (pt, l, Sc.zero, false)
    | some lp =>
      let a := Gen.Kernel.acceptProb beta l lp q.2.1
      let acc := Gen.Kernel.acceptDecision r a
      (if acc then q.1 else pt, if acc then lp else l, a, acc)
  else (pt, l, Gen.Kernel.alphaOutOfBounds (Sc.zero : α), false)

def stepAll (W : World α P MS TS G) (beta : α) : List P → List α → List (P × α × Bool) → List α →
    List P × List α × List α × List Bool
  | pt :: pts, l :: ls, q :: qs, r :: rs =>
    let x := stepOne W beta pt l q r
    let y := stepAll W beta pts ls qs rs
    (x.1 :: y.1, x.2.1 :: y.2.1, x.2.2.1 :: y.2.2.1, x.2.2.2 :: y.2.2.2)
  | pts, ls, _, _ => (pts, ls, [], [])

/-- `for c in range(n_clusters): mask = assignments == c; if not any(mask): continue; _adapt_sigma(c, alpha[mask].mean())` -/
def adaptSigmas (tpcn : Bool) (sigma0 : α) (k : Nat) (asg : List Nat) (alphas sigmas : List α) : List α :=
  sigmas.mapIdx fun c sg =>
    let a := Model.Kernel.clusterAlphas asg alphas c
    if a.isEmpty then sg
    else if tpcn then Gen.Kernel.tpcnAdapt sg (Sc.ofNat k) (Model.Kernel.mean a) sigma0
    else Gen.Kernel.rwmAdapt sg (Sc.ofNat k) (Model.Kernel.mean a) sigma0

/-- `cluster_sizes`: the non-zero populations, in cluster order -/
def clusterSizes (K : Nat) (asg : List Nat) : List Nat :=
  (List.range K).filterMap fun c => let n := asg.count c; if n > 0 then some n else none

/-- `np.average(self.sigmas[:len(cluster_sizes)], weights=cluster_sizes)` -/
def weightedSigma (sigmas : List α) (sizes : List Nat) : α :=
  Sc.div (Sc.sum (List.zipWith (fun sg n => Sc.mul sg (Sc.ofNat n)) (sigmas.take sizes.length) sizes))
    (Sc.ofNat sizes.sum)

/-- `mask_accept.mean()` -/
def fracTrue (m : List Bool) : α := Sc.div (Sc.ofNat (m.count true)) (Sc.ofNat m.length)

/-- `_initialize_sigmas` -/
def initSigmas (tpcn : Bool) (sigma0 : α) (K : Nat) : List α :=
  List.replicate K (if tpcn then Sc.min sigma0 (Sc.lit 99 2) else sigma0)

structure MC (α P G : Type) where
  k : Nat               -- `self.iteration`
  pts : List P
  logl : List α
  sigmas : List α
  g : G
  alphas : List α       -- `alpha` of the last step
  accepts : List (List Bool)

/-- the `while True` loop; `none` = fuel exhausted -/
def mcLoop (W : World α P MS TS G) (c : CCfg α) (ms : MS) (beta : α) (asg : List Nat) :
    Nat → MC α P G → Option (MC α P G)
  | 0, _ => none
  | fuel + 1, st =>
    let k := st.k + 1
    let pg := W.propose ms st.sigmas asg st.pts st.g
    let rg := W.unif pg.2 st.pts.length
    let x := stepAll W beta st.pts st.logl pg.1 rg.1
    let sig := adaptSigmas c.tpcn c.sigma0 k asg x.2.2.1 st.sigmas
    let st' : MC α P G := ⟨k, x.1, x.2.1, sig, rg.2, x.2.2.1, st.accepts ++ [x.2.2.2]⟩
    if Model.Steps.converged c.nSteps c.nMax c.nDim k (fracTrue x.2.2.2)
        (weightedSigma sig (clusterSizes (W.nModes ms) asg)) c.sigma0
    then some st' else mcLoop W c ms beta asg fuel st'

/-! ### `execute_iteration` -/

structure CIterOut (α P : Type) where
  beta : α
  ess : α
  logzRw : α
  logz : α
  branch : Reweight.Branch
  /-- weights returned by `Reweighter.run`, handed to `Trainer.run` and `Resampler.run` -/
  weights : List α
  /-- what the clusterer / Student-t fit receives (`none` at beta = 0: training is skipped) -/
  trainIn : Option (List P × List α)
  idx : List Nat
  masks : List (List Bool)
  sigmas : List α

def commit (s : CState α P TS G) : CState α P TS G :=
  { s with hist := s.hist ++ [⟨s.beta, s.logz, s.ess, s.cur, s.curL, s.iter, s.calls, s.steps, s.acceptance, s.efficiency⟩] }

/-- one iteration; `none` = outside the model (IndexError, a batch without a finite draw, an empty batch, fuel) -/
def iterate (W : World α P MS TS G) (c : CCfg α) (s : CState α P TS G) :
    Option (CState α P TS G × CIterOut α P) :=
  let r := reweightStep W c s
  let w := returnedWeights r.weightsTag
  let iter := s.iter + 1
  let pool := poolOf s.hist
  (trainStep W c s.ts s.g w pool r.beta iter).bind fun tr =>
    if Reweight.eqv r.beta Sc.zero then
      -- resampling skipped (assignments := zeros), fresh prior draws
      (warmupStep W c tr.2.2).bind fun d =>
        if d.logl.isEmpty then none else
        let lz := match d.logz with | some z => z | none => r.logz
        some (commit { s with beta := r.beta, logz := lz, ess := r.ess, iter := iter, calls := s.calls + d.drawn,
                              cur := d.pts, curL := d.logl, assign := List.replicate c.rw.nPart 0, steps := 1,
                              acceptance := Sc.one, efficiency := Sc.one, ts := tr.2.1, g := d.g },
              ⟨r.beta, r.ess, r.logz, lz, r.branch, w, none, [], [], []⟩)
    else
      (resampleStep W c s.hist w tr.2.1 tr.2.2).bind fun rs =>
        if rs.logl.isEmpty then none else
        let mi := W.modeIndex tr.1 rs.assign rs.pts
        let K := W.nModes tr.1
        (mcLoop W c tr.1 r.beta mi.1 c.mcFuel ⟨0, rs.pts, rs.logl, initSigmas c.tpcn c.sigma0 K, rs.g, [], []⟩).map fun m =>
          (commit { s with beta := r.beta, logz := r.logz, ess := r.ess, iter := iter,
                           calls := s.calls + m.k * rs.pts.length, cur := m.pts, curL := m.logl, assign := mi.2,
                           steps := m.k, acceptance := Model.Kernel.mean m.alphas,
                           efficiency := Sc.div (Model.Kernel.mean m.sigmas) c.sigma0, ts := tr.2.1, g := m.g },
           ⟨r.beta, r.ess, r.logz, r.logz, r.branch, w, trainInput c w pool, rs.idx, m.accepts, m.sigmas⟩)

/-! ### `run_sampling` -/

/-- `_not_termination` -/
def contGuard (c : CCfg α) (s : CState α P TS G) : Bool :=
  Model.Run.notTermination c.tolTerm s.beta (logw (batchesOf s.hist) Sc.one true).1 c.nTotal

def init (ts : TS) (g : G) : CState α P TS G :=
  ⟨[], Sc.zero, Sc.zero, Sc.zero, 0, 0, [], [], [], 0, Sc.zero, Sc.zero, ts, g⟩

/-- `while self._not_termination(): self.execute_iteration()`; the result lists every state at the top of the loop
    (these are the states `save_every` checkpoints) and the iteration records; `none` = out of fuel / outside the model -/
def runLoop (W : World α P MS TS G) (c : CCfg α) :
    Nat → CState α P TS G → Option (CState α P TS G × List (CState α P TS G) × List (CIterOut α P))
  | 0, s => if contGuard c s then none else some (s, [s], [])
  | n + 1, s =>
    if contGuard c s then
      (iterate W c s).bind fun p => (runLoop W c n p.1).map fun q => (q.1, s :: q.2.1, p.2 :: q.2.2)
    else some (s, [s], [])

/-- the epilogue: `_, logz = compute_logw_and_logz(1.0); set_current("logz", logz)` -/
def finalLogz (s : CState α P TS G) : Option α := (logw (batchesOf s.hist) Sc.one true).2

/-- the head of `run_sampling`: a state with committed history (loaded by `load_state` / `resume_state_path`, or left by a
    finished run) is CONTINUED; only an empty one is initialised (`_initialize_fresh`: iter, calls, beta, logz := 0) -/
def startState (s : CState α P TS G) : CState α P TS G :=
  if s.hist.isEmpty then { s with iter := 0, calls := 0, beta := Sc.zero, logz := Sc.zero } else s

def runSampling (W : World α P MS TS G) (c : CCfg α) (fuel : Nat) (s : CState α P TS G) :
    Option (CState α P TS G × List (CState α P TS G) × List (CIterOut α P)) :=
  (runLoop W c fuel (startState s)).bind fun q => (finalLogz q.1).map fun z => ({ q.1 with logz := z }, q.2.1, q.2.2)

/-! ### what a checkpoint holds (`StateManager.to_dict()`: current values + history; the clusterer and the random
    stream are pickled with the sampler object) -/

structure Ckpt (α P : Type) where
  hist : List (CBatch α P)
  beta : α
  logz : α
  ess : α
  iter : Nat
  calls : Nat
  cur : List P
  curL : List α
  assign : List Nat
  steps : Nat
  acceptance : α
  efficiency : α

def checkpoint (s : CState α P TS G) : Ckpt α P :=
  ⟨s.hist, s.beta, s.logz, s.ess, s.iter, s.calls, s.cur, s.curL, s.assign, s.steps, s.acceptance, s.efficiency⟩

/-! ### `compute_posterior` / `compute_evidence` on a state -/

/-- the arrays `compute_posterior` starts from: x (and blobs) = the pool records, logl, logw at beta = 1 -/
def posteriorArrs (s : CState α P TS G) : Model.Posterior.Arrs P α P α α :=
  ⟨poolOf s.hist, flatLogl (batchesOf s.hist), poolOf s.hist, (logw (batchesOf s.hist) Sc.one true).1, []⟩

def posterior (trimFields resFields : List String) (essTrim : α) (bins : Nat) (u0 : α) (o : Model.Posterior.Opts)
    (s : CState α P TS G) : Option (Model.Posterior.Arrs P α P α α) :=
  Model.Posterior.posterior trimFields resFields essTrim bins u0 o (posteriorArrs s)

/-- `compute_evidence()[0]` -/
def evidence (s : CState α P TS G) : α := s.logz

end Model.ClosedLoop
