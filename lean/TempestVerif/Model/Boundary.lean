import TempestVerif.Sc
/-
  Model of `tempest/mcmc.py: apply_boundary_conditions, check_bounds` (C16; shared with C03, C07).

  Python (after the `fix:` that keeps the reflection count in floating point):
      u[..., idx] = u[..., idx] % 1.0                                   -- periodic
      n = np.floor(val); r = val - n
      u[..., idx] = np.where(np.mod(n, 2.0) == 0, r, 1.0 - r)           -- reflective
  `x % 1.0` on doubles equals `x - floor x` bit for bit for every finite x (fmod is exact and the
  single rounding happens in the final add); that identity is checked by the correspondence (regime B).
-/
namespace Model.Boundary
variable {α : Type} [Sc α]

def periodic (x : α) : α := Sc.sub x (Sc.floor x)

def reflect (x : α) : α :=
  let n := Sc.floor x
  let r := Sc.sub x n
  if Sc.isEven n then r else Sc.sub Sc.one r

/-- `for idx in periodic: …; for idx in reflective: …` on one point (a 1-D array) -/
def apply (per refl : List Nat) (u : List α) : List α :=
  refl.foldl (fun v i => v.modify i reflect) (per.foldl (fun v i => v.modify i periodic) u)

/-- 2-D arrays: the same map on every row (`u[..., idx]`) -/
def apply2 (per refl : List Nat) (us : List (List α)) : List (List α) :=
  us.map (apply per refl)

def inUnit (x : α) : Bool := Sc.le Sc.zero x && Sc.le x Sc.one

/-- `check_bounds` on one point: only the coordinates that are neither periodic nor reflective
    are tested; with no such coordinate the answer is `True`. -/
def checkBounds (per refl : List Nat) (u : List α) : Bool :=
  (List.range u.length).all fun i =>
    if per.contains i || refl.contains i then true else
      match u[i]? with
      | some x => inUnit x
      | none => true

def checkBounds2 (per refl : List Nat) (us : List (List α)) : List Bool :=
  us.map (checkBounds per refl)

end Model.Boundary
