/-
  C18 — the configuration language of `SamplerConfig.__post_init__` / `validate` (tempest/config.py) and of the
  constructor wiring in `SamplerCore.__init__` / `HierarchicalGaussianMixture.__init__`.

  The RULES themselves are not written here: they are regenerated from /repo's source on every run
  (translate/g2_validate.py → Gen/Validate.lean, Gen/Ctor.lean).  This file only fixes
    * the universe `V` of Python values an option can take,
    * Python's semantics of the handful of operators the rules use (incl. which of them raise `TypeError`),
    * the interpreter of the generated statement / rule tables (`run`, `construct`).
  Core Lean only.

  Conventions of the universe: every constructor without payload denotes ONE fixed Python object
  (`callable` a module-level function, `path` = `Path("p")`, `other` = one `object()`, `nan` one `float("nan")` object),
  so `==`/identity on them is reflexive (this is what `set.intersection` sees).
-/
namespace Model.ConfigSpec

/-- Python floats: finite (exact rational value), ±inf, nan -/
inductive FV where
  | fin (q : Rat)
  | inf (neg : Bool)
  | nan

inductive Cmp where
  | lt | le | gt | ge
  deriving DecidableEq, Repr

def Cmp.int (op : Cmp) (a b : Int) : Bool :=
  match op with
  | .lt => decide (a < b)
  | .le => decide (a ≤ b)
  | .gt => decide (b < a)
  | .ge => decide (b ≤ a)

def FV.lt : FV → FV → Bool
  | .fin a, .fin b => decide (a < b)
  | .fin _, .inf neg => !neg
  | .inf neg, .fin _ => neg
  | .inf n1, .inf n2 => n1 && !n2
  | _, _ => false

def FV.le : FV → FV → Bool
  | .fin a, .fin b => decide (a ≤ b)
  | .fin _, .inf neg => !neg
  | .inf neg, .fin _ => neg
  | .inf n1, .inf n2 => n1 || !n2
  | _, _ => false

/-- IEEE comparison (every comparison with nan is False) -/
def FV.cmp (op : Cmp) (a b : FV) : Bool :=
  match op with
  | .lt => FV.lt a b
  | .le => FV.le a b
  | .gt => FV.lt b a
  | .ge => FV.le b a

/-- `==` as seen by set membership (identity first, so the one nan object equals itself) -/
def FV.eq : FV → FV → Bool
  | .fin a, .fin b => decide (a = b)
  | .inf a, .inf b => a == b
  | .nan, .nan => true
  | _, _ => false

def FV.mulInt (k : Int) : FV → FV
  | .fin q => .fin ((k : Rat) * q)
  | .inf neg => if k = 0 then .nan else .inf (if k < 0 then !neg else neg)
  | .nan => .nan

def FV.addInt (k : Int) : FV → FV
  | .fin q => .fin (q + (k : Rat))
  | f => f

/-- the universe of option values -/
inductive V where
  | int (n : Int)
  | float (f : FV)
  | bool (b : Bool)
  | str (s : String)
  | none
  | list (l : List V)
  | callable
  | path
  | other

instance : Inhabited V := ⟨V.none⟩

inductive ErrKind where
  | typeError | valueError
  deriving DecidableEq, Repr

def ErrKind.name : ErrKind → String
  | .typeError => "TypeError"
  | .valueError => "ValueError"

/-- every option of `Sampler.__init__` / field of `SamplerConfig` -/
inductive Field where
  | prior_transform | log_likelihood | n_dim | n_particles | ess_ratio | volume_variation
  | log_likelihood_args | log_likelihood_kwargs | vectorize | blobs_dtype | periodic | reflective | pool
  | clustering | normalize | cluster_every | split_threshold | n_max_clusters
  | sample | n_steps | n_max_steps | resample | output_dir | output_label | random_state
  deriving DecidableEq, Repr

abbrev Cfg := Field → V

def Cfg.set (c : Cfg) (f : Field) (v : V) : Cfg := fun g => if g = f then v else c g

/-! ### Python semantics of the primitive tests on one value -/

/-- `isinstance(v, int)` — `bool` is a subclass of `int` -/
def V.isInt : V → Bool
  | .int _ | .bool _ => true
  | _ => false

/-- `isinstance(v, (int, float))` -/
def V.isNum : V → Bool
  | .int _ | .bool _ | .float _ => true
  | _ => false

/-- `isinstance(v, bool)` -/
def V.isBool : V → Bool
  | .bool _ => true
  | _ => false

/-- `math.isfinite(v)`: numbers only (`TypeError` otherwise).  An int is converted to a float first; ints beyond the double
    range (|n| ≥ 2^1024, an `OverflowError` in Python) are outside what this model distinguishes. -/
def V.isFinite : V → Except ErrKind Bool
  | .int _ | .bool _ => .ok true
  | .float (.fin _) => .ok true
  | .float _ => .ok false
  | _ => .error .typeError

def V.isStr : V → Bool
  | .str _ => true
  | _ => false

def V.isPath : V → Bool
  | .path => true
  | _ => false

def V.isNone : V → Bool
  | .none => true
  | _ => false

def V.isCallable : V → Bool
  | .callable => true
  | _ => false

/-- `bool(v)` -/
def V.truthy : V → Bool
  | .int n => n != 0
  | .float (.fin q) => q != 0
  | .float _ => true
  | .bool b => b
  | .str s => s != ""
  | .none => false
  | .list l => !l.isEmpty
  | _ => true

/-- the integer value of an `int` instance -/
def V.intVal? : V → Option Int
  | .int n => some n
  | .bool b => some (if b then 1 else 0)
  | _ => Option.none

def V.toFV? : V → Option FV
  | .int n => some (.fin (n : Rat))
  | .bool b => some (.fin (if b then 1 else 0))
  | .float f => some f
  | _ => Option.none

/-- `v <op> 0`; ordering a non-number against an int raises `TypeError` -/
def V.cmp0 (op : Cmp) : V → Except ErrKind Bool
  | .int n => .ok (op.int n 0)
  | .bool b => .ok (op.int (if b then 1 else 0) 0)
  | .float f => .ok (FV.cmp op f (.fin 0))
  | _ => .error .typeError

/-- `a <op> b` where at least one side is known to be a number (the only way the rules use it) -/
def V.cmpNum (op : Cmp) (a b : V) : Except ErrKind Bool :=
  match a.intVal?, b.intVal? with
  | some x, some y => .ok (op.int x y)
  | _, _ =>
    match a.toFV?, b.toFV? with
    | some x, some y => .ok (FV.cmp op x y)
    | _, _ => .error .typeError

/-- `v + k` for an int literal `k` -/
def V.addInt (k : Int) : V → Except ErrKind V
  | .int n => .ok (.int (n + k))
  | .bool b => .ok (.int ((if b then 1 else 0) + k))
  | .float f => .ok (.float (f.addInt k))
  | _ => .error .typeError

/-- `k * v` for an int literal `k` (sequence repetition for str / list) -/
def V.mulInt (k : Int) : V → Except ErrKind V
  | .int n => .ok (.int (k * n))
  | .bool b => .ok (.int (k * (if b then 1 else 0)))
  | .float f => .ok (.float (f.mulInt k))
  | .str s => .ok (.str (String.join (List.replicate k.toNat s)))
  | .list l => .ok (.list (List.flatten (List.replicate k.toNat l)))
  | _ => .error .typeError

/-- `x not in [<string literals>]` (list membership is `is` or `==`; nothing but an equal str is `==` to a str) -/
def V.notIn (v : V) (lits : List String) : Bool :=
  match v with
  | .str s => !lits.contains s
  | _ => true

/-- `iter(v)`: lists, and strings (one-character strings); everything else is not iterable -/
def V.iter? : V → Option (List V)
  | .list l => some l
  | .str s => some (s.toList.map fun ch => V.str (String.singleton ch))
  | _ => Option.none

def V.hashable : V → Bool
  | .list _ => false
  | _ => true

/-- equality of two hashable values as `set` sees it (numbers compare by value across int/bool/float) -/
def V.pyEq (a b : V) : Bool :=
  match a, b with
  | .str x, .str y => x == y
  | .none, .none => true
  | .callable, .callable => true
  | .path, .path => true
  | .other, .other => true
  | _, _ =>
    match a.intVal?, b.intVal? with
    | some x, some y => x == y
    | _, _ =>
      match a.toFV?, b.toFV? with
      | some x, some y => FV.eq x y
      | _, _ => false

/-- `set(v)`: `TypeError` when `v` is not iterable or holds an unhashable element -/
def V.toSet (v : V) : Except ErrKind (List V) :=
  match v.iter? with
  | Option.none => .error .typeError
  | some l => if l.all V.hashable then .ok l else .error .typeError

/-- truth value of `set(a).intersection(set(b))` -/
def V.overlap (a b : V) : Except ErrKind Bool :=
  match a.toSet with
  | .error e => .error e
  | .ok x =>
    match b.toSet with
    | .error e => .error e
    | .ok y => .ok (x.any fun p => y.any fun q => p.pyEq q)

/-- `isinstance(i, int) and lo <loOp> i <hiOp> hi` -/
def idxOk (loOp : Cmp) (lo : Int) (hiOp : Cmp) (hi : V) (i : V) : Except ErrKind Bool :=
  match i.intVal? with
  | Option.none => .ok false
  | some n => if loOp.int lo n then V.cmpNum hiOp i hi else .ok false

/-- `isinstance(i, int) and not isinstance(i, bool) and lo <loOp> i <hiOp> hi` -/
def idxOkStrict (loOp : Cmp) (lo : Int) (hiOp : Cmp) (hi : V) (i : V) : Except ErrKind Bool :=
  match i with
  | .int n => if loOp.int lo n then V.cmpNum hiOp i hi else .ok false
  | _ => .ok false

/-- `all(p(i) for i in l)` with Python's short circuit: stops at the first False, propagates the first exception -/
def allM (p : V → Except ErrKind Bool) : List V → Except ErrKind Bool
  | [] => .ok true
  | x :: xs =>
    match p x with
    | .error e => .error e
    | .ok b => if b then allM p xs else .ok false

def V.allIdx (v : V) (loOp : Cmp) (lo : Int) (hiOp : Cmp) (hi : V) : Except ErrKind Bool :=
  match v.iter? with
  | Option.none => .error .typeError
  | some l => allM (idxOk loOp lo hiOp hi) l

def V.allIdxStrict (v : V) (loOp : Cmp) (lo : Int) (hiOp : Cmp) (hi : V) : Except ErrKind Bool :=
  match v.iter? with
  | Option.none => .error .typeError
  | some l => allM (idxOkStrict loOp lo hiOp hi) l

/-! ### the expression / statement language of the generated tables -/

inductive Expr where
  | truthy (f : Field)                 -- `self.f` in boolean position
  | isNone (f : Field)                 -- `self.f is None`
  | isInt (f : Field)                  -- `isinstance(self.f, int)`
  | isNum (f : Field)                  -- `isinstance(self.f, (int, float))`
  | isStr (f : Field)
  | isPath (f : Field)
  | isCallable (f : Field)             -- `callable(self.f)`
  | cmp0 (op : Cmp) (f : Field)        -- `self.f <op> 0`
  | notIn (f : Field) (lits : List String)
  | overlap (f g : Field)              -- `set(self.f).intersection(set(self.g))` in boolean position
  | allIdx (f : Field) (loOp : Cmp) (lo : Int) (hiOp : Cmp) (hi : Field)
                                       -- `all(isinstance(i, int) and lo <loOp> i <hiOp> self.hi for i in self.f)`
  | ltAdd (op : Cmp) (f g : Field) (k : Int)   -- `self.f <op> self.g + k`
  | isBool (f : Field)                 -- `isinstance(self.f, bool)`
  | isFinite (f : Field)               -- `math.isfinite(self.f)`
  | allIdxStrict (f : Field) (loOp : Cmp) (lo : Int) (hiOp : Cmp) (hi : Field)
                                       -- `all(isinstance(i, int) and not isinstance(i, bool) and lo <loOp> i <hiOp> self.hi for i in self.f)`
  | not (e : Expr)
  | and (a b : Expr)
  | or (a b : Expr)

def eval (c : Cfg) : Expr → Except ErrKind Bool
  | .truthy f => .ok (c f).truthy
  | .isNone f => .ok (c f).isNone
  | .isInt f => .ok (c f).isInt
  | .isNum f => .ok (c f).isNum
  | .isStr f => .ok (c f).isStr
  | .isPath f => .ok (c f).isPath
  | .isCallable f => .ok (c f).isCallable
  | .cmp0 op f => (c f).cmp0 op
  | .notIn f lits => .ok ((c f).notIn lits)
  | .overlap f g => (c f).overlap (c g)
  | .allIdx f loOp lo hiOp hi => (c f).allIdx loOp lo hiOp (c hi)
  | .ltAdd op f g k =>
    match (c g).addInt k with
    | .error e => .error e
    | .ok r => (c f).cmpNum op r
  | .isBool f => .ok (c f).isBool
  | .isFinite f => (c f).isFinite
  | .allIdxStrict f loOp lo hiOp hi => (c f).allIdxStrict loOp lo hiOp (c hi)
  | .not e =>
    match eval c e with
    | .error k => .error k
    | .ok b => .ok (!b)
  | .and a b =>
    match eval c a with
    | .error k => .error k
    | .ok x => if x then eval c b else .ok false
  | .or a b =>
    match eval c a with
    | .error k => .error k
    | .ok x => if x then .ok true else eval c b

/-- right-hand sides of the default assignments in `__post_init__` -/
inductive VExpr where
  | const (v : V)
  | mulInt (k : Int) (f : Field)       -- `k * self.f`
  | pathOf (f : Field)                 -- `Path(self.f)`

def VExpr.eval (c : Cfg) : VExpr → Except ErrKind V
  | .const v => .ok v
  | .mulInt k f => (c f).mulInt k
  | .pathOf f => match c f with
    | .str _ | .path => .ok .path
    | _ => .error .typeError

inductive Outcome where
  | accept
  | reject (tags : List String)        -- ValueError raised by the configuration's own checks
  | raise (k : ErrKind)                -- any other exception escaping the constructor
  deriving DecidableEq, Repr

inductive Stmt where
  | raiseIf (c : Expr) (tag : String)                  -- `if c: raise ValueError(tag)`
  | chain (bs : List (Expr × Field × VExpr))           -- `if c1: self.f1 = v1  elif c2: self.f2 = v2 …`
  | warnIf (c : Expr)                                  -- `if c: warnings.warn(…)`

def runChain (c : Cfg) : List (Expr × Field × VExpr) → Except Outcome Cfg
  | [] => .ok c
  | (e, f, v) :: bs =>
    match eval c e with
    | .error k => .error (.raise k)
    | .ok b =>
      if b then
        match v.eval c with
        | .error k => .error (.raise k)
        | .ok x => .ok (c.set f x)
      else runChain c bs

def Stmt.run (c : Cfg) : Stmt → Except Outcome Cfg
  | .raiseIf e tag =>
    match eval c e with
    | .error k => .error (.raise k)
    | .ok b => if b then .error (.reject [tag]) else .ok c
  | .chain bs => runChain c bs
  | .warnIf e =>
    match eval c e with
    | .error k => .error (.raise k)
    | .ok _ => .ok c

def runStmts : List Stmt → Cfg → Except Outcome Cfg
  | [], c => .ok c
  | s :: ss, c =>
    match s.run c with
    | .error o => .error o
    | .ok c' => runStmts ss c'

/-- one `if cond: errors.append(tag)` of `validate` (nested ifs flattened into one guarded condition) -/
structure Rule where
  cond : Expr
  tag : String

/-- tags of the rules that fire, in order; the first exception raised while evaluating a condition propagates -/
def fired (c : Cfg) : List Rule → Except ErrKind (List String)
  | [] => .ok []
  | r :: rs =>
    match eval c r.cond with
    | .error k => .error k
    | .ok b =>
      match fired c rs with
      | .error k => .error k
      | .ok ts => .ok (if b then r.tag :: ts else ts)

/-- `validate()`: collect every error, raise one `ValueError` at the end if there is any -/
def validate (rules : List Rule) (c : Cfg) : Outcome :=
  match fired c rules with
  | .error k => .raise k
  | .ok [] => .accept
  | .ok (t :: ts) => .reject (t :: ts)

/-- `__post_init__`: statements before `self.validate()`, the rule table, statements after it -/
structure Spec where
  pre : List Stmt
  rules : List Rule
  post : List Stmt

/-- `SamplerConfig(...)`: the stored configuration (defaults filled in) or the way the constructor fails -/
def runCfg (S : Spec) (c : Cfg) : Except Outcome Cfg :=
  match runStmts S.pre c with
  | .error o => .error o
  | .ok c' =>
    match validate S.rules c' with
    | .accept =>
      match runStmts S.post c' with
      | .error o => .error o
      | .ok _ => .ok c'
    | o => .error o

/-- outcome of `SamplerConfig(...)` -/
def run (S : Spec) (c : Cfg) : Outcome :=
  match runCfg S c with
  | .ok _ => .accept
  | .error o => o

/-! ### constructor wiring (`SamplerCore.__init__` → `HierarchicalGaussianMixture.__init__`) -/

inductive WExpr where
  | lit (n : Int)
  | noneLit
  | fld (f : Field)
  | subK (e : WExpr) (k : Int)          -- `e - k`
  | mulK (k : Int) (e : WExpr)          -- `k * e`
  | ifNone (f : Field) (a b : WExpr)    -- `a if config.f is None else b`

def WExpr.eval (c : Cfg) : WExpr → Except ErrKind V
  | .lit n => .ok (.int n)
  | .noneLit => .ok .none
  | .fld f => .ok (c f)
  | .subK e k =>
    match e.eval c with
    | .error x => .error x
    | .ok v => v.addInt (-k)
  | .mulK k e =>
    match e.eval c with
    | .error x => .error x
    | .ok v => v.mulInt k
  | .ifNone f a b => if (c f).isNone then a.eval c else b.eval c

def allDigits (s : String) : Bool := !s.isEmpty && s.all Char.isDigit

/-- `float(v)`.  Strings: only the digit-only ones are given a value; every other string of the harness's pool is
    not a float literal (`ValueError`).  -/
def V.toFloat : V → Except ErrKind FV
  | .int n => .ok (.fin (n : Rat))
  | .bool b => .ok (.fin (if b then 1 else 0))
  | .float f => .ok f
  | .str s => if allDigits s then .ok (.fin ((s.toNat!) : Rat)) else .error .valueError
  | _ => .error .typeError

structure Wiring where
  guard : Field            -- `if config.<guard>:` around the clusterer construction
  maxIter : WExpr
  minPoints : WExpr
  threshold : WExpr
  rejectOp : Cmp           -- `if modifier <rejectOp> 0: raise ValueError`

structure Wired where
  clusterer : Bool
  maxIter : V
  minPoints : V
  threshold : FV

/-- keyword expressions are evaluated in source order, then `float(threshold_modifier)` and the sign check run inside
    `HierarchicalGaussianMixture.__init__` -/
def wire (W : Wiring) (c : Cfg) : Except ErrKind Wired :=
  if (c W.guard).truthy then
    match W.maxIter.eval c with
    | .error e => .error e
    | .ok mi =>
      match W.minPoints.eval c with
      | .error e => .error e
      | .ok mp =>
        match W.threshold.eval c with
        | .error e => .error e
        | .ok t =>
          match t.toFloat with
          | .error e => .error e
          | .ok m => if FV.cmp W.rejectOp m (.fin 0) then .error .valueError else .ok ⟨true, mi, mp, m⟩
  else .ok ⟨false, .none, .none, .fin 1⟩

/-- `Sampler(...)`: the fields listed in `wrapped` reach `SamplerConfig` as a `FunctionWrapper` (always callable) -/
def wrapFields (wrapped : List Field) (c : Cfg) : Cfg := fun f => if wrapped.contains f then V.callable else c f

def construct (S : Spec) (W : Wiring) (wrapped : List Field) (c : Cfg) : Outcome :=
  match runCfg S (wrapFields wrapped c) with
  | .error o => o
  | .ok c' =>
    match wire W c' with
    | .error k => .raise k
    | .ok _ => .accept

end Model.ConfigSpec
