import TempestVerif.Model.Pipeline
import TempestVerif.Model.WarmupR
/-
  `Model.Pipeline.iterate` with the warm-up branch of /repo 959029e INCLUDING THE REDRAW LOOP (C11): a batch without a finite draw is drawn again,
  the discarded draws count in the recorded fraction.  `Model/Pipeline.lean` (owned by C01, shared) is not changed: this
  file re-uses its pieces (`Reweight.run` over the pool oracles, `warmup` = the replacement step on the KEPT block,
  `mcmcSteps`, `allSome`, resampling) and replaces only what `Mutator.run` does at beta = 0:

      block  := first draws; while no finite draw in block: (cap) block := next block; n_drawn += n     (Model.WarmupR.draw)
      −inf rows of the kept block overwritten by whole copies of picked finite rows                        (Model.Pipeline.warmup)
      if some −inf row or n_drawn > n:  logz := log(n_finite / n_drawn)    else the reweighting step's logz stays
-/
/-  (C01's owner added `Model.Pipeline.warmupR / iterateR` — the same branch seen from the KEPT block, with the number of
    discarded draws as an input; `Props.C11.warmupL_is_warmupR` / `iterateL_is_iterateR` relate the two: here the loop that
    decides which block is kept, how many draws are discarded, and when the cap raises, is part of the model.) -/
namespace Model.PipelineR
open Model.Pipeline Model.Weights Model.Reweight Model.Resample Model.Ess Model.Records
variable {α : Type} [ScT α]

/-- a block of prior draws: tags of the (u, x) records and their log-likelihoods (`none` = −inf) -/
abbrev Block (α : Type) := List Nat × List (Option α)

structure RTape (α : Type) where
  t : Tape α                    -- `t.drawTags / t.drawL`: the FIRST block drawn; picks, resU, steps as in `Model.Pipeline`
  pending : List (Block α)      -- the blocks further `np.random.rand` calls of the same `Mutator.run` would deliver

/-- `not np.all(np.isinf(logl))`: the block has a finite draw (false for an empty block, as `np.all([])` is True) -/
def hasFin (b : Block α) : Bool := decide (0 < countSome b.2)

/-- warm-up mutation after the fix: (tags, logl, committed logz, n_drawn); `none` = the cap's ValueError / tape exhausted -/
def warmupL (n : Nat) (rt : RTape α) (logzRw : α) : Option (List Nat × List (Option α) × α × Nat) :=
  (Model.WarmupR.draw hasFin n (rt.t.drawTags, rt.t.drawL) rt.pending).map fun (kept, nd) =>
    let tk : Tape α := { rt.t with drawTags := kept.1, drawL := kept.2 }
    let r := warmup tk logzRw
    let nb := kept.2.length
    let nfin := countSome kept.2
    (r.1, r.2.1,
     (if nfin < nb ∨ n < nd then ScT.log (Sc.div (Sc.ofNat nfin) (Sc.ofNat nd)) else logzRw), nd)

structure IterOutL (α : Type) where
  o : IterOut α
  nDrawn : Nat              -- prior draws made by this iteration (0 at beta > 0): what `calls` grows by in warm-up

/-- one iteration (`Model.Pipeline.iterate` with the new warm-up branch); `c.rw.nPart` = `n_particles` is the block size -/
def iterateL (c : PCfg α) (s : PState α) (rt : RTape α) : Option (PState α × IterOutL α) :=
  let hb := batches s.hist
  let r := Reweight.run c.rw hb.isEmpty (oracleM hb) (oracleZ hb) isFin s.beta
  let w := returnedWeights r.weightsTag
  if Reweight.eqv r.beta Sc.zero then
    (warmupL c.rw.nPart rt r.logz).bind fun (tags, ls, lz, nd) =>
      (allSome ls).map fun l =>
        ({ hist := s.hist ++ [⟨⟨r.beta, lz, l⟩, tags⟩], beta := r.beta, logz := lz, curTags := tags, curL := l },
         ⟨⟨r.beta, r.ess, r.logz, lz, [], [], r.branch⟩, nd⟩)
  else
    let idx? := if c.syst then
        (match rt.t.resU with | [u0] => systematic c.rw.nPart w u0 | _ => none)
      else multinomial w rt.t.resU
    idx?.bind fun idx =>
      (gather? (poolTags s.hist) idx).bind fun tg =>
        (gather? (flatLogl hb) idx).map fun l =>
          let (tg', l', ms) := mcmcSteps r.beta rt.t.steps tg l
          ({ hist := s.hist ++ [⟨⟨r.beta, r.logz, l'⟩, tg'⟩], beta := r.beta, logz := r.logz, curTags := tg', curL := l' },
           ⟨⟨r.beta, r.ess, r.logz, r.logz, idx, ms, r.branch⟩, 0⟩)

def runItersL (c : PCfg α) : PState α → List (RTape α) → Option (PState α × List (IterOutL α))
  | s, [] => some (s, [])
  | s, t :: ts => (iterateL c s t).bind fun (s', o) => (runItersL c s' ts).map fun (sf, os) => (sf, o :: os)

end Model.PipelineR
