import TempestVerif.Model.Cadence
/-
  Extended model of WHEN the shared clusterer is fitted and WHICH fit every prediction comes from (C14, second pass).

  `Model.Cadence` knows two kinds of step: a complete iteration and "a fresh SamplerCore restored from a checkpoint".
  Since /repo aeb0399 (`run()` continues whenever committed history exists) and db2b14b more histories are reachable, all on
  objects that are NOT fresh:

      s.run(...)                      ; s.run(n_total=bigger)            second run() on the same Sampler: Trainer flag and the
                                                                         fitted clusterer survive, `iter` continues
      s.load_state(path); s.run()     on a Sampler that has already run: `StateManager.update_from_dict` replaces the state
                                                                         (`iter` becomes the checkpoint's), nothing else is touched
      s.run(resume_state_path=path)   on a Sampler that has already run: the same
      Sampler(...).load_state(path); .run()       fresh objects, the manual resume path (fresh Trainer: `_clusterer_fitted = False`)
      an iteration that RAISES (a degenerate cluster refused by `ModeStatistics.__init__`: finding F24; the user's likelihood),
      followed by another `run()`     the exception leaves `execute_iteration` after `Reweighter.run` has incremented `iter`
                                      and possibly after `clusterer.fit` / `self._clusterer_fitted = True`; nothing is rolled back

  Every `fit` gets a generation number (1, 2, … in the order the fits happen, over all clusterer objects); a `predict` records
  the generation of the fit its object holds (`none` = the object was never fitted: the call raises).  So "the training labels
  the modes are built from and the assignments of the active particles come from the same fit" is a statement about the trace.

  steps/train.py (Trainer.run), steps/resample.py (Resampler.run), core.py (execute_iteration order: reweight → train →
  resample → mutate → commit; run_sampling's three-way prologue; load_sampler_state touches only the StateManager and the
  random stream).  Core Lean only, total, computable.
-/
namespace Model.CadenceX
open Model.Cadence (Verdict)

inductive Ev where
  | fresh                          -- a new (unfitted) clusterer object is constructed together with a new Trainer / Resampler
  | fit (g : Nat)                  -- `clusterer.fit(...)` returned: generation `g`
  | predict (g : Option Nat)       -- `clusterer.predict(...)` on an object holding fit `g` (`none`: unfitted ⇒ raises)
  deriving DecidableEq, Repr

inductive StepX where
  /-- a complete `execute_iteration` (`warm`: β = 0 at this iteration) -/
  | iter (warm : Bool)
  /-- a NEW Sampler whose state is restored from a checkpoint (`run(resume_state_path=…)` or `load_state` + `run()` on a new
      object); `it = none`: the checkpoint is the current state of this very run, `some k`: any other checkpoint (`iter = k`) -/
  | fresh (it : Option Nat)
  /-- the state of the SAME core is replaced (`load_state`, `run(resume_state_path=…)` on a used Sampler; `_initialize_fresh`
      is the case `it = 0`): only `iter` changes, the Trainer's flag and the clusterer object are kept -/
  | load (it : Nat)
  /-- an annealing iteration that raised before `clusterer.fit` returned (Reweighter after `iter += 1`, `trim_weights`, the fit) -/
  | crashEarly
  /-- … that raised inside `Trainer.run` after the clusterer calls (`from_particles`, `ModeStatistics.__init__`: F24) -/
  | crashTrained
  /-- … that raised after `Resampler.run` (in `Mutator.run`: the user's likelihood or prior transform) -/
  | crashLate
  deriving DecidableEq, Repr

structure Cfg where
  clusterEvery : Nat
  clustering : Bool := true

structure St where
  /-- `state.get_current("iter")` -/
  iter : Nat
  /-- `Trainer._clusterer_fitted` -/
  flag : Bool
  /-- generation of the fit the current clusterer object holds (`none`: never fitted) -/
  gen : Option Nat
  /-- number of fits so far (all objects) -/
  nfits : Nat
  trace : List Ev
  verdict : Verdict

def init (iter0 : Nat) : St :=
  { iter := iter0, flag := false, gen := none, nfits := 0, trace := [.fresh], verdict := .ok }

/-- `self.clusterer.fit(u, weights_trimmed)` -/
def emitFit (s : St) : St :=
  { s with gen := some (s.nfits + 1), nfits := s.nfits + 1, trace := s.trace ++ [.fit (s.nfits + 1)] }

/-- `self.clusterer.predict(u)` -/
def emitPredict (s : St) : St :=
  match s.gen with
  | some g => { s with trace := s.trace ++ [.predict (some g)] }
  | none => { s with trace := s.trace ++ [.predict none], verdict := .predictBeforeFit }

/-- `iter_val % self.cluster_every == 0 or iter_val == 0` -/
def onCadence (c : Cfg) (s : St) : Bool := s.iter % c.clusterEvery == 0 || s.iter == 0

/-- `Trainer.run` at β > 0 (the three-way branch as it is since e0e98d6) -/
def trainer (c : Cfg) (warm : Bool) (s : St) : St :=
  if warm then s
  else if c.clustering && (onCadence c s || !s.flag) then
    emitPredict { emitFit s with flag := true }
  else if c.clustering && !onCadence c s then
    emitPredict s
  else s

/-- `Resampler.run` -/
def resampler (c : Cfg) (warm : Bool) (s : St) : St :=
  if s.verdict != .ok then s
  else if warm then s
  else if c.clustering then emitPredict s
  else s

/-- `Reweighter.run`: `iter += 1` -/
def bump (s : St) : St := { s with iter := s.iter + 1 }

def step (c : Cfg) (s : St) (st : StepX) : St :=
  if s.verdict != .ok then s else
  match st with
  | .iter warm => resampler c warm (trainer c warm (bump s))
  | .fresh it =>
    { s with iter := it.getD s.iter, flag := false, gen := none, trace := s.trace ++ [.fresh] }
  | .load it => { s with iter := it }
  | .crashEarly => bump s
  | .crashTrained => trainer c false (bump s)
  | .crashLate => resampler c false (trainer c false (bump s))

def run (c : Cfg) (iter0 : Nat) (steps : List StepX) : St := steps.foldl (step c) (init iter0)

/-! ### reading the trace on its own -/

/-- `none` = a predict was seen on an unfitted object, or a predict names another fit than the one its object holds, or the
    generations are not 1, 2, 3, …; `some (g?, n)` = fine so far: the current object holds `g?`, `n` fits seen -/
def scanStep : Option (Option Nat × Nat) → Ev → Option (Option Nat × Nat)
  | none, _ => none
  | some (_, n), .fresh => some (none, n)
  | some (_, n), .fit g => if g = n + 1 then some (some g, g) else none
  | some (cur, n), .predict g => if g.isSome && g == cur then some (cur, n) else none

def scan (t : List Ev) : Option (Option Nat × Nat) := t.foldl scanStep (some (none, 0))

/-- every predict in the trace is served by the latest fit of the clusterer object that exists at that moment -/
def coherentTrace (t : List Ev) : Bool := (scan t).isSome

/-- the clusterer events of ONE complete annealing iteration with clustering on: `[fit g,] predict g, predict g` -/
def annealEvents (fitGen : Option Nat) (g : Nat) : List Ev :=
  (match fitGen with | some k => [.fit k] | none => []) ++ [.predict (some g), .predict (some g)]

/-! ### projection to `Model.Cadence` -/

def eraseEv : Ev → Model.Cadence.Event
  | .fresh => .fresh
  | .fit _ => .fit
  | .predict _ => .predict

/-- the steps of `Model.Cadence` inside this model -/
def embed : Model.Cadence.Step → StepX
  | .iter w => .iter w
  | .resume => .fresh none

end Model.CadenceX
