import TempestVerif.Model.StateMgr
import TempestVerif.Model.StateMgrX
import TempestVerif.Gen.Tables
import TempestVerif.Gen.SMSites
/-
  C17 — static ties regenerated from /repo's source on every run (translators G5-tables, G5-smsites).
  Each theorem below is a `decide` about a GENERATED table: when the source changes so that the table changes, the
  theorem no longer checks, the obligation is reported broken, and the failing-input search runs on the real code.

  They discharge, on the real code, the hypotheses under which the reference model is a model:
    * the key sets of the model are the key sets of the module (completeness: every key has a row);
    * `_ensure_copy` is the four rules the model's `copyVal` implements (None; ndarray: deep copy if object dtype, buffer copy
      otherwise; list/tuple/dict: deep copy; anything else as is);
    * every `return` of every public method hands out a copy / a freshly computed value / the caller's own argument;
    * every statement that writes `_current`, `_history`, `_results_dict` stores a copy (or the caller's object when
      `copy=False` was passed), and there is no other such statement;
    * outside `state_manager.py` nobody touches the three dictionaries directly, nobody passes `copy=False`, the only
      commit is the one of `execute_iteration`, the only import the one of `load_sampler_state`.
-/
namespace Props.C17
open Model.StateMgr

/-- the model's key lists are exactly the module's frozensets (no key missing, none invented, no duplicates) -/
theorem C17_keysets_match_source :
    (currentKeys.all fun k => Gen.Tables.currentKeys.contains k) = true ∧
    (Gen.Tables.currentKeys.all fun k => currentKeys.contains k) = true ∧ currentKeys.Nodup ∧
    (historyKeys.all fun k => Gen.Tables.historyKeys.contains k) = true ∧
    (Gen.Tables.historyKeys.all fun k => historyKeys.contains k) = true ∧ historyKeys.Nodup ∧
    Gen.Tables.requiredCommitKeys = ["beta", "logl"] := by decide

/-- every public method of `StateManager` is an operation of the model (`save_state` / `load_state` = dill round trip of
    the dictionaries + `update_from_dict`, C08; `from_dict` = constructor + `update_from_dict`; `get_history_length` returns an int) -/
theorem C17_alphabet_complete :
    Gen.SMSites.publicMethods =
      ["commit_current_to_history", "compute_logw_and_logz", "compute_results", "from_dict", "get_current", "get_history",
       "get_history_length", "get_last_history", "load_state", "save_state", "set_current", "to_dict", "update_current",
       "update_from_dict"] := by decide

/-- `_ensure_copy`, rule by rule (what `copyVal true` of the nested model implements) -/
theorem C17_ensure_copy_rules :
    Gen.SMSites.ensureCopyRules =
      [("value is None", "None"),
       ("isinstance(value, np.ndarray)", "_deepcopy_array(value) if value.dtype.hasobject else value.copy()"),
       ("isinstance(value, (list, tuple, dict))", "copy.deepcopy(value)"),
       ("otherwise", "value")] := by decide

/-- the deep-copy walker `_deepcopy_array` (F41 repair), statement by statement: a buffer copy, then every reference reachable
    through record fields (so also through SUB-ARRAY fields, which `copy.deepcopy(ndarray)` skips) is replaced by its deep copy.
    The model's `deepCopy` is what this text is taken to mean (trusted base: the reading of these six statements); that the
    copies are in fact deep for every blob kind incl. sub-array-of-objects records is checked against the real code every run. -/
theorem C17_deepcopy_array_def :
    Gen.SMSites.deepcopyArrayDef =
      ["(a)", "out = a.copy(order='K')", "memo = {}",
       "def walk(view):     if view.dtype.names:         for name in view.dtype.names:             if view.dtype[name].hasobject:                 walk(view[name])     else:         for idx in np.ndindex(view.shape):             view[idx] = copy.deepcopy(view[idx], memo)",
       "walk(out)", "return out"] := rfl

/-- what every public method returns: a copy, a freshly built (and, for object dtype, deep-copied) stack, the export made of
    copies, a freshly computed value, the caller's own `default`, an int, a new manager, or nothing.  No `raw:` row:
    no internal object is handed out. -/
theorem C17_accessor_returns :
    Gen.SMSites.accessorReturns =
      [("get_current", "dictcopy"), ("get_current", "copy"), ("set_current", "none"), ("update_current", "none"),
       ("get_history", "stack"), ("get_history", "copy"), ("get_last_history", "param"), ("get_last_history", "copy"),
       ("get_history_length", "int"), ("commit_current_to_history", "none"), ("compute_logw_and_logz", "computed"),
       ("compute_logw_and_logz", "computed"), ("compute_results", "dictcopy"), ("to_dict", "export"), ("from_dict", "new"),
       ("update_from_dict", "none"), ("save_state", "none"), ("load_state", "none")] := by decide

/-- every write to the three dictionaries, in the whole class: copies everywhere; the caller's own object only under
    `copy=False`; the cache is filled from `get_history` / `compute_logw_and_logz` results (new arrays) -/
theorem C17_stores :
    Gen.SMSites.stores =
      [("__init__", "init"), ("__init__", "init"), ("__init__", "reset"), ("set_current", "copy_unless_copy_false"),
       ("update_current", "copy_unless_copy_false"), ("commit_current_to_history", "append_copy"),
       ("compute_results", "reset"), ("compute_results", "cache_get_history"), ("compute_results", "cache_logw"),
       ("update_from_dict", "update_dictcopy"), ("update_from_dict", "update_histcopy"), ("_invalidate_cache", "reset")] := by
  decide

/-- outside the class: no direct access to the dictionaries, no `copy=` argument at all (so never `copy=False`) -/
theorem C17_sites_no_opt_in :
    Gen.SMSites.privateAccess = [] ∧ (Gen.SMSites.pipelineCalls.all fun c => c.2.2.2 == "default") = true := by decide

/-- exactly one commit site (the iteration), one import site (resume), one export site (checkpoint), one results site -/
theorem C17_sites_commit_import :
    (Gen.SMSites.pipelineCalls.filter fun c => c.2.2.1 == "commit_current_to_history").map (fun c => (c.1, c.2.1)) =
      [("tempest/core.py", "SamplerCore.execute_iteration")] ∧
    (Gen.SMSites.pipelineCalls.filter fun c => c.2.2.1 == "update_from_dict").map (fun c => (c.1, c.2.1)) =
      [("tempest/core.py", "SamplerCore.load_sampler_state")] ∧
    (Gen.SMSites.pipelineCalls.filter fun c => c.2.2.1 == "to_dict").map (fun c => (c.1, c.2.1)) =
      [("tempest/core.py", "SamplerCore.save_sampler_state")] ∧
    (Gen.SMSites.pipelineCalls.filter fun c => c.2.2.1 == "compute_results").map (fun c => (c.1, c.2.1)) =
      [("tempest/sampler.py", "Sampler.results")] ∧
    (Gen.SMSites.pipelineCalls.filter fun c => c.2.2.1 == "from_dict" || c.2.2.1 == "load_state" || c.2.2.1 == "save_state") = [] := by
  decide

/-- the four pipeline steps (everything of `execute_iteration` but its own commit and `get_current`) call only methods
    that are body operations of the iteration model (`Op.isBody`): set / update / getters / `compute_logw_and_logz` -/
theorem C17_step_calls_are_body_ops :
    (Gen.SMSites.stepMethods.all fun m =>
      ["set_current", "update_current", "get_current", "get_history", "get_last_history", "get_history_length",
       "compute_logw_and_logz"].contains m) = true := by decide

/-- `execute_iteration`: the commit is the last step call, and the only one (G5 order table) -/
theorem C17_iteration_commit_last :
    Gen.Tables.iterationOrder.getLast? = some "state.commit_current_to_history" ∧
    (Gen.Tables.iterationOrder.filter fun c => c == "state.commit_current_to_history").length = 1 := by decide

/-- the tuples `compute_posterior` returns are the four the model's `postTuple` builds -/
theorem C17_posterior_returns_match :
    Gen.Tables.posteriorReturns =
      [(postTuple ⟨false, true, false, true, false⟩ ⟨.none, .none, .none, .none, .scalar 0⟩ .none).map Prod.fst,
       (postTuple ⟨false, true, false, false, false⟩ ⟨.none, .none, .none, .none, .scalar 0⟩ .none).map Prod.fst,
       (postTuple ⟨false, false, false, true, false⟩ ⟨.none, .none, .none, .none, .scalar 0⟩ .none).map Prod.fst,
       (postTuple ⟨false, false, false, false, false⟩ ⟨.none, .none, .none, .none, .scalar 0⟩ .none).map Prod.fst] := by decide

end Props.C17
