import TempestVerif.Model.LogLike
import TempestVerif.Model.RecSM
import Mathlib.Tactic
/-
  C07 (clause audit) — `_log_like` hands back row-aligned arrays: row i of `logl` and of `blobs` is what the user's
  likelihood returned for row i of `x`, in every evaluation mode; a batch whose results do not all have the shape of
  the first one raises instead of producing misaligned arrays.  So `_log_like` IS the abstract `Model.RecSM.logLike`
  the run theorems are stated on.
-/
namespace Props.C07LogLike
open Model.LogLike

variable {X L I R : Type}

theorem tupParts_eq {rs : List (Ret L I)} {p : List L × List (List I)} (h : tupParts rs = some p) :
    p.1 = rs.map Ret.logl ∧ p.2 = rs.map Ret.items ∧ ∀ r ∈ rs, ∃ l items, r = Ret.tup l items := by
  induction rs generalizing p with
  | nil => simp [tupParts] at h; subst h; simp
  | cons r rs ih =>
    cases r with
    | num l => simp [tupParts] at h
    | tup l items =>
      simp only [tupParts, Option.map_eq_some_iff] at h
      obtain ⟨q, hq, rfl⟩ := h
      obtain ⟨h1, h2, h3⟩ := ih hq
      refine ⟨by simp [h1, Ret.logl], by simp [h2, Ret.items], ?_⟩
      intro r hr
      rcases List.mem_cons.mp hr with rfl | hr
      · exact ⟨l, items, rfl⟩
      · exact h3 r hr

theorem numParts_eq {rs : List (Ret L I)} {ls : List L} (h : numParts rs = some ls) :
    ls = rs.map Ret.logl ∧ ∀ r ∈ rs, ∃ l, r = Ret.num l := by
  induction rs generalizing ls with
  | nil => simp [numParts] at h; subst h; simp
  | cons r rs ih =>
    cases r with
    | tup l items => simp [numParts] at h
    | num l =>
      simp only [numParts, Option.map_eq_some_iff] at h
      obtain ⟨q, hq, rfl⟩ := h
      obtain ⟨h1, h2⟩ := ih hq
      refine ⟨by simp [h1, Ret.logl], ?_⟩
      intro r hr
      rcases List.mem_cons.mp hr with rfl | hr
      · exact ⟨l, rfl⟩
      · exact h2 r hr

/-- serial and pool evaluation: `logl[i]` is the number the likelihood returned for `x[i]`; the blobs array exists exactly
    when the FIRST result carries blobs, and then row i is (the packed form of) the items returned for `x[i]` — for one
    fixed per-row function `norm`, the same for all rows -/
theorem C07_loglike_rows (mode : Mode) (hm : mode ≠ .vectorized) (lkVec : List X → List L) (lk : X → Ret L I)
    (pack : List (List I) → Option (List R)) (norm : List I → R) (hp : RowWise pack norm) (xs : List X)
    {out : List L × Option (List R)} (h : logLike mode lkVec lk pack xs = some out) :
    out.1 = xs.map (fun x => (lk x).logl) ∧
    out.2 = (if firstHasBlobs (xs.map lk) then some (xs.map fun x => norm (lk x).items) else none) := by
  have h' : (if firstHasBlobs (xs.map lk) then
      (tupParts (xs.map lk)).bind fun p => (pack p.2).map fun b => (p.1, some b)
      else (numParts (xs.map lk)).map fun ls => (ls, none)) = some out := by
    cases mode <;> first | exact absurd rfl hm | exact h
  split at h'
  · rename_i hf
    simp only [Option.bind_eq_some_iff, Option.map_eq_some_iff] at h'
    obtain ⟨p, hp1, b, hb, rfl⟩ := h'
    obtain ⟨e1, e2, -⟩ := tupParts_eq hp1
    have := hp _ _ hb
    simp [e1, e2, this, hf, List.map_map, Function.comp_def]
  · rename_i hf
    simp only [Option.map_eq_some_iff] at h'
    obtain ⟨ls, hls, rfl⟩ := h'
    obtain ⟨e1, -⟩ := numParts_eq hls
    simp [e1, hf, List.map_map, Function.comp_def]

/-- a batch that mixes the two shapes raises: if `_log_like` returns, every result has the shape of the first one -/
theorem C07_loglike_uniform (mode : Mode) (hm : mode ≠ .vectorized) (lkVec : List X → List L) (lk : X → Ret L I)
    (pack : List (List I) → Option (List R)) (xs : List X)
    {out : List L × Option (List R)} (h : logLike mode lkVec lk pack xs = some out) :
    (firstHasBlobs (xs.map lk) = true ∧ ∀ x ∈ xs, ∃ l items, lk x = Ret.tup l items) ∨
    (firstHasBlobs (xs.map lk) = false ∧ ∀ x ∈ xs, ∃ l, lk x = Ret.num l) := by
  have h' : (if firstHasBlobs (xs.map lk) then
      (tupParts (xs.map lk)).bind fun p => (pack p.2).map fun b => (p.1, some b)
      else (numParts (xs.map lk)).map fun ls => (ls, none)) = some out := by
    cases mode <;> first | exact absurd rfl hm | exact h
  split at h'
  · rename_i hf
    simp only [Option.bind_eq_some_iff] at h'
    obtain ⟨p, hp1, -⟩ := h'
    obtain ⟨-, -, e3⟩ := tupParts_eq hp1
    exact Or.inl ⟨hf, fun x hx => e3 (lk x) (List.mem_map_of_mem hx)⟩
  · rename_i hf
    simp only [Option.map_eq_some_iff] at h'
    obtain ⟨ls, hls, -⟩ := h'
    obtain ⟨-, e2⟩ := numParts_eq hls
    exact Or.inr ⟨by simpa using hf, fun x hx => e2 (lk x) (List.mem_map_of_mem hx)⟩

/-- vectorised evaluation hands the user's array through untouched and never has blobs -/
theorem C07_loglike_vectorized (lkVec : List X → List L) (lk : X → Ret L I) (pack : List (List I) → Option (List R))
    (xs : List X) : logLike .vectorized lkVec lk pack xs = some (lkVec xs, none) := rfl

/-- hence `_log_like` is the abstract likelihood of `Model.RecSM`: for a user function that always returns tuples with
    blobs (resp. always bare numbers) the wrapper's result is `RecSM.logLike` of the per-point function
    `x ↦ (logl, norm items)` with `lkBlobs` = "the first result has blobs" -/
theorem C07_loglike_refines (mode : Mode) (hm : mode ≠ .vectorized) (lkVec : List X → List L) (lk : X → Ret L I)
    (pack : List (List I) → Option (List R)) (norm : List I → R) (hp : RowWise pack norm) (xs : List X)
    (cfg : Model.RecSM.Cfg) (hcfg : cfg.lkBlobs = firstHasBlobs (xs.map lk))
    {out : List L × Option (List R)} (h : logLike mode lkVec lk pack xs = some out) :
    out = Model.RecSM.logLike cfg (fun x => ((lk x).logl, norm (lk x).items)) xs := by
  obtain ⟨h1, h2⟩ := C07_loglike_rows mode hm lkVec lk pack norm hp xs h
  have : out = (out.1, out.2) := rfl
  rw [this, h1, h2]
  simp [Model.RecSM.logLike, hcfg]

/-- the executable `packFlat` of the driver is row-wise -/
theorem packFlat_rowwise : RowWise (packFlat) (List.flatten) := by
  intro bs out h
  cases bs with
  | nil => simp [packFlat] at h; subst h; rfl
  | cons b bs =>
    simp only [packFlat] at h
    split at h
    · injection h with h; exact h.symm
    · cases h

/-- non-vacuity: two tuple results with a scalar and a 2-vector blob -/
example : logLike .serial (fun _ => ([] : List Int)) (fun x : Int => Ret.tup x [[x + 1], [x, 2 * x]]) packFlat [3, 5]
    = some ([3, 5], some [[4, 3, 6], [6, 5, 10]]) := by decide
/-- a later bare number after a tuple, and a tuple after a bare number, both raise -/
example : logLike .serial (fun _ => ([] : List Int))
    (fun x : Int => if x = 3 then Ret.tup x [[x]] else Ret.num x) packFlat [3, 5] = none := by decide
example : logLike .pool (fun _ => ([] : List Int))
    (fun x : Int => if x = 3 then Ret.num x else Ret.tup x [[x]]) packFlat [3, 5] = none := by decide
/-- a 1-tuple `(logl,)` is not "blobs" and `float((logl,))` raises -/
example : logLike .serial (fun _ => ([] : List Int)) (fun x : Int => Ret.tup x ([] : List (List Int))) packFlat [3] = none := by
  decide

end Props.C07LogLike
