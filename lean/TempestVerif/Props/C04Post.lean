import TempestVerif.Model.ClosedLoop
import TempestVerif.Model.WeightsKeys
import TempestVerif.Props.C04
import TempestVerif.Props.C04Keys
import TempestVerif.Props.C12
import TempestVerif.Lemmas.PipelineShift
import Mathlib.Tactic
/-
  C04, second clause pass — clause 10: `Sampler.posterior(return_logw=True)` / `Sampler.evidence()` expose exactly the
  numbers of the statement, and the statement's formula holds on EVERY history a run goes through.

  The composed model is `Model.ClosedLoop` (C10): `run_sampling` with `execute_iteration` inside it, the guard
  `_not_termination`, the epilogue `set_current("logz", compute_logw_and_logz(1.0)[1])`, `compute_posterior`
  (`Model.Posterior.posterior` on `posteriorArrs`) and `compute_evidence`.  The history of that model is a list of
  committed iterations (`CBatch`: β_t, z_t, the records and log-likelihoods of the batch, counters); `batchesOf` projects it
  to the `Batch` list `Model.Weights.logw` takes.  A run may start from ANY state (`runSampling W c fuel s0`): the fresh
  state, or a loaded checkpoint whose stored batches have other sizes than this sampler's `n_particles`
  (`load_sampler_state` restores the history and the current values, the configuration is the new sampler's).
-/
namespace Props.C04
open Model.Weights Model.ClosedLoop Model.Posterior Model.Records
open Lemmas.PipelineShift

variable {P MS TS G : Type}

/-! ### `weights = exp(logw − max); weights /= sum` of normalised log-weights is `exp(logw)` -/

theorem weights0_of_normalised (lw : List ℝ) (hne : lw ≠ []) (hs : (lw.map Real.exp).sum = 1) :
    weights0 lw = some (lw.map Real.exp) := by
  cases lw with
  | nil => exact absurd rfl hne
  | cons x xs =>
    simp only [weights0, Option.some.injEq]
    rw [Props.C20.normalise_def]
    set m := Model.Ess.maxOf x xs with hm
    have he : expShift x xs = (x :: xs).map fun l => Real.exp (-m) * Real.exp l := by
      simp only [expShift, ScReal.exp_def, ScReal.sub_def]
      apply List.map_congr_left
      intro l _
      rw [← Real.exp_add]; congr 1; ring
    have hsum : (expShift x xs).sum = Real.exp (-m) := by
      rw [he, List.sum_map_mul_left, hs, mul_one]
    rw [hsum, he, List.map_map]
    apply List.map_congr_left
    intro l _
    simp only [Function.comp_def]
    field_simp

/-! ### the arrays `compute_posterior` starts from -/

/-- every stored batch is non-empty -/
def WFC (s : CState ℝ P TS G) : Prop := ∀ b ∈ s.hist, 1 ≤ b.logl.length

/-- the stored records and the stored log-likelihoods of every committed batch are equally many
    (`u`, `x`, `logl` of one iteration are committed together) -/
def PoolAligned (s : CState ℝ P TS G) : Prop := ∀ b ∈ s.hist, b.pts.length = b.logl.length

theorem length_poolOf (h : List (CBatch ℝ P)) (ha : ∀ b ∈ h, b.pts.length = b.logl.length) :
    (poolOf h).length = nTotal (batchesOf h) := by
  induction h with
  | nil => simp [poolOf, batchesOf, nTotal]
  | cons b bs ih =>
    have h1 := ha b List.mem_cons_self
    have h2 := ih (fun b' hb' => ha b' (List.mem_cons_of_mem _ hb'))
    simp only [poolOf, List.flatMap_cons, List.length_append] at h2 ⊢
    simp only [batchesOf, List.map_cons, nTotal_cons, toBatch] at h2 ⊢
    rw [h1, h2]

theorem batchesOf_ne_nil (h : List (CBatch ℝ P)) (hne : h ≠ []) : batchesOf h ≠ [] := by
  simpa [batchesOf] using hne

theorem WF_of_WFC (s : CState ℝ P TS G) (hs : WFC s) (hne : s.hist ≠ []) : WF (batchesOf s.hist) := by
  refine ⟨batchesOf_ne_nil _ hne, ?_⟩
  intro b hb
  simp only [batchesOf, List.mem_map] at hb
  obtain ⟨pb, hpb, rfl⟩ := hb
  exact hs pb hpb

theorem posteriorArrs_eq (s : CState ℝ P TS G) (hs : WFC s) (hne : s.hist ≠ []) :
    posteriorArrs s = ⟨poolOf s.hist, flatLogl (batchesOf s.hist), poolOf s.hist,
      (flatLogl (batchesOf s.hist)).map (specNorm (batchesOf s.hist) 1), []⟩ := by
  unfold posteriorArrs
  rw [ScReal.one_def, C04_normalised _ (WF_of_WFC s hs hne)]

/-! ### clause 10, `posterior(return_logw=True)` -/

/-- **the plain call** `posterior(return_logw=True, trim_importance_weights=False)` (no resampling): the returned
    arrays are the whole flat history; the returned `logw` is, particle by particle, the statement's normalised
    log-weight at β = 1; the returned `weights` are exactly `exp(logw)` (they sum to one); `logl` is the stored array the
    weights were computed from -/
theorem C04_posterior_plain (tf rf : List String) (e : ℝ) (bins : Nat) (u0 : ℝ) (o : Opts)
    (ht : o.trim = false) (hr : o.resample = false)
    (s : CState ℝ P TS G) (hs : WFC s) (hne : s.hist ≠ []) :
    Model.ClosedLoop.posterior tf rf e bins u0 o s
      = some ⟨poolOf s.hist, flatLogl (batchesOf s.hist), poolOf s.hist,
          (flatLogl (batchesOf s.hist)).map (specNorm (batchesOf s.hist) 1),
          (flatLogl (batchesOf s.hist)).map fun l => Real.exp (specNorm (batchesOf s.hist) 1 l)⟩ := by
  have hwf := WF_of_WFC s hs hne
  unfold Model.ClosedLoop.posterior Model.Posterior.posterior
  rw [posteriorArrs_eq s hs hne]
  have hlw : (flatLogl (batchesOf s.hist)).map (specNorm (batchesOf s.hist) 1) ≠ [] := by
    simpa using flatLogl_ne_nil _ hwf
  have hsum : (((flatLogl (batchesOf s.hist)).map (specNorm (batchesOf s.hist) 1)).map Real.exp).sum = 1 := by
    have := C04_normalised_sum_one _ hwf 1
    rwa [C04_normalised _ hwf] at this
  simp only [weights0_of_normalised _ hlw hsum, Option.bind_some, ht, hr, Bool.false_eq_true, if_false, body,
    List.map_map, Function.comp_def]

/-- **every option combination** (`resample`, `trim_importance_weights`; the two `return_*` flags only select arrays),
    every trimming threshold, every grid size ≥ 1, every resampling offset, with the gather tables regenerated from the
    source: the call returns; all arrays have one positive length; and every returned row `k` is ONE stored particle `i` —
    its record, its stored log-likelihood `ℓ_i`, and as its `logw` the statement's normalised log-weight of `ℓ_i` at β = 1
    computed from the whole stored history -/
theorem C04_posterior_rows (e : ℝ) (bins : Nat) (hb : 0 < bins) (u0 : ℝ) (o : Opts)
    (s : CState ℝ P TS G) (hs : WFC s) (hne : s.hist ≠ []) (ha : PoolAligned s) :
    ∃ r, Model.ClosedLoop.posterior Gen.Tables.posteriorTrimGather Gen.Tables.posteriorResampleGather e bins u0 o s = some r ∧
      ∃ m, 0 < m ∧ Props.C12.SameLen r m ∧
        ∀ k, k < m → ∃ i l, i < nTotal (batchesOf s.hist) ∧ (flatLogl (batchesOf s.hist))[i]? = some l ∧
          r.l[k]? = some l ∧ r.lw[k]? = some (specNorm (batchesOf s.hist) 1 l) ∧ r.x[k]? = (poolOf s.hist)[i]? := by
  have hwf := WF_of_WFC s hs hne
  have hlen : ((flatLogl (batchesOf s.hist)).map (specNorm (batchesOf s.hist) 1)).length = nTotal (batchesOf s.hist) := by
    rw [List.length_map, length_flatLogl]
  have hlw : (flatLogl (batchesOf s.hist)).map (specNorm (batchesOf s.hist) 1) ≠ [] := by
    simpa using flatLogl_ne_nil _ hwf
  have hpool := length_poolOf s.hist ha
  obtain ⟨r, hr, m, hm, hsl, hrows, _⟩ := Props.C12.C12_posterior_contract_gen e bins hb u0 o
    (⟨poolOf s.hist, flatLogl (batchesOf s.hist), poolOf s.hist,
      (flatLogl (batchesOf s.hist)).map (specNorm (batchesOf s.hist) 1), []⟩ : Arrs P ℝ P ℝ ℝ)
    hlw (by simp only [hlen]; exact hpool) (by simp only [hlen]; exact length_flatLogl _) (by simp only [hlen]; exact hpool)
  refine ⟨r, ?_, m, hm, hsl, ?_⟩
  · unfold Model.ClosedLoop.posterior; rw [posteriorArrs_eq s hs hne]; exact hr
  · intro k hk
    obtain ⟨i, hi, hx, hl, _, hw⟩ := hrows k hk
    simp only [hlen] at hi
    have hil : i < (flatLogl (batchesOf s.hist)).length := by rw [length_flatLogl]; exact hi
    refine ⟨i, (flatLogl (batchesOf s.hist))[i], hi, List.getElem?_eq_getElem hil, ?_, ?_, hx⟩
    · rw [hl]; exact List.getElem?_eq_getElem hil
    · rw [hw]; simp only [List.getElem?_map, List.getElem?_eq_getElem hil, Option.map_some]

/-! ### clause 10, `evidence()`; and the statement at every point of a run -/

/-- the accept/reject sweep keeps both arrays at their length -/
theorem stepAll_lengths (W : World ℝ P MS TS G) (β : ℝ) : ∀ (pts : List P) (ls : List ℝ) (qs : List (P × ℝ × Bool))
    (rs : List ℝ), (stepAll W β pts ls qs rs).1.length = pts.length ∧ (stepAll W β pts ls qs rs).2.1.length = ls.length := by
  intro pts
  induction pts with
  | nil => intro ls qs rs; simp [stepAll]
  | cons pt pts ih =>
    intro ls qs rs
    rcases ls with _ | ⟨l, ls⟩
    · simp [stepAll]
    rcases qs with _ | ⟨q, qs⟩
    · simp [stepAll]
    rcases rs with _ | ⟨r, rs⟩
    · simp [stepAll]
    have := ih ls qs rs
    simp [stepAll, this.1, this.2]

theorem mcLoop_lengths (W : World ℝ P MS TS G) (cfg : CCfg ℝ) (ms : MS) (β : ℝ) (asg : List Nat) :
    ∀ (fuel : Nat) (st m : MC ℝ P G), mcLoop W cfg ms β asg fuel st = some m →
      m.pts.length = st.pts.length ∧ m.logl.length = st.logl.length := by
  intro fuel
  induction fuel with
  | zero => intro st m h; simp [mcLoop] at h
  | succ n ih =>
    intro st m h
    simp only [mcLoop] at h
    split at h
    · simp only [Option.some.injEq] at h
      subst h
      exact stepAll_lengths W β _ _ _ _
    · have := ih _ m h
      simpa [(stepAll_lengths W β _ _ _ _).1, (stepAll_lengths W β _ _ _ _).2] using this

/-- the draw loop returns as many likelihood values as records -/
theorem drawLoop_lengths (W : World ℝ P MS TS G) (n : Nat) : ∀ (fuel : Nat) (g : G) (drawn : Nat)
    (d : List P × List (Option ℝ) × Nat × G), drawLoop W n fuel g drawn = some d → d.2.1.length = d.1.length := by
  intro fuel
  induction fuel with
  | zero => intro g drawn d h; simp [drawLoop] at h
  | succ k ih =>
    intro g drawn d h
    simp only [drawLoop] at h
    split at h
    · split at h
      · cases h
      · exact ih _ _ d h
    · simp only [Option.some.injEq] at h
      subst h
      simp

/-- the warm-up iteration stores as many log-likelihoods as records -/
theorem warmup_aligned (W : World ℝ P MS TS G) (cfg : CCfg ℝ) (g : G) (d : Drawn ℝ P G)
    (h : warmupStep W cfg g = some d) : d.pts.length = d.logl.length := by
  unfold warmupStep at h
  simp only [Option.bind_eq_some_iff] at h
  obtain ⟨dl, hdl, h⟩ := h
  have hlen := drawLoop_lengths W _ _ _ _ dl hdl
  split at h
  · split at h
    · simp only [Option.map_eq_some_iff] at h
      obtain ⟨l, hl, rfl⟩ := h
      have := allSome_length hl
      simp only [scatterFrom_length] at this ⊢
      rw [this, hlen]
    · simp only [Option.map_eq_some_iff] at h
      obtain ⟨l, hl, rfl⟩ := h
      have := allSome_length hl
      simp only at this ⊢
      rw [this, hlen]
  · simp only [Option.map_eq_some_iff] at h
    obtain ⟨l, hl, rfl⟩ := h
    have := allSome_length hl
    simp only at this ⊢
    rw [this, hlen]

theorem resample_aligned (W : World ℝ P MS TS G) (cfg : CCfg ℝ) (h : List (CBatch ℝ P)) (w : List ℝ) (ts : TS) (g : G)
    (rs : Resampled ℝ P G) (hr : resampleStep W cfg h w ts g = some rs) : rs.pts.length = rs.logl.length := by
  unfold resampleStep at hr
  simp only [Option.bind_eq_some_iff, Option.map_eq_some_iff] at hr
  obtain ⟨idx, _, pts, hp, l, hl, rfl⟩ := hr
  rw [gather?_length hp, gather?_length hl]

/-- **one `execute_iteration`**: the history grows by exactly one batch, which is non-empty (the model leaves its domain
    rather than commit an empty batch) and stores as many log-likelihoods as records; nothing stored before is touched -/
theorem iterate_appends (W : World ℝ P MS TS G) (cfg : CCfg ℝ) (s s1 : CState ℝ P TS G) (o : CIterOut ℝ P)
    (h : Model.ClosedLoop.iterate W cfg s = some (s1, o)) :
    ∃ b : CBatch ℝ P, s1.hist = s.hist ++ [b] ∧ 1 ≤ b.logl.length ∧ b.pts.length = b.logl.length := by
  unfold Model.ClosedLoop.iterate at h
  generalize reweightStep W cfg s = r at h
  cases htr : trainStep W cfg s.ts s.g (Model.Pipeline.returnedWeights r.weightsTag) (poolOf s.hist) r.beta (s.iter + 1) with
  | none => simp [htr] at h
  | some tr =>
    simp only [htr, Option.bind_some] at h
    by_cases hb : Model.Reweight.eqv r.beta Sc.zero = true
    · simp only [hb, if_true] at h
      cases hd : warmupStep W cfg tr.2.2 with
      | none => simp [hd] at h
      | some d =>
        simp only [hd, Option.bind_some] at h
        by_cases he : d.logl.isEmpty = true
        · simp [he] at h
        · simp only [he, Bool.false_eq_true, if_false, Option.some.injEq, Prod.mk.injEq] at h
          obtain ⟨rfl, _⟩ := h
          refine ⟨_, rfl, ?_, warmup_aligned W cfg _ d hd⟩
          simp only
          cases hl : d.logl with
          | nil => simp [hl] at he
          | cons _ _ => simp
    · simp only [hb, Bool.false_eq_true, if_false] at h
      cases hrs : resampleStep W cfg s.hist (Model.Pipeline.returnedWeights r.weightsTag) tr.2.1 tr.2.2 with
      | none => simp [hrs] at h
      | some rs =>
        simp only [hrs, Option.bind_some] at h
        by_cases he : rs.logl.isEmpty = true
        · simp [he] at h
        · simp only [he, Bool.false_eq_true, if_false, Option.map_eq_some_iff, Prod.mk.injEq] at h
          obtain ⟨m, hm, rfl, _⟩ := h
          have hml := mcLoop_lengths W cfg _ _ _ _ _ m hm
          simp only at hml
          refine ⟨_, rfl, ?_, ?_⟩
          · simp only
            rw [hml.2]
            cases hl : rs.logl with
            | nil => simp [hl] at he
            | cons _ _ => simp
          · simp only
            rw [hml.1, hml.2]
            exact resample_aligned W cfg _ _ _ _ rs hrs

theorem iterate_invariants (W : World ℝ P MS TS G) (cfg : CCfg ℝ) (s s1 : CState ℝ P TS G) (o : CIterOut ℝ P)
    (hs : WFC s) (ha : PoolAligned s) (h : Model.ClosedLoop.iterate W cfg s = some (s1, o)) :
    WFC s1 ∧ PoolAligned s1 ∧ s1.hist ≠ [] := by
  obtain ⟨b, hb, h1, h2⟩ := iterate_appends W cfg s s1 o h
  refine ⟨?_, ?_, by rw [hb]; simp⟩
  · intro b' hb'
    rw [hb, List.mem_append, List.mem_singleton] at hb'
    rcases hb' with hb' | rfl
    · exact hs b' hb'
    · exact h1
  · intro b' hb'
    rw [hb, List.mem_append, List.mem_singleton] at hb'
    rcases hb' with hb' | rfl
    · exact ha b' hb'
    · exact h2

/-- both invariants hold at the top of the loop in EVERY iteration of the `while` loop, and in the state it leaves -/
theorem runLoop_invariants (W : World ℝ P MS TS G) (cfg : CCfg ℝ) : ∀ (fuel : Nat) (s sf : CState ℝ P TS G)
    (tr : List (CState ℝ P TS G)) (os : List (CIterOut ℝ P)), WFC s → PoolAligned s →
    runLoop W cfg fuel s = some (sf, tr, os) →
    (∀ st ∈ tr, WFC st ∧ PoolAligned st) ∧ WFC sf ∧ PoolAligned sf ∧ sf ∈ tr := by
  intro fuel
  induction fuel with
  | zero =>
    intro s sf tr os hs ha h
    simp only [runLoop] at h
    split at h
    · simp at h
    · simp only [Option.some.injEq, Prod.mk.injEq] at h
      obtain ⟨rfl, rfl, _⟩ := h
      exact ⟨by intro st hst; simp at hst; subst hst; exact ⟨hs, ha⟩, hs, ha, by simp⟩
  | succ n ih =>
    intro s sf tr os hs ha h
    simp only [runLoop] at h
    split at h
    · simp only [Option.bind_eq_some_iff, Option.map_eq_some_iff] at h
      obtain ⟨⟨s1, o⟩, hi, ⟨sf', tr', os'⟩, hr, he⟩ := h
      simp only [Prod.mk.injEq] at he
      obtain ⟨rfl, rfl, _⟩ := he
      obtain ⟨hs1, ha1, _⟩ := iterate_invariants W cfg s s1 o hs ha hi
      obtain ⟨h1, h2, h3, h4⟩ := ih s1 sf' tr' os' hs1 ha1 hr
      refine ⟨?_, h2, h3, List.mem_cons_of_mem _ h4⟩
      intro st hst
      rcases List.mem_cons.mp hst with rfl | hst
      · exact ⟨hs, ha⟩
      · exact h1 st hst
    · simp only [Option.some.injEq, Prod.mk.injEq] at h
      obtain ⟨rfl, rfl, _⟩ := h
      exact ⟨by intro st hst; simp at hst; subst hst; exact ⟨hs, ha⟩, hs, ha, by simp⟩

/-- the head of `run_sampling` (`startState`: only an EMPTY state is initialised, a loaded or finished one is continued)
    does not touch the history -/
theorem startState_hist (s : CState ℝ P TS G) : (startState s).hist = s.hist := by
  unfold startState; split <;> rfl

/-- **the statement at every point of a run.**  Start `run_sampling` in any state whose stored batches are non-empty — the
    fresh state, or a loaded checkpoint with whatever batch sizes — with any world, any configuration (any
    `n_particles`).  In every state at the top of the loop (these are the states on which the reweighting step, the guard
    and a `save_every` checkpoint evaluate `compute_logw_and_logz`), as soon as anything is stored: for EVERY requested
    target β the returned unnormalised log-weights are the statement's formula over that state's history, the normalised ones
    sum to one, and the evidence is the log of the mean unnormalised weight. -/
theorem C04_run_every_state (W : World ℝ P MS TS G) (cfg : CCfg ℝ) (fuel : Nat) (s0 sf : CState ℝ P TS G)
    (tr : List (CState ℝ P TS G)) (os : List (CIterOut ℝ P)) (hs : WFC s0) (ha : PoolAligned s0)
    (h : runLoop W cfg fuel s0 = some (sf, tr, os)) :
    ∀ st ∈ tr, st.hist ≠ [] → ∀ β : ℝ,
      (logw (batchesOf st.hist) β false).1 = (flatLogl (batchesOf st.hist)).map (specRaw (batchesOf st.hist) β) ∧
      (((logw (batchesOf st.hist) β true).1).map Real.exp).sum = 1 ∧
      (∀ nrm, (logw (batchesOf st.hist) β nrm).2 = some (specLogz (batchesOf st.hist) β)) := by
  intro st hst hne β
  have hwf := WF_of_WFC st ((runLoop_invariants W cfg fuel s0 sf tr os hs ha h).1 st hst).1 hne
  exact ⟨C04_formula _ hwf β, C04_normalised_sum_one _ hwf β, fun nrm => C04_logz _ hwf β nrm⟩

/-- **`evidence()` after `run()`**: whenever `run_sampling` returns (from any admissible start state), the value
    `compute_evidence()` hands out is the log of the mean unnormalised β = 1 weight over the final stored history — the
    second result of `compute_logw_and_logz(1.0)` on that history — and that history is in the statement's domain -/
theorem C04_evidence_after_run (W : World ℝ P MS TS G) (cfg : CCfg ℝ) (fuel : Nat) (s0 sf : CState ℝ P TS G)
    (tr : List (CState ℝ P TS G)) (os : List (CIterOut ℝ P)) (hs : WFC s0) (ha : PoolAligned s0)
    (h : runSampling W cfg fuel s0 = some (sf, tr, os)) :
    WF (batchesOf sf.hist) ∧ PoolAligned sf ∧
    Model.ClosedLoop.evidence sf = specLogz (batchesOf sf.hist) 1 ∧
    (∀ nrm, (logw (batchesOf sf.hist) 1 nrm).2 = some (Model.ClosedLoop.evidence sf)) := by
  unfold runSampling at h
  simp only [Option.bind_eq_some_iff, Option.map_eq_some_iff] at h
  obtain ⟨⟨s', tr', os'⟩, hl, z, hz, he⟩ := h
  simp only [Prod.mk.injEq] at he
  obtain ⟨rfl, _, _⟩ := he
  have hs0 : WFC (startState s0) := by intro b hb; rw [startState_hist] at hb; exact hs b hb
  have ha0 : PoolAligned (startState s0) := by intro b hb; rw [startState_hist] at hb; exact ha b hb
  obtain ⟨_, hs', ha', _⟩ := runLoop_invariants W cfg fuel (startState s0) s' tr' os' hs0 ha0 hl
  have hne : s'.hist ≠ [] := by
    intro h0
    simp [finalLogz, h0, batchesOf, logw] at hz
  have hwf := WF_of_WFC s' hs' hne
  have hz' : z = specLogz (batchesOf s'.hist) 1 := by
    simp only [finalLogz, ScReal.one_def, C04_logz _ hwf, Option.some.injEq] at hz
    exact hz.symm
  refine ⟨hwf, ha', ?_, ?_⟩
  · simpa [Model.ClosedLoop.evidence] using hz'
  · intro nrm
    simp only [Model.ClosedLoop.evidence]
    rw [C04_logz _ hwf, hz']

/-- … and `posterior()` called on that final state, in every option combination, returns rows of that same history -/
theorem C04_posterior_after_run (W : World ℝ P MS TS G) (cfg : CCfg ℝ) (fuel : Nat) (s0 sf : CState ℝ P TS G)
    (tr : List (CState ℝ P TS G)) (os : List (CIterOut ℝ P)) (hs : WFC s0) (ha : PoolAligned s0)
    (h : runSampling W cfg fuel s0 = some (sf, tr, os)) (e : ℝ) (bins : Nat) (hb : 0 < bins) (u0 : ℝ) (o : Opts) :
    ∃ r, Model.ClosedLoop.posterior Gen.Tables.posteriorTrimGather Gen.Tables.posteriorResampleGather e bins u0 o sf = some r ∧
      ∃ m, 0 < m ∧ Props.C12.SameLen r m ∧
        ∀ k, k < m → ∃ i l, i < nTotal (batchesOf sf.hist) ∧ (flatLogl (batchesOf sf.hist))[i]? = some l ∧
          r.l[k]? = some l ∧ r.lw[k]? = some (specNorm (batchesOf sf.hist) 1 l) ∧ r.x[k]? = (poolOf sf.hist)[i]? := by
  obtain ⟨hwf, ha', _, _⟩ := C04_evidence_after_run W cfg fuel s0 sf tr os hs ha h
  have hne : sf.hist ≠ [] := by
    intro h0; exact hwf.1 (by simp [batchesOf, h0])
  have hs' : WFC sf := by
    intro b hb
    exact hwf.2 (toBatch b) (by simp only [batchesOf, List.mem_map]; exact ⟨b, hb, rfl⟩)
  exact C04_posterior_rows e bins hb u0 o sf hs' hne ha'

/-- **the empty history inside a run**: on the fresh state `compute_logw_and_logz` returns `([], −∞)` (model: `([], none)`),
    the guard therefore continues (`len(logw) == 0`), and the epilogue can only be reached after at least one commit
    (`runSampling` is `none` on a state whose history is still empty) -/
theorem C04_empty_history_in_run (W : World ℝ P MS TS G) (cfg : CCfg ℝ) (ts : TS) (g : G) :
    logw (batchesOf (Model.ClosedLoop.init ts g : CState ℝ P TS G).hist) (1 : ℝ) true = ([], none) ∧
    contGuard cfg (Model.ClosedLoop.init ts g : CState ℝ P TS G) = true ∧
    runSampling W cfg 0 (Model.ClosedLoop.init ts g) = none := by
  refine ⟨rfl, rfl, ?_⟩
  simp [runSampling, startState, runLoop, contGuard, Model.ClosedLoop.init, batchesOf, logw, Model.Run.notTermination]

/-! ### the composed model's history and the per-key lists of the real object -/

/-- `commit` of the composed model is a commit of the key-level model in which all three values are set -/
theorem C04_commit_is_full_commit (s : CState ℝ P TS G) :
    Model.WeightsKeys.ofBatches (batchesOf (commit s).hist)
      = Model.WeightsKeys.commitK ⟨some s.beta, some s.logz, some s.curL⟩ (Model.WeightsKeys.ofBatches (batchesOf s.hist)) := by
  rw [Props.C04Keys.C04K_commit_full]
  simp [commit, batchesOf, toBatch]

/-! ### non-vacuity -/

/-- a "loaded checkpoint": two stored iterations of DIFFERENT size (2 particles at β = 0, 3 particles at β = 1) -/
noncomputable def sR : CState ℝ Nat Unit Nat :=
  ⟨[⟨0, 0, 1, [10, 11], [-1, -2], 1, 2, 1, 1, 1⟩, ⟨1, -1/2, 2, [20, 21, 22], [-3/10, 0, 4], 2, 5, 1, 1/2, 1/2⟩],
   1, -1/2, 2, 2, 5, [20, 21, 22], [-3/10, 0, 4], [0, 0, 0], 1, 1/2, 1/2, (), 7⟩

theorem wfc_sR : WFC sR := by
  intro b hb
  simp only [sR, List.mem_cons, List.not_mem_nil, or_false] at hb
  rcases hb with rfl | rfl <;> simp

theorem aligned_sR : PoolAligned sR := by
  intro b hb
  simp only [sR, List.mem_cons, List.not_mem_nil, or_false] at hb
  rcases hb with rfl | rfl <;> simp

example : batchesOf sR.hist = [⟨0, 0, [-1, -2]⟩, ⟨1, -1/2, [-3/10, 0, 4]⟩] := by simp [sR, batchesOf, toBatch]

/-- the plain posterior of that state: five rows, in stored order -/
example : ∃ r, Model.ClosedLoop.posterior Gen.Tables.posteriorTrimGather Gen.Tables.posteriorResampleGather (99/100) 1000 (1/3)
    ⟨false, false, false, true⟩ sR = some r ∧ r.x = [10, 11, 20, 21, 22] ∧ r.l = [-1, -2, -3/10, 0, 4] ∧
    r.lw = r.l.map (specNorm (batchesOf sR.hist) 1) ∧ r.w = r.lw.map Real.exp := by
  refine ⟨_, C04_posterior_plain _ _ _ _ _ ⟨false, false, false, true⟩ rfl rfl sR wfc_sR (by simp [sR]), ?_, ?_, ?_, ?_⟩
  · simp [sR, poolOf]
  · simp [sR, batchesOf, toBatch, flatLogl]
  · simp [sR, batchesOf, toBatch, flatLogl]
  · simp [List.map_map, Function.comp_def]

/-- trimming and resampling on: the hypotheses of `C04_posterior_rows` are met by it -/
example : ∃ r, Model.ClosedLoop.posterior Gen.Tables.posteriorTrimGather Gen.Tables.posteriorResampleGather (99/100) 1000 (1/3)
    ⟨true, true, false, true⟩ sR = some r ∧ ∃ m, 0 < m ∧ r.lw.length = m := by
  obtain ⟨r, hr, m, hm, hsl, _⟩ := C04_posterior_rows (99/100) 1000 (by norm_num) (1/3) ⟨true, true, false, true⟩ sR wfc_sR
    (by simp [sR]) aligned_sR
  exact ⟨r, hr, m, hm, hsl.2.2.2.1⟩

/-- the fresh state meets the hypotheses of the run theorems (`Props.C10.itCl1` evaluates its first iteration) -/
example (ts : TS) (g : G) : WFC (Model.ClosedLoop.init ts g : CState ℝ P TS G) ∧
    PoolAligned (Model.ClosedLoop.init ts g : CState ℝ P TS G) :=
  ⟨by intro b hb; simp [Model.ClosedLoop.init] at hb, by intro b hb; simp [Model.ClosedLoop.init] at hb⟩

end Props.C04
