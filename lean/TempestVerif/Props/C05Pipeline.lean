import TempestVerif.Lemmas.PipelineShift
import TempestVerif.Props.C05Warmup
import TempestVerif.Gen.Constants
import Mathlib.Tactic
/-
  C05 on the CONCRETE pipeline (`Model.Pipeline`): here the metric oracle is no longer a parameter — it is
  `oracleM h β = (w, ess w, ess w)` with `w = exp(logw − max logw)` for the C04 weights of the stored history `h`
  and `ess` the C20 definition — and the history evolves by `iterate` (reweight → resample → mutate → commit).
  The generic-oracle theorems of `Props/C05.lean` are instantiated, their structural hypotheses
  ("history empty at the start, never empty after a commit", "β handed on unchanged") are PROVED from the
  pipeline model instead of assumed, and the tolerance hypothesis of the fuel theorems is discharged from the
  constant regenerated from /repo (translator G1).  ESS mode (the pipeline model has no volume metric).
-/
namespace Props.C05
open Model.Reweight Model.Pipeline Model.Weights

/-- what `iterate` reports is what `Reweighter.run` produced on the pool oracles -/
theorem iterate_out (cfg : PCfg ℝ) (s : PState ℝ) (t : Tape ℝ) (s1 : PState ℝ) (o : IterOut ℝ)
    (h : iterate cfg s t = some (s1, o)) :
    o.beta = (run cfg.rw (batches s.hist).isEmpty (oracleM (batches s.hist)) (oracleZ (batches s.hist)) isFin s.beta).beta ∧
    o.ess = (run cfg.rw (batches s.hist).isEmpty (oracleM (batches s.hist)) (oracleZ (batches s.hist)) isFin s.beta).ess ∧
    o.branch = (run cfg.rw (batches s.hist).isEmpty (oracleM (batches s.hist)) (oracleZ (batches s.hist)) isFin s.beta).branch := by
  simp only [iterate] at h
  generalize run cfg.rw (batches s.hist).isEmpty (oracleM (batches s.hist))
    (oracleZ (batches s.hist)) isFin s.beta = r at h ⊢
  by_cases hb : eqv r.beta Sc.zero = true
  · simp only [hb, if_true, Option.map_eq_some_iff, Prod.mk.injEq] at h
    obtain ⟨l, _, _, rfl⟩ := h
    exact ⟨rfl, rfl, rfl⟩
  · simp only [hb, Bool.false_eq_true, if_false, Option.bind_eq_some_iff, Option.map_eq_some_iff,
      Prod.mk.injEq] at h
    obtain ⟨idx, _, tg, _, l, _, _, rfl⟩ := h
    exact ⟨rfl, rfl, rfl⟩

theorem batches_isEmpty (h : List (PBatch ℝ)) : (batches h).isEmpty = h.isEmpty := by
  cases h <;> rfl

/-- One iteration of the pipeline: the new β is handed on unchanged, the history is non-empty afterwards, the
    first iteration (empty history) sets β = 0, every later one moves β inside `[β_prev, 1]`. -/
theorem C05_pipeline_step (cfg : PCfg ℝ) (s : PState ℝ) (t : Tape ℝ) (s1 : PState ℝ) (o : IterOut ℝ)
    (h : iterate cfg s t = some (s1, o)) (hb : s.beta ≤ 1) :
    s1.beta = o.beta ∧ s1.hist ≠ [] ∧ (s.hist = [] → o.beta = 0) ∧
    (s.hist ≠ [] → s.beta ≤ o.beta ∧ o.beta ≤ 1) := by
  obtain ⟨hh, hbeta, _⟩ := Lemmas.PipelineShift.iterate_commit cfg s t s1 o h
  obtain ⟨ob, _, _⟩ := iterate_out cfg s t s1 o h
  refine ⟨hbeta, by rw [hh]; simp, ?_, ?_⟩
  · intro he
    rw [ob, batches_isEmpty, he]
    exact (C05_first_iteration cfg.rw _ _ _ s.beta).1
  · intro hne
    have : s.hist.isEmpty = false := by cases hs : s.hist with
      | nil => exact absurd hs hne
      | cons _ _ => rfl
    rw [ob, batches_isEmpty, this]
    exact C05_run_range cfg.rw _ _ _ s.beta hb

/-- the recorded ESS is the C20 effective sample size of the very weights the oracle produced for the recorded β -/
theorem C05_pipeline_recorded_ess (cfg : PCfg ℝ) (s : PState ℝ) (t : Tape ℝ) (s1 : PState ℝ) (o : IterOut ℝ)
    (h : iterate cfg s t = some (s1, o)) (hne : s.hist ≠ []) :
    o.ess = Model.Ess.ess (oracleM (batches s.hist) o.beta).1 := by
  obtain ⟨ob, oe, _⟩ := iterate_out cfg s t s1 o h
  have he : s.hist.isEmpty = false := by cases hs : s.hist with
    | nil => exact absurd hs hne
    | cons _ _ => rfl
  rw [batches_isEmpty, he] at ob oe
  have := (C05_same_temperature cfg.rw (oracleM (batches s.hist)) (oracleZ (batches s.hist)) isFin s.beta).2.1
  rw [oe, this, ← ob]
  rfl

/-- ESS mode: once β advances, the effective sample size of the persistent pool at the new β — the C20 ESS of
    the C04 weights of the stored history — is at least `ess_ratio · n_particles`. -/
theorem C05_pipeline_ess_floor (cfg : PCfg ℝ) (s : PState ℝ) (t : Tape ℝ) (s1 : PState ℝ) (o : IterOut ℝ)
    (h : iterate cfg s t = some (s1, o)) (hb : s.beta ≤ 1) (hne : s.hist ≠ []) (hvv : cfg.rw.vv = none)
    (hadv : o.beta ≠ s.beta) :
    cfg.rw.target ≤ Model.Ess.ess (oracleM (batches s.hist) o.beta).1 ∧ cfg.rw.target ≤ o.ess := by
  have hrec := C05_pipeline_recorded_ess cfg s t s1 o h hne
  obtain ⟨ob, _, _⟩ := iterate_out cfg s t s1 o h
  have he : s.hist.isEmpty = false := by cases hs : s.hist with
    | nil => exact absurd hs hne
    | cons _ _ => rfl
  rw [batches_isEmpty, he] at ob
  have hr : run cfg.rw false (oracleM (batches s.hist)) (oracleZ (batches s.hist)) isFin s.beta
      = runEss (oracleM (batches s.hist)) (oracleZ (batches s.hist)) isFin cfg.rw.target cfg.rw.tolE cfg.rw.tolB
          cfg.rw.fuel s.beta := by simp [run, hvv]
  rw [hr] at ob
  have := (C05_ess_mode (oracleM (batches s.hist)) (oracleZ (batches s.hist)) isFin cfg.rw.target cfg.rw.tolE
    cfg.rw.tolB cfg.rw.fuel s.beta hb).2.2.2 (by rw [← ob]; exact hadv)
  rw [← ob] at this
  have h2 : (oracleM (batches s.hist) o.beta).2.1 = Model.Ess.ess (oracleM (batches s.hist) o.beta).1 := rfl
  rw [h2] at this
  exact ⟨this, by rw [hrec]; exact this⟩

/-- from any state with a non-empty history and β ≤ 1: every later β lies in `[β, 1]`, the sequence never
    decreases, and (ESS mode) whenever a β differs from its predecessor the recorded pool ESS is ≥ target -/
theorem runIters_mono (cfg : PCfg ℝ) (ts : List (Tape ℝ)) :
    ∀ (s sf : PState ℝ) (os : List (IterOut ℝ)), runIters cfg s ts = some (sf, os) → s.hist ≠ [] → s.beta ≤ 1 →
      (∀ o ∈ os, s.beta ≤ o.beta ∧ o.beta ≤ 1) ∧
      (∀ o, os[0]? = some o → cfg.rw.vv = none → o.beta ≠ s.beta → cfg.rw.target ≤ o.ess) ∧
      (∀ k a b, os[k]? = some a → os[k+1]? = some b →
        a.beta ≤ b.beta ∧ (cfg.rw.vv = none → b.beta ≠ a.beta → cfg.rw.target ≤ b.ess)) := by
  induction ts with
  | nil =>
    intro s sf os h _ _
    simp only [runIters, Option.some.injEq, Prod.mk.injEq] at h
    obtain ⟨_, rfl⟩ := h
    simp
  | cons t ts ih =>
    intro s sf os h hne hb
    simp only [runIters, Option.bind_eq_some_iff, Option.map_eq_some_iff] at h
    obtain ⟨⟨s1, o⟩, hi, ⟨sf', os'⟩, hr, he⟩ := h
    simp only [Prod.mk.injEq] at he
    obtain ⟨_, rfl⟩ := he
    obtain ⟨p1, p2, _, p4⟩ := C05_pipeline_step cfg s t s1 o hi hb
    obtain ⟨q1, q2⟩ := p4 hne
    obtain ⟨i1, i2, i3⟩ := ih s1 sf' os' hr p2 (by rw [p1]; exact q2)
    refine ⟨?_, ?_, ?_⟩
    · intro x hx
      rcases List.mem_cons.mp hx with rfl | hx
      · exact ⟨q1, q2⟩
      · have := i1 x hx
        rw [p1] at this
        exact ⟨le_trans q1 this.1, this.2⟩
    · intro x hx hvv hadv
      simp only [List.getElem?_cons_zero, Option.some.injEq] at hx
      subst hx
      exact (C05_pipeline_ess_floor cfg s t s1 o hi hb hne hvv hadv).2
    · intro k a b ha hb'
      cases k with
      | zero =>
        simp only [List.getElem?_cons_zero, Option.some.injEq] at ha
        simp only [List.getElem?_cons_succ] at hb'
        subst ha
        have hm := i1 b (List.mem_of_getElem? hb')
        rw [p1] at hm
        refine ⟨hm.1, fun hvv hadv => ?_⟩
        have := i2 b hb' hvv
        rw [p1] at this
        exact this hadv
      | succ k =>
        simp only [List.getElem?_cons_succ] at ha hb'
        exact i3 k a b ha hb'

/-- The schedule of a whole run of the pipeline model, from the fresh state, for EVERY tape (every realisation of
    the randomness and of the user's likelihood), every configuration:
    β₀ = 0;  0 ≤ β_k ≤ 1;  β_k ≤ β_{k+1};  and in ESS mode, whenever β_{k+1} ≠ β_k the ESS recorded at iteration
    k+1 — the pool's effective sample size at β_{k+1} — is at least `ess_ratio · n_particles`.
    No hypothesis on the history is needed: "empty at the start, non-empty after every commit" is proved. -/
theorem C05_pipeline_schedule (cfg : PCfg ℝ) (ts : List (Tape ℝ)) (sf : PState ℝ) (os : List (IterOut ℝ))
    (h : runIters cfg init ts = some (sf, os)) :
    (∀ o, os[0]? = some o → o.beta = 0) ∧
    (∀ o ∈ os, 0 ≤ o.beta ∧ o.beta ≤ 1) ∧
    (∀ k a b, os[k]? = some a → os[k+1]? = some b →
      a.beta ≤ b.beta ∧ (cfg.rw.vv = none → b.beta ≠ a.beta → cfg.rw.target ≤ b.ess)) := by
  cases ts with
  | nil =>
    simp only [runIters, Option.some.injEq, Prod.mk.injEq] at h
    obtain ⟨_, rfl⟩ := h
    simp
  | cons t ts =>
    simp only [runIters, Option.bind_eq_some_iff, Option.map_eq_some_iff] at h
    obtain ⟨⟨s1, o⟩, hi, ⟨sf', os'⟩, hr, he⟩ := h
    simp only [Prod.mk.injEq] at he
    obtain ⟨_, rfl⟩ := he
    have hb0 : (init : PState ℝ).beta ≤ 1 := by simp [init]
    obtain ⟨p1, p2, p3, _⟩ := C05_pipeline_step cfg init t s1 o hi hb0
    have ho : o.beta = 0 := p3 (by simp [init])
    obtain ⟨i1, i2, i3⟩ := runIters_mono cfg ts s1 sf' os' hr p2 (by rw [p1, ho]; norm_num)
    rw [p1, ho] at i1 i2
    refine ⟨?_, ?_, ?_⟩
    · intro x hx
      simp only [List.getElem?_cons_zero, Option.some.injEq] at hx
      subst hx; exact ho
    · intro x hx
      rcases List.mem_cons.mp hx with rfl | hx
      · rw [ho]; exact ⟨le_refl _, by norm_num⟩
      · exact i1 x hx
    · intro k a b ha hb'
      cases k with
      | zero =>
        simp only [List.getElem?_cons_zero, Option.some.injEq] at ha
        simp only [List.getElem?_cons_succ] at hb'
        subst ha
        rw [ho]
        exact ⟨(i1 b (List.mem_of_getElem? hb')).1, fun hvv hadv => i2 b hb' hvv hadv⟩
      | succ k =>
        simp only [List.getElem?_cons_succ] at ha hb'
        exact i3 k a b ha hb'

/-! ### warm-up over a whole run: β stays 0 while the pool is no larger than the ESS target -/

/-- state of a run that is still warming up: β = 0, `k` stored batches, all at β = 0 and all of size `n` -/
def Warm (s : PState ℝ) (n k : Nat) : Prop :=
  s.beta = 0 ∧ s.hist.length = k ∧ ∀ pb ∈ s.hist, pb.b.beta = 0 ∧ pb.b.logl.length = n

theorem nTotal_const (h : List (Batch ℝ)) (n : Nat) (hl : ∀ b ∈ h, b.logl.length = n) :
    nTotal h = h.length * n := by
  induction h with
  | nil => simp [nTotal]
  | cons b h ih =>
    have hb := hl b (by simp)
    have := ih (fun x hx => hl x (by simp [hx]))
    simp only [nTotal, List.map_cons, List.sum_cons, List.length_cons] at this ⊢
    rw [this, hb]; ring

/-- a warm-up iteration (the one that reports β = 0) commits exactly the prior draws of its tape -/
theorem iterate_size_warm (cfg : PCfg ℝ) (s : PState ℝ) (t : Tape ℝ) (s1 : PState ℝ) (o : IterOut ℝ)
    (h : iterate cfg s t = some (s1, o)) (hb0 : o.beta = 0) : s1.curL.length = t.drawL.length := by
  simp only [iterate] at h
  generalize run cfg.rw (batches s.hist).isEmpty (oracleM (batches s.hist))
    (oracleZ (batches s.hist)) isFin s.beta = r at h
  by_cases hb : eqv r.beta Sc.zero = true
  · simp only [hb, if_true, Option.map_eq_some_iff, Prod.mk.injEq] at h
    obtain ⟨l, hl, rfl, _⟩ := h
    simp only
    rw [Lemmas.PipelineShift.allSome_length hl, Lemmas.PipelineShift.warmup_length]
  · exfalso
    simp only [hb, Bool.false_eq_true, if_false, Option.bind_eq_some_iff, Option.map_eq_some_iff,
      Prod.mk.injEq] at h
    obtain ⟨idx, _, tg, _, l, _, _, rfl⟩ := h
    apply hb
    have : r.beta = 0 := hb0
    rw [this]; simp [eqv]

theorem warm_step (cfg : PCfg ℝ) (hvv : cfg.rw.vv = none) (n k : Nat) (hn : 1 ≤ n) (s : PState ℝ) (t : Tape ℝ)
    (s1 : PState ℝ) (o : IterOut ℝ) (hw : Warm s n k) (ht : t.drawL.length = n)
    (hsz : ((k * n : Nat) : ℝ) ≤ cfg.rw.target) (h : iterate cfg s t = some (s1, o)) :
    o.beta = 0 ∧ Warm s1 n (k + 1) := by
  obtain ⟨w1, w2, w3⟩ := hw
  have hob : o.beta = 0 := by
    by_cases he : s.hist = []
    · exact (C05_pipeline_step cfg s t s1 o h (by rw [w1]; norm_num)).2.2.1 he
    · obtain ⟨ob, _, _⟩ := iterate_out cfg s t s1 o h
      have hemp : s.hist.isEmpty = false := by cases hs : s.hist with
        | nil => exact absurd hs he
        | cons _ _ => rfl
      rw [batches_isEmpty, hemp, w1] at ob
      have hwf : Props.C04.WF (batches s.hist) := by
        refine ⟨by simpa [batches] using he, ?_⟩
        intro b hb
        simp only [batches, List.mem_map] at hb
        obtain ⟨pb, hpb, rfl⟩ := hb
        rw [(w3 pb hpb).2]; exact hn
      have h0 : ∀ b ∈ batches s.hist, b.beta = 0 := by
        intro b hb
        simp only [batches, List.mem_map] at hb
        obtain ⟨pb, hpb, rfl⟩ := hb
        exact (w3 pb hpb).1
      have hN : (nTotal (batches s.hist) : ℝ) ≤ cfg.rw.target := by
        have : nTotal (batches s.hist) = k * n := by
          rw [nTotal_const (batches s.hist) n]
          · simp [batches, w2]
          · intro b hb
            simp only [batches, List.mem_map] at hb
            obtain ⟨pb, hpb, rfl⟩ := hb
            exact (w3 pb hpb).2
        rw [this]; exact hsz
      rw [ob]
      exact (C05_warmup_stays (batches s.hist) hwf h0 cfg.rw hvv hN).1
  obtain ⟨hh, hbeta, _⟩ := Lemmas.PipelineShift.iterate_commit cfg s t s1 o h
  refine ⟨hob, by rw [hbeta]; exact hob, by rw [hh]; simp [w2], ?_⟩
  intro pb hpb
  rw [hh, List.mem_append] at hpb
  rcases hpb with hpb | hpb
  · exact w3 pb hpb
  · simp only [List.mem_singleton] at hpb
    subst hpb
    exact ⟨hob, by simp only; rw [iterate_size_warm cfg s t s1 o h hob, ht]⟩

theorem runIters_warm (cfg : PCfg ℝ) (hvv : cfg.rw.vv = none) (n : Nat) (hn : 1 ≤ n) (ts : List (Tape ℝ)) :
    ∀ (j : Nat) (s sf : PState ℝ) (os : List (IterOut ℝ)), Warm s n j → (∀ t ∈ ts, t.drawL.length = n) →
      runIters cfg s ts = some (sf, os) →
      ∀ k o, os[k]? = some o → (((j + k) * n : Nat) : ℝ) ≤ cfg.rw.target → o.beta = 0 := by
  induction ts with
  | nil =>
    intro j s sf os _ _ h k o ho
    simp only [runIters, Option.some.injEq, Prod.mk.injEq] at h
    obtain ⟨_, rfl⟩ := h
    simp at ho
  | cons t ts ih =>
    intro j s sf os hw hts h k o ho hsz
    simp only [runIters, Option.bind_eq_some_iff, Option.map_eq_some_iff] at h
    obtain ⟨⟨s1, o1⟩, hi, ⟨sf', os'⟩, hr, he⟩ := h
    simp only [Prod.mk.injEq] at he
    obtain ⟨_, rfl⟩ := he
    have hj : ((j * n : Nat) : ℝ) ≤ cfg.rw.target := by
      refine le_trans ?_ hsz
      exact_mod_cast Nat.mul_le_mul_right n (Nat.le_add_right j k)
    obtain ⟨hb0, hw1⟩ := warm_step cfg hvv n j hn s t s1 o1 hw (hts t (by simp)) hj hi
    cases k with
    | zero =>
      simp only [List.getElem?_cons_zero, Option.some.injEq] at ho
      subst ho; exact hb0
    | succ k =>
      simp only [List.getElem?_cons_succ] at ho
      refine ih (j + 1) s1 sf' os' hw1 (fun t' ht' => hts t' (by simp [ht'])) hr k o ho ?_
      have : j + 1 + k = j + (k + 1) := by omega
      rw [this]; exact hsz

/-- Warm-up over a whole run of the pipeline model (ESS mode, `n` prior draws per warm-up iteration, any tapes):
    iteration `k` (counting from 0) reports β = 0 whenever the pool it sees, `k·n` particles, is no larger than the
    ESS target — the temperature cannot leave 0 before the pool has reached `ess_ratio · n_particles`. -/
theorem C05_pipeline_warmup (cfg : PCfg ℝ) (hvv : cfg.rw.vv = none) (n : Nat) (hn : 1 ≤ n) (ts : List (Tape ℝ))
    (hts : ∀ t ∈ ts, t.drawL.length = n) (sf : PState ℝ) (os : List (IterOut ℝ))
    (h : runIters cfg init ts = some (sf, os)) :
    ∀ k o, os[k]? = some o → (((k * n : Nat)) : ℝ) ≤ cfg.rw.target → o.beta = 0 := by
  intro k o ho hsz
  have hw : Warm (init : PState ℝ) n 0 := ⟨by simp [init], by simp [init], by simp [init]⟩
  exact runIters_warm cfg hvv n hn ts 0 init sf os hw hts h k o ho (by rw [Nat.zero_add]; exact hsz)

/-- with `n = n_particles` draws per iteration: β_k = 0 for every `k ≤ ess_ratio` -/
theorem C05_pipeline_warmup_count (cfg : PCfg ℝ) (hvv : cfg.rw.vv = none) (hn : 1 ≤ cfg.rw.nPart)
    (ts : List (Tape ℝ)) (hts : ∀ t ∈ ts, t.drawL.length = cfg.rw.nPart) (sf : PState ℝ) (os : List (IterOut ℝ))
    (h : runIters cfg init ts = some (sf, os)) :
    ∀ (k : Nat) (o : IterOut ℝ), os[k]? = some o → (k : ℝ) ≤ cfg.rw.essRatio → o.beta = 0 := by
  intro k o ho hk
  refine C05_pipeline_warmup cfg hvv cfg.rw.nPart hn ts hts sf os h k o ho ?_
  have : (0 : ℝ) ≤ (cfg.rw.nPart : ℝ) := Nat.cast_nonneg _
  simp only [Cfg.target, ScReal.mul_def, ScReal.ofNat_def]
  push_cast
  exact mul_le_mul_of_nonneg_right hk this

/-! ### the tolerance hypothesis of the fuel theorems, from the constant regenerated from /repo -/

/-- `tempest.config.BETA_TOLERANCE` as G1 reads it from the source (exact value of the double) -/
noncomputable def genBetaTol : ℝ := (Gen.Constants.BETA_TOLERANCENum : ℝ) / (Gen.Constants.BETA_TOLERANCEDen : ℝ)
/-- `tempest.config.ESS_TOLERANCE` likewise -/
noncomputable def genEssTol : ℝ := (Gen.Constants.ESS_TOLERANCENum : ℝ) / (Gen.Constants.ESS_TOLERANCEDen : ℝ)

/-- the constants in the source are the doubles nearest to 1e-4 and 0.01 -/
theorem C05_gen_tolerances :
    (1 : ℝ) / 10000 ≤ genBetaTol ∧ genBetaTol ≤ 1 / 10000 + 1 / 10 ^ 20 ∧
    |genEssTol - 1 / 100| ≤ 1 / 10 ^ 18 := by
  unfold genBetaTol genEssTol
  simp only [Gen.Constants.BETA_TOLERANCENum, Gen.Constants.BETA_TOLERANCEDen, Gen.Constants.ESS_TOLERANCENum,
    Gen.Constants.ESS_TOLERANCEDen]
  refine ⟨by norm_num, by norm_num, ?_⟩
  rw [abs_le]; constructor <;> norm_num

/-- with the tolerance that is in /repo now and the fuel the driver uses (64), neither loop of `Reweighter.run`
    is ever cut short by the model's fuel: model and code terminate together (any oracle, any β_prev ∈ [0,1]) -/
theorem C05_fuel_generated {W : Type} (c : Cfg ℝ) (hemp : Bool) (M : ℝ → W × ℝ × ℝ) (Z : ℝ → ℝ) (fin : ℝ → Bool)
    (prev : ℝ) (h0 : 0 ≤ prev) (h1 : prev ≤ 1) (htol : c.tolB = genBetaTol) (hfuel : c.fuel = 64) :
    Branch.upFuel ∉ (run c hemp M Z fin prev).sub ∧ Branch.bisFuel ∉ (run c hemp M Z fin prev).sub :=
  C05_fuel c hemp M Z fin prev h0 h1 (by rw [htol]; exact C05_gen_tolerances.1) (by omega)

/-! ### non-vacuity: the two-iteration run of `Lemmas.PipelineShift` (β = 0 then β = 1, ESS 2 ≥ target 2) -/
example := C05_pipeline_warmup_count Lemmas.PipelineShift.Ex.cfgEx rfl (by decide)
  [Lemmas.PipelineShift.Ex.t1] (by intro t ht; simp at ht; subst ht; rfl) _ _
  (by simp [runIters, Lemmas.PipelineShift.Ex.it1]; exact ⟨rfl, rfl⟩)
example := C05_pipeline_schedule Lemmas.PipelineShift.Ex.cfgEx [Lemmas.PipelineShift.Ex.t1, Lemmas.PipelineShift.Ex.t2] _ _
  Lemmas.PipelineShift.Ex.run2

end Props.C05
