import TempestVerif.Model.LLEval
import TempestVerif.Gen.Dispatch
import Mathlib.Tactic
/-
  C13, value level: `_log_like` under every strategy (Model/LLEval.lean).

  * dispatch is total and tabulated for every pool value (None, every int incl. negative ones and bools, objects with / without `map`);
  * a pool that hands back the result of task i in position i is the serial map WHATEVER the completion order (`poolMap_eq_map`;
    proved of the pool model, not assumed), and it evaluates the user's function at exactly the points of the batch
    (`poolLog_perm`);
  * hence `_log_like` returns the same (logl, blobs) — or fails the same way — under all point-by-point strategies, for ANY
    per-point result (numbers, tuples with blobs, mixed, malformed), and the same as the vectorised call for a pointwise
    identical vectorised likelihood;
  * the result assembly is positional: entry i of logl / row i of blobs is read off the result for point i only;
  * under every strategy the user's likelihood is evaluated at exactly the points of the batch (as a multiset), so `|batch|` times;
  * necessity: a pool handing results back in completion order breaks transparency.
-/
namespace Props.C13
open Model.LLEval

/-- the dispatch tables regenerated from `_log_like` / `_get_distribute_func` -/
abbrev llT := Gen.Dispatch.logLike
abbrev distT := Gen.Dispatch.distribute

/-! ### dispatch, for every value of `pool` -/

/-- the strategy chosen by the real branch structure, case by case -/
theorem C13_dispatchV_table (v : Bool) (p : PoolV) :
    logLikeHowV llT distT v p =
      if v then some .direct else
      match p with
      | .none => some .map
      | .int k => if k ≤ 1 then some .map else some (.newPoolMap k)
      | .obj true => some .objMap
      | .obj false => none := by
  cases v <;> cases p with
  | none => simp [logLikeHowV, llT, Gen.Dispatch.logLike]
  | obj h => cases h <;> simp [logLikeHowV, llT, distT, Gen.Dispatch.logLike, Gen.Dispatch.distribute, distributeV, testHoldsV]
  | int k =>
    simp only [logLikeHowV, llT, distT, Gen.Dispatch.logLike, Gen.Dispatch.distribute, distributeV, testHoldsV]
    by_cases h : k ≤ 1
    · simp [h]
    · have : k > 1 := by omega
      simp [h, this]

/-- dispatch succeeds for every pool value except a non-int object without a `map` attribute used point by point -/
theorem C13_dispatchV_total (v : Bool) (p : PoolV) (hp : v = true ∨ p ≠ .obj false) :
    logLikeHowV llT distT v p ≠ none := by
  rw [C13_dispatchV_table]
  cases v
  · cases p with
    | none => simp
    | int k => by_cases h : k ≤ 1 <;> simp [h]
    | obj h => cases h <;> simp_all
  · simp

/-- `True` and `False`, 0 and every negative int are serial; so is 1 (the F10 fix) -/
example : logLikeHowV llT distT false (.int 1) = some .map ∧ logLikeHowV llT distT false (.int 0) = some .map ∧
    logLikeHowV llT distT false (.int (-3)) = some .map ∧ logLikeHowV llT distT false (.int 2) = some (.newPoolMap 2) ∧
    logLikeHowV llT distT true (.obj false) = some .direct ∧ logLikeHowV llT distT false (.obj false) = none := by
  decide

/-- only an `int > 1` pool creates a pool object — one per batch -/
theorem C13_pools_created (v : Bool) (p : PoolV) (h : HowV) (e : logLikeHowV llT distT v p = some h) :
    poolsCreated h = 1 ↔ (v = false ∧ ∃ k, p = .int k ∧ 1 < k) := by
  rw [C13_dispatchV_table] at e
  cases v
  · cases p with
    | none => simp at e; subst e; simp [poolsCreated]
    | int k =>
      by_cases hk : k ≤ 1
      · simp [hk] at e; subst e
        have : ¬ 1 < k := by omega
        simp [poolsCreated, this]
      · simp [hk] at e; subst e
        have : 1 < k := by omega
        simp [poolsCreated, this]
    | obj hm => cases hm <;> simp at e; subst e; simp [poolsCreated]
  · simp at e; subst e; simp [poolsCreated]

/-! ### a pool with an arbitrary completion order is the serial map -/

variable {X Y B R : Type}

theorem allSome_map_some (l : List R) : allSome (l.map some) = some l := by
  induction l with
  | nil => rfl
  | cons x xs ih => simp [allSome, ih]

theorem allSome_eq_some {l : List (Option R)} {r : List R} (h : allSome l = some r) : l = r.map some := by
  induction l generalizing r with
  | nil => simp [allSome] at h; subst h; rfl
  | cons x xs ih =>
    cases x with
    | none => simp [allSome] at h
    | some x =>
      simp only [allSome, Option.map_eq_some_iff] at h
      obtain ⟨r', hr', rfl⟩ := h
      simp [ih hr']

/-- the first completion recorded for task `i` is `(i, f xs[i])`, provided task i is scheduled at all -/
theorem completions_find (f : X → R) (xs : List X) (sched : List Nat) (i : Nat) (x : X) (hx : xs[i]? = some x)
    (hi : i ∈ sched) :
    (completions f xs sched).find? (fun c => c.1 == i) = some (i, f x) := by
  induction sched with
  | nil => simp at hi
  | cons j js ih =>
    simp only [completions, List.filterMap_cons]
    by_cases hj : j = i
    · subst hj
      simp [hx]
    · have hi' : i ∈ js := by
        rcases List.mem_cons.mp hi with h | h
        · exact absurd h.symm hj
        · exact h
      cases hxj : xs[j]? with
      | none => simpa [completions] using ih hi'
      | some y =>
        have : ¬ (j == i) = true := by simpa using hj
        simp only [Option.map_some, List.find?_cons, this]
        simpa [completions] using ih hi'

/-- C13 (pool, any completion order): a pool that returns the result of task i in position i computes the serial map,
    for EVERY order in which the tasks of the batch complete -/
theorem poolMap_eq_map (f : X → R) (xs : List X) (sched : List Nat) (hs : sched.Perm (List.range xs.length)) :
    poolMap sched f xs = some (xs.map f) := by
  unfold poolMap collect
  have key : (List.range xs.length).map (fun i => ((completions f xs sched).find? fun c => c.1 == i).map (·.2))
      = (xs.map f).map some := by
    apply List.ext_getElem?
    intro i
    by_cases hi : i < xs.length
    · have hmem : i ∈ sched := hs.symm.subset (List.mem_range.mpr hi)
      have hx : xs[i]? = some xs[i] := List.getElem?_eq_getElem hi
      simp [List.getElem?_map, List.getElem?_range hi, completions_find f xs sched i xs[i] hx hmem, hx]
    · have h1 : xs.length ≤ i := by omega
      simp [h1]
  rw [key, allSome_map_some]

theorem filterMap_range_getElem? (xs : List X) : (List.range xs.length).filterMap (fun i => xs[i]?) = xs := by
  induction xs with
  | nil => rfl
  | cons x xs ih =>
    rw [List.length_cons, List.range_succ_eq_map]
    simpa [List.filterMap_map, Function.comp_def] using ih

/-- … and evaluates the user's function at exactly the points of the batch, each once (in completion order) -/
theorem poolLog_perm (xs : List X) (sched : List Nat) (hs : sched.Perm (List.range xs.length)) :
    (poolLog xs sched).Perm xs := by
  have h1 : (poolLog xs sched).Perm (poolLog xs (List.range xs.length)) := by
    unfold poolLog; exact hs.filterMap _
  have h2 : poolLog xs (List.range xs.length) = xs := filterMap_range_getElem? xs
  rw [h2] at h1; exact h1

/-- necessity of the `map` contract: handing results back in COMPLETION order is not the serial map -/
theorem C13_completion_order_not_map :
    ∃ (sched : List Nat) (xs : List Nat), sched.Perm (List.range xs.length) ∧
      completionOrderMap sched (fun x => x) xs ≠ xs.map (fun x => x) :=
  ⟨[1, 0], [10, 20], by decide, by decide⟩

/-! ### result assembly is positional -/

/-- entry i of `logl` is the number returned for point i — for every accepted list of results -/
theorem assemble_logl (rs : List (Res Y B)) (o : Out Y B) (h : assemble rs = some o) :
    rs.map Res.y? = o.logl.map some := by
  cases rs with
  | nil => simp [assemble] at h; subst h; rfl
  | cons r0 rest =>
    simp only [assemble] at h
    split at h
    · simp only [Option.bind_eq_some_iff, Option.map_eq_some_iff] at h
      obtain ⟨ps, hps, b, _, rfl⟩ := h
      have := allSome_eq_some hps
      have h2 : ∀ (l : List (Res Y B)) (q : List (Y × List B)), l.map Res.split? = q.map some →
          l.map Res.y? = (q.map (·.1)).map some := by
        intro l
        induction l with
        | nil => intro q hq; cases q <;> simp_all
        | cons a as ih =>
          intro q hq
          cases q with
          | nil => simp at hq
          | cons c cs =>
            simp only [List.map_cons, List.cons.injEq] at hq ⊢
            refine ⟨?_, ih cs hq.2⟩
            cases a with
            | val y => simp [Res.split?] at hq
            | bad => simp [Res.split?] at hq
            | seq y bs => simp only [Res.split?, Option.some.injEq] at hq; simp [Res.y?, ← hq.1]
      exact h2 _ _ this
    · simp only [Option.map_eq_some_iff] at h
      obtain ⟨ls, hls, rfl⟩ := h
      have := allSome_eq_some hls
      have h2 : ∀ (l : List (Res Y B)) (q : List Y), l.map Res.float? = q.map some → l.map Res.y? = q.map some := by
        intro l
        induction l with
        | nil => intro q hq; cases q <;> simp_all
        | cons a as ih =>
          intro q hq
          cases q with
          | nil => simp at hq
          | cons c cs =>
            simp only [List.map_cons, List.cons.injEq] at hq ⊢
            refine ⟨?_, ih cs hq.2⟩
            cases a <;> simp_all [Res.float?, Res.y?]
      exact h2 _ _ this

theorem mkBlobs_row (rows : List (List B)) (b : Blobs B) (h : mkBlobs rows = some b) (i : Nat) :
    b.row i = rows[i]? := by
  cases rows with
  | nil => simp [mkBlobs] at h
  | cons r0 rest =>
    simp only [mkBlobs] at h
    split at h
    · rename_i hall
      split at h
      · rename_i h1
        injection h with h; subst h
        simp only [Blobs.row]
        have hall' : ∀ r ∈ r0 :: rest, r.length = 1 := by
          intro r hr
          have := List.all_eq_true.mp hall r hr
          simp at this h1; omega
        have : ∀ (l : List (List B)), (∀ r ∈ l, r.length = 1) → ∀ i : Nat, ((l.filterMap List.head?)[i]?).map (fun b => [b]) = l[i]? := by
          intro l
          induction l with
          | nil => intro _ i; simp
          | cons a as ih =>
            intro hl i
            have ha : a.length = 1 := hl a (List.mem_cons_self ..)
            obtain ⟨x, rfl⟩ : ∃ x, a = [x] := by
              match a, ha with
              | [x], _ => exact ⟨x, rfl⟩
            cases i with
            | zero => simp
            | succ i => simpa using ih (fun r hr => hl r (List.mem_cons_of_mem _ hr)) i
        exact this _ hall' i
      · injection h with h; subst h; rfl
    · simp at h

/-- row i of `blobs` is the blob tuple returned for point i -/
theorem assemble_blobs (rs : List (Res Y B)) (o : Out Y B) (b : Blobs B) (h : assemble rs = some o) (hb : o.blobs = some b)
    (i : Nat) : b.row i = (rs[i]?).bind Res.bs? := by
  cases rs with
  | nil => simp [assemble] at h; subst h; simp at hb
  | cons r0 rest =>
    simp only [assemble] at h
    split at h
    · simp only [Option.bind_eq_some_iff, Option.map_eq_some_iff] at h
      obtain ⟨ps, hps, b', hb', rfl⟩ := h
      simp only [Option.some.injEq] at hb; subst hb
      rw [mkBlobs_row _ _ hb' i]
      have := allSome_eq_some hps
      have h2 : ∀ (l : List (Res Y B)) (q : List (Y × List B)), l.map Res.split? = q.map some →
          ∀ i : Nat, (q.map (·.2))[i]? = (l[i]?).bind Res.bs? := by
        intro l
        induction l with
        | nil => intro q hq i; cases q <;> simp_all
        | cons a as ih =>
          intro q hq i
          cases q with
          | nil => simp at hq
          | cons c cs =>
            simp only [List.map_cons, List.cons.injEq] at hq
            cases i with
            | zero =>
              cases a with
              | val y => simp [Res.split?] at hq
              | bad => simp [Res.split?] at hq
              | seq y bs => simp only [Res.split?, Option.some.injEq] at hq; simp [Res.bs?, ← hq.1]
            | succ i => simpa using ih cs hq.2 i
      exact h2 _ _ this i
    · simp only [Option.map_eq_some_iff] at h
      obtain ⟨ls, _, rfl⟩ := h
      simp at hb

/-- numbers only: the assembly is the identity on values -/
theorem assemble_vals (L : X → Y) (xs : List X) :
    assemble (xs.map fun x => (Res.val (L x) : Res Y B)) = some ⟨xs.map L, none⟩ := by
  cases xs with
  | nil => rfl
  | cons x rest =>
    have : ((x :: rest).map fun x => (Res.val (L x) : Res Y B)).map Res.float? = ((x :: rest).map L).map some := by
      simp [Res.float?]
    simp only [assemble, List.map_cons, Res.hasBlobs, Bool.false_eq_true, if_false]
    simp only [List.map_cons] at this
    rw [this, ← List.map_cons, allSome_map_some]; rfl

/-! ### transparency of `_log_like` -/

/-- C13 (point-by-point strategies, ANY per-point results, blobs included): serial map, a new `Pool(k)` and a pool object with
    any completion order return the same pair — or raise alike -/
theorem C13_logLike_pointwise (how : HowV) (hh : how ≠ .direct) (sched : List Nat) (f : X → Res Y B)
    (fvec : List X → List Y) (xs : List X) (hs : sched.Perm (List.range xs.length)) :
    logLike how sched f fvec xs = assemble (xs.map f) := by
  cases how with
  | direct => exact absurd rfl hh
  | map => rfl
  | newPoolMap k => simp [logLike, poolMap_eq_map f xs sched hs]
  | objMap => simp [logLike, poolMap_eq_map f xs sched hs]

/-- C13 (all strategies): for a likelihood that returns numbers and a vectorised form that is pointwise the same function,
    EVERY strategy hands the algorithm `(map L xs, None)` -/
theorem C13_logLike_transparent (how : HowV) (sched : List Nat) (L : X → Y) (fvec : List X → List Y)
    (hvec : ∀ xs, fvec xs = xs.map L) (xs : List X) (hs : sched.Perm (List.range xs.length)) :
    logLike how sched (fun x => (Res.val (L x) : Res Y B)) fvec xs = some ⟨xs.map L, none⟩ := by
  cases how with
  | direct => simp [logLike, hvec]
  | map => simpa [logLike] using assemble_vals (B := B) L xs
  | newPoolMap k => rw [C13_logLike_pointwise _ (by simp) sched _ fvec xs hs]; exact assemble_vals L xs
  | objMap => rw [C13_logLike_pointwise _ (by simp) sched _ fvec xs hs]; exact assemble_vals L xs

/-- any two strategies, any two completion orders -/
theorem C13_logLike_configs_agree_how (h h' : HowV) (sched sched' : List Nat) (L : X → Y) (fvec : List X → List Y)
    (hvec : ∀ xs, fvec xs = xs.map L) (xs : List X)
    (hs : sched.Perm (List.range xs.length)) (hs' : sched'.Perm (List.range xs.length)) :
    logLike h sched (fun x => (Res.val (L x) : Res Y B)) fvec xs
      = logLike h' sched' (fun x => (Res.val (L x) : Res Y B)) fvec xs := by
  rw [C13_logLike_transparent h sched L fvec hvec xs hs, C13_logLike_transparent h' sched' L fvec hvec xs hs']

/-- two configurations (any `vectorize`, any pools, any completion orders) give `_log_like` the same value -/
theorem C13_logLike_configs_agree (v v' : Bool) (p p' : PoolV) (h h' : HowV)
    (_e : logLikeHowV llT distT v p = some h) (_e' : logLikeHowV llT distT v' p' = some h')
    (sched sched' : List Nat) (L : X → Y) (fvec : List X → List Y) (hvec : ∀ xs, fvec xs = xs.map L) (xs : List X)
    (hs : sched.Perm (List.range xs.length)) (hs' : sched'.Perm (List.range xs.length)) :
    logLike h sched (fun x => (Res.val (L x) : Res Y B)) fvec xs
      = logLike h' sched' (fun x => (Res.val (L x) : Res Y B)) fvec xs := by
  rw [C13_logLike_transparent h sched L fvec hvec xs hs, C13_logLike_transparent h' sched' L fvec hvec xs hs']

/-- C13 (evaluation count): under every strategy the user's likelihood is evaluated at exactly the points of the batch -/
theorem C13_logLike_evaluates_batch (how : HowV) (sched : List Nat) (xs : List X)
    (hs : sched.Perm (List.range xs.length)) :
    (logLikeLog how sched xs).Perm xs ∧ (logLikeLog how sched xs).length = xs.length := by
  have : (logLikeLog how sched xs).Perm xs := by
    cases how with
    | direct => exact List.Perm.refl _
    | map => exact List.Perm.refl _
    | newPoolMap k => exact poolLog_perm xs sched hs
    | objMap => exact poolLog_perm xs sched hs
  exact ⟨this, this.length_eq⟩

/-- necessity: with results handed back in completion order the values reach the wrong particles -/
theorem C13_completion_order_breaks_transparency :
    ∃ (sched : List Nat) (xs : List Nat), sched.Perm (List.range xs.length) ∧
      assemble ((completionOrderMap sched (fun x => (Res.val x : Res Nat Nat)) xs))
        ≠ assemble (xs.map fun x => (Res.val x : Res Nat Nat)) := by
  refine ⟨[1, 0], [10, 20], by decide, ?_⟩
  simp [completionOrderMap, completions, assemble, allSome, Res.float?, Res.hasBlobs]

/-! ### `FunctionWrapper` and `_evaluate_likelihood` -/

/-- one call of the wrapper is one call of the user's function, at the same point, with the stored extra arguments -/
theorem C13_wrapper_call {A : Type} (f : X → List A → List (String × A) → R) (args : Option (List A))
    (kwargs : Option (List (String × A))) (x : X) :
    (Wrapper.init f args kwargs).call x =
      f x (match args with | none => [] | some a => a) (match kwargs with | none => [] | some k => k) := rfl

/-- `_evaluate_likelihood` adds `n_walkers` to the per-run counter for one `_log_like` call, with or without blobs, and hands
    on the log-likelihoods unchanged -/
theorem C13_evaluateLikelihood (haveBlobs : Bool) (ll : List X → Option (Out Y B)) (xp : List X) (n w : Nat)
    (o : Out Y B) (h : ll xp = some o) :
    evaluateLikelihood haveBlobs ll xp n w = some (o.logl, (if haveBlobs then o.blobs else none), n + w) := by
  simp [evaluateLikelihood, h]

/-! ### non-vacuity -/

example : logLike (Y := Int) (B := Int) .objMap [2, 0, 1] (fun x => .seq x [x + 1]) (fun _ => []) [5, 6, 7]
    = some ⟨[5, 6, 7], some (.single [6, 7, 8])⟩ := by decide
example : logLike (Y := Int) (B := Int) (.newPoolMap 3) [1, 0] (fun x => .seq x [x + 1, 2 * x]) (fun _ => []) [5, 6]
    = some ⟨[5, 6], some (.rows 2 [[6, 10], [7, 12]])⟩ := by decide
example : logLike (Y := Int) (B := Int) .map [] (fun x => if x = 6 then .val x else .seq x [x]) (fun _ => []) [5, 6]
    = none := by decide
example : logLikeLog .objMap [2, 0, 1] [5, 6, 7] = [7, 5, 6] := by decide

end Props.C13
