import TempestVerif.Gen.RngGraph
import TempestVerif.Gen.Rng
/-
  C09, call-graph level — obligations decided on `Gen/RngGraph.lean`, the over-approximated call graph of the package with
  the RNG role of every function, regenerated from /repo's source on every run (translate/g3_graph.py).

  The reachable sets are CERTIFICATES: the translator computes them, Lean checks that each is closed under `edges` and
  contains its roots — any closed superset of the roots contains everything reachable, so "the certificate meets no seeding
  function" implies "nothing reachable seeds".
-/
namespace Props.C09
open Gen.RngGraph

def closedUnderEdges (set : List Nat) : Bool :=
  set.all fun i => match edges[i]? with
    | some cs => cs.all fun c => set.contains c
    | none => false

def covers (roots set : List Nat) : Bool := roots.all fun r => set.contains r

def meets (set roles : List Nat) : List Nat := set.filter fun i => roles.contains i

def nameOf (i : Nat) : String := (funcNames[i]?).getD "?"

def anyRng : List Nat := seedFuncs ++ restoreFuncs ++ globalDrawFuncs ++ attrDrawFuncs ++ privateCtorFuncs

/-- the graph is complete with respect to the effect table and has no construct it cannot follow -/
theorem C09_graph_wellformed :
    edges.length = funcNames.length ∧ orphanSites = [] ∧ dynamicFeatures = [] ∧
    rootsMissingIteration = [] ∧ rootsMissingCtor = [] ∧ rootsMissingReadSide = [] ∧ rootsMissingCluster = [] ∧
    rootsMissingSave = [] := by decide +kernel

/-- **One sampler iteration reaches no seeding and no restore of the process-wide stream** other than the parameter seed of
    `systematic_resample` (which no call inside the package passes: `C09_no_internal_param_seed`).  Ties the hypothesis
    `∀ d, SeedFree (iter d)` of the run-level theorems to the real `execute_iteration`. -/
theorem C09_iteration_reaches_no_seeding :
    rootsIteration ≠ [] ∧ covers rootsIteration reachIteration = true ∧ closedUnderEdges reachIteration = true ∧
    (meets reachIteration seedFuncs).all (fun i => some i == systId) = true ∧
    meets reachIteration restoreFuncs = [] ∧
    Gen.Rng.paramSeedCallSites = [] := by decide +kernel

/-- constructing a sampler touches no random source at all: no seeding, no draw, no generator is built -/
theorem C09_construction_uses_no_rng :
    rootsCtor ≠ [] ∧ covers rootsCtor reachCtor = true ∧ closedUnderEdges reachCtor = true ∧
    meets reachCtor anyRng = [] := by decide +kernel

/-- posterior / evidence / results reach no seeding but the (never passed) parameter seed of `systematic_resample` -/
theorem C09_read_side_reaches_no_seeding :
    rootsReadSide ≠ [] ∧ covers rootsReadSide reachReadSide = true ∧ closedUnderEdges reachReadSide = true ∧
    (meets reachReadSide seedFuncs).all (fun i => some i == systId) = true ∧
    meets reachReadSide restoreFuncs = [] := by decide +kernel

/-- **A clustering fit / predict reaches no process-wide draw and no seeding**; its only random source is the attribute
    generator of `GaussianMixture`, and every `GaussianMixture(…)` the package builds is given a literal `random_state`,
    i.e. a private generator (`Model.RngRun.gmmFit (some 42)`, `C09_hgmm_fit_global_untouched`) -/
theorem C09_cluster_fit_reaches_no_global_rng :
    rootsCluster ≠ [] ∧ covers rootsCluster reachCluster = true ∧ closedUnderEdges reachCluster = true ∧
    meets reachCluster (seedFuncs ++ restoreFuncs ++ globalDrawFuncs) = [] ∧
    gmmInstantiations ≠ [] ∧ gmmInstantiations.all (fun p => p.2 == "literal") = true := by decide +kernel

/-- writing a checkpoint uses no random source -/
theorem C09_save_uses_no_rng :
    rootsSave ≠ [] ∧ covers rootsSave reachSave = true ∧ closedUnderEdges reachSave = true ∧
    meets reachSave anyRng = [] := by decide +kernel

/-- **Nothing that may draw runs before the seeding of a fresh run**: everything `run_sampling` can call on the fresh path
    before `_initialize_fresh` has seeded reaches no random source -/
theorem C09_nothing_draws_before_seeding :
    ∃ r, preSeedRoots = some r ∧ covers r reachPreSeed = true ∧ closedUnderEdges reachPreSeed = true ∧
      meets reachPreSeed anyRng = [] := ⟨_, rfl, by decide +kernel⟩

/-- the functions that seed the process-wide stream are exactly the fresh-run initialisation and `systematic_resample`
    (parameter); the only function that restores it to a stored position is the checkpoint load -/
theorem C09_seeding_functions_exact :
    (∀ n ∈ seedFuncs.map nameOf, n ∈ ["SamplerCore._initialize_fresh", "systematic_resample"]) ∧
    (∀ e ∈ ["SamplerCore._initialize_fresh", "systematic_resample"], e ∈ seedFuncs.map nameOf) ∧
    restoreFuncs.map nameOf = ["SamplerCore.load_sampler_state"] := by decide +kernel

/-- … and the seeding / restoring entry points are mentioned only where documented: `_initialize_fresh` by `run_sampling`,
    `load_sampler_state` by the resume path and the public `load_state`, `run_sampling` by `Sampler.run` -/
theorem C09_seeding_entry_points_referrers :
    referrersInitFresh = ["SamplerCore.run_sampling"] ∧
    referrersLoadState = ["Sampler.load_state", "SamplerCore._initialize_from_resume"] ∧
    referrersRunSampling = ["Sampler.run"] := by decide +kernel

/-- **`random_state` plumbing**: `Sampler.__init__` hands its `random_state` argument unchanged to `SamplerConfig`, which
    declares the field and never rewrites it; `SamplerCore` keeps that configuration object (it is what `_initialize_fresh`
    reads); `save_sampler_state` stores `config.random_state` and the stream position `np.random.get_state()`; the
    `random_state` property reads the configuration back -/
theorem C09_random_state_plumbing :
    ctor_passes_random_state = 1 ∧ config_field_random_state = 1 ∧ config_never_rewrites_seed = 1 ∧
    core_stores_config = 1 ∧ save_stores_config_seed = 1 ∧ sampler_random_state_reads_config = 1 ∧
    save_stores_rng_state = 1 := by decide +kernel

/-- non-vacuity: the iteration certificate really contains the drawing functions of the kernels and the resampler -/
example : (meets reachIteration globalDrawFuncs).length ≥ 6 := by decide +kernel

end Props.C09
