import TempestVerif.Model.ClosedLoop
import TempestVerif.Lemmas.ScReal
import TempestVerif.Lemmas.PipelineShift
import TempestVerif.Props.C04
import TempestVerif.Props.C05
import Mathlib.Tactic
/-
  C10 on the CLOSED-LOOP model (`Model.ClosedLoop`): the run on `ℓ + c` is DERIVED to be the shift of the run on `ℓ`.

  `Props/C10.lean` compares a run on a tape `t` with a run on `shiftTape c t`: that the shifted real run consumes the
  shifted tape (same proposals, same number of accept/reject steps, same number of iterations) is a hypothesis there.
  Here the proposals come from `World.propose` applied to the mode statistics, the adapted step sizes and the random
  stream; the number of steps from the model of `_check_convergence`; the number of iterations from the model of
  `_not_termination`; the only thing that differs between the two worlds is `like`.

    C10_cl_reweight        same β / weights / ESS / branch / oracle calls in BOTH metric modes, logz + β c
    C10_cl_metric_inputs   `volume_variation` receives the same (pool, normalised weights) at every β
    C10_cl_trainer_input   `trim_weights` receives the same weights; the clusterer the same records and trimmed weights
    C10_cl_stepOne/All     accept/reject: same α (so same σ-adaptation input), same mask
    C10_cl_mcLoop          same proposals requested, same number of steps, same σ's, same stream state
    C10_cl_warmup          −inf stays −inf: same replacement picks, same correction log(n_fin/n)
    C10_cl_iterate         one `execute_iteration`
    C10_cl_guard           `_not_termination` evaluates identically
    C10_cl_runLoop / C10_cl_run   whole `run_sampling`: same number of iterations, every loop-top state shifted,
                           final evidence + c  (`evidence()` returns it)
    C10_cl_checkpoint      what a `save_every` checkpoint holds: identical except ℓ + c, z_t + β_t c
    C10_cl_posterior       `compute_posterior` (all option combinations): same x / weights / logw / indices, ℓ + c
-/
namespace Props.C10
open Model.ClosedLoop Model.Pipeline Model.Weights Model.Reweight Model.Records Model.Resample
open Lemmas.PipelineShift
open Props.C04 (WF shiftH shiftB)

variable {P MS TS G : Type}

/-- the world of the run on `ℓ + c`: the SAME prior, trainer, proposal generator, random stream — only the
    log-likelihood differs (−inf + c = −inf) -/
def shiftW (c : ℝ) (W : World ℝ P MS TS G) : World ℝ P MS TS G :=
  { W with like := fun p => (W.like p).map (· + c) }

def shiftCB (c : ℝ) (b : CBatch ℝ P) : CBatch ℝ P :=
  { b with logz := b.logz + b.beta * c, logl := b.logl.map (· + c) }

/-- same records, β, ESS, counters, assignments, clusterer and stream; `ℓ + c`, `z_t + β_t c` -/
def shiftCS (c : ℝ) (s : CState ℝ P TS G) : CState ℝ P TS G :=
  { s with hist := s.hist.map (shiftCB c), logz := s.logz + s.beta * c, curL := s.curL.map (· + c) }

def shiftCO (c : ℝ) (o : CIterOut ℝ P) : CIterOut ℝ P :=
  { o with logzRw := o.logzRw + o.beta * c, logz := o.logz + o.beta * c }

/-- every stored batch is non-empty -/
def WFC (s : CState ℝ P TS G) : Prop := ∀ b ∈ s.hist, 1 ≤ b.logl.length

theorem batchesOf_shift (c : ℝ) (h : List (CBatch ℝ P)) :
    batchesOf (h.map (shiftCB c)) = shiftH c (batchesOf h) := by
  simp [batchesOf, shiftH, shiftCB, shiftB, toBatch, List.map_map, Function.comp_def]

theorem poolOf_shift (c : ℝ) (h : List (CBatch ℝ P)) : poolOf (h.map (shiftCB c)) = poolOf h := by
  simp [poolOf, shiftCB, List.flatMap_map]

theorem WF_batchesOf (s : CState ℝ P TS G) (hs : WFC s) : batchesOf s.hist = [] ∨ WF (batchesOf s.hist) := by
  by_cases h : s.hist = []
  · left; simp [batchesOf, h]
  · right
    refine ⟨by simpa [batchesOf] using h, ?_⟩
    intro b hb
    simp only [batchesOf, List.mem_map] at hb
    obtain ⟨pb, hpb, rfl⟩ := hb
    exact hs pb hpb

/-! ### reweighting, both metric modes -/

/-- the metric oracle of EITHER mode does not see the shift: the weights `exp(logw − max)` are identical, hence the ESS,
    hence the arguments of `volume_variation` -/
theorem oracleMV_shift (W : World ℝ P MS TS G) (vv : Option ℝ) (pool : List P) (h : List (Batch ℝ)) (hwf : WF h)
    (c β : ℝ) : oracleMV (shiftW c W) vv pool (shiftH c h) β = oracleMV W vv pool h β := by
  simp only [oracleMV, oracleM_shift h hwf c β, shiftW]

/-- `Reweighter.run` is equivariant whenever the metric oracle is unchanged and the evidence oracle moves by `β c` -/
theorem reweight_shift_gen {Wt : Type} (cfg : Cfg ℝ) (emp : Bool) (M : ℝ → Wt × ℝ × ℝ) (Z Z' : ℝ → ℝ) (c : ℝ)
    (hZ : emp = false → ∀ β, Z' β = Z β + β * c) (fin : ℝ → Bool) (prev : ℝ) :
    Model.Reweight.run cfg emp M Z' fin prev
      = { Model.Reweight.run cfg emp M Z fin prev with
          logz := (Model.Reweight.run cfg emp M Z fin prev).logz + (Model.Reweight.run cfg emp M Z fin prev).beta * c } := by
  cases emp with
  | true => simp [Model.Reweight.run]
  | false =>
    rw [run_Z_congr cfg M Z Z' fin prev, hZ rfl, ← (Props.C05.C05_same_temperature cfg M Z fin prev).2.2.1]

theorem C10_cl_reweight (W : World ℝ P MS TS G) (cfg : CCfg ℝ) (c : ℝ) (s : CState ℝ P TS G) (hs : WFC s) :
    reweightStep (shiftW c W) cfg (shiftCS c s)
      = { reweightStep W cfg s with logz := (reweightStep W cfg s).logz + (reweightStep W cfg s).beta * c } := by
  unfold reweightStep
  simp only [shiftCS, batchesOf_shift, poolOf_shift]
  rcases WF_batchesOf s hs with h0 | hwf
  · rw [h0]
    simp [shiftH, Model.Reweight.run]
  · have hne : (batchesOf s.hist).isEmpty = false := by
      cases h : batchesOf s.hist with
      | nil => exact absurd h hwf.1
      | cons _ _ => rfl
    have hne' : (shiftH c (batchesOf s.hist)).isEmpty = false := by
      cases h : batchesOf s.hist with
      | nil => exact absurd h hwf.1
      | cons _ _ => rfl
    have hM : oracleMV (shiftW c W) cfg.rw.vv (poolOf s.hist) (shiftH c (batchesOf s.hist))
        = oracleMV W cfg.rw.vv (poolOf s.hist) (batchesOf s.hist) :=
      funext (oracleMV_shift W cfg.rw.vv (poolOf s.hist) (batchesOf s.hist) hwf c)
    rw [hne, hne', hM]
    exact reweight_shift_gen cfg.rw false _ (oracleZ (batchesOf s.hist)) _ c
      (fun _ β => oracleZ_shift (batchesOf s.hist) hwf c β) isFin s.beta

/-! ### accept/reject -/

/-- one walker: the acceptance probability (so whatever the σ-adaptation reads) and the decision are identical;
    the retained log-likelihood is the shifted one -/
theorem C10_cl_stepOne (W : World ℝ P MS TS G) (c β : ℝ) (pt : P) (l : ℝ) (q : P × ℝ × Bool) (r : ℝ) :
    stepOne (shiftW c W) β pt (l + c) q r
      = ((stepOne W β pt l q r).1, (stepOne W β pt l q r).2.1 + c, (stepOne W β pt l q r).2.2.1,
         (stepOne W β pt l q r).2.2.2) := by
  unfold stepOne
  by_cases hq : q.2.2 = true
  · simp only [hq, if_true, shiftW]
    cases hl : W.like q.1 with
    | none => simp
    | some lp =>
      simp only [Option.map_some, acceptProb_shift]
      split <;> simp
  · simp [hq]

theorem C10_cl_stepAll (W : World ℝ P MS TS G) (c β : ℝ) : ∀ (pts : List P) (ls : List ℝ) (qs : List (P × ℝ × Bool))
    (rs : List ℝ),
    stepAll (shiftW c W) β pts (ls.map (· + c)) qs rs
      = ((stepAll W β pts ls qs rs).1, (stepAll W β pts ls qs rs).2.1.map (· + c), (stepAll W β pts ls qs rs).2.2.1,
         (stepAll W β pts ls qs rs).2.2.2) := by
  intro pts
  induction pts with
  | nil => intro ls qs rs; simp [stepAll]
  | cons pt pts ih =>
    intro ls qs rs
    rcases ls with _ | ⟨l, ls⟩
    · simp [stepAll]
    rcases qs with _ | ⟨q, qs⟩
    · simp [stepAll]
    rcases rs with _ | ⟨r, rs⟩
    · simp [stepAll]
    simp only [List.map_cons, stepAll, ih, C10_cl_stepOne]

theorem stepAll_length (W : World ℝ P MS TS G) (β : ℝ) : ∀ (pts : List P) (ls : List ℝ) (qs : List (P × ℝ × Bool))
    (rs : List ℝ), (stepAll W β pts ls qs rs).2.1.length = ls.length := by
  intro pts
  induction pts with
  | nil => intro ls qs rs; simp [stepAll]
  | cons pt pts ih =>
    intro ls qs rs
    rcases ls with _ | ⟨l, ls⟩
    · simp [stepAll]
    rcases qs with _ | ⟨q, qs⟩
    · simp [stepAll]
    rcases rs with _ | ⟨r, rs⟩
    · simp [stepAll]
    simp [stepAll, ih]

def shiftMC (c : ℝ) (m : MC ℝ P G) : MC ℝ P G := { m with logl := m.logl.map (· + c) }

/-- the whole mutation loop: the shifted run asks `propose` for the same proposals (same mode statistics, same σ's,
    same current records, same stream state), draws the same uniforms, adapts the σ's identically and stops after
    the same number of steps -/
theorem C10_cl_mcLoop (W : World ℝ P MS TS G) (cfg : CCfg ℝ) (ms : MS) (c β : ℝ) (asg : List Nat) :
    ∀ (fuel : Nat) (st : MC ℝ P G),
    mcLoop (shiftW c W) cfg ms β asg fuel (shiftMC c st) = (mcLoop W cfg ms β asg fuel st).map (shiftMC c) := by
  intro fuel
  induction fuel with
  | zero => intro st; simp [mcLoop]
  | succ n ih =>
    intro st
    simp only [mcLoop, shiftMC, C10_cl_stepAll]
    have e1 : (shiftW c W).propose = W.propose := rfl
    have e2 : (shiftW c W).unif = W.unif := rfl
    have e3 : (shiftW c W).nModes = W.nModes := rfl
    simp only [e1, e2, e3]
    split
    · simp [shiftMC]
    · have := ih ⟨st.k + 1, (stepAll W β st.pts st.logl (W.propose ms st.sigmas asg st.pts st.g).1
          (W.unif (W.propose ms st.sigmas asg st.pts st.g).2 st.pts.length).1).1,
        (stepAll W β st.pts st.logl (W.propose ms st.sigmas asg st.pts st.g).1
          (W.unif (W.propose ms st.sigmas asg st.pts st.g).2 st.pts.length).1).2.1,
        adaptSigmas cfg.tpcn cfg.sigma0 (st.k + 1) asg (stepAll W β st.pts st.logl (W.propose ms st.sigmas asg st.pts st.g).1
          (W.unif (W.propose ms st.sigmas asg st.pts st.g).2 st.pts.length).1).2.2.1 st.sigmas,
        (W.unif (W.propose ms st.sigmas asg st.pts st.g).2 st.pts.length).2,
        (stepAll W β st.pts st.logl (W.propose ms st.sigmas asg st.pts st.g).1
          (W.unif (W.propose ms st.sigmas asg st.pts st.g).2 st.pts.length).1).2.2.1,
        st.accepts ++ [(stepAll W β st.pts st.logl (W.propose ms st.sigmas asg st.pts st.g).1
          (W.unif (W.propose ms st.sigmas asg st.pts st.g).2 st.pts.length).1).2.2.2]⟩
      simpa [shiftMC] using this

theorem mcLoop_length (W : World ℝ P MS TS G) (cfg : CCfg ℝ) (ms : MS) (β : ℝ) (asg : List Nat) :
    ∀ (fuel : Nat) (st m : MC ℝ P G), mcLoop W cfg ms β asg fuel st = some m → m.logl.length = st.logl.length := by
  intro fuel
  induction fuel with
  | zero => intro st m h; simp [mcLoop] at h
  | succ n ih =>
    intro st m h
    simp only [mcLoop] at h
    split at h
    · simp only [Option.some.injEq] at h
      subst h
      simp [stepAll_length]
    · have := ih _ m h
      simpa [stepAll_length] using this

/-! ### the trainer, the resampler, the warm-up draw -/

/-- `trim_weights` and the clusterer / Student-t fit receive what they received in the unshifted run: the function
    `trainStep` of the shifted world IS the function of the original world (it never touches `like`), and it is applied
    to the same weights, the same pool records, the same β and iteration number -/
theorem C10_cl_trainStep (W : World ℝ P MS TS G) (cfg : CCfg ℝ) (c : ℝ) (ts : TS) (g : G) (w : List ℝ) (pool : List P)
    (β : ℝ) (iter : Nat) : trainStep (shiftW c W) cfg ts g w pool β iter = trainStep W cfg ts g w pool β iter := rfl

def shiftRes (c : ℝ) (r : Resampled ℝ P G) : Resampled ℝ P G := { r with logl := r.logl.map (· + c) }

/-- `Resampler.run`: same uniforms requested, same indices, same records gathered, same `predict` input; the gathered
    log-likelihoods are the shifted ones -/
theorem C10_cl_resample (W : World ℝ P MS TS G) (cfg : CCfg ℝ) (c : ℝ) (h : List (CBatch ℝ P)) (w : List ℝ) (ts : TS)
    (g : G) : resampleStep (shiftW c W) cfg (h.map (shiftCB c)) w ts g = (resampleStep W cfg h w ts g).map (shiftRes c) := by
  unfold resampleStep
  simp only [poolOf_shift, batchesOf_shift, Props.C04.flatLogl_shift, gather?_map]
  have e1 : (shiftW c W).resampleU = W.resampleU := rfl
  have e2 : (shiftW c W).predict = W.predict := rfl
  simp only [e1, e2]
  simp only [Option.map_bind, Option.map_map, Function.comp_def]
  congr 1

def shiftDrawn (c : ℝ) (d : Drawn ℝ P G) : Drawn ℝ P G := { d with logl := d.logl.map (· + c) }

theorem like_shift_map (W : World ℝ P MS TS G) (c : ℝ) (l : List P) :
    l.map (shiftW c W).like = (l.map W.like).map (Option.map (· + c)) := by
  simp [shiftW, List.map_map, Function.comp_def]

/-- the redraw loop: a batch is all −inf for the run on `ℓ + c` exactly when it is for the run on `ℓ` (−inf + c = −inf),
    so both runs discard the same batches, make the same number of draws and raise the ValueError together -/
theorem C10_cl_drawLoop (W : World ℝ P MS TS G) (c : ℝ) (n : Nat) : ∀ (fuel : Nat) (g : G) (drawn : Nat),
    drawLoop (shiftW c W) n fuel g drawn
      = (drawLoop W n fuel g drawn).map fun d => (d.1, d.2.1.map (Option.map (· + c)), d.2.2.1, d.2.2.2) := by
  intro fuel
  induction fuel with
  | zero => intro g drawn; simp [drawLoop]
  | succ f ih =>
    intro g drawn
    have e1 : (shiftW c W).priorDraw = W.priorDraw := rfl
    simp only [drawLoop, e1, like_shift_map, countSome_map, ih]
    split
    · split <;> simp
    · simp

/-- the fuel `drawCap` is never the reason the loop stops: with `k` batches already drawn,
    `drawCap − k` further batches are all the cap allows, and any larger fuel gives the same result -/
theorem drawLoop_fuel (W : World ℝ P MS TS G) (n : Nat) : ∀ (f k extra : Nat) (g : G), 1 ≤ f → k + f = drawCap →
    drawLoop W n (f + extra) g (k * n) = drawLoop W n f g (k * n) := by
  intro f
  induction f with
  | zero => intro k extra g h; omega
  | succ f ih =>
    intro k extra g _ hk
    have e : f + 1 + extra = (f + extra) + 1 := by omega
    rw [e]
    simp only [drawLoop]
    have hnd : k * n + n = (k + 1) * n := by ring
    rw [hnd]
    by_cases hc : countSome ((W.priorDraw g n).1.map W.like) = 0
    · simp only [hc, if_true]
      by_cases hcap : (k + 1) * n ≥ drawCap * n
      · simp [hcap]
      · simp only [hcap, if_false]
        have hlt : k + 1 < drawCap := by
          by_contra hge
          exact hcap (Nat.mul_le_mul_right n (by omega))
        exact ih (k + 1) extra _ (by omega) (by omega)
    · simp [hc]

/-- warm-up draw: a −inf draw of the run on `ℓ` is a −inf draw of the run on `ℓ + c`, so the same batches are discarded,
    the same positions are replaced, `np.random.choice` is called (or not) with the same arguments, `n_drawn` is the same
    and the same correction `log(n_fin/n_drawn)` is written -/
theorem C10_cl_warmup (W : World ℝ P MS TS G) (cfg : CCfg ℝ) (c : ℝ) (g : G) :
    warmupStep (shiftW c W) cfg g = (warmupStep W cfg g).map (shiftDrawn c) := by
  unfold warmupStep
  simp only [C10_cl_drawLoop]
  cases drawLoop W cfg.rw.nPart drawCap g 0 with
  | none => simp
  | some d =>
    simp only [Option.map_some, Option.bind_some]
    have e2 : (shiftW c W).choice = W.choice := rfl
    have hsome : ∀ (ls : List (Option ℝ)) (i : Nat),
        (((ls.map (Option.map (· + c)))[i]?).join.isSome) = ((ls[i]?).join.isSome) := by
      intro ls i
      rw [List.getElem?_map]
      cases ls[i]? with
      | none => rfl
      | some a => cases a <;> rfl
    simp only [e2, countSome_map, List.length_map, hsome, scatterFrom_map, allSome_map]
    split
    · split
      · simp only [Option.map_map]; rfl
      · simp only [Option.map_map]; rfl
    · simp only [Option.map_map]; rfl

/-! ### one `execute_iteration` -/

theorem isEmpty_map_add (c : ℝ) (l : List ℝ) : (l.map (· + c)).isEmpty = l.isEmpty := by
  cases l <;> rfl

/-- **one iteration of the run on `ℓ + c` is the shift of the iteration of the run on `ℓ`** — same β, ESS, weights
    handed to trainer and resampler, same trainer input, indices, σ's, masks, records, counters, clusterer state and
    stream state; `ℓ + c` stored, evidence `+ β c`; `none` (outside the model) on one side iff on the other -/
theorem C10_cl_iterate (W : World ℝ P MS TS G) (cfg : CCfg ℝ) (c : ℝ) (s : CState ℝ P TS G) (hs : WFC s) :
    Model.ClosedLoop.iterate (shiftW c W) cfg (shiftCS c s)
      = (Model.ClosedLoop.iterate W cfg s).map fun p => (shiftCS c p.1, shiftCO c p.2) := by
  unfold Model.ClosedLoop.iterate
  rw [C10_cl_reweight W cfg c s hs]
  generalize reweightStep W cfg s = r
  have hcalls : (shiftCS c s).calls = s.calls := rfl
  have hts : (shiftCS c s).ts = s.ts := rfl
  have hg : (shiftCS c s).g = s.g := rfl
  have hit : (shiftCS c s).iter = s.iter := rfl
  have hh : (shiftCS c s).hist = s.hist.map (shiftCB c) := rfl
  simp only [hts, hg, hit, hh, hcalls, poolOf_shift, C10_cl_trainStep]
  cases trainStep W cfg s.ts s.g (returnedWeights r.weightsTag) (poolOf s.hist) r.beta (s.iter + 1) with
  | none => simp
  | some tr =>
    simp only [Option.bind_some]
    by_cases hb : eqv r.beta Sc.zero = true
    · have hb0 : r.beta = 0 := (Props.C05.eqv_real r.beta 0).mp (by simpa using hb)
      simp only [hb, if_true, C10_cl_warmup]
      cases warmupStep W cfg tr.2.2 with
      | none => simp
      | some d =>
        simp only [Option.map_some, Option.bind_some, shiftDrawn, isEmpty_map_add]
        by_cases he : d.logl.isEmpty = true
        · simp [he]
        · simp only [he, Bool.false_eq_true, if_false, Option.map_some, Option.some.injEq, Prod.mk.injEq]
          constructor
          · cases d.logz <;> simp [commit, shiftCS, shiftCB, hb0]
          · cases d.logz <;> simp [shiftCO, hb0]
    · simp only [hb, Bool.false_eq_true, if_false, C10_cl_resample]
      cases resampleStep W cfg s.hist (returnedWeights r.weightsTag) tr.2.1 tr.2.2 with
      | none => simp
      | some rs =>
        simp only [Option.map_some, Option.bind_some, shiftRes, isEmpty_map_add]
        by_cases he : rs.logl.isEmpty = true
        · simp [he]
        · simp only [he, Bool.false_eq_true, if_false]
          have e1 : (shiftW c W).modeIndex = W.modeIndex := rfl
          have e2 : (shiftW c W).nModes = W.nModes := rfl
          simp only [e1, e2]
          have hmc := C10_cl_mcLoop W cfg tr.1 c r.beta (W.modeIndex tr.1 rs.assign rs.pts).1 cfg.mcFuel
            ⟨0, rs.pts, rs.logl, initSigmas cfg.tpcn cfg.sigma0 (W.nModes tr.1), rs.g, [], []⟩
          simp only [shiftMC] at hmc
          rw [hmc]
          cases mcLoop W cfg tr.1 r.beta (W.modeIndex tr.1 rs.assign rs.pts).1 cfg.mcFuel
            ⟨0, rs.pts, rs.logl, initSigmas cfg.tpcn cfg.sigma0 (W.nModes tr.1), rs.g, [], []⟩ with
          | none => simp
          | some m => simp [commit, shiftCS, shiftCB, shiftCO, shiftMC]

/-- "every stored batch is non-empty" is an invariant of the closed-loop iteration (the model leaves its domain rather
    than commit an empty batch), with no condition on the world -/
theorem C10_cl_wellformed (W : World ℝ P MS TS G) (cfg : CCfg ℝ) (s s1 : CState ℝ P TS G) (o : CIterOut ℝ P)
    (hs : WFC s) (h : Model.ClosedLoop.iterate W cfg s = some (s1, o)) : WFC s1 := by
  unfold Model.ClosedLoop.iterate at h
  generalize reweightStep W cfg s = r at h
  cases htr : trainStep W cfg s.ts s.g (returnedWeights r.weightsTag) (poolOf s.hist) r.beta (s.iter + 1) with
  | none => simp [htr] at h
  | some tr =>
    simp only [htr, Option.bind_some] at h
    by_cases hb : eqv r.beta Sc.zero = true
    · simp only [hb, if_true] at h
      cases hd : warmupStep W cfg tr.2.2 with
      | none => simp [hd] at h
      | some d =>
        simp only [hd, Option.bind_some] at h
        by_cases he : d.logl.isEmpty = true
        · simp [he] at h
        · simp only [he, Bool.false_eq_true, if_false, Option.some.injEq, Prod.mk.injEq] at h
          obtain ⟨rfl, _⟩ := h
          intro b hb'
          simp only [commit, List.mem_append, List.mem_singleton] at hb'
          rcases hb' with hb' | rfl
          · exact hs b hb'
          · simp only
            cases hl : d.logl with
            | nil => simp [hl] at he
            | cons _ _ => simp
    · simp only [hb, Bool.false_eq_true, if_false] at h
      cases hrs : resampleStep W cfg s.hist (returnedWeights r.weightsTag) tr.2.1 tr.2.2 with
      | none => simp [hrs] at h
      | some rs =>
        simp only [hrs, Option.bind_some] at h
        by_cases he : rs.logl.isEmpty = true
        · simp [he] at h
        · simp only [he, Bool.false_eq_true, if_false, Option.map_eq_some_iff, Prod.mk.injEq] at h
          obtain ⟨m, hm, rfl, _⟩ := h
          intro b hb'
          simp only [commit, List.mem_append, List.mem_singleton] at hb'
          rcases hb' with hb' | rfl
          · exact hs b hb'
          · simp only
            rw [mcLoop_length W cfg _ _ _ _ _ m hm]
            cases hl : rs.logl with
            | nil => simp [hl] at he
            | cons _ _ => simp

theorem WFC_shift (c : ℝ) (s : CState ℝ P TS G) (hs : WFC s) : WFC (shiftCS c s) := by
  intro b hb
  simp only [shiftCS, List.mem_map] at hb
  obtain ⟨b', hb', rfl⟩ := hb
  simpa [shiftCB] using hs b' hb'

theorem WFC_init (ts : TS) (g : G) : WFC (Model.ClosedLoop.init ts g : CState ℝ P TS G) := by
  intro b hb; simp [Model.ClosedLoop.init] at hb

theorem shiftCS_init (c : ℝ) (ts : TS) (g : G) :
    shiftCS c (Model.ClosedLoop.init ts g : CState ℝ P TS G) = Model.ClosedLoop.init ts g := by
  simp [shiftCS, Model.ClosedLoop.init]

/-! ### the termination guard, the loop, the epilogue -/

/-- `_not_termination` evaluates identically: the log-weights at β = 1 it reads are the NORMALISED ones, the ESS is
    computed from `exp(logw − max logw)`, and `1 − β ≥ 1e-4` sees the same β -/
theorem C10_cl_guard (cfg : CCfg ℝ) (c : ℝ) (s : CState ℝ P TS G) (hs : WFC s) :
    contGuard cfg (shiftCS c s) = contGuard cfg s := by
  unfold contGuard
  simp only [shiftCS, batchesOf_shift, ScReal.one_def]
  rcases WF_batchesOf s hs with h0 | hwf
  · rw [h0]; simp [shiftH]
  · rw [(Props.C04.C04_shift (batchesOf s.hist) hwf 1 c true).2.1]

/-- the evidence recomputed at β = 1 by the epilogue of `run_sampling` moves by exactly `c` -/
theorem C10_cl_finalLogz (c : ℝ) (s : CState ℝ P TS G) (hs : WFC s) (hne : s.hist ≠ []) :
    ∃ z, finalLogz s = some z ∧ finalLogz (shiftCS c s) = some (z + c) := by
  have hwf : WF (batchesOf s.hist) := by
    rcases WF_batchesOf s hs with h | h
    · simp [batchesOf] at h; exact absurd h hne
    · exact h
  refine ⟨Props.C04.specLogz (batchesOf s.hist) 1, ?_, ?_⟩
  · simp only [finalLogz, ScReal.one_def]
    exact Props.C04.C04_logz _ hwf 1 true
  · simp only [finalLogz, ScReal.one_def, shiftCS, batchesOf_shift]
    rw [(Props.C04.C04_shift _ hwf 1 c true).2.2, Props.C04.C04_logz _ hwf 1 true]
    simp

/-- **the loop `while _not_termination(): execute_iteration()`** of the run on `ℓ + c` executes the same number of
    iterations; every state at the top of the loop (what a `save_every` checkpoint captures), the final state and every
    iteration record are the shifts of those of the run on `ℓ`; both runs leave the model together -/
theorem C10_cl_runLoop (W : World ℝ P MS TS G) (cfg : CCfg ℝ) (c : ℝ) : ∀ (fuel : Nat) (s : CState ℝ P TS G), WFC s →
    runLoop (shiftW c W) cfg fuel (shiftCS c s)
      = (runLoop W cfg fuel s).map fun q => (shiftCS c q.1, q.2.1.map (shiftCS c), q.2.2.map (shiftCO c)) := by
  intro fuel
  induction fuel with
  | zero =>
    intro s hs
    simp only [runLoop, C10_cl_guard cfg c s hs]
    split <;> simp
  | succ n ih =>
    intro s hs
    simp only [runLoop, C10_cl_guard cfg c s hs, C10_cl_iterate W cfg c s hs]
    split
    · cases hi : Model.ClosedLoop.iterate W cfg s with
      | none => simp
      | some p =>
        obtain ⟨s1, o⟩ := p
        have hs1 := C10_cl_wellformed W cfg s s1 o hs hi
        simp only [Option.map_some, Option.bind_some, ih s1 hs1]
        cases runLoop W cfg n s1 <;> simp
    · simp

/-- the loop only appends to the history -/
theorem runLoop_WFC (W : World ℝ P MS TS G) (cfg : CCfg ℝ) : ∀ (fuel : Nat) (s sf : CState ℝ P TS G)
    (tr : List (CState ℝ P TS G)) (os : List (CIterOut ℝ P)), WFC s → runLoop W cfg fuel s = some (sf, tr, os) →
    WFC sf ∧ (s.hist ≠ [] → sf.hist ≠ []) ∧ (os ≠ [] → sf.hist ≠ []) := by
  intro fuel
  induction fuel with
  | zero =>
    intro s sf tr os hs h
    simp only [runLoop] at h
    split at h
    · simp at h
    · simp only [Option.some.injEq, Prod.mk.injEq] at h
      obtain ⟨rfl, _, rfl⟩ := h
      exact ⟨hs, id, fun h => absurd rfl h⟩
  | succ n ih =>
    intro s sf tr os hs h
    simp only [runLoop] at h
    split at h
    · simp only [Option.bind_eq_some_iff, Option.map_eq_some_iff] at h
      obtain ⟨⟨s1, o⟩, hi, ⟨sf', tr', os'⟩, hr, he⟩ := h
      simp only [Prod.mk.injEq] at he
      obtain ⟨rfl, _, _⟩ := he
      have hs1 := C10_cl_wellformed W cfg s s1 o hs hi
      obtain ⟨h1, h2, _⟩ := ih s1 sf' tr' os' hs1 hr
      have hne1 : s1.hist ≠ [] := by
        -- `iterate` commits: the new history ends with the committed batch
        unfold Model.ClosedLoop.iterate at hi
        generalize reweightStep W cfg s = r at hi
        cases htr : trainStep W cfg s.ts s.g (returnedWeights r.weightsTag) (poolOf s.hist) r.beta (s.iter + 1) with
        | none => simp [htr] at hi
        | some t =>
          simp only [htr, Option.bind_some] at hi
          by_cases hb : eqv r.beta Sc.zero = true
          · simp only [hb, if_true, Option.bind_eq_some_iff] at hi
            obtain ⟨d, _, hd⟩ := hi
            split at hd
            · simp at hd
            · simp only [Option.some.injEq, Prod.mk.injEq] at hd
              rw [← hd.1]; simp [commit]
          · simp only [hb, Bool.false_eq_true, if_false, Option.bind_eq_some_iff] at hi
            obtain ⟨rs, _, hd⟩ := hi
            split at hd
            · simp at hd
            · simp only [Option.map_eq_some_iff, Prod.mk.injEq] at hd
              obtain ⟨m, _, hd, _⟩ := hd
              rw [← hd]; simp [commit]
      exact ⟨h1, fun _ => h2 hne1, fun _ => h2 hne1⟩
    · simp only [Option.some.injEq, Prod.mk.injEq] at h
      obtain ⟨rfl, _, rfl⟩ := h
      exact ⟨hs, id, fun h => absurd rfl h⟩

theorem finalLogz_shift (c : ℝ) (s : CState ℝ P TS G) (hs : WFC s) :
    finalLogz (shiftCS c s) = (finalLogz s).map (· + c) := by
  by_cases hne : s.hist = []
  · simp [finalLogz, shiftCS, hne, batchesOf, logw]
  · obtain ⟨z, h1, h2⟩ := C10_cl_finalLogz c s hs hne
    rw [h1, h2]; rfl

theorem startState_shift (c : ℝ) (s : CState ℝ P TS G) : startState (shiftCS c s) = shiftCS c (startState s) := by
  unfold startState
  cases h : s.hist with
  | nil => simp [shiftCS, h]
  | cons b bs => simp [shiftCS, h]

theorem WFC_startState (s : CState ℝ P TS G) (hs : WFC s) : WFC (startState s) := by
  unfold startState; split
  · intro b hb; exact hs b hb
  · exact hs

theorem startState_init (ts : TS) (g : G) :
    startState (Model.ClosedLoop.init ts g : CState ℝ P TS G) = Model.ClosedLoop.init ts g := by
  simp [startState, Model.ClosedLoop.init]

/-- **the whole `run_sampling` on `ℓ + c` from ANY well-formed state** — fresh (history empty: `_initialize_fresh`), or
    carrying committed history (loaded by `load_state` / `resume_state_path`, or left by an earlier `run()`: the middle
    branch of `run_sampling` continues it) — as an equation: same number of iterations, every iteration record shifted
    (β, ESS, weights, trainer input, indices, masks, σ's identical; evidence `+ β_k c`), every loop-top state shifted, and
    the final state is the shift of the final state except that its `logz` — the value `evidence()` returns — is the old
    one plus exactly `c`.  `none` (out of fuel / outside the model / the warm-up ValueError) on one side iff on the other. -/
theorem C10_cl_run_from (W : World ℝ P MS TS G) (cfg : CCfg ℝ) (c : ℝ) (fuel : Nat) (s : CState ℝ P TS G) (hs : WFC s) :
    runSampling (shiftW c W) cfg fuel (shiftCS c s)
      = (runSampling W cfg fuel s).map fun q =>
          ({ shiftCS c q.1 with logz := q.1.logz + c }, q.2.1.map (shiftCS c), q.2.2.map (shiftCO c)) := by
  unfold runSampling
  have hw0 := WFC_startState s hs
  rw [startState_shift, C10_cl_runLoop W cfg c fuel (startState s) hw0]
  cases hl : runLoop W cfg fuel (startState s) with
  | none => simp
  | some q =>
    obtain ⟨s1, tr1, os1⟩ := q
    obtain ⟨hw1, _, _⟩ := runLoop_WFC W cfg fuel _ s1 tr1 os1 hw0 hl
    simp only [Option.map_some, Option.bind_some, finalLogz_shift c s1 hw1]
    cases finalLogz s1 with
    | none => simp
    | some z => simp [shiftCS]

/-- … in particular from the fresh state of a seeded run -/
theorem C10_cl_run (W : World ℝ P MS TS G) (cfg : CCfg ℝ) (c : ℝ) (fuel : Nat) (ts : TS) (g : G) :
    runSampling (shiftW c W) cfg fuel (Model.ClosedLoop.init ts g)
      = (runSampling W cfg fuel (Model.ClosedLoop.init ts g)).map fun q =>
          ({ shiftCS c q.1 with logz := q.1.logz + c }, q.2.1.map (shiftCS c), q.2.2.map (shiftCO c)) := by
  have := C10_cl_run_from W cfg c fuel (Model.ClosedLoop.init ts g) (WFC_init ts g)
  rwa [shiftCS_init] at this

/-- `Sampler.evidence()` after the run on `ℓ + c` returns the evidence of the run on `ℓ` plus exactly `c` -/
theorem C10_cl_run_evidence (W : World ℝ P MS TS G) (cfg : CCfg ℝ) (c : ℝ) (fuel : Nat) (ts : TS) (g : G)
    (sf : CState ℝ P TS G) (tr : List (CState ℝ P TS G)) (os : List (CIterOut ℝ P))
    (h : runSampling W cfg fuel (Model.ClosedLoop.init ts g) = some (sf, tr, os)) :
    ∃ sf', runSampling (shiftW c W) cfg fuel (Model.ClosedLoop.init ts g)
        = some (sf', tr.map (shiftCS c), os.map (shiftCO c)) ∧
      evidence sf' = evidence sf + c ∧ sf'.hist = sf.hist.map (shiftCB c) ∧ sf'.beta = sf.beta ∧
      sf'.cur = sf.cur ∧ sf'.curL = sf.curL.map (· + c) ∧ sf'.iter = sf.iter ∧ sf'.calls = sf.calls ∧
      (os.map (shiftCO c)).length = os.length := by
  rw [C10_cl_run W cfg c fuel ts g, h]
  exact ⟨_, rfl, rfl, rfl, rfl, rfl, rfl, rfl, rfl, by simp⟩

/-- reading of `C10_cl_run`: the number of iterations and every recorded sequence -/
theorem C10_cl_run_outputs (c : ℝ) (os : List (CIterOut ℝ P)) :
    (os.map (shiftCO c)).length = os.length ∧
    (os.map (shiftCO c)).map (·.beta) = os.map (·.beta) ∧ (os.map (shiftCO c)).map (·.ess) = os.map (·.ess) ∧
    (os.map (shiftCO c)).map (·.weights) = os.map (·.weights) ∧
    (os.map (shiftCO c)).map (·.trainIn) = os.map (·.trainIn) ∧
    (os.map (shiftCO c)).map (·.idx) = os.map (·.idx) ∧ (os.map (shiftCO c)).map (·.masks) = os.map (·.masks) ∧
    (os.map (shiftCO c)).map (·.sigmas) = os.map (·.sigmas) ∧ (os.map (shiftCO c)).map (·.branch) = os.map (·.branch) ∧
    (os.map (shiftCO c)).map (·.logz) = os.map (fun o => o.logz + o.beta * c) ∧
    (os.map (shiftCO c)).map (·.logzRw) = os.map (fun o => o.logzRw + o.beta * c) := by
  simp [List.map_map, Function.comp_def, shiftCO]

/-! ### what `volume_variation`, `trim_weights` and the clusterer receive -/

/-- volume-variation mode: at every trial β of the ESS / bisection searches `tools.volume_variation` is called with the
    same records and the same normalised weights as in the unshifted run (it is the world's own function, and its
    arguments do not see the shift) -/
theorem C10_cl_metric_inputs (h : List (Batch ℝ)) (hwf : WF h) (c β : ℝ) :
    Model.Ess.normalise (oracleM (shiftH c h) β).1 = Model.Ess.normalise (oracleM h β).1 ∧
    (oracleM (shiftH c h) β).2.1 = (oracleM h β).2.1 := by
  rw [oracleM_shift h hwf c β]; exact ⟨rfl, rfl⟩

theorem C10_cl_metric (W : World ℝ P MS TS G) (v : ℝ) (pool : List P) (h : List (Batch ℝ)) (hwf : WF h) (c β : ℝ) :
    (oracleMV (shiftW c W) (some v) pool (shiftH c h) β).2.2 = W.volvar pool (Model.Ess.normalise (oracleM h β).1) β := by
  rw [oracleMV_shift W (some v) pool h hwf c β]; rfl

/-- `Trainer.run`: `trim_weights` is applied to the same weights and the clusterer / Student-t fit receives the same
    records and trimmed weights, at the same β and iteration number, with the same clusterer state and stream state -/
theorem C10_cl_trainer_input (W : World ℝ P MS TS G) (cfg : CCfg ℝ) (c : ℝ) (s s1 : CState ℝ P TS G) (o : CIterOut ℝ P)
    (hs : WFC s) (h : Model.ClosedLoop.iterate W cfg s = some (s1, o)) :
    ∃ s1' o', Model.ClosedLoop.iterate (shiftW c W) cfg (shiftCS c s) = some (s1', o') ∧
      o'.weights = o.weights ∧ o'.trainIn = o.trainIn ∧ o'.beta = o.beta ∧ s1'.ts = s1.ts ∧ s1'.g = s1.g ∧
      s1'.cur = s1.cur ∧ s1'.assign = s1.assign := by
  rw [C10_cl_iterate W cfg c s hs, h]
  exact ⟨_, _, rfl, rfl, rfl, rfl, rfl, rfl, rfl, rfl⟩

/-! ### checkpoints -/

def shiftCk (c : ℝ) (k : Ckpt ℝ P) : Ckpt ℝ P :=
  { k with hist := k.hist.map (shiftCB c), logz := k.logz + k.beta * c, curL := k.curL.map (· + c) }

/-- what `save_sampler_state` writes at an iteration boundary of the run on `ℓ + c` is the checkpoint of the run on
    `ℓ` with every stored `ℓ` replaced by `ℓ + c` and every stored evidence `z_t` by `z_t + β_t c`; all other keys
    (u, x, blobs, β, ESS, iter, calls, steps, acceptance, efficiency, assignments) are identical -/
theorem C10_cl_checkpoint (c : ℝ) (s : CState ℝ P TS G) : checkpoint (shiftCS c s) = shiftCk c (checkpoint s) := rfl

theorem C10_cl_checkpoint_keys (c : ℝ) (k : Ckpt ℝ P) :
    (shiftCk c k).beta = k.beta ∧ (shiftCk c k).ess = k.ess ∧ (shiftCk c k).iter = k.iter ∧
    (shiftCk c k).calls = k.calls ∧ (shiftCk c k).cur = k.cur ∧ (shiftCk c k).assign = k.assign ∧
    (shiftCk c k).steps = k.steps ∧ (shiftCk c k).acceptance = k.acceptance ∧
    (shiftCk c k).efficiency = k.efficiency ∧
    (shiftCk c k).hist.map (·.pts) = k.hist.map (·.pts) ∧ (shiftCk c k).hist.map (·.beta) = k.hist.map (·.beta) ∧
    (shiftCk c k).hist.map (·.ess) = k.hist.map (·.ess) ∧ (shiftCk c k).hist.map (·.calls) = k.hist.map (·.calls) ∧
    (shiftCk c k).hist.map (·.steps) = k.hist.map (·.steps) ∧
    (shiftCk c k).hist.map (·.logl) = k.hist.map (fun b => b.logl.map (· + c)) ∧
    (shiftCk c k).hist.map (·.logz) = k.hist.map (fun b => b.logz + b.beta * c) := by
  simp [shiftCk, shiftCB, List.map_map, Function.comp_def]

/-! ### `compute_posterior` -/

open Model.Posterior in
/-- the arrays `compute_posterior` starts from -/
theorem posteriorArrs_shift (c : ℝ) (s : CState ℝ P TS G) (hs : WFC s) :
    posteriorArrs (shiftCS c s) = { posteriorArrs s with l := (posteriorArrs s).l.map (· + c) } := by
  unfold posteriorArrs
  simp only [shiftCS, batchesOf_shift, poolOf_shift, Props.C04.flatLogl_shift, ScReal.one_def]
  rcases WF_batchesOf s hs with h0 | hwf
  · rw [h0]; simp [shiftH, flatLogl]
  · rw [(Props.C04.C04_shift (batchesOf s.hist) hwf 1 c true).2.1]

open Model.Posterior in
theorem gatherArrs_mapL {X L B Wt A : Type} (f : L → L) (fields : List String) (idx : List Nat) (a : Arrs X L B Wt A) :
    gatherArrs fields idx { a with l := a.l.map f }
      = (gatherArrs fields idx a).map fun a' => { a' with l := a'.l.map f } := by
  unfold gatherArrs
  by_cases h1 : fields.contains "x" = true <;> by_cases h2 : fields.contains "logl" = true <;>
  by_cases h3 : fields.contains "blobs" = true <;> by_cases h4 : fields.contains "logw" = true <;>
  simp only [h1, h2, h3, h4, if_true, Bool.false_eq_true, if_false, gather?_map] <;>
  (try cases gather? a.x idx) <;> (try cases gather? a.l idx) <;> (try cases gather? a.b idx) <;>
  (try cases gather? a.lw idx) <;> rfl

open Model.Posterior in
theorem body_mapL {X L B Wt A : Type} (f : L → L) (tf rf : List String) (trimFn : List A → List Nat × List A)
    (resFn : List A → List Nat) (uniform : Nat → List A) (o : Opts) (a : Arrs X L B Wt A) :
    body tf rf trimFn resFn uniform o { a with l := a.l.map f }
      = (body tf rf trimFn resFn uniform o a).map fun a' => { a' with l := a'.l.map f } := by
  unfold body
  by_cases ht : o.trim = true <;> by_cases hr : o.resample = true
  · simp only [ht, hr, if_true, gatherArrs_mapL]
    cases gatherArrs tf (trimFn a.w).1 a with
    | none => simp
    | some a1 =>
      simp only [Option.map_some, Option.bind_some]
      have := gatherArrs_mapL f rf (resFn (trimFn a.w).2) { a1 with w := (trimFn a.w).2 }
      simp only at this
      rw [this]
      cases gatherArrs rf (resFn (trimFn a.w).2) { a1 with w := (trimFn a.w).2 } <;> simp
  · simp only [ht, hr, if_true, Bool.false_eq_true, if_false, gatherArrs_mapL]
    cases gatherArrs tf (trimFn a.w).1 a <;> simp
  · simp only [ht, hr, if_true, Bool.false_eq_true, if_false, Option.bind_some, gatherArrs_mapL]
    cases gatherArrs rf (resFn a.w) a <;> simp
  · simp [ht, hr]

open Model.Posterior in
/-- **`compute_posterior` on the run on `ℓ + c`**, for every combination of `resample`, `trim_importance_weights`,
    `return_blobs`, `return_logw`, every trimming threshold / grid and every resampling offset: the importance weights,
    the trimming (`trim_weights` sees the same weights), the resampled indices, `x`, the blobs and the (normalised)
    `logw` are identical; the returned `logl` is `ℓ + c`; both calls fail together -/
theorem C10_cl_posterior (tf rf : List String) (essTrim : ℝ) (bins : Nat) (u0 : ℝ) (o : Opts) (c : ℝ)
    (s : CState ℝ P TS G) (hs : WFC s) :
    Model.ClosedLoop.posterior tf rf essTrim bins u0 o (shiftCS c s)
      = (Model.ClosedLoop.posterior tf rf essTrim bins u0 o s).map fun a => { a with l := a.l.map (· + c) } := by
  unfold Model.ClosedLoop.posterior Model.Posterior.posterior
  rw [posteriorArrs_shift c s hs]
  simp only
  cases weights0 (posteriorArrs s).lw with
  | none => simp
  | some w0 =>
    simp only [Option.bind_some]
    cases (if o.trim = true then Model.Trim.trim (List.range w0.length) w0 essTrim bins else some ([], [])) with
    | none => simp
    | some t =>
      simp only [Option.bind_some]
      cases (if o.resample = true then
          systematic (if o.trim = true then t.2 else w0).length (if o.trim = true then t.2 else w0) u0
        else some []) with
      | none => simp
      | some ridx =>
        simp only [Option.bind_some]
        exact body_mapL (· + c) tf rf _ _ _ o { posteriorArrs s with w := w0 }

/-! ### non-vacuity: a concrete world on records `P = ℕ` in which record 1 has likelihood zero (−inf) -/

/-- likelihood: record 1 is outside the support, every other record has `ℓ = p/4`; the prior draw is `[0, 1]` …,
    `np.random.choice` answers position 0; proposals: record `20 + k`, factor 0, the second one out of the cube -/
noncomputable def wEx : World ℝ Nat Unit Unit Nat where
  like := fun p => if p = 1 then none else some ((p : ℝ) / 4)
  priorDraw := fun g n => ((List.range n).map (· + 10 * g), g + 1)
  choice := fun g fin k => (List.replicate k (fin.headD 0), g + 1)
  resampleU := fun g n => (List.replicate n (1 / 2), g + 1)
  train := fun _ g _ _ _ _ => ((), (), g + 1)
  dummy := ()
  predict := fun _ pts => pts.map fun _ => 0
  modeIndex := fun _ a _ => (a, a)
  nModes := fun _ => 1
  propose := fun _ _ _ pts g => (pts.mapIdx fun k _ => (20 + k, 0, decide (k ≠ 1)), g + 1)
  unif := fun g n => (List.replicate n (1 / 2), g + 1)
  volvar := fun _ _ _ => 0

noncomputable def cfgCl : CCfg ℝ :=
  ⟨⟨1 / 2, 2, none, 1 / 100, 1 / 10000, 64⟩, true, true, 1, 1, 1, 238 / 100, 512, 1, 1 / 10000, 0, 8⟩

/-- the state after the warm-up iteration of the example world: draws `[0, 1]`, record 1 (−inf) replaced by a copy of
    record 0, the evidence overwritten by the correction `log(1/2)` -/
noncomputable def sCl1 : CState ℝ Nat Unit Nat :=
  ⟨[⟨0, Real.log (1 / 2), 1, [0, 0], [0, 0], 1, 2, 1, 1, 1⟩], 0, Real.log (1 / 2), 1, 1, 2, [0, 0], [0, 0], [0, 0], 1, 1, 1,
   (), 2⟩

/-- the warm-up iteration of the example, evaluated -/
theorem itCl1 : Model.ClosedLoop.iterate wEx cfgCl (Model.ClosedLoop.init () 0)
    = some (sCl1, ⟨0, 1, 0, Real.log (1 / 2), Branch.firstIter, [1 / 2, 1 / 2], none, [], [], []⟩) := by
  have hr : List.range 2 = [0, 1] := by decide
  have hd : drawLoop wEx 2 drawCap 0 0 = some ([0, 1], [some 0, none], 2, 1) := by
    show drawLoop wEx 2 (999 + 1) 0 0 = _
    simp [drawLoop, wEx, countSome, hr]
  have hn : cfgCl.rw.nPart = 2 := rfl
  have hex : ∃ x ≤ 1, ([some (0 : ℝ), none] : List (Option ℝ))[x]?.join = none := ⟨1, le_rfl, rfl⟩
  have hw : warmupStep wEx cfgCl 0 = some ⟨[0, 0], [0, 0], some (Real.log (1 / 2)), 2, 2⟩ := by
    simp only [warmupStep, hn, hd, Option.bind_some]
    simp [countSome, allSome, scatterFrom, hr, hex, wEx]
  have hrw : reweightStep wEx cfgCl (Model.ClosedLoop.init () 0)
      = ⟨0, .uniform 2, 1, 0, Branch.firstIter, [], [], []⟩ := by
    simp [reweightStep, Model.ClosedLoop.init, batchesOf, Model.Reweight.run, cfgCl, Cfg.target]
  unfold Model.ClosedLoop.iterate
  rw [hrw]
  have h00 : eqv (0 : ℝ) Sc.zero = true := by simp [eqv]
  simp only [trainStep, h00, if_true, Option.bind_some, Model.ClosedLoop.init, hw]
  simp [commit, sCl1, returnedWeights, hn]

/-- … and the same iteration of the run on `ℓ + 1000`, obtained from `C10_cl_iterate`: the −inf draw is still replaced,
    the stored log-likelihoods are `1000`, the evidence (β = 0) is the same `log(1/2)` -/
example : Model.ClosedLoop.iterate (shiftW 1000 wEx) cfgCl (Model.ClosedLoop.init () 0)
    = some (shiftCS 1000 sCl1, ⟨0, 1, 0 + 0 * 1000, Real.log (1 / 2) + 0 * 1000, Branch.firstIter, [1 / 2, 1 / 2], none, [], [], []⟩) ∧
    (shiftCS 1000 sCl1).curL = [0 + 1000, 0 + 1000] ∧ (shiftCS 1000 sCl1).logz = Real.log (1 / 2) + 0 * 1000 := by
  have := C10_cl_iterate wEx cfgCl 1000 (Model.ClosedLoop.init () 0) (WFC_init () 0)
  rw [shiftCS_init, itCl1] at this
  exact ⟨this, by simp [shiftCS, sCl1], by simp [shiftCS, sCl1]⟩

/-- a world whose FIRST prior batch lies entirely outside the likelihood's support (records below 10 have ℓ = −inf) -/
noncomputable def wEx0 : World ℝ Nat Unit Unit Nat := { wEx with like := fun p => if p < 10 then none else some ((p : ℝ) / 4) }

/-- the redraw loop, evaluated: batch `[0, 1]` is all −inf and is discarded, batch `[10, 11]` is kept; four draws were made -/
theorem drawEx0 : drawLoop wEx0 2 drawCap 0 0 = some ([10, 11], [some (10 / 4), some (11 / 4)], 4, 2) := by
  have hr : List.range 2 = [0, 1] := by decide
  show drawLoop wEx0 2 (998 + 1 + 1) 0 0 = _
  simp [drawLoop, wEx0, wEx, countSome, hr, drawCap]

/-- … so the warm-up step copies nothing (`np.random.choice` is not called: the stream state stays 2), counts 4 calls and
    writes the correction `log(2/4)`; for the run on `ℓ + 1000` (`C10_cl_warmup`) the same batch is discarded, the same
    four draws are made, the same correction is written, and the kept log-likelihoods are shifted -/
example : warmupStep wEx0 cfgCl 0 = some ⟨[10, 11], [10 / 4, 11 / 4], some (Real.log (2 / 4)), 4, 2⟩ ∧
    warmupStep (shiftW 1000 wEx0) cfgCl 0
      = some ⟨[10, 11], [10 / 4 + 1000, 11 / 4 + 1000], some (Real.log (2 / 4)), 4, 2⟩ := by
  have hn : cfgCl.rw.nPart = 2 := rfl
  have h1 : warmupStep wEx0 cfgCl 0 = some ⟨[10, 11], [10 / 4, 11 / 4], some (Real.log (2 / 4)), 4, 2⟩ := by
    have hr : List.range 2 = [0, 1] := by decide
    have hno : ¬ ∃ x ≤ 1, ([some (10 / 4 : ℝ), some (11 / 4)] : List (Option ℝ))[x]?.join = none := by
      rintro ⟨x, hx, h⟩
      interval_cases x <;> simp at h
    simp only [warmupStep, hn, drawEx0, Option.bind_some]
    simp [countSome, allSome, hr, hno]
  refine ⟨h1, ?_⟩
  rw [C10_cl_warmup, h1]
  simp [shiftDrawn]

/-- the cap: in a world where EVERY record is outside the support the loop raises (`none`) after `drawCap` batches, and so
    does the shifted run -/
example : warmupStep (shiftW 1000 ({ wEx with like := fun _ => none } : World ℝ Nat Unit Unit Nat)) cfgCl 0 = none := by
  rw [C10_cl_warmup]
  have : ∀ (f : Nat) (g k : Nat), drawLoop ({ wEx with like := fun _ => none } : World ℝ Nat Unit Unit Nat) 2 f g k = none := by
    intro f
    induction f with
    | zero => intro g k; rfl
    | succ f ih => intro g k; simp [drawLoop, countSome, ih]
  have hn : cfgCl.rw.nPart = 2 := rfl
  simp [warmupStep, hn, this]

theorem wfc_sCl1 : WFC sCl1 := by
  intro b hb; simp [sCl1] at hb; subst hb; simp

/-- the hypotheses of `C10_cl_iterate`, `C10_cl_guard`, `C10_cl_posterior`, `C10_cl_runLoop` are met by the
    post-warm-up state (an annealing iteration: reweighting over a non-empty pool, trimming, resampling, the mutation
    loop), with `c = 1000` -/
example : Model.ClosedLoop.iterate (shiftW 1000 wEx) cfgCl (shiftCS 1000 sCl1)
      = (Model.ClosedLoop.iterate wEx cfgCl sCl1).map fun p => (shiftCS 1000 p.1, shiftCO 1000 p.2) :=
  C10_cl_iterate wEx cfgCl 1000 sCl1 wfc_sCl1

example : contGuard cfgCl (shiftCS 1000 sCl1) = contGuard cfgCl sCl1 := C10_cl_guard cfgCl 1000 sCl1 wfc_sCl1

/-- the guard of the example is `True` at the post-warm-up state (β = 0), so the loop does go on -/
example : contGuard cfgCl sCl1 = true := by
  unfold contGuard Model.Run.notTermination
  cases (logw (batchesOf sCl1.hist) Sc.one true).1 with
  | nil => rfl
  | cons x xs =>
    have : Model.Run.notTerm cfgCl.tolTerm sCl1.beta
        (Model.Ess.ess (List.map (fun l => ScT.exp (Sc.sub l (Model.Ess.maxOf x xs))) (x :: xs))) cfgCl.nTotal = true := by
      simp [Model.Run.notTerm, cfgCl, sCl1]
      left; norm_num
    simpa using this

example (fuel : Nat) : runSampling (shiftW 1000 wEx) cfgCl fuel (Model.ClosedLoop.init () 0)
      = (runSampling wEx cfgCl fuel (Model.ClosedLoop.init () 0)).map fun q =>
          ({ shiftCS 1000 q.1 with logz := q.1.logz + 1000 }, q.2.1.map (shiftCS 1000), q.2.2.map (shiftCO 1000)) :=
  C10_cl_run wEx cfgCl 1000 fuel () 0

section AnnealingExample
open Model.Trim Model.Ess

theorem sortEx : sortAsc ([1/2, 1/2] : List ℝ) = [1/2, 1/2] := by
  have hp := Props.C20.sortAsc_perm ([1/2, 1/2] : List ℝ)
  have hl := hp.length_eq
  have hm : ∀ b ∈ sortAsc ([1/2, 1/2] : List ℝ), b = 1/2 := by
    intro b hb
    have := hp.mem_iff.mp hb
    simpa using this
  rw [List.eq_replicate_of_mem hm, hl]; rfl
theorem normEx : normalise ([1/2, 1/2] : List ℝ) = [1/2, 1/2] := by
  simp [Props.C20.normalise_def]; norm_num
theorem trimEx : Model.Trim.trim [0, 1] ([1/2, 1/2] : List ℝ) (99/100) 1 = some ([0, 1], [1/2, 1/2]) := by
  simp only [Model.Trim.trim, trimStop]
  rw [normEx, sortEx]
  have hp : percentileLinear ([1/2, 1/2] : List ℝ) (linspace0_99 1 0) = some (1/2) := by
    simp [percentileLinear, linspace0_99, floorIdx, lerp]
    norm_num
  simp only [Nat.sub_self, Model.Trim.search, Model.Trim.step, hp, Option.map_some]
  simp [filterMask, Props.C20.normalise_def]
  norm_num

/-- a world without zero-likelihood records: records below 20 have ℓ = 0, the proposals (records 20, 21, …) ℓ = 1 -/
noncomputable def wEx2 : World ℝ Nat Unit Unit Nat := { wEx with like := fun p => some (if p < 20 then 0 else 1) }

noncomputable def cfgCl2 : CCfg ℝ :=
  ⟨⟨1 / 2, 2, none, 1 / 100, 1 / 10000, 64⟩, true, true, 1, 1, 1, 238 / 100, 99 / 100, 1, 1 / 10000, 0, 8⟩

noncomputable def sCl2 : CState ℝ Nat Unit Nat :=
  ⟨[⟨0, 0, 1, [0, 1], [0, 0], 1, 2, 1, 1, 1⟩], 0, 0, 1, 1, 2, [0, 1], [0, 0], [0, 0], 1, 1, 1, (), 2⟩

theorem rwCl2 : reweightStep wEx2 cfgCl2 sCl2
    = ⟨1, .of [1, 1], 2, oracleZ (batches Ex.s1.hist) 1, Branch.essUpper, [Branch.upOne], [0, 1, 0, 1], [1]⟩ := by
  have hb : batchesOf sCl2.hist = batches Ex.s1.hist := by
    simp [batchesOf, batches, sCl2, Ex.s1, toBatch]
  have hM : oracleMV wEx2 cfgCl2.rw.vv (poolOf sCl2.hist) (batches Ex.s1.hist) = oracleM (batches Ex.s1.hist) := by
    funext β; simp [oracleMV, cfgCl2]
  unfold reweightStep
  simp only [hb]
  rw [hM]
  exact Ex.rw2

theorem mcCl2 : mcLoop wEx2 cfgCl2 () 1 [0, 0] 8 ⟨0, [0, 1], [0, 0], initSigmas true (238 / 100) 1, 4, [], []⟩
    = some ⟨1, [20, 1], [1, 0], [99 / 100], 6, [1, 0], [[true, false]]⟩ := by
  have hconv : ∀ acc ws : ℝ, Model.Steps.converged 1 1 1 1 acc ws (238 / 100) = true := by
    intro acc ws
    simp only [Model.Steps.converged, Model.Steps.adaptiveSteps, Model.Steps.adaptiveRaw, ScReal.le_def, ScReal.floor_def,
      ScReal.ofNat_def, ScReal.min_def, ScReal.max_def, Nat.mul_one, Nat.cast_one]
    rw [min_eq_right (le_max_left _ _)]
    simp
  simp only [mcLoop]
  simp [wEx2, wEx, cfgCl2, hconv, stepAll, stepOne, initSigmas, adaptSigmas, Model.Kernel.clusterAlphas,
    Model.Kernel.mean, Gen.Kernel.acceptProb, Gen.Kernel.acceptDecision, Gen.Kernel.npMinimum, Gen.Kernel.nanToZero,
    Gen.Kernel.alphaOutOfBounds, Gen.Kernel.tpcnAdapt, ScReal.min_def, ScReal.max_def, Props.C20.sum_def]
  norm_num

theorem rwEx : returnedWeights (WTag.of ([1, 1] : List ℝ)) = [1/2, 1/2] := by
  simp [returnedWeights, Props.C20.normalise_def]; norm_num

theorem trCl2 : trainStep wEx2 cfgCl2 () 2 ([1/2, 1/2] : List ℝ) [0, 1] 1 2 = some ((), (), 3) := by
  have hr : List.range 2 = [0, 1] := by decide
  have h10 : eqv (1 : ℝ) Sc.zero = false := by simp [eqv]
  have t' := trimEx
  simp only [one_div] at t'
  have h10' : eqv (1 : ℝ) 0 = false := by simp [eqv]
  simp [trainStep, h10', trainInput, cfgCl2, hr, t', gather?, wEx2, wEx]

theorem rsCl2 : resampleStep wEx2 cfgCl2 sCl2.hist ([1/2, 1/2] : List ℝ) () 3
    = some ⟨[0, 1], [0, 1], [0, 0], [0, 0], 4⟩ := by
  have h := Ex.rs2
  rw [rwEx] at h
  simp only [one_div] at h
  simp [resampleStep, cfgCl2, wEx2, wEx, h, poolOf, sCl2, batchesOf, toBatch, flatLogl, gather?]

noncomputable def sCl3 : CState ℝ Nat Unit Nat :=
  ⟨sCl2.hist ++ [⟨1, Ex.z1, 2, [20, 1], [1, 0], 2, 4, 1, 1 / 2, (99 / 100) / (238 / 100)⟩], 1, Ex.z1, 2, 2, 4, [20, 1], [1, 0],
   [0, 0], 1, 1 / 2, (99 / 100) / (238 / 100), (), 6⟩

/-- an ANNEALING iteration of the closed-loop model, evaluated: reweighting over the one-batch pool (β jumps to 1),
    trimming (nothing dropped), training, systematic resampling ([0, 1]), one accept/reject step (walker 0 accepts record
    20, walker 1's proposal is outside the cube), σ-adaptation (clipped at 0.99), the stop rule fires after one step -/
theorem itCl2 : Model.ClosedLoop.iterate wEx2 cfgCl2 sCl2
    = some (sCl3, ⟨1, 2, Ex.z1, Ex.z1, Branch.essUpper, [1/2, 1/2], some ([0, 1], [1/2, 1/2]), [0, 1], [[true, false]],
        [99 / 100]⟩) := by
  have hr : List.range 2 = [0, 1] := by decide
  have h10 : eqv (1 : ℝ) Sc.zero = false := by simp [eqv]
  have hpool : poolOf sCl2.hist = [0, 1] := by simp [poolOf, sCl2]
  have hti : trainInput cfgCl2 ([1/2, 1/2] : List ℝ) [0, 1] = some ([0, 1], [1/2, 1/2]) := by
    have t' := trimEx
    simp only [one_div] at t'
    simp [trainInput, cfgCl2, hr, t', gather?]
  have hmi : wEx2.modeIndex () [0, 0] [0, 1] = ([0, 0], [0, 0]) := rfl
  have hK : wEx2.nModes () = 1 := rfl
  unfold Model.ClosedLoop.iterate
  rw [rwCl2]
  simp only [rwEx, hpool, h10, Bool.false_eq_true, if_false]
  have e1 : sCl2.ts = () := rfl
  have e2 : sCl2.g = 2 := rfl
  have e3 : sCl2.iter + 1 = 2 := rfl
  rw [e1, e2, e3, trCl2]
  simp only [Option.bind_some, rsCl2, List.isEmpty_cons, Bool.false_eq_true, if_false, hmi, hK]
  have e4 : cfgCl2.tpcn = true := rfl
  have e5 : cfgCl2.sigma0 = 238 / 100 := rfl
  have e6 : cfgCl2.mcFuel = 8 := rfl
  rw [e4, e5, e6, mcCl2]
  simp only [Option.map_some, hti]
  congr 1
  simp [commit, sCl3, sCl2, Ex.z1, Model.Kernel.mean, Props.C20.sum_def]


/-- `C10_cl_iterate` applied to it with `c = 1000`: the shifted run makes the same jump to β = 1, hands the same weights and
    the same trimmed input to the trainer, resamples [0, 1], accepts the same proposal, ends with σ = 0.99 after one step;
    it stores ℓ + 1000 and records the evidence `z + 1·1000` -/
example : ∃ s' o', Model.ClosedLoop.iterate (shiftW 1000 wEx2) cfgCl2 (shiftCS 1000 sCl2) = some (s', o') ∧
    o'.beta = 1 ∧ o'.ess = 2 ∧ o'.weights = [1/2, 1/2] ∧ o'.trainIn = some ([0, 1], [1/2, 1/2]) ∧ o'.idx = [0, 1] ∧
    o'.masks = [[true, false]] ∧ o'.sigmas = [99 / 100] ∧ o'.logz = Ex.z1 + 1 * 1000 ∧
    s'.cur = [20, 1] ∧ s'.curL = [1 + 1000, 0 + 1000] ∧ s'.steps = 1 ∧ s'.calls = 4 ∧ s'.g = 6 := by
  have hw : WFC sCl2 := by intro b hb; simp [sCl2] at hb; subst hb; simp
  refine ⟨shiftCS 1000 sCl3, shiftCO 1000 ⟨1, 2, Ex.z1, Ex.z1, Branch.essUpper, [1/2, 1/2], some ([0, 1], [1/2, 1/2]), [0, 1],
    [[true, false]], [99 / 100]⟩, ?_, rfl, rfl, rfl, rfl, rfl, rfl, rfl, rfl, rfl, ?_, rfl, rfl, rfl⟩
  · rw [C10_cl_iterate wEx2 cfgCl2 1000 sCl2 hw, itCl2]; rfl
  · simp [shiftCS, sCl3]

theorem wfc_sCl3 : WFC sCl3 := by
  intro b hb
  simp only [sCl3, sCl2, List.cons_append, List.nil_append, List.mem_cons, List.not_mem_nil, or_false] at hb
  rcases hb with rfl | rfl <;> simp

/-- the hypotheses of `C10_cl_posterior`, `C10_cl_guard`, `C10_cl_finalLogz` are met by the two-batch state the example
    reaches (trim + resample + both optional returns, the generated gather tables' shape) -/
example : Model.ClosedLoop.posterior ["x", "logl", "logw", "blobs"] ["x", "logl", "logw", "blobs"] (99 / 100) 1000 (1 / 3)
      ⟨true, true, true, true⟩ (shiftCS 1000 sCl3)
    = (Model.ClosedLoop.posterior ["x", "logl", "logw", "blobs"] ["x", "logl", "logw", "blobs"] (99 / 100) 1000 (1 / 3)
        ⟨true, true, true, true⟩ sCl3).map fun a => { a with l := a.l.map (· + 1000) } :=
  C10_cl_posterior _ _ _ _ _ _ 1000 sCl3 wfc_sCl3

example : ∃ z, finalLogz sCl3 = some z ∧ finalLogz (shiftCS 1000 sCl3) = some (z + 1000) :=
  C10_cl_finalLogz 1000 sCl3 wfc_sCl3 (by simp [sCl3])

/-- the checkpoint of the shifted example state, key by key -/
example : (checkpoint (shiftCS 1000 sCl3)).cur = [20, 1] ∧ (checkpoint (shiftCS 1000 sCl3)).curL = [1 + 1000, 0 + 1000] ∧
    (checkpoint (shiftCS 1000 sCl3)).logz = Ex.z1 + 1 * 1000 ∧ (checkpoint (shiftCS 1000 sCl3)).calls = 4 ∧
    (checkpoint (shiftCS 1000 sCl3)).hist.map (·.logz) = [0 + 0 * 1000, Ex.z1 + 1 * 1000] := by
  rw [C10_cl_checkpoint]
  simp [shiftCk, checkpoint, sCl3, sCl2, shiftCB]

end AnnealingExample

end Props.C10
