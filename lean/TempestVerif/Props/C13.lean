import TempestVerif.Model.Dispatch
import TempestVerif.Gen.Dispatch
import Mathlib.Tactic
/-
  C13 — likelihood evaluation strategy is transparent; calls are counted exactly.
  Hypotheses made explicit: a vectorised likelihood is pointwise the scalar one (`Lvec = map L`) and every
  pool's `map` returns results in input order (`pmap = map`, whatever the completion order).
-/
namespace Props.C13
open Model.Dispatch

/-- the dispatch tables regenerated from `_log_like` / `_get_distribute_func` -/
def ll := Gen.Dispatch.logLike
def dist := Gen.Dispatch.distribute

/-- dispatch succeeds for EVERY pool setting, including the integers 0 and 1 -/
theorem C13_dispatch_total (c : Cfg) : logLikeHow ll dist c ≠ none := by
  rcases c with ⟨v, p⟩
  cases v <;> cases p with
  | none => simp [logLikeHow, ll, dist, Gen.Dispatch.logLike]
  | obj => simp [logLikeHow, ll, dist, Gen.Dispatch.logLike, Gen.Dispatch.distribute, distributeHow, testHolds]
  | int k =>
    simp only [logLikeHow, ll, dist, Gen.Dispatch.logLike, Gen.Dispatch.distribute, distributeHow, testHolds]
    by_cases h : k ≤ 1 <;> simp [h]

variable {X Y : Type}

/-- C13 (transparency): under the two hypotheses the algorithm receives the same values whatever the strategy -/
theorem C13_dispatch (L : X → Y) (Lvec : List X → List Y) (pmap : (X → Y) → List X → List Y)
    (hvec : ∀ xs, Lvec xs = xs.map L) (hpool : ∀ f xs, pmap f xs = xs.map f)
    (c : Cfg) (xs : List X) :
    ∃ h, logLikeHow ll dist c = some h ∧ evaluate L Lvec pmap xs h = xs.map L := by
  cases hh : logLikeHow ll dist c with
  | none => exact absurd hh (C13_dispatch_total c)
  | some h => exact ⟨h, rfl, by cases h <;> simp [evaluate, hvec, hpool]⟩

/-- two configurations therefore feed identical values to the (deterministic) pipeline -/
theorem C13_transparent (L : X → Y) (Lvec : List X → List Y) (pmap : (X → Y) → List X → List Y)
    (hvec : ∀ xs, Lvec xs = xs.map L) (hpool : ∀ f xs, pmap f xs = xs.map f)
    (c c' : Cfg) (xs : List X) (h h' : How)
    (e : logLikeHow ll dist c = some h) (e' : logLikeHow ll dist c' = some h') :
    evaluate L Lvec pmap xs h = evaluate L Lvec pmap xs h' := by
  obtain ⟨g, eg, vg⟩ := C13_dispatch L Lvec pmap hvec hpool c xs
  obtain ⟨g', eg', vg'⟩ := C13_dispatch L Lvec pmap hvec hpool c' xs
  rw [e] at eg; rw [e'] at eg'
  injection eg with eg; injection eg' with eg'
  subst eg eg'; rw [vg, vg']

/-! ### call accounting -/

def callTable : CallTable :=
  ⟨Gen.Dispatch.warmupIncrement, Gen.Dispatch.warmupBatch, Gen.Dispatch.stepIncrement, Gen.Dispatch.stepBatch⟩

/-- OBLIGATION on the regenerated accounting: at each site the counter advances by the size of the batch
    evaluated there; the per-run counter starts at 0, is returned by `run`, and is what `Mutator.run` adds;
    one step evaluates the likelihood exactly once -/
theorem C13_increments_match :
    callTable.warmupIncrement = callTable.warmupBatch ∧ callTable.stepIncrement = callTable.stepBatch ∧
    Gen.Dispatch.mcmcIncrement = "mcmc_calls" ∧ Gen.Dispatch.nCallsInit = "0" ∧
    Gen.Dispatch.runReturnsNCalls = "1" ∧ Gen.Dispatch.stepEvaluations = "1" := by decide

theorem stepAcc_inv (t : CallTable) (h1 : t.warmupIncrement = t.warmupBatch) (h2 : t.stepIncrement = t.stepBatch)
    (e : Env) (a a' : Acc) (o : Op) (ha : a.calls = a.evaluated) (h : stepAcc t e a o = some a') :
    a'.calls = a'.evaluated := by
  cases o with
  | warmup =>
    simp only [stepAcc, h1, Option.bind_eq_bind, Option.bind_eq_some_iff] at h
    obtain ⟨i, hi, b, hb, h⟩ := h
    rw [hi] at hb; injection hb with hb; subst hb
    simp at h; subst h; simp [ha]
  | mcmc s =>
    simp only [stepAcc, h2, Option.bind_eq_bind, Option.bind_eq_some_iff] at h
    obtain ⟨i, hi, b, hb, h⟩ := h
    rw [hi] at hb; injection hb with hb; subst hb
    simp at h; subst h; simp [ha]

/-- C13 (calls): after ANY sequence of warm-up and mutation iterations the reported number of calls equals the
    number of points at which the likelihood was evaluated -/
theorem C13_calls (e : Env) (ops : List Op) (a : Acc)
    (h : runAcc callTable e ⟨0, 0⟩ ops = some a) : a.calls = a.evaluated := by
  have key : ∀ (ops : List Op) (a0 a : Acc), a0.calls = a0.evaluated →
      runAcc callTable e a0 ops = some a → a.calls = a.evaluated := by
    intro ops
    induction ops with
    | nil => intro a0 a h0 h; simp [runAcc] at h; subst h; exact h0
    | cons o os ih =>
      intro a0 a h0 h
      simp only [runAcc, Option.bind_eq_some_iff] at h
      obtain ⟨a1, h1, h2⟩ := h
      exact ih a1 a (stepAcc_inv callTable C13_increments_match.1 C13_increments_match.2.1 e a0 a1 o h0 h1) h2
  exact key ops ⟨0, 0⟩ a rfl h

/-- the accounting never gets stuck on the regenerated table (both size expressions are known names) -/
theorem C13_calls_total (e : Env) (ops : List Op) : ∃ a, runAcc callTable e ⟨0, 0⟩ ops = some a := by
  have key : ∀ (ops : List Op) (a0 : Acc), ∃ a, runAcc callTable e a0 ops = some a := by
    intro ops
    induction ops with
    | nil => intro a0; exact ⟨a0, rfl⟩
    | cons o os ih =>
      intro a0
      cases o with
      | warmup =>
        obtain ⟨a, ha⟩ := ih ⟨a0.calls + e.nParticles, a0.evaluated + e.nParticles⟩
        exact ⟨a, by simpa [runAcc, stepAcc, callTable, Gen.Dispatch.warmupIncrement, Gen.Dispatch.warmupBatch, exprSize] using ha⟩
      | mcmc s =>
        obtain ⟨a, ha⟩ := ih ⟨a0.calls + s * e.nWalkers, a0.evaluated + s * e.nWalkers⟩
        exact ⟨a, by simpa [runAcc, stepAcc, callTable, Gen.Dispatch.stepIncrement, Gen.Dispatch.stepBatch, exprSize] using ha⟩
  exact key ops ⟨0, 0⟩

/-! ### non-vacuity -/
example : logLikeHow ll dist ⟨false, .int 1⟩ = some .map ∧ logLikeHow ll dist ⟨false, .int 4⟩ = some .poolMap ∧
    logLikeHow ll dist ⟨true, .obj⟩ = some .direct ∧ logLikeHow ll dist ⟨false, .none⟩ = some .map := by decide
example : runAcc callTable ⟨32, 32⟩ ⟨0, 0⟩ [.warmup, .warmup, .mcmc 3, .mcmc 2] = some ⟨224, 224⟩ := by decide

end Props.C13
