import TempestVerif.Model.Dispatch
import TempestVerif.Model.Steps
import TempestVerif.Lemmas.ScReal
import TempestVerif.Gen.Dispatch
import Mathlib.Tactic
/-
  C13 — likelihood evaluation strategy is transparent; calls are counted exactly.
  Hypotheses made explicit: a vectorised likelihood is pointwise the scalar one (`Lvec = map L`) and every
  pool's `map` returns results in input order (`pmap = map`, whatever the completion order).
-/
namespace Props.C13
open Model.Dispatch

/-- the dispatch tables regenerated from `_log_like` / `_get_distribute_func` -/
def ll := Gen.Dispatch.logLike
def dist := Gen.Dispatch.distribute

/-- dispatch succeeds for EVERY pool setting, including the integers 0 and 1 -/
theorem C13_dispatch_total (c : Cfg) : logLikeHow ll dist c ≠ none := by
  rcases c with ⟨v, p⟩
  cases v <;> cases p with
  | none => simp [logLikeHow, ll, dist, Gen.Dispatch.logLike]
  | obj => simp [logLikeHow, ll, dist, Gen.Dispatch.logLike, Gen.Dispatch.distribute, distributeHow, testHolds]
  | int k =>
    simp only [logLikeHow, ll, dist, Gen.Dispatch.logLike, Gen.Dispatch.distribute, distributeHow, testHolds]
    by_cases h : k ≤ 1 <;> simp [h]

variable {X Y : Type}

/-- C13 (transparency): under the two hypotheses the algorithm receives the same values whatever the strategy -/
theorem C13_dispatch (L : X → Y) (Lvec : List X → List Y) (pmap : (X → Y) → List X → List Y)
    (hvec : ∀ xs, Lvec xs = xs.map L) (hpool : ∀ f xs, pmap f xs = xs.map f)
    (c : Cfg) (xs : List X) :
    ∃ h, logLikeHow ll dist c = some h ∧ evaluate L Lvec pmap xs h = xs.map L := by
  cases hh : logLikeHow ll dist c with
  | none => exact absurd hh (C13_dispatch_total c)
  | some h => exact ⟨h, rfl, by cases h <;> simp [evaluate, hvec, hpool]⟩

/-- two configurations therefore feed identical values to the (deterministic) pipeline -/
theorem C13_transparent (L : X → Y) (Lvec : List X → List Y) (pmap : (X → Y) → List X → List Y)
    (hvec : ∀ xs, Lvec xs = xs.map L) (hpool : ∀ f xs, pmap f xs = xs.map f)
    (c c' : Cfg) (xs : List X) (h h' : How)
    (e : logLikeHow ll dist c = some h) (e' : logLikeHow ll dist c' = some h') :
    evaluate L Lvec pmap xs h = evaluate L Lvec pmap xs h' := by
  obtain ⟨g, eg, vg⟩ := C13_dispatch L Lvec pmap hvec hpool c xs
  obtain ⟨g', eg', vg'⟩ := C13_dispatch L Lvec pmap hvec hpool c' xs
  rw [e] at eg; rw [e'] at eg'
  injection eg with eg; injection eg' with eg'
  subst eg eg'; rw [vg, vg']

/-! ### call accounting -/

/-- one `Op.warmup` = ONE evaluated warm-up batch (the first draw or a redraw of the `while np.all(np.isinf(logl))` loop): it adds
    `warmupDrawnStep` to `n_drawn`, which is what the site finally adds to `calls` (obligation below) -/
def callTable : CallTable :=
  ⟨Gen.Dispatch.warmupDrawnStep, Gen.Dispatch.warmupBatch, Gen.Dispatch.stepIncrement, Gen.Dispatch.stepBatch⟩

/-- OBLIGATION on the regenerated accounting: at each site the counter advances by the size of the batch
    evaluated there; the per-run counter starts at 0, is returned by `run`, and is what `Mutator.run` adds;
    one step evaluates the likelihood exactly once -/
theorem C13_increments_match :
    callTable.warmupIncrement = callTable.warmupBatch ∧ callTable.stepIncrement = callTable.stepBatch ∧
    Gen.Dispatch.warmupIncrement = "n_drawn" ∧ Gen.Dispatch.warmupDrawnInit = Gen.Dispatch.warmupBatch ∧
    Gen.Dispatch.warmupDrawnStep = Gen.Dispatch.warmupBatch ∧
    Gen.Dispatch.mcmcIncrement = "mcmc_calls" ∧ Gen.Dispatch.nCallsInit = "0" ∧
    Gen.Dispatch.runReturnsNCalls = "1" ∧ Gen.Dispatch.stepEvaluations = "1" := by decide

theorem stepAcc_inv (t : CallTable) (h1 : t.warmupIncrement = t.warmupBatch) (h2 : t.stepIncrement = t.stepBatch)
    (e : Env) (a a' : Acc) (o : Op) (ha : a.calls = a.evaluated) (h : stepAcc t e a o = some a') :
    a'.calls = a'.evaluated := by
  cases o with
  | warmup =>
    simp only [stepAcc, h1, Option.bind_eq_bind, Option.bind_eq_some_iff] at h
    obtain ⟨i, hi, b, hb, h⟩ := h
    rw [hi] at hb; injection hb with hb; subst hb
    simp at h; subst h; simp [ha]
  | mcmc s =>
    simp only [stepAcc, h2, Option.bind_eq_bind, Option.bind_eq_some_iff] at h
    obtain ⟨i, hi, b, hb, h⟩ := h
    rw [hi] at hb; injection hb with hb; subst hb
    simp at h; subst h; simp [ha]

/-- C13 (calls): after ANY sequence of warm-up and mutation iterations the reported number of calls equals the
    number of points at which the likelihood was evaluated -/
theorem C13_calls (e : Env) (ops : List Op) (a : Acc)
    (h : runAcc callTable e ⟨0, 0⟩ ops = some a) : a.calls = a.evaluated := by
  have key : ∀ (ops : List Op) (a0 a : Acc), a0.calls = a0.evaluated →
      runAcc callTable e a0 ops = some a → a.calls = a.evaluated := by
    intro ops
    induction ops with
    | nil => intro a0 a h0 h; simp [runAcc] at h; subst h; exact h0
    | cons o os ih =>
      intro a0 a h0 h
      simp only [runAcc, Option.bind_eq_some_iff] at h
      obtain ⟨a1, h1, h2⟩ := h
      exact ih a1 a (stepAcc_inv callTable C13_increments_match.1 C13_increments_match.2.1 e a0 a1 o h0 h1) h2
  exact key ops ⟨0, 0⟩ a rfl h

/-- the accounting never gets stuck on the regenerated table (both size expressions are known names) -/
theorem C13_calls_total (e : Env) (ops : List Op) : ∃ a, runAcc callTable e ⟨0, 0⟩ ops = some a := by
  have key : ∀ (ops : List Op) (a0 : Acc), ∃ a, runAcc callTable e a0 ops = some a := by
    intro ops
    induction ops with
    | nil => intro a0; exact ⟨a0, rfl⟩
    | cons o os ih =>
      intro a0
      cases o with
      | warmup =>
        obtain ⟨a, ha⟩ := ih ⟨a0.calls + e.nParticles, a0.evaluated + e.nParticles⟩
        exact ⟨a, by simpa [runAcc, stepAcc, callTable, Gen.Dispatch.warmupDrawnStep, Gen.Dispatch.warmupBatch, exprSize] using ha⟩
      | mcmc s =>
        obtain ⟨a, ha⟩ := ih ⟨a0.calls + s * e.nWalkers, a0.evaluated + s * e.nWalkers⟩
        exact ⟨a, by simpa [runAcc, stepAcc, callTable, Gen.Dispatch.stepIncrement, Gen.Dispatch.stepBatch, exprSize] using ha⟩
  exact key ops ⟨0, 0⟩

/-! ### how many batches one mutation evaluates: the adaptive stopping rule -/
open Model.Steps in
/-- the number handed to `int(…)` never exceeds `n_max·d`, and is at least `min(n_steps·d, n_max·d)` -/
theorem adaptiveRaw_bounds (nSteps nMax d : Nat) (acc ws s0 : ℝ) :
    adaptiveRaw nSteps nMax d acc ws s0 ≤ ((nMax * d : ℕ) : ℝ) ∧
    min ((nSteps * d : ℕ) : ℝ) ((nMax * d : ℕ) : ℝ) ≤ adaptiveRaw nSteps nMax d acc ws s0 := by
  simp only [adaptiveRaw, ScReal.min_def, ScReal.max_def, ScReal.ofNat_def]
  constructor
  · exact min_le_right _ _
  · exact le_min (le_trans (min_le_left _ _) (le_max_left _ _)) (min_le_right _ _)

open Model.Steps in
/-- C13 (steps): whatever the acceptance rates and step sizes observed along the way, the mutation loop stops after at most
    `max 1 (n_max·d)` accept/reject steps and not before `min(n_steps·d, n_max·d)` — so one mutation adds between
    `min(n_steps, n_max)·d·n_walkers` and `max 1 (n_max·d)·n_walkers` to the call counter -/
theorem C13_steps_bounded (nSteps nMax d : Nat) (s0 : ℝ) (obs : Nat → ℝ × ℝ) (fuel k0 : Nat)
    (hfuel : max 1 (nMax * d) ≤ k0 + fuel) (hk0 : k0 < max 1 (nMax * d)) :
    ∃ k, loopSteps nSteps nMax d s0 obs fuel k0 = some k ∧ k0 < k ∧ k ≤ max 1 (nMax * d) ∧
      (min (nSteps * d) (nMax * d) ≤ k ∨ k = k0 + 1) := by
  induction fuel generalizing k0 with
  | zero => omega
  | succ fuel ih =>
    simp only [loopSteps]
    by_cases hc : converged nSteps nMax d (k0 + 1) (obs (k0 + 1)).1 (obs (k0 + 1)).2 s0 = true
    · simp only [hc, if_true]
      exact ⟨k0 + 1, rfl, by omega, by omega, Or.inr rfl⟩
    · simp only [hc, Bool.false_eq_true, if_false]
      -- not converged at k0+1: floor(raw) > k0+1, but floor(raw) ≤ nMax*d, so k0+1 < nMax*d
      have hb := (adaptiveRaw_bounds nSteps nMax d (obs (k0 + 1)).1 (obs (k0 + 1)).2 s0).1
      have hlt : k0 + 1 < max 1 (nMax * d) := by
        by_contra hge
        apply hc
        simp only [converged, adaptiveSteps, ScReal.le_def, ScReal.floor_def, ScReal.ofNat_def]
        have h1 : ((⌊adaptiveRaw nSteps nMax d (obs (k0 + 1)).1 (obs (k0 + 1)).2 s0⌋ : ℤ) : ℝ)
            ≤ adaptiveRaw nSteps nMax d (obs (k0 + 1)).1 (obs (k0 + 1)).2 s0 := Int.floor_le _
        have h2 : ((nMax * d : ℕ) : ℝ) ≤ ((k0 + 1 : ℕ) : ℝ) := by
          have : nMax * d ≤ k0 + 1 := by omega
          exact_mod_cast this
        linarith
      obtain ⟨k, hk, h1, h2, h3⟩ := ih (k0 + 1) (by omega) hlt
      refine ⟨k, hk, by omega, h2, ?_⟩
      -- lower bound: a stop at k means floor(raw_k) ≤ k with raw_k ≥ min(nSteps d, nMax d)
      rcases h3 with h3 | h3
      · exact Or.inl h3
      · left
        -- k = k0 + 2 stopped: use the convergence condition at k
        subst h3
        have hconv : converged nSteps nMax d (k0 + 1 + 1) (obs (k0 + 1 + 1)).1 (obs (k0 + 1 + 1)).2 s0 = true := by
          cases fuel with
          | zero => simp [loopSteps] at hk
          | succ f =>
            simp only [loopSteps] at hk
            by_contra hn
            simp only [hn, Bool.false_eq_true, if_false] at hk
            -- then the result would be > k0+2, contradiction with hk
            have : ∀ (f : Nat) (j r : Nat), loopSteps nSteps nMax d s0 obs f j = some r → j < r := by
              intro f
              induction f with
              | zero => intro j r h; simp [loopSteps] at h
              | succ f ihf =>
                intro j r h
                simp only [loopSteps] at h
                split at h
                · injection h with h; omega
                · have := ihf (j + 1) r h; omega
            have := this f (k0 + 1 + 1) (k0 + 1 + 1) hk
            omega
        simp only [converged, adaptiveSteps, ScReal.le_def, ScReal.floor_def, ScReal.ofNat_def] at hconv
        have hlow := (adaptiveRaw_bounds nSteps nMax d (obs (k0 + 1 + 1)).1 (obs (k0 + 1 + 1)).2 s0).2
        have hfl : ((min (nSteps * d) (nMax * d) : ℕ) : ℤ) ≤ ⌊adaptiveRaw nSteps nMax d (obs (k0 + 1 + 1)).1 (obs (k0 + 1 + 1)).2 s0⌋ := by
          rw [Int.le_floor]
          have : (((min (nSteps * d) (nMax * d) : ℕ) : ℤ) : ℝ) = min ((nSteps * d : ℕ) : ℝ) ((nMax * d : ℕ) : ℝ) := by
            push_cast; rfl
          rw [this]; exact hlow
        have : ((min (nSteps * d) (nMax * d) : ℕ) : ℝ) ≤ ((k0 + 1 + 1 : ℕ) : ℝ) := by
          have h' : (((min (nSteps * d) (nMax * d) : ℕ) : ℤ) : ℝ) ≤ (⌊adaptiveRaw nSteps nMax d (obs (k0 + 1 + 1)).1 (obs (k0 + 1 + 1)).2 s0⌋ : ℝ) := by
            exact_mod_cast hfl
          have h'' : (((min (nSteps * d) (nMax * d) : ℕ) : ℤ) : ℝ) = ((min (nSteps * d) (nMax * d) : ℕ) : ℝ) := by push_cast; rfl
          linarith
        exact_mod_cast this

open Model.Steps in
/-- the loop only ever stops at an iteration where the stopping test held -/
theorem loopSteps_stop_converged (nSteps nMax d : Nat) (s0 : ℝ) (obs : Nat → ℝ × ℝ) (fuel k0 k : Nat)
    (h : loopSteps nSteps nMax d s0 obs fuel k0 = some k) :
    k0 < k ∧ converged nSteps nMax d k (obs k).1 (obs k).2 s0 = true := by
  induction fuel generalizing k0 with
  | zero => simp [loopSteps] at h
  | succ f ih =>
    simp only [loopSteps] at h
    split at h
    · rename_i hc; injection h with h; subst h; exact ⟨by omega, hc⟩
    · obtain ⟨h1, h2⟩ := ih (k0 + 1) h; exact ⟨by omega, h2⟩

open Model.Steps in
/-- C13 (steps), from the start of a mutation: the loop runs `k` accept/reject steps with
    `min(n_steps·d, n_max·d) ≤ k ≤ max 1 (n_max·d)`, for ANY sequence of observed acceptance rates and step sizes -/
theorem C13_steps_bounded_from_start (nSteps nMax d : Nat) (s0 : ℝ) (obs : Nat → ℝ × ℝ) (fuel : Nat)
    (hfuel : max 1 (nMax * d) ≤ fuel) :
    ∃ k, loopSteps nSteps nMax d s0 obs fuel 0 = some k ∧ 1 ≤ k ∧ k ≤ max 1 (nMax * d) ∧ min (nSteps * d) (nMax * d) ≤ k := by
  obtain ⟨k, hk, h1, h2, _⟩ := C13_steps_bounded nSteps nMax d s0 obs fuel 0 (by omega) (by omega)
  refine ⟨k, hk, by omega, h2, ?_⟩
  obtain ⟨_, hconv⟩ := loopSteps_stop_converged nSteps nMax d s0 obs fuel 0 k hk
  simp only [converged, adaptiveSteps, ScReal.le_def, ScReal.floor_def, ScReal.ofNat_def] at hconv
  have hlow := (adaptiveRaw_bounds nSteps nMax d (obs k).1 (obs k).2 s0).2
  have hfl : ((min (nSteps * d) (nMax * d) : ℕ) : ℤ) ≤ ⌊adaptiveRaw nSteps nMax d (obs k).1 (obs k).2 s0⌋ := by
    rw [Int.le_floor]
    have : (((min (nSteps * d) (nMax * d) : ℕ) : ℤ) : ℝ) = min ((nSteps * d : ℕ) : ℝ) ((nMax * d : ℕ) : ℝ) := by
      push_cast; rfl
    rw [this]; exact hlow
  have h' : (((min (nSteps * d) (nMax * d) : ℕ) : ℤ) : ℝ) ≤ (⌊adaptiveRaw nSteps nMax d (obs k).1 (obs k).2 s0⌋ : ℝ) := by
    exact_mod_cast hfl
  have h'' : (((min (nSteps * d) (nMax * d) : ℕ) : ℤ) : ℝ) = ((min (nSteps * d) (nMax * d) : ℕ) : ℝ) := by push_cast; rfl
  have : ((min (nSteps * d) (nMax * d) : ℕ) : ℝ) ≤ ((k : ℕ) : ℝ) := by linarith
  exact_mod_cast this

example : Model.Steps.loopSteps (α := ℝ) 1 2 2 1 (fun _ => (1, 1)) 10 0 = some 2 := by
  simp [Model.Steps.loopSteps, Model.Steps.converged, Model.Steps.adaptiveSteps, Model.Steps.adaptiveRaw,
    ScReal.max_def, ScReal.min_def]
  norm_num

/-! ### non-vacuity -/
example : logLikeHow ll dist ⟨false, .int 1⟩ = some .map ∧ logLikeHow ll dist ⟨false, .int 4⟩ = some .poolMap ∧
    logLikeHow ll dist ⟨true, .obj⟩ = some .direct ∧ logLikeHow ll dist ⟨false, .none⟩ = some .map := by decide
example : runAcc callTable ⟨32, 32⟩ ⟨0, 0⟩ [.warmup, .warmup, .mcmc 3, .mcmc 2] = some ⟨224, 224⟩ := by decide

end Props.C13
