import TempestVerif.Model.Pipeline
import TempestVerif.Lemmas.ScReal
import TempestVerif.Lemmas.MIS
import TempestVerif.Lemmas.PipelineShift
import TempestVerif.Props.C01
import TempestVerif.Props.C04
import TempestVerif.Props.C05
import TempestVerif.Props.C09
import Mathlib.Tactic
/-
  C02 — the reported log-evidence is a consistent estimate of the log marginal likelihood; errors of differently
  seeded runs are independent.                                                             **PARTIAL**

  Proved (exact arithmetic, finite state space / `Model.Pipeline` at ℝ / abstract generator of `Model.Rng`):

    C02_evidence_unbiased, C02_log_evidence_target
        = `C01_mis_unbiased` with f = 1: under the idealisation (batch t ~ π_{β_t}, exact recorded normalisers) the
        size-weighted mean of the unnormalised weight at β is exactly Z_β, so the quantity whose log is reported
        estimates Z_β without bias (the log itself is then biased of order 1/N by Jensen — not quantified)
    C02_evidence_is_log_mean_weight
        what `run_sampling` reports is log((1/N) Σ_s exp(logw_s)) at β = 1 over the WHOLE final history
    C02_recorded_logz_is_estimate_at_beta, C02_committed_logz
        each per-iteration logz is that same functional at the iteration's β over the history available then, and it
        is what gets stored with the batch — so the mixture normalisers z_t are themselves estimates (recursion explicit)
    C02_seed_independence_dataflow, C02_const_reseed_would_couple, C02_library_never_reseeds
        re-export of C09: no library operation forgets the seed ⇒ the generator state after (hence the innovations
        of) a run is an injective function of the ambient state; a seeded run is a function of its seed alone

  NOT a theorem (named, not proved): a bound on the finite-N bias / variance of the log-evidence (adaptivity,
  estimated normalisers, self-normalisation), consistency as N → ∞, and statistical independence in the measure-
  theoretic sense (only the dataflow fact it rests on: distinct seeds are never mapped to a common stream).
-/
namespace Props.C02
open Lemmas.MIS Model.Pipeline Model.Weights Model.Reweight Model.Rng

/-! ### the evidence estimator is unbiased in the idealised setting -/

section mis
variable {Ω T : Type} [Fintype Ω] [Fintype T]

/-- mean unnormalised weight at β, averaged over the batches with their sizes, is exactly `Z_β` -/
theorem C02_evidence_unbiased (p L : Ω → ℝ) (n bt : T → ℝ) (β : ℝ)
    (hp : ∀ x, 0 ≤ p x) (hp1 : ∃ x, 0 < p x) (hL : ∀ x, 0 < L x) (hn : ∀ t, 0 ≤ n t) (hN : 0 < ∑ s, n s) :
    ∑ t, (n t / ∑ s, n s) * ∑ x, piB p L (bt t) x * misW p L n bt β x = Zf p L β :=
  Props.C01.C01_mean_weight_is_Z p L n bt β hp hp1 hL hn hN

/-- in particular at β = 1 the estimated quantity is the marginal likelihood `Σ_x p(x) L(x)`, and the reported
    number targets its logarithm -/
theorem C02_log_evidence_target (p L : Ω → ℝ) (n bt : T → ℝ)
    (hp : ∀ x, 0 ≤ p x) (hp1 : ∃ x, 0 < p x) (hL : ∀ x, 0 < L x) (hn : ∀ t, 0 ≤ n t) (hN : 0 < ∑ s, n s) :
    Real.log (∑ t, (n t / ∑ s, n s) * ∑ x, piB p L (bt t) x * misW p L n bt 1 x)
      = Real.log (∑ x, p x * L x) := by
  rw [C02_evidence_unbiased p L n bt 1 hp hp1 hL hn hN]
  simp [Zf, gam]

end mis

/-! ### what the code reports -/

/-- the number `run_sampling` reports: `log((1/N) Σ_s exp(logw_s))`, `logw` the UNNORMALISED log-weights at β = 1 of
    all `N` particles of the final history -/
theorem C02_evidence_is_log_mean_weight (s : PState ℝ) (hs : Lemmas.PipelineShift.WFS s) (hne : s.hist ≠ []) :
    finalEvidence s
      = some (Real.log ((1 / (nTotal (batches s.hist) : ℝ)) *
          (((logw (batches s.hist) 1 false).1).map Real.exp).sum)) ∧
    ((logw (batches s.hist) 1 false).1).length = nTotal (batches s.hist) := by
  have hwf : Props.C04.WF (batches s.hist) := by
    rcases Lemmas.PipelineShift.WF_batches s hs with h | h
    · simp [batches] at h; exact absurd h hne
    · exact h
  constructor
  · simp only [finalEvidence, ScReal.one_def]
    rw [Props.C04.C04_logz _ hwf 1 true, Props.C04.C04_formula _ hwf 1, List.map_map]
    rfl
  · rw [Props.C04.C04_formula _ hwf 1, List.length_map, Props.C04.length_flatLogl]

/-- the evidence an iteration records is the evidence functional at the iteration's OWN β over the history available
    at that iteration: `log((1/N) Σ_s exp(β ℓ_s − log mixture(ℓ_s)))` -/
theorem C02_recorded_logz_is_estimate_at_beta (cfg : PCfg ℝ) (s : PState ℝ) (t : Tape ℝ) (s1 : PState ℝ)
    (o : IterOut ℝ) (hs : Lemmas.PipelineShift.WFS s) (hne : s.hist ≠ [])
    (h : iterate cfg s t = some (s1, o)) :
    o.logzRw = oracleZ (batches s.hist) o.beta ∧
    oracleZ (batches s.hist) o.beta = Props.C04.specLogz (batches s.hist) o.beta ∧
    (o.beta ≠ 0 → o.logz = o.logzRw) := by
  have hwf : Props.C04.WF (batches s.hist) := by
    rcases Lemmas.PipelineShift.WF_batches s hs with h | h
    · simp [batches] at h; exact absurd h hne
    · exact h
  obtain ⟨_, h2, h3⟩ := Props.C01.C01_pipeline_same_temperature cfg s t s1 o hne h
  refine ⟨h2, ?_, fun hb => ?_⟩
  · simp [oracleZ, Props.C04.C04_logz _ hwf]
  · obtain ⟨_, _, _, _, _, _, h4⟩ := h3 hb
    rw [h4, h2]

/-- … and that number is what is stored with the batch and enters every later mixture denominator -/
theorem C02_committed_logz (cfg : PCfg ℝ) (s : PState ℝ) (t : Tape ℝ) (s1 : PState ℝ) (o : IterOut ℝ)
    (h : iterate cfg s t = some (s1, o)) :
    ∃ pb, s1.hist = s.hist ++ [pb] ∧ pb.b.beta = o.beta ∧ pb.b.logz = o.logz ∧ s1.logz = o.logz := by
  obtain ⟨hh, _, hz⟩ := Props.C01.C01_commit_appends_one cfg s t s1 o h
  exact ⟨_, hh, rfl, rfl, hz⟩

/-! ### independence across seeds: the RNG dataflow it rests on (C09) -/

variable {S V : Type}

/-- A library program that never seeds keeps the dependence on the ambient generator state: distinct states before
    give distinct states after (so two differently seeded runs never merge into a common stream), and a run that
    seeds from the user's `random_state` first is a function of that value alone. -/
theorem C02_seed_independence_dataflow (g : Gen S V) (hinj : Function.Injective fun s => (g.next s).1)
    (a : Nat) (p : List Eff) (hp : hasSeed p = false) :
    Function.Injective (fun s => (exec g a p s).1) ∧
    (∀ s s', exec g a (.seedArg :: p) s = exec g a (.seedArg :: p) s') :=
  ⟨Props.C09.C09_no_reseed_injective g hinj a p hp, Props.C09.C09_seeded_run_deterministic g a p⟩

/-- the failure mode this excludes: a constant reseed anywhere in the program makes the generator state afterwards —
    and hence everything drawn afterwards — the same for ALL seeds -/
theorem C02_const_reseed_would_couple (g : Gen S V) (a : Nat) (p : List Eff) (hp : hasSeedLit p = true) (s s' : S) :
    (exec g a p s).1 = (exec g a p s').1 :=
  Props.C09.C09_const_reseed_forgets g a p hp s s'

/-- decided on the RNG effect table regenerated from /repo's source: the package contains no literal seeding of the
    global generator, directly or through an attribute it sets itself, and no RNG source outside the table -/
theorem C02_library_never_reseeds :
    Gen.Rng.sites.filter Props.C09.isConstSeed = [] ∧ Gen.Rng.literalSeedInstantiations = [] ∧
    Gen.Rng.unknownSources = [] :=
  ⟨Props.C09.C09_no_literal_seed, Props.C09.C09_no_literal_seed_via_attribute, Props.C09.C09_no_unknown_source⟩

/-- distinct seeds give distinct runs as soon as the seeded generator's first draw distinguishes them -/
theorem C02_different_seeds_differ (g : Gen S V) (a b : Nat) (p : List Eff) (s : S)
    (hfirst : (g.next (g.seed a)).2 ≠ (g.next (g.seed b)).2) :
    (exec g a (.seedArg :: .draw :: p) s).2 ≠ (exec g b (.seedArg :: .draw :: p) s).2 :=
  Props.C09.C09_different_seeds_differ g a b p s hfirst

/-! ### non-vacuity -/

open Props.C01 in
example : ∑ t, (nEx t / ∑ s, nEx s) * ∑ x, piB pEx LEx (btEx t) x * misW pEx LEx nEx btEx 1 x = Zf pEx LEx 1 :=
  C02_evidence_unbiased pEx LEx nEx btEx 1 pEx_nonneg ⟨0, pEx_pos 0⟩ LEx_pos nEx_nonneg nEx_sum
open Props.C01 in
example : Real.log (∑ t, (nEx t / ∑ s, nEx s) * ∑ x, piB pEx LEx (btEx t) x * misW pEx LEx nEx btEx 1 x)
    = Real.log (5 / 3) := by
  rw [C02_log_evidence_target pEx LEx nEx btEx pEx_nonneg ⟨0, pEx_pos 0⟩ LEx_pos nEx_nonneg nEx_sum]
  congr 1
  simp [pEx, LEx, Fin.sum_univ_two]; norm_num

section pipelineEx
open Lemmas.PipelineShift.Ex

/-- final state of the concrete two-iteration run: 4 stored particles -/
example : finalEvidence s2
      = some (Real.log ((1 / (nTotal (batches s2.hist) : ℝ)) *
          (((logw (batches s2.hist) 1 false).1).map Real.exp).sum)) ∧
    ((logw (batches s2.hist) 1 false).1).length = nTotal (batches s2.hist) :=
  C02_evidence_is_log_mean_weight s2 wfs_s2 (by simp [s2])
example : nTotal (batches s2.hist) = 4 := by simp [s2, s1, batches, nTotal]
/-- its annealing iteration (β = 1) -/
example : z1 = oracleZ (batches s1.hist) 1 ∧
    oracleZ (batches s1.hist) 1 = Props.C04.specLogz (batches s1.hist) 1 ∧ ((1 : ℝ) ≠ 0 → z1 = z1) :=
  C02_recorded_logz_is_estimate_at_beta cfgEx s1 t2 s2 _ wfs_s1 (by simp [s1]) it2
example : ∃ pb, s2.hist = s1.hist ++ [pb] ∧ pb.b.beta = 1 ∧ pb.b.logz = z1 ∧ s2.logz = z1 :=
  C02_committed_logz cfgEx s1 t2 s2 _ it2
end pipelineEx

/-- the toy generator of C09: stepping is injective on the states 0..15 that matter there; here on all of ℕ the
    hypothesis is instantiated with an injective successor generator -/
def succGen : Gen Nat Nat := ⟨fun s => (s + 1, s), fun k => k⟩
example : Function.Injective (fun s => (exec succGen 7 [.draw, .draw, .draw] s).1) ∧
    (∀ s s', exec succGen 7 (.seedArg :: [.draw, .draw, .draw]) s = exec succGen 7 (.seedArg :: [.draw, .draw, .draw]) s') :=
  C02_seed_independence_dataflow succGen (by intro a b h; simpa [succGen] using h) 7 [.draw, .draw, .draw] rfl
example : (exec succGen 7 [.draw, .seedLit 42, .draw] 1).1 = (exec succGen 7 [.draw, .seedLit 42, .draw] 2).1 :=
  C02_const_reseed_would_couple succGen 7 _ rfl 1 2
example : (exec succGen 3 [.seedArg, .draw] 0).2 ≠ (exec succGen 4 [.seedArg, .draw] 0).2 :=
  C02_different_seeds_differ succGen 3 4 [] 0 (by simp [succGen])

end Props.C02
