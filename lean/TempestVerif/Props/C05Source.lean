import TempestVerif.Model.Reweight
import TempestVerif.Gen.ReweightSrc
/-
  C05 — the executable model `Model.Reweight` is built from the expressions that are in /repo's `steps/reweight.py` NOW.

  `Gen/ReweightSrc.lean` is regenerated from the source on every run of the check (translator G10): every comparison and every
  arithmetic expression on temperatures of `_find_beta_upper_limit`, `_find_beta_bisection` and `Reweighter.run` compiled to a
  term over `Sc α` — literals (`1e10`, `0.5`, `1.0`, `0.0`) and comparison operators included — plus the statement skeleton of
  the five methods.  The parameters of every generated term are listed in the order the SOURCE binds them (function parameters in signature order,
  then locals by first assignment, then `__init__`'s attributes) — not in order of appearance — so an operand swap in the source
  (`beta_high - beta_low` → `beta_low - beta_high`, `ess >= target` → `target >= ess`, even the value-identical `(lo + hi) * 0.5`)
  changes the term and breaks a theorem here.
  The theorems below hold by `rfl` for EVERY scalar type, `Float` (what the driver executes) included: the
  model's definitions unfold to the generated terms.  A change of a literal, of a comparison operator or of an operand order in
  the source changes the generated term and breaks the corresponding theorem; a change of control flow (which branch assigns
  what, what is returned, order/arguments of the oracle calls, state keys written) changes a skeleton table.

  This replaces the hard-coded literal `1e10` (`Model.Reweight.big`) and the hand-copied tests by source-derived ones:
  clause 9 of clauses/C05.md no longer relies on the reader comparing model and code.
-/
namespace Props.C05.Src
open Model.Reweight
variable {α : Type} [Sc α] {W : Type}

/-- `(hi + lo) * 0.5` is the source's midpoint expression in both search functions -/
theorem C05_src_mid (hi lo : α) :
    mid hi lo = Gen.ReweightSrc.upMid lo hi ∧ mid hi lo = Gen.ReweightSrc.bisMid lo hi := ⟨rfl, rfl⟩

/-- the replacement of a non-finite metric is the source's literal, in both modes -/
theorem C05_src_big : (big : α) = Gen.ReweightSrc.bisNonfiniteDyn ∧ (big : α) = Gen.ReweightSrc.bisNonfiniteEss := ⟨rfl, rfl⟩

/-- one pass of the `while` loop of `_find_beta_upper_limit` -/
theorem C05_src_upLoop_succ (M : α → W × α × α) (target tol : α) (n : Nat) (lo hi : α) :
    upLoop M target tol (n+1) lo hi =
      if Gen.ReweightSrc.upWhileTest lo hi tol then
        let m := Gen.ReweightSrc.upMid lo hi
        let r := if Gen.ReweightSrc.upRaiseTest target (M m).2.1 then upLoop M target tol n m hi else upLoop M target tol n lo m
        { r with steps := r.steps + 1, calls := m :: r.calls }
      else ⟨lo, hi, 0, .upLoop, []⟩ := rfl

theorem C05_src_upLoop_zero (M : α → W × α × α) (target tol : α) (lo hi : α) :
    upLoop M target tol 0 lo hi = ⟨lo, hi, 0, if Gen.ReweightSrc.upWhileTest lo hi tol then .upFuel else .upLoop, []⟩ := rfl

/-- `_find_beta_upper_limit`: both early returns and the initial bracket -/
theorem C05_src_upperLimit (M : α → W × α × α) (target tol : α) (fuel : Nat) (prev : α) :
    upperLimit M target tol fuel prev =
      if Gen.ReweightSrc.upStayTest target (M prev).2.1 then ⟨prev, Gen.ReweightSrc.upInitHigh, 0, .upStay, [prev]⟩
      else if Gen.ReweightSrc.upOneTest target (M Gen.ReweightSrc.upSecondArg).2.1 then
        ⟨Gen.ReweightSrc.upOneReturn, Gen.ReweightSrc.upInitHigh, 0, .upOne, [prev, Gen.ReweightSrc.upSecondArg]⟩
      else
        let r := upLoop M target tol fuel prev Gen.ReweightSrc.upInitHigh
        { r with calls := prev :: Gen.ReweightSrc.upSecondArg :: r.calls } := rfl

/-- `if metric_converged or beta_converged or beta == 1.0` -/
theorem C05_src_bisStop (m target tolE tolB bmin bmax b : α) :
    bisStop m target tolE tolB bmin bmax b =
      if Gen.ReweightSrc.bisMetricConv target m tolE then some .bisMetric
      else if Gen.ReweightSrc.bisBetaConv bmin bmax tolB then some .bisBeta
      else if Gen.ReweightSrc.bisOneTest b then some .bisOne
      else none := rfl

/-- `if not np.isfinite(metric_val): metric_val = <literal of the mode>` -/
theorem C05_src_bisVal (M : α → W × α × α) (fin : α → Bool) (dyn : Bool) (b : α) :
    bisVal M fin dyn b =
      (let m0 := if dyn then (M b).2.2 else (M b).2.1
       if fin m0 then m0 else if dyn then Gen.ReweightSrc.bisNonfiniteDyn else Gen.ReweightSrc.bisNonfiniteEss) := by
  cases dyn <;> rfl

/-- which end of the bracket moves: ESS mode `if m < target: beta_max = beta else: beta_min = beta`,
    volume-variation mode `if m < target: beta_min = beta else: beta_max = beta` (skeleton rows 0.5e.0t.* / 0.5e.0e.*) -/
theorem C05_src_bisRaise (dyn : Bool) (m target : α) :
    bisRaise dyn m target = if dyn then Gen.ReweightSrc.bisDynTest target m else !(Gen.ReweightSrc.bisEssTest target m) := rfl

/-- the bisection step itself -/
theorem C05_src_bisect_succ (M : α → W × α × α) (fin : α → Bool) (dyn : Bool) (target tolE tolB : α) (n : Nat) (bmin bmax : α) :
    bisect M fin dyn target tolE tolB (n+1) bmin bmax =
      (let b := Gen.ReweightSrc.bisMid bmin bmax
       match bisStop (bisVal M fin dyn b) target tolE tolB bmin bmax b with
       | some t => ⟨b, (M b).1, (M b).2.1, 0, t, [b]⟩
       | Option.none =>
         let q := if bisRaise dyn (bisVal M fin dyn b) target
           then bisect M fin dyn target tolE tolB n b bmax
           else bisect M fin dyn target tolE tolB n bmin b
         { q with steps := q.steps + 1, calls := b :: q.calls }) := rfl

/-- `ess_max = target_ess = self.ess_ratio * self.n_particles`, also the ESS recorded by the first iteration -/
theorem C05_src_target (c : Cfg α) :
    c.target = Gen.ReweightSrc.runTarget (Sc.ofNat c.nPart) c.essRatio ∧
    c.target = Gen.ReweightSrc.essTarget (Sc.ofNat c.nPart) c.essRatio ∧
    c.target = Gen.ReweightSrc.firstEss (Sc.ofNat c.nPart) c.essRatio := ⟨rfl, rfl, rfl⟩

/-- the first-iteration branch writes the source's literals -/
theorem C05_src_first (c : Cfg α) (M : α → W × α × α) (Z : α → α) (fin : α → Bool) (prev : α) :
    run c true M Z fin prev =
      ⟨Gen.ReweightSrc.firstBeta, .uniform c.nPart, Gen.ReweightSrc.firstEss (Sc.ofNat c.nPart) c.essRatio,
       Gen.ReweightSrc.firstLogz, .firstIter, [], [], []⟩ := rfl

/-- ESS mode of `run`: the two boundary tests -/
theorem C05_src_runEss (M : α → W × α × α) (Z : α → α) (fin : α → Bool) (target tolE tolB : α) (fuel : Nat) (prev : α) :
    runEss M Z fin target tolE tolB fuel prev =
      (let up := upperLimit M target tolB fuel prev
       let rp := M prev
       let ru := M up.beta
       let calls := up.calls ++ [prev, up.beta]
       if Gen.ReweightSrc.essStayTest target rp.2.1 then
         finalize prev rp.1 rp.2.1 (Z prev) .essStay [up.branch] calls
       else if Gen.ReweightSrc.essUpperTest target ru.2.1 then
         finalize up.beta ru.1 ru.2.1 (Z up.beta) .essUpper [up.branch] calls
       else
         let b := bisect M fin false target tolE tolB fuel prev up.beta
         finalize b.beta b.w b.ess (Z b.beta) .essBisect [up.branch, b.branch] (calls ++ b.calls)) := rfl

/-- volume-variation mode of `run`: the stuck test and the two boundary tests -/
theorem C05_src_runDyn (M : α → W × α × α) (Z : α → α) (fin : α → Bool) (target vv tolE tolB : α) (fuel : Nat) (prev : α) :
    runDyn M Z fin target vv tolE tolB fuel prev =
      (let up := upperLimit M target tolB fuel prev
       if Gen.ReweightSrc.dynStuckTest prev up.beta then
         let r := M prev
         finalize prev r.1 r.2.1 (Z prev) .dynStuck [up.branch] (up.calls ++ [prev])
       else
         let rp := M prev
         let ru := M up.beta
         if Gen.ReweightSrc.dynUpperTest ru.2.2 vv then
           let r := M up.beta
           finalize up.beta r.1 r.2.1 (Z up.beta) .dynUpper [up.branch] (up.calls ++ [prev, up.beta, up.beta])
         else if Gen.ReweightSrc.dynStayTest rp.2.2 vv then
           let r := M prev
           finalize prev r.1 r.2.1 (Z prev) .dynStay [up.branch] (up.calls ++ [prev, up.beta, prev])
         else
           let b := bisect M fin true vv tolE tolB fuel prev up.beta
           finalize b.beta b.w b.ess (Z b.beta) .dynBisect [up.branch, b.branch]
             (up.calls ++ [prev, up.beta] ++ b.calls)) := rfl

/-! ### the statement skeletons the model was written against

  Each table is the program-order list of statements (`path: statement`; `t`/`e` = then/else block) of one method as it was
  when `Model.Reweight` was written; the theorem says the regenerated table is the same.  What the model takes from each:
  which variable each branch assigns (`beta_low = beta_mid` when the ESS at the midpoint is sufficient, …), the value returned,
  order and arguments of the `_compute_metric_and_weights` calls (the `calls` list of the model), the single
  `compute_logw_and_logz(beta)` call of `run` (the `zcalls` list), the state keys `_finalize_iteration` writes, and that the
  weights are normalised after the decision (`WTag.of`). -/

def expected_upperLimitSkeleton : List String :=
  ["0: beta_low = beta_current",
   "1: beta_high = 1.0",
   "2: _, ess_at_current, _ = self._compute_metric_and_weights(beta_current)",
   "3: if ess_at_current < ess_ratio",
   "3t.0: return beta_current",
   "4: _, ess_at_one, _ = self._compute_metric_and_weights(1.0)",
   "5: if ess_at_one >= ess_ratio",
   "5t.0: return 1.0",
   "6: while beta_high - beta_low > self.BETA_TOLERANCE",
   "6.0: beta_mid = (beta_high + beta_low) * 0.5",
   "6.1: _, ess_mid, _ = self._compute_metric_and_weights(beta_mid)",
   "6.2: if ess_mid >= ess_ratio",
   "6.2t.0: beta_low = beta_mid",
   "6.2e.0: beta_high = beta_mid",
   "7: return beta_low"]

theorem C05_src_upperLimitSkeleton : Gen.ReweightSrc.upperLimitSkeleton = expected_upperLimitSkeleton := rfl

def expected_bisectionSkeleton : List String :=
  ["0: while True",
   "0.0: beta = (beta_max + beta_min) * 0.5",
   "0.1: metric_val, aux_data = metric_fn(beta)",
   "0.2: if not np.isfinite(metric_val)",
   "0.2t.0: if self.volume_variation is not None",
   "0.2t.0t.0: metric_val = 10000000000.0",
   "0.2t.0e.0: metric_val = 10000000000.0",
   "0.3: metric_converged = np.abs(metric_val - target) < self.ESS_TOLERANCE * target",
   "0.4: beta_converged = beta_max - beta_min < self.BETA_TOLERANCE",
   "0.5: if metric_converged or beta_converged or beta == 1.0",
   "0.5t.0: return (beta, aux_data)",
   "0.5e.0: if self.volume_variation is None",
   "0.5e.0t.0: if metric_val < target",
   "0.5e.0t.0t.0: beta_max = beta",
   "0.5e.0t.0e.0: beta_min = beta",
   "0.5e.0e.0: if metric_val < target",
   "0.5e.0e.0t.0: beta_min = beta",
   "0.5e.0e.0e.0: beta_max = beta"]

theorem C05_src_bisectionSkeleton : Gen.ReweightSrc.bisectionSkeleton = expected_bisectionSkeleton := rfl

def expected_runSkeleton : List String :=
  ["0: iter_val = self.state.get_current('iter') + 1",
   "1: self.state.set_current('iter', iter_val)",
   "2: if self.state.get_history_length() == 0",
   "2t.0: self.state.update_current({'beta': 0.0, 'logz': 0.0, 'ess': self.ess_ratio * self.n_particles})",
   "2t.1: return np.ones(self.n_particles) / self.n_particles",
   "3: beta_prev = self.state.get_current('beta')",
   "4: ess_max = self.ess_ratio * self.n_particles",
   "5: beta_upper = self._find_beta_upper_limit(beta_prev, ess_max)",
   "6: if self.volume_variation is None",
   "6t.0: target_ess = self.ess_ratio * self.n_particles",
   "6t.1: def ess_fn(beta)",
   "6t.1.0: weights, ess_est, _ = self._compute_metric_and_weights(beta)",
   "6t.1.1: return (ess_est, (weights, ess_est))",
   "6t.2: _, (weights_prev, ess_prev) = ess_fn(beta_prev)",
   "6t.3: _, (weights_upper, ess_upper) = ess_fn(beta_upper)",
   "6t.4: if ess_prev <= target_ess",
   "6t.4t.0: beta = beta_prev",
   "6t.4t.1: weights = weights_prev",
   "6t.4t.2: ess_est = ess_prev",
   "6t.4e.0: if ess_upper >= target_ess",
   "6t.4e.0t.0: beta = beta_upper",
   "6t.4e.0t.1: weights = weights_upper",
   "6t.4e.0t.2: ess_est = ess_upper",
   "6t.4e.0e.0: beta, (weights, ess_est) = self._find_beta_bisection(beta_prev, beta_upper, target_ess, ess_fn)",
   "6t.5: _, logz = self.state.compute_logw_and_logz(beta)",
   "6t.6: return self._finalize_iteration(beta, weights, ess_est, logz)",
   "6e.0: if beta_upper == beta_prev",
   "6e.0t.0: beta = beta_prev",
   "6e.0t.1: weights, ess_est, _ = self._compute_metric_and_weights(beta)",
   "6e.0e.0: _, ess_at_prev, vol_var_prev = self._compute_metric_and_weights(beta_prev)",
   "6e.0e.1: _, ess_at_upper, vol_var_upper = self._compute_metric_and_weights(beta_upper)",
   "6e.0e.2: if self.volume_variation >= vol_var_upper",
   "6e.0e.2t.0: beta = beta_upper",
   "6e.0e.2t.1: weights = None",
   "6e.0e.2t.2: ess_est = ess_at_upper",
   "6e.0e.2e.0: if self.volume_variation <= vol_var_prev",
   "6e.0e.2e.0t.0: beta = beta_prev",
   "6e.0e.2e.0t.1: weights = None",
   "6e.0e.2e.0t.2: ess_est = ess_at_prev",
   "6e.0e.2e.0e.0: def volume_variation_fn(beta)",
   "6e.0e.2e.0e.0.0: weights, ess_est, metric_val = self._compute_metric_and_weights(beta)",
   "6e.0e.2e.0e.0.1: return (metric_val, (weights, ess_est))",
   "6e.0e.2e.0e.1: beta, (weights, ess_est) = self._find_beta_bisection(beta_prev, beta_upper, self.volume_variation, volume_variation_fn)",
   "6e.0e.3: if weights is None",
   "6e.0e.3t.0: weights, ess_est, _ = self._compute_metric_and_weights(beta)",
   "6e.1: _, logz = self.state.compute_logw_and_logz(beta)",
   "6e.2: return self._finalize_iteration(beta, weights, ess_est, logz)"]

theorem C05_src_runSkeleton : Gen.ReweightSrc.runSkeleton = expected_runSkeleton := rfl

def expected_finalizeSkeleton : List String :=
  ["0: weights = weights / np.sum(weights)",
   "1: self.state.update_current({'logz': logz, 'beta': beta, 'ess': ess_est})",
   "2: return weights"]

theorem C05_src_finalizeSkeleton : Gen.ReweightSrc.finalizeSkeleton = expected_finalizeSkeleton := rfl

def expected_metricSkeleton : List String :=
  ["0: logw, _ = self.state.compute_logw_and_logz(beta)",
   "1: weights = np.exp(logw - np.max(logw))",
   "2: ess_est = effective_sample_size(weights)",
   "3: if self.volume_variation is not None",
   "3t.0: u = self.state.get_history('u', flat=True)",
   "3t.1: weights_norm = weights / np.sum(weights)",
   "3t.2: metric_val = volume_variation(u, weights_norm)",
   "3e.0: metric_val = ess_est",
   "4: return (weights, ess_est, metric_val)"]

theorem C05_src_metricSkeleton : Gen.ReweightSrc.metricSkeleton = expected_metricSkeleton := rfl

def expected_initTargetSkeleton : List String :=
  ["0: if volume_variation is not None",
   "0t.0: self.target_metric = volume_variation",
   "0e.0: self.target_metric = ess_ratio * n_particles"]

theorem C05_src_initTargetSkeleton : Gen.ReweightSrc.initTargetSkeleton = expected_initTargetSkeleton := rfl

/-! ### who can write `state["beta"]`

  The pipeline and closed-loop models hand the β chosen by `Reweighter.run` unchanged to `Trainer.run`, `Resampler.run`,
  `Mutator.run` and `commit_current_to_history`, and from one iteration to the next.  In the code these steps READ
  `state.get_current("beta")`; the hand-off is correct iff nothing else writes that key.  `betaWriters` lists every literal-key
  writer of `beta` in the whole package: `_initialize_fresh` (the fresh-run prologue), and the two writes of the reweighting
  step itself.  `dynamicKeyWriters` lists every writer whose key is computed: the `StateManager` primitives themselves, the bulk
  restore `update_from_dict`, and the defaults loop of `load_sampler_state` (which writes only keys whose value is `None`). -/

def expected_betaWriters : List String :=
  ["tempest/core.py:SamplerCore._initialize_fresh set_current",
   "tempest/steps/reweight.py:Reweighter._finalize_iteration update_current",
   "tempest/steps/reweight.py:Reweighter.run update_current"]

theorem C05_src_betaWriters : Gen.ReweightSrc.betaWriters = expected_betaWriters := rfl

def expected_dynamicKeyWriters : List String :=
  ["tempest/core.py:SamplerCore.load_sampler_state self.state.set_current(key, default_val)",
   "tempest/state_manager.py:StateManager.__init__ self._current = dict.fromkeys(CURRENT_STATE_KEYS, None)",
   "tempest/state_manager.py:StateManager.set_current self._current[key] = self._ensure_copy(value) if copy else value",
   "tempest/state_manager.py:StateManager.update_current self._current[key] = self._ensure_copy(value) if copy else value",
   "tempest/state_manager.py:StateManager.update_from_dict self._current.update({k: self._ensure_copy(v) for k, v in state_dict['_current'].items()})"]

theorem C05_src_dynamicKeyWriters : Gen.ReweightSrc.dynamicKeyWriters = expected_dynamicKeyWriters := rfl

end Props.C05.Src
