import TempestVerif.Model.Rng
import TempestVerif.Gen.Rng
import Mathlib.Tactic
/-
  C09 — seeded runs are reproducible and the library never resets the global RNG.
  Two layers: (1) facts about effect programs over an abstract generator (MT19937 itself is not
  modelled: `next` is assumed injective on states where that matters); (2) obligations, decided on the
  RNG effect table regenerated from /repo's source on every run, that the library's programs have the
  shapes layer (1) talks about.
-/
namespace Props.C09
open Model.Rng

variable {S V : Type}

/-! ### layer 1: effect programs -/

/-- a program without any seeding keeps the dependence on the seed in force before it:
    if stepping the generator is injective, the post-state is an injective function of the pre-state -/
theorem C09_no_reseed_injective (g : Gen S V) (hinj : Function.Injective fun s => (g.next s).1)
    (a : Nat) (p : List Eff) (hp : hasSeed p = false) :
    Function.Injective fun s => (exec g a p s).1 := by
  induction p with
  | nil => intro s s' h; simpa [exec] using h
  | cons e p ih =>
    cases e with
    | draw =>
      have hp' : hasSeed p = false := by simpa [hasSeed] using hp
      intro s s' h
      simp only [exec] at h
      exact hinj (ih hp' h)
    | seedLit k => simp [hasSeed] at hp
    | seedArg => simp [hasSeed] at hp

/-- … whereas a program that reseeds with a constant forgets the seed in force before it:
    the state afterwards (and everything drawn after the reseed) is the same for ALL pre-states -/
theorem C09_const_reseed_forgets (g : Gen S V) (a : Nat) (p : List Eff) (hp : hasSeedLit p = true)
    (s s' : S) : (exec g a p s).1 = (exec g a p s').1 := by
  induction p generalizing s s' with
  | nil => simp [hasSeedLit] at hp
  | cons e p ih =>
    cases e with
    | draw =>
      simp only [hasSeedLit] at hp
      simp only [exec]
      exact ih hp _ _
    | seedLit k => simp [exec]
    | seedArg => simp [exec]

/-- a run that starts by seeding with the user's random_state is a function of that seed alone:
    all draws and the final state are identical whatever the ambient state was -/
theorem C09_seeded_run_deterministic (g : Gen S V) (a : Nat) (p : List Eff) (s s' : S) :
    exec g a (.seedArg :: p) s = exec g a (.seedArg :: p) s' := by
  simp [exec]

/-- different seeds give different runs as soon as the seeded generator's first draw distinguishes them -/
theorem C09_different_seeds_differ (g : Gen S V) (a b : Nat) (p : List Eff) (s : S)
    (hfirst : (g.next (g.seed a)).2 ≠ (g.next (g.seed b)).2) :
    (exec g a (.seedArg :: .draw :: p) s).2 ≠ (exec g b (.seedArg :: .draw :: p) s).2 := by
  simp only [exec]
  intro h
  injection h with h1 _
  exact hfirst h1

/-! ### layer 2: obligations on the regenerated effect table -/

def isConstSeed (s : Gen.Rng.Site) : Bool := s.kind == "seed" && s.argKind == "literal"

/-- no `np.random.seed(<literal>)` anywhere in the package -/
theorem C09_no_literal_seed : (Gen.Rng.sites.filter isConstSeed) = [] := by decide

/-- no class seeds the global generator from an attribute that the package itself sets to a literal
    (how `HierarchicalGaussianMixture` → `GaussianMixture(random_state=42)` used to reset the stream) -/
theorem C09_no_literal_seed_via_attribute : Gen.Rng.literalSeedInstantiations = [] := by decide

/-- every global seeding is driven by the user's value: a config field, a loaded checkpoint field or an
    explicit function parameter -/
theorem C09_seed_args_user_driven :
    ∀ s ∈ Gen.Rng.sites, s.kind = "seed" →
      (s.argKind = "config" ∨ s.argKind = "loaded" ∨ s.argKind = "param") := by decide

/-- a seed taken from a function PARAMETER is user-driven only if the library never passes it itself: no call site
inside the package hands a seed to a function that seeds the global generator from its parameter -/
theorem C09_no_internal_param_seed : Gen.Rng.paramSeedCallSites = [] := by decide

/-- no RNG source outside what the table models (np.random attributes and private generators) -/
theorem C09_no_unknown_source : Gen.Rng.unknownSources = [] := by decide

/-- every private generator the package builds is created from an explicit value (an attribute, a literal, a config field or
    a parameter): none is created without argument, i.e. from operating-system entropy, which no seed could reproduce -/
theorem C09_private_generators_seeded :
    ∀ s ∈ Gen.Rng.sites, s.kind = "private" →
      (s.argKind = "attr" ∨ s.argKind = "literal" ∨ s.argKind = "config" ∨ s.argKind = "param") := by decide

/-- **A restore is not a reset to a fixed value**: every `np.random.set_state(…)` in the package takes its argument from a
    loaded checkpoint dictionary, under a key that `save_sampler_state` fills with `np.random.get_state()` — the position a
    run had when the checkpoint was written, never a literal and never something derived from the seed alone -/
theorem C09_restore_from_saved_position :
    (∀ s ∈ Gen.Rng.sites, s.kind = "setstate" → s.argKind = "loaded") ∧
    (Gen.Rng.sites.filter fun s => s.kind == "setstate").length = Gen.Rng.restoreKeys.length ∧
    (∀ r ∈ Gen.Rng.restoreKeys, ("save_sampler_state", r.2) ∈ Gen.Rng.savedStateKeys) := by decide

/-- the table is not empty where it matters: it knows the two kernels' draws, the resampler's, the warm-up's and the
    two seeding sites, the save / restore pair (a translator that silently finds nothing would make the obligations above vacuous) -/
theorem C09_table_nonvacuous :
    (Gen.Rng.sites.filter fun s => s.kind == "seed").length = 2 ∧
    (Gen.Rng.sites.filter fun s => s.kind == "setstate").length = 1 ∧
    (Gen.Rng.sites.filter fun s => s.kind == "getstate").length = 1 ∧
    8 ≤ (Gen.Rng.sites.filter fun s => s.kind == "draw" && s.argKind == "global").length ∧
    1 ≤ (Gen.Rng.sites.filter fun s => s.kind == "private").length := by decide

/-- a fresh run seeds from config.random_state (when given) before its first draw:
    `_initialize_fresh` does the seeding under `is not None` and `run_sampling` calls it before the loop -/
theorem C09_run_seeds_first :
    Gen.Rng.fresh_before_loop = 1 ∧ Gen.Rng.init_seeds_config = 1 ∧ Gen.Rng.seed_guarded_not_none = 1 := by decide

/-- **a run seeds only before the first committed batch**: the `_initialize_fresh()` call of `run_sampling` sits on the final
    `else` of `if resume_state_path is not None … elif self.state.get_history_length() > 0 … else`, and no earlier branch seeds
    (the hypothesis `hasHistory d0 = false` of the fresh-run theorems, `= true` of `C09_run_with_history_continues`) -/
theorem C09_run_seeds_only_on_empty_history : Gen.Rng.fresh_only_when_history_empty = 1 := by decide

/-! ### non-vacuity: a toy linear congruential generator -/
def lcg : Gen Nat Nat := ⟨fun s => ((5 * s + 3) % 16, s % 4), fun k => k % 16⟩

example : (exec lcg 7 [.draw, .draw] 1).1 ≠ (exec lcg 7 [.draw, .draw] 2).1 := by decide
example : (exec lcg 7 [.draw, .seedLit 42, .draw] 1).1 = (exec lcg 7 [.draw, .seedLit 42, .draw] 2).1 := by decide
example : exec lcg 7 [.seedArg, .draw, .draw] 1 = exec lcg 7 [.seedArg, .draw, .draw] 9 := by decide
example : hasSeed [Eff.draw, .draw] = false ∧ hasSeedLit [Eff.draw, .seedLit 42] = true := by decide

end Props.C09
