import TempestVerif.Props.C06
/-
  C06, second pass (0): the two-pointer loop for EVERY scalar type.

    C06_syst_loop_spec — what each returned index means in terms of the comparisons the loop itself makes against ITS OWN
    running sums `cum`.  No ordering axiom is used, so the statement holds verbatim for the `Float` instance the driver
    executes; `Props/C06Fp.lean` instantiates it at rounded real arithmetic, `Props/C06.lean` has the exact-ℝ reading.
-/
namespace Props.C06
open Model.Resample

/-! ### the loop, for every scalar type: indices are decided by comparisons with the loop's own running sums -/
section loopspec
variable {α : Type} [Sc α]

/-- the value of `cumulative_sum` while the loop stands at index `j` (`c0 = weights[0]`) -/
def cum (v : List α) (c0 : α) : Nat → α
  | 0 => c0
  | j + 1 => match v[j + 1]? with
    | some x => Sc.add (cum v c0 j) x
    | none => cum v c0 j

theorem advance_loop (v : List α) (c0 : α) (jmax : Nat) (pos : α) (fuel j : Nat)
    (hjm : jmax < v.length) (hj : j ≤ jmax) (hf : jmax - j ≤ fuel) :
    (advance v jmax pos fuel j (cum v c0 j)).2 = cum v c0 (advance v jmax pos fuel j (cum v c0 j)).1 ∧
    j ≤ (advance v jmax pos fuel j (cum v c0 j)).1 ∧ (advance v jmax pos fuel j (cum v c0 j)).1 ≤ jmax ∧
    (∀ k, j ≤ k → k < (advance v jmax pos fuel j (cum v c0 j)).1 → Sc.ge pos (cum v c0 k) = true) ∧
    ((advance v jmax pos fuel j (cum v c0 j)).1 < jmax →
      Sc.ge pos (cum v c0 (advance v jmax pos fuel j (cum v c0 j)).1) = false) := by
  induction fuel generalizing j with
  | zero =>
    have : j = jmax := by omega
    subst this
    simp only [advance]
    refine ⟨?_, le_refl _, le_refl _, fun k h1 h2 => by omega, fun h => by omega⟩
    first | rfl | trivial
  | succ fuel ih =>
    unfold advance
    by_cases hcond : (decide (j < jmax) && Sc.ge pos (cum v c0 j)) = true
    · simp only [hcond, if_true]
      simp only [Bool.and_eq_true, decide_eq_true_eq] at hcond
      have hj1 : j + 1 < v.length := by omega
      have hget : v[j + 1]? = some v[j + 1] := List.getElem?_eq_getElem hj1
      simp only [hget]
      have hc : Sc.add (cum v c0 j) v[j + 1] = cum v c0 (j + 1) := by simp [cum, hget]
      rw [hc]
      obtain ⟨h1, h2, h3, h4, h5⟩ := ih (j + 1) (by omega) (by omega)
      refine ⟨h1, by omega, h3, ?_, h5⟩
      intro k hk1 hk2
      rcases Nat.eq_or_lt_of_le hk1 with rfl | hk3
      · exact hcond.2
      · exact h4 k (by omega) hk2
    · have hcond' : (decide (j < jmax) && Sc.ge pos (cum v c0 j)) = false := by simpa using hcond
      simp only [hcond', Bool.false_eq_true, if_false]
      refine ⟨by first | rfl | trivial, le_refl _, hj, fun k h1 h2 => by omega, ?_⟩
      intro hlt
      simpa [hlt] using hcond'

/-- what the loop guarantees about the list of returned indices `rs` for the positions `is`, starting at index `j`:
    each index is at least the previous one and at most `jmax`; every running sum it stepped over was `≤` the position;
    and unless it stopped at the cap `jmax`, the position is NOT `≥` the running sum it stopped at. -/
def LoopSpec (c : Nat → α) (jmax : Nat) (pos : Nat → α) : List Nat → Nat → List Nat → Prop
  | [], _, [] => True
  | i :: is, j, r :: rs =>
    j ≤ r ∧ r ≤ jmax ∧ (∀ k, j ≤ k → k < r → Sc.ge (pos i) (c k) = true) ∧
    (r < jmax → Sc.ge (pos i) (c r) = false) ∧ LoopSpec c jmax pos is r rs
  | _, _, _ => False

theorem run_loop_spec (v : List α) (c0 : α) (jmax : Nat) (pos : Nat → α) (is : List Nat) (j : Nat)
    (hjm : jmax < v.length) (hj : j ≤ jmax) :
    LoopSpec (cum v c0) jmax pos is j (run v jmax pos is j (cum v c0 j)) := by
  induction is generalizing j with
  | nil => simp [run, LoopSpec]
  | cons i is ih =>
    simp only [run, LoopSpec]
    obtain ⟨h1, h2, h3, h4, h5⟩ := advance_loop v c0 jmax (pos i) v.length j hjm hj (by omega)
    refine ⟨h2, h3, h4, h5, ?_⟩
    rw [h1]
    exact ih _ h3

/-- **loop specification, every scalar type** (also the `Float` the driver executes): the index vector returned for the
    effective weights `c0 :: t = renorm s w` satisfies `LoopSpec` with respect to the loop's own running sums, with the cap
    `j_max = lastPositive` (the last index whose weight compares `> 0`; /repo 5a51476). -/
theorem C06_syst_loop_spec (s : α) (n : Nat) (w : List α) (u0 : α) (idx : List Nat)
    (h : systematicWith s n w u0 = some idx) :
    ∃ c0 t, renorm s w = c0 :: t ∧
      LoopSpec (cum (c0 :: t) c0) (lastPositive (c0 :: t)) (position n u0) (List.range n) 0 idx := by
  obtain ⟨c0, t, h1, h2⟩ := systematicWith_some s n w u0 (some_ne_nil h)
  rw [h2] at h; injection h with h; subst h
  exact ⟨c0, t, h1, run_loop_spec (c0 :: t) c0 (lastPositive (c0 :: t)) (position n u0) (List.range n) 0
    (lastPositive_lt _ (by simp)) (Nat.zero_le _)⟩

end loopspec

end Props.C06
