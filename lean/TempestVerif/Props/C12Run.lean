import TempestVerif.Model.RunEntry
import TempestVerif.Props.C12
import TempestVerif.Props.C10Closed
import TempestVerif.Props.C11
import Mathlib.Tactic
/-
  C12, second pass — the run() postconditions on the CLOSED-LOOP model (`Model.ClosedLoop`, nothing read from a tape) and
  on the whole `run_sampling` with its three-way entry (`Model.RunEntry`, /repo aeb0399).
-/
namespace Props.C12
open Model.ClosedLoop Model.RunEntry Model.Weights Model.Posterior Model.Pipeline Model.Reweight Model.Records
open Props.C10 (WFC)

variable {P MS TS G : Type}

/-! ### what `_not_termination() == False` says -/

/-- the guard is false only on a non-empty log-weight vector, with `1 − β < tol`, and then the ESS it computed is the ESS
    of the normalised weights `posterior(trim_importance_weights=False)` returns -/
theorem notTermination_false (tol β nT : ℝ) (lw : List ℝ) (h : Model.Run.notTermination tol β lw nT = false) :
    lw ≠ [] ∧ 1 - β < tol ∧ ∃ w0, weights0 lw = some w0 ∧ w0.length = lw.length ∧ (∀ y ∈ w0, 0 ≤ y) ∧ w0.sum = 1 ∧
      nT ≤ Model.Ess.ess w0 ∧ 1 ≤ Model.Ess.ess w0 ∧ Model.Ess.ess w0 ≤ w0.length := by
  cases lw with
  | nil => simp [Model.Run.notTermination] at h
  | cons x xs =>
    simp only [Model.Run.notTermination] at h
    rw [notTerm_false_iff] at h
    obtain ⟨w0, hw0, hlen, hnn, hsum⟩ := weights0_facts (x :: xs) (by simp)
    have hw0' : w0 = Model.Ess.normalise (expShift x xs) := by
      simp only [weights0, Option.some.injEq] at hw0; exact hw0.symm
    have hb := Props.C20.C20_ess_bounds w0 hnn (by rw [hsum]; exact one_pos)
    refine ⟨by simp, h.1, w0, hw0, hlen, hnn, hsum, ?_, hb.1, hb.2⟩
    rw [hw0', C12_guard_ess_is_posterior_ess]
    exact h.2

/-- the vector `compute_logw_and_logz(1.0)[0]` of a state: read by `_not_termination` AND by `compute_posterior` -/
noncomputable def lw1 (s : CState ℝ P TS G) : List ℝ := (logw (batchesOf s.hist) Sc.one true).1

theorem posteriorArrs_lw (s : CState ℝ P TS G) : (posteriorArrs s).lw = lw1 s := rfl

theorem contGuard_eq (cfg : CCfg ℝ) (s : CState ℝ P TS G) :
    contGuard cfg s = Model.Run.notTermination cfg.tolTerm s.beta (lw1 s) cfg.nTotal := rfl

/-! ### the loop: it ends only with a false guard, and only appends to the history -/

theorem runLoop_guard (W : World ℝ P MS TS G) (cfg : CCfg ℝ) : ∀ (fuel : Nat) (s sf : CState ℝ P TS G)
    (tr : List (CState ℝ P TS G)) (os : List (CIterOut ℝ P)), runLoop W cfg fuel s = some (sf, tr, os) →
    contGuard cfg sf = false := by
  intro fuel
  induction fuel with
  | zero =>
    intro s sf tr os h
    simp only [runLoop] at h
    split at h
    · simp at h
    · rename_i hc
      simp only [Option.some.injEq, Prod.mk.injEq] at h
      obtain ⟨rfl, _, _⟩ := h
      simpa using hc
  | succ n ih =>
    intro s sf tr os h
    simp only [runLoop] at h
    split at h
    · simp only [Option.bind_eq_some_iff, Option.map_eq_some_iff] at h
      obtain ⟨⟨s1, o⟩, _, ⟨sf', tr', os'⟩, hr, he⟩ := h
      simp only [Prod.mk.injEq] at he
      obtain ⟨rfl, _, _⟩ := he
      exact ih s1 sf' tr' os' hr
    · rename_i hc
      simp only [Option.some.injEq, Prod.mk.injEq] at h
      obtain ⟨rfl, _, _⟩ := h
      simpa using hc

theorem stepAll_pts_length (W : World ℝ P MS TS G) (β : ℝ) : ∀ (pts : List P) (ls : List ℝ) (qs : List (P × ℝ × Bool))
    (rs : List ℝ), (stepAll W β pts ls qs rs).1.length = pts.length := by
  intro pts
  induction pts with
  | nil => intro ls qs rs; simp [stepAll]
  | cons pt pts ih =>
    intro ls qs rs
    rcases ls with _ | ⟨l, ls⟩
    · simp [stepAll]
    rcases qs with _ | ⟨q, qs⟩
    · simp [stepAll]
    rcases rs with _ | ⟨r, rs⟩
    · simp [stepAll]
    simp [stepAll, ih]

theorem mcLoop_pts_length (W : World ℝ P MS TS G) (cfg : CCfg ℝ) (ms : MS) (β : ℝ) (asg : List Nat) :
    ∀ (fuel : Nat) (st m : MC ℝ P G), mcLoop W cfg ms β asg fuel st = some m → m.pts.length = st.pts.length := by
  intro fuel
  induction fuel with
  | zero => intro st m h; simp [mcLoop] at h
  | succ n ih =>
    intro st m h
    simp only [mcLoop] at h
    split at h
    · simp only [Option.some.injEq] at h
      subst h
      simp [stepAll_pts_length]
    · have := ih _ m h
      simpa [stepAll_pts_length] using this

/-- the (re)draw loop returns as many records as log-likelihoods -/
theorem drawLoop_len (W : World ℝ P MS TS G) (n : Nat) : ∀ (fuel : Nat) (g : G) (drawn : Nat)
    (r : List P × List (Option ℝ) × Nat × G), drawLoop W n fuel g drawn = some r → r.1.length = r.2.1.length := by
  intro fuel
  induction fuel with
  | zero => intro g drawn r h; simp [drawLoop] at h
  | succ k ih =>
    intro g drawn r h
    simp only [drawLoop] at h
    split at h
    · split at h
      · cases h
      · exact ih _ _ _ h
    · injection h with h
      subst h
      simp

/-- the warm-up draw stores as many records as log-likelihoods -/
theorem warmupStep_lengths (W : World ℝ P MS TS G) (cfg : CCfg ℝ) (g : G) (d : Drawn ℝ P G)
    (h : warmupStep W cfg g = some d) : d.pts.length = d.logl.length := by
  unfold warmupStep at h
  simp only [Option.bind_eq_some_iff] at h
  obtain ⟨r, hr, h⟩ := h
  have hlen := drawLoop_len W _ _ _ _ r hr
  split at h
  · split at h
    · simp only [Option.map_eq_some_iff] at h
      obtain ⟨l, hl, rfl⟩ := h
      have := Lemmas.PipelineShift.allSome_length hl
      simp only [Props.C11.scatterFrom_length] at this ⊢
      rw [hlen]; exact this.symm
    · simp only [Option.map_eq_some_iff] at h
      obtain ⟨l, hl, rfl⟩ := h
      have := Lemmas.PipelineShift.allSome_length hl
      simp only at this ⊢
      rw [hlen]; exact this.symm
  · simp only [Option.map_eq_some_iff] at h
    obtain ⟨l, hl, rfl⟩ := h
    have := Lemmas.PipelineShift.allSome_length hl
    simp only at this ⊢
    rw [hlen]; exact this.symm

/-- `execute_iteration` appends exactly one batch to the history: the temperature `Reweighter.run` chose, as many records as
    log-likelihoods, at least one -/
theorem iterate_commit (W : World ℝ P MS TS G) (cfg : CCfg ℝ) (s s1 : CState ℝ P TS G) (o : CIterOut ℝ P)
    (h : Model.ClosedLoop.iterate W cfg s = some (s1, o)) :
    ∃ b : CBatch ℝ P, s1.hist = s.hist ++ [b] ∧ b.beta = s1.beta ∧ s1.beta = (reweightStep W cfg s).beta ∧
      b.pts.length = b.logl.length ∧ 1 ≤ b.logl.length ∧ s1.iter = s.iter + 1 ∧ s1.ts = s1.ts := by
  unfold Model.ClosedLoop.iterate at h
  generalize reweightStep W cfg s = r at h ⊢
  cases htr : trainStep W cfg s.ts s.g (returnedWeights r.weightsTag) (poolOf s.hist) r.beta (s.iter + 1) with
  | none => simp [htr] at h
  | some tr =>
    simp only [htr, Option.bind_some] at h
    by_cases hb : eqv r.beta Sc.zero = true
    · simp only [hb, if_true] at h
      cases hd : warmupStep W cfg tr.2.2 with
      | none => simp [hd] at h
      | some d =>
        simp only [hd, Option.bind_some] at h
        by_cases he : d.logl.isEmpty = true
        · simp [he] at h
        · simp only [he, Bool.false_eq_true, if_false, Option.some.injEq, Prod.mk.injEq] at h
          obtain ⟨rfl, _⟩ := h
          refine ⟨_, rfl, rfl, rfl, warmupStep_lengths W cfg _ d hd, ?_, rfl, rfl⟩
          simp only
          cases hl : d.logl with
          | nil => simp [hl] at he
          | cons _ _ => simp
    · simp only [hb, Bool.false_eq_true, if_false] at h
      cases hrs : resampleStep W cfg s.hist (returnedWeights r.weightsTag) tr.2.1 tr.2.2 with
      | none => simp [hrs] at h
      | some rs =>
        simp only [hrs, Option.bind_some] at h
        by_cases he : rs.logl.isEmpty = true
        · simp [he] at h
        · simp only [he, Bool.false_eq_true, if_false, Option.map_eq_some_iff, Prod.mk.injEq] at h
          obtain ⟨m, hm, rfl, _⟩ := h
          have hrl : rs.pts.length = rs.logl.length := by
            unfold resampleStep at hrs
            simp only [Option.bind_eq_some_iff, Option.map_eq_some_iff] at hrs
            obtain ⟨idx, _, pts, hp, l, hl, rfl⟩ := hrs
            simp only
            rw [Props.C07.gather?_length hp, Props.C07.gather?_length hl]
          refine ⟨_, rfl, rfl, rfl, ?_, ?_, rfl, rfl⟩
          · simp only
            rw [mcLoop_pts_length W cfg _ _ _ _ _ m hm, Props.C10.mcLoop_length W cfg _ _ _ _ _ m hm]
            exact hrl
          · simp only
            rw [Props.C10.mcLoop_length W cfg _ _ _ _ _ m hm]
            cases hl : rs.logl with
            | nil => simp [hl] at he
            | cons _ _ => simp

/-! ### invariants of the stored history: non-empty batches, records and log-likelihoods of one length, β ≤ 1 -/

/-- every stored batch has as many records (`u`, `x`, `blobs`) as log-likelihoods -/
def XLen (s : CState ℝ P TS G) : Prop := ∀ b ∈ s.hist, b.pts.length = b.logl.length

/-- a state with history has a temperature ≤ 1 -/
def BInv (s : CState ℝ P TS G) : Prop := s.hist = [] ∨ s.beta ≤ 1

structure Good (s : CState ℝ P TS G) : Prop where
  wfc : WFC s
  xlen : XLen s
  binv : BInv s

theorem good_congr {s s' : CState ℝ P TS G} (hh : s'.hist = s.hist) (hb : s'.beta = s.beta) (g : Good s) : Good s' := by
  refine ⟨?_, ?_, ?_⟩
  · intro b hb'; rw [hh] at hb'; exact g.wfc b hb'
  · intro b hb'; rw [hh] at hb'; exact g.xlen b hb'
  · rcases g.binv with h | h
    · left; rw [hh]; exact h
    · right; rw [hb]; exact h

theorem good_of_nil {s : CState ℝ P TS G} (h : s.hist = []) : Good s :=
  ⟨(by intro b hb; rw [h] at hb; cases hb), (by intro b hb; rw [h] at hb; cases hb), Or.inl h⟩

theorem good_init (ts : TS) (g : G) : Good (Model.ClosedLoop.init ts g : CState ℝ P TS G) := good_of_nil rfl

/-- `Reweighter.run` inside the closed loop: first iteration β = 0; afterwards the new β lies between the old one and 1 -/
theorem reweightStep_beta (W : World ℝ P MS TS G) (cfg : CCfg ℝ) (s : CState ℝ P TS G) :
    (s.hist = [] → (reweightStep W cfg s).beta = 0) ∧
    (s.hist ≠ [] → s.beta ≤ 1 → s.beta ≤ (reweightStep W cfg s).beta ∧ (reweightStep W cfg s).beta ≤ 1) := by
  constructor
  · intro h
    simp [reweightStep, batchesOf, h, Model.Reweight.run]
  · intro h h1
    have he : (batchesOf s.hist).isEmpty = false := by
      cases hh : s.hist with
      | nil => exact absurd hh h
      | cons _ _ => simp [batchesOf]
    simp only [reweightStep, he]
    exact Props.C05.C05_run_range _ _ _ _ _ h1

/-- one `execute_iteration` keeps the invariants; the committed temperature is ≤ 1 and never below the previous one -/
theorem iterate_good (W : World ℝ P MS TS G) (cfg : CCfg ℝ) (s s1 : CState ℝ P TS G) (o : CIterOut ℝ P)
    (g : Good s) (h : Model.ClosedLoop.iterate W cfg s = some (s1, o)) :
    Good s1 ∧ s1.beta ≤ 1 ∧ (s.hist ≠ [] → s.beta ≤ s1.beta) ∧ ∃ b, s1.hist = s.hist ++ [b] := by
  obtain ⟨b, hh, hbb, hbr, hlen, hpos, _, _⟩ := iterate_commit W cfg s s1 o h
  obtain ⟨r0, r1⟩ := reweightStep_beta W cfg s
  have hle : s1.beta ≤ 1 ∧ (s.hist ≠ [] → s.beta ≤ s1.beta) := by
    rw [hbr]
    rcases g.binv with he | hb1
    · rw [r0 he]; exact ⟨by norm_num, fun hne => absurd he hne⟩
    · by_cases he : s.hist = []
      · rw [r0 he]; exact ⟨by norm_num, fun hne => absurd he hne⟩
      · exact ⟨(r1 he hb1).2, fun _ => (r1 he hb1).1⟩
  refine ⟨⟨?_, ?_, Or.inr hle.1⟩, hle.1, hle.2, b, hh⟩
  · intro b' hb'
    rw [hh, List.mem_append, List.mem_singleton] at hb'
    rcases hb' with hb' | rfl
    · exact g.wfc b' hb'
    · exact hpos
  · intro b' hb'
    rw [hh, List.mem_append, List.mem_singleton] at hb'
    rcases hb' with hb' | rfl
    · exact g.xlen b' hb'
    · exact hlen

/-- the loop keeps the invariants at EVERY loop-top state (each may be written as a checkpoint), only appends to the
    history (one batch per iteration), and its temperatures never decrease once there is a history -/
theorem runLoop_good (W : World ℝ P MS TS G) (cfg : CCfg ℝ) : ∀ (fuel : Nat) (s sf : CState ℝ P TS G)
    (tr : List (CState ℝ P TS G)) (os : List (CIterOut ℝ P)), Good s → runLoop W cfg fuel s = some (sf, tr, os) →
    Good sf ∧ (∀ t ∈ tr, Good t) ∧ s.hist <+: sf.hist ∧ sf.hist.length = s.hist.length + os.length ∧
      (s.hist ≠ [] → s.beta ≤ sf.beta) ∧ s ∈ tr ∧ sf ∈ tr := by
  intro fuel
  induction fuel with
  | zero =>
    intro s sf tr os g h
    simp only [runLoop] at h
    split at h
    · simp at h
    · simp only [Option.some.injEq, Prod.mk.injEq] at h
      obtain ⟨rfl, rfl, rfl⟩ := h
      exact ⟨g, by simpa using g, List.prefix_refl _, by simp, fun _ => le_refl _, by simp, by simp⟩
  | succ n ih =>
    intro s sf tr os g h
    simp only [runLoop] at h
    split at h
    · simp only [Option.bind_eq_some_iff, Option.map_eq_some_iff] at h
      obtain ⟨⟨s1, o⟩, hi, ⟨sf', tr', os'⟩, hr, he⟩ := h
      simp only [Prod.mk.injEq] at he
      obtain ⟨rfl, rfl, rfl⟩ := he
      obtain ⟨g1, hb1, hmono, b, hh⟩ := iterate_good W cfg s s1 o g hi
      obtain ⟨gf, gtr, hpre, hlen, hm2, _, hsf⟩ := ih s1 sf' tr' os' g1 hr
      refine ⟨gf, ?_, ?_, ?_, ?_, by simp, by simp [hsf]⟩
      · intro t ht
        rcases List.mem_cons.mp ht with rfl | ht
        · exact g
        · exact gtr t ht
      · exact (List.prefix_append s.hist [b]).trans (hh ▸ hpre)
      · rw [hlen, hh]; simp; omega
      · intro hne
        have hne1 : s1.hist ≠ [] := by rw [hh]; simp
        exact le_trans (hmono hne) (hm2 hne1)
    · simp only [Option.some.injEq, Prod.mk.injEq] at h
      obtain ⟨rfl, rfl, rfl⟩ := h
      exact ⟨g, by simpa using g, List.prefix_refl _, by simp, fun _ => le_refl _, by simp, by simp⟩

/-! ### the stored history as `compute_posterior` and the guard see it -/

theorem wf_of_good (s : CState ℝ P TS G) (g : Good s) (hne : s.hist ≠ []) : Props.C04.WF (batchesOf s.hist) := by
  rcases Props.C10.WF_batchesOf s g.wfc with h | h
  · simp [batchesOf] at h; exact absurd h hne
  · exact h

theorem lw1_nil_of_hist_nil (s : CState ℝ P TS G) (h : s.hist = []) : lw1 s = [] := by
  simp [lw1, h, batchesOf, logw]

theorem poolOf_length (h : List (CBatch ℝ P)) (hx : ∀ b ∈ h, b.pts.length = b.logl.length) :
    (poolOf h).length = nTotal (batchesOf h) := by
  induction h with
  | nil => simp [poolOf, batchesOf, nTotal]
  | cons b bs ih =>
    have := ih (fun b' hb' => hx b' (List.mem_cons_of_mem _ hb'))
    simp only [poolOf, List.flatMap_cons, List.length_append] at this ⊢
    rw [this, hx b List.mem_cons_self]
    simp [batchesOf, nTotal, toBatch]

/-- on a good non-empty history the four arrays `compute_posterior` starts from have ONE length: the assumption
    "equal-length history arrays" of the first pass, discharged by the run invariant -/
theorem posteriorArrs_lengths (s : CState ℝ P TS G) (g : Good s) (hne : s.hist ≠ []) :
    (posteriorArrs s).lw ≠ [] ∧ (posteriorArrs s).x.length = (posteriorArrs s).lw.length ∧
    (posteriorArrs s).l.length = (posteriorArrs s).lw.length ∧ (posteriorArrs s).b.length = (posteriorArrs s).lw.length := by
  have hwf := wf_of_good s g hne
  have hl : (posteriorArrs s).lw.length = nTotal (batchesOf s.hist) := by
    simp only [posteriorArrs, ScReal.one_def]; exact Props.C04.C04_length _ hwf 1 true
  have hp := poolOf_length s.hist g.xlen
  have hN := Props.C04.nTotal_pos _ hwf
  refine ⟨?_, ?_, ?_, ?_⟩
  · intro h0; rw [h0] at hl; simp at hl; omega
  · rw [hl]; exact hp
  · rw [hl]; simp only [posteriorArrs]; exact Props.C04.length_flatLogl _
  · rw [hl]; exact hp

/-- the guard is false on every good state with history whose temperature is within the tolerance, if no more than one
    effective sample is asked for (used for non-vacuity and for "a finished run run again") -/
theorem contGuard_false_of_ess (cfg : CCfg ℝ) (s : CState ℝ P TS G) (hb : 1 - s.beta < cfg.tolTerm) (w0 : List ℝ)
    (hw : weights0 (lw1 s) = some w0) (he : cfg.nTotal ≤ Model.Ess.ess w0) : contGuard cfg s = false := by
  rw [contGuard_eq]
  cases hl : lw1 s with
  | nil => rw [hl] at hw; simp [weights0] at hw
  | cons x xs =>
    rw [hl] at hw
    simp only [Model.Run.notTermination]
    rw [notTerm_false_iff]
    refine ⟨hb, ?_⟩
    simp only [weights0, Option.some.injEq] at hw
    rw [← hw, C12_guard_ess_is_posterior_ess] at he
    exact he

/-! ### checkpoints, the three-way entry, the whole `run_sampling` -/

/-- the StateManager part of a checkpoint file holds a good history -/
def GoodK (k : Ckpt ℝ P) : Prop :=
  (∀ b ∈ k.hist, 1 ≤ b.logl.length ∧ b.pts.length = b.logl.length) ∧ (k.hist = [] ∨ k.beta ≤ 1)

theorem goodK_checkpoint (s : CState ℝ P TS G) (g : Good s) : GoodK (checkpoint s) :=
  ⟨fun b hb => ⟨g.wfc b hb, g.xlen b hb⟩, g.binv⟩

theorem good_restore (k : Ckpt ℝ P) (hk : GoodK k) (ts : TS) (g : G) : Good (restore k ts g : CState ℝ P TS G) :=
  ⟨fun b hb => (hk.1 b hb).1, fun b hb => (hk.1 b hb).2, hk.2⟩

/-- `load_state(save_state())` gives back history and current values (the clusterer is the receiver's) -/
theorem restore_checkpoint (s : CState ℝ P TS G) : restore (checkpoint s) s.ts s.g = s := rfl

structure GoodCore (c : Core ℝ P TS G) : Prop where
  good : Good c.st
  started : c.st.hist ≠ [] → c.started = true

theorem goodCore_new (ts : TS) (g : G) : GoodCore (newCore ts g : Core ℝ P TS G) :=
  ⟨good_init ts g, fun h => absurd rfl h⟩

theorem goodCore_load (c : Core ℝ P TS G) (f : CkFile ℝ P G) (hk : GoodK f.sm) : GoodCore (loadCore c f) :=
  ⟨good_restore _ hk _ _, fun _ => rfl⟩

/-- what the entry of `run_sampling` leaves behind, arm by arm; in EVERY arm `self.n_total` is this call's argument -/
theorem prologue_facts (reseed : G → G) (c : Core ℝ P TS G) (call : Call ℝ P G) (gc : GoodCore c)
    (hf : ∀ f, call.resume = some f → GoodK f.sm) :
    GoodCore (prologue reseed c call) ∧ (prologue reseed c call).nTotal = some call.nTotal ∧
    (prologue reseed c call).started = true ∧
    (∀ f, call.resume = some f →
      (prologue reseed c call).st = restore f.sm c.st.ts (match f.rng with | some g => g | none => c.st.g) ∧
      (prologue reseed c call).t0 = f.sm.iter) ∧
    (call.resume = none → c.st.hist ≠ [] → (prologue reseed c call).st = c.st ∧ (prologue reseed c call).t0 = c.st.iter) ∧
    (call.resume = none → c.st.hist = [] → (prologue reseed c call).st = initFresh reseed c.st ∧ (prologue reseed c call).t0 = 0) := by
  cases hr : call.resume with
  | some f =>
    have hk := hf f hr
    have e : prologue reseed c call =
        { loadCore c f with t0 := (loadCore c f).st.iter, nTotal := some call.nTotal } := by
      simp only [prologue, hr]
    rw [e]
    refine ⟨⟨good_restore _ hk _ _, fun _ => rfl⟩, rfl, rfl, ?_, (fun h => by cases h), (fun h => by cases h)⟩
    intro f' hf'
    cases hf'
    exact ⟨rfl, rfl⟩
  | none =>
    by_cases hne : c.st.hist = []
    · have hb : entryBranch false c.st.hist.length = Entry.fresh := by simp [entryBranch, hne]
      have e : prologue reseed c call =
          { c with st := initFresh reseed c.st, started := true, t0 := 0, nTotal := some call.nTotal } := by
        simp only [prologue, hr, hb]
      rw [e]
      refine ⟨⟨good_of_nil (by simp [initFresh, hne]), fun _ => rfl⟩, rfl, rfl, (fun f h => by cases h),
        fun _ h => absurd hne h, fun _ _ => ⟨rfl, rfl⟩⟩
    · have hpos : 0 < c.st.hist.length := List.length_pos_iff.mpr hne
      have hb : entryBranch false c.st.hist.length = Entry.continue_ := by simp [entryBranch, hpos]
      have e : prologue reseed c call = { c with t0 := c.st.iter, nTotal := some call.nTotal } := by
        simp only [prologue, hr, hb]
      rw [e]
      exact ⟨⟨gc.good, gc.started⟩, rfl, gc.started hne, (fun f h => by cases h), fun _ _ => ⟨rfl, rfl⟩,
        fun _ h => absurd h hne⟩

/-- the epilogue on a good non-empty history: the evidence is `log((1/N) Σ_s exp(logw_s))` at β = 1 — the balance-heuristic
    mixture-importance-sampling estimate `Props.C04.specLogz` (shown there to be the statement's formula) -/
theorem finalLogz_spec (s : CState ℝ P TS G) (g : Good s) (hne : s.hist ≠ []) :
    finalLogz s = some (Props.C04.specLogz (batchesOf s.hist) 1) := by
  simp only [finalLogz, ScReal.one_def]
  exact Props.C04.C04_logz _ (wf_of_good s g hne) 1 true

/-- **C12 (run), whole routine, closed loop.**  For every world (likelihood, prior, trainer, proposals, random stream), every
    configuration (both kernels, both resamplers, both metric modes), every sampler whose stored history is good (a new
    sampler; one that ran before; one into which a good checkpoint was loaded), every call `run(n_total, resume_state_path)`
    (fresh / second `run()` / manual resume / resume from a file, whatever `n_total` the file or the sampler carried):
    IF the call returns, THEN
      * `self.n_total` is THIS call's `int(n_total)`;
      * `1 − β < tol` and `β ≤ 1` (the temperature is within the tolerance of 1, from below);
      * the history is non-empty and the ESS of the normalised posterior weights over the WHOLE history is ≥ `n_total`;
      * `evidence()[0]` is the mixture-IS evidence at β = 1 recomputed from that history;
      * the history only grew (one batch per iteration executed), every loop-top state — every possible checkpoint — is good. -/
theorem C12x_run_post (W : World ℝ P MS TS G) (cfg : CCfg ℝ) (reseed : G → G) (fuel : Nat) (c c' : Core ℝ P TS G)
    (call : Call ℝ P G) (tr : List (CState ℝ P TS G)) (os : List (CIterOut ℝ P)) (gc : GoodCore c)
    (hf : ∀ f, call.resume = some f → GoodK f.sm)
    (h : runFull W cfg reseed fuel c call = some (c', tr, os)) :
    c'.nTotal = some call.nTotal ∧
    (1 - c'.st.beta < cfg.tolTerm ∧ c'.st.beta ≤ 1) ∧
    (c'.st.hist ≠ [] ∧ ∃ w0, weights0 (lw1 c'.st) = some w0 ∧ w0.length = (lw1 c'.st).length ∧ (∀ y ∈ w0, 0 ≤ y) ∧
        w0.sum = 1 ∧ (call.nTotal : ℝ) ≤ Model.Ess.ess w0 ∧ 1 ≤ Model.Ess.ess w0 ∧ Model.Ess.ess w0 ≤ w0.length) ∧
    Model.RunEntry.evidence c' = some (Props.C04.specLogz (batchesOf c'.st.hist) 1) ∧
    ((prologue reseed c call).st.hist <+: c'.st.hist ∧
      c'.st.hist.length = (prologue reseed c call).st.hist.length + os.length) ∧
    GoodCore c' ∧ (∀ t ∈ tr, Good t) ∧ c'.t0 = (prologue reseed c call).t0 := by
  obtain ⟨gc1, hnt, hst, _, _, _⟩ := prologue_facts reseed c call gc hf
  unfold runFull at h
  simp only [Option.map_eq_some_iff, Option.bind_eq_some_iff] at h
  obtain ⟨⟨sf, tr0, os0⟩, hl, z, hz, hc⟩ := h
  simp only [Prod.mk.injEq] at hc
  obtain ⟨rfl, rfl, rfl⟩ := hc
  have hg := runLoop_guard W _ fuel _ _ _ _ hl
  obtain ⟨gf, gtr, hpre, hlen, _, _, _⟩ := runLoop_good W _ fuel _ _ _ _ gc1.good hl
  rw [contGuard_eq] at hg
  obtain ⟨hlw, hb, w0, hw0, hwl, hnn, hsum, hess, he1, he2⟩ := notTermination_false _ _ _ _ hg
  have hne : sf.hist ≠ [] := fun h0 => hlw (lw1_nil_of_hist_nil sf h0)
  have hb1 : sf.beta ≤ 1 := by
    rcases gf.binv with h0 | h1
    · exact absurd h0 hne
    · exact h1
  have hzs := finalLogz_spec sf gf hne
  rw [hz] at hzs
  have hnT : (guardCfg cfg (prologue reseed c call)).nTotal = (call.nTotal : ℝ) := by
    simp [guardCfg, attrNTotal, hnt]
  have gf' : Good ({ sf with logz := z } : CState ℝ P TS G) := good_congr (s := sf) rfl rfl gf
  refine ⟨hnt, ⟨hb, hb1⟩, ⟨hne, w0, hw0, hwl, hnn, hsum, ?_, he1, he2⟩, ?_, ⟨hpre, hlen⟩, ⟨gf', fun _ => hst⟩, gtr, rfl⟩
  · rw [← hnT]; exact hess
  · simp only [Model.RunEntry.evidence, hst, if_true]
    rw [Option.some.injEq] at hzs
    rw [hzs]

/-! ### clause 11: the entries one by one -/

/-- shape of a returned call: the loop ended in `sf`, the epilogue wrote `z = Z(1)` of `sf`'s history -/
theorem runFull_unpack (W : World ℝ P MS TS G) (cfg : CCfg ℝ) (reseed : G → G) (fuel : Nat) (c c' : Core ℝ P TS G)
    (call : Call ℝ P G) (tr : List (CState ℝ P TS G)) (os : List (CIterOut ℝ P))
    (h : runFull W cfg reseed fuel c call = some (c', tr, os)) :
    ∃ sf z, runLoop W (guardCfg cfg (prologue reseed c call)) fuel (prologue reseed c call).st = some (sf, tr, os) ∧
      finalLogz sf = some z ∧ c' = { prologue reseed c call with st := { sf with logz := z } } := by
  unfold runFull at h
  simp only [Option.map_eq_some_iff, Option.bind_eq_some_iff] at h
  obtain ⟨⟨sf, tr0, os0⟩, hl, z, hz, hc⟩ := h
  simp only [Prod.mk.injEq] at hc
  obtain ⟨rfl, rfl, rfl⟩ := hc
  exact ⟨sf, z, hl, hz, rfl⟩

/-- a NEW sampler, `run(n_total)`: the postconditions with no hypothesis but "it returned"; numbering starts at 0 and the
    history holds exactly the batches of the iterations executed -/
theorem C12x_fresh_run (W : World ℝ P MS TS G) (cfg : CCfg ℝ) (reseed : G → G) (fuel : Nat) (ts : TS) (g : G) (nT : Nat)
    (c' : Core ℝ P TS G) (tr : List (CState ℝ P TS G)) (os : List (CIterOut ℝ P))
    (h : runFull W cfg reseed fuel (newCore ts g) ⟨nT, none⟩ = some (c', tr, os)) :
    c'.nTotal = some nT ∧ (1 - c'.st.beta < cfg.tolTerm ∧ c'.st.beta ≤ 1) ∧
    (∃ w0, weights0 (lw1 c'.st) = some w0 ∧ (nT : ℝ) ≤ Model.Ess.ess w0) ∧
    Model.RunEntry.evidence c' = some (Props.C04.specLogz (batchesOf c'.st.hist) 1) ∧
    c'.t0 = 0 ∧ c'.st.hist.length = os.length := by
  have gc := goodCore_new (P := P) ts g
  obtain ⟨h1, h2, ⟨_, w0, hw0, _, _, _, he, _, _⟩, h4, ⟨_, hlen⟩, _, _, ht0⟩ :=
    C12x_run_post W cfg reseed fuel _ c' ⟨nT, none⟩ tr os gc (fun f hf => by cases hf) h
  obtain ⟨_, _, _, _, _, hfresh⟩ := prologue_facts reseed (newCore ts g) (⟨nT, none⟩ : Call ℝ P G) gc (fun f hf => by cases hf)
  obtain ⟨hs, ht⟩ := hfresh rfl rfl
  refine ⟨h1, h2, ⟨w0, hw0, he⟩, h4, by rw [ht0, ht], ?_⟩
  rw [hlen, hs]; simp [initFresh, newCore, Model.ClosedLoop.init]

/-- **resumed with ANOTHER n_total** (and in another sampler object, world and configuration if one likes).  Run A is any
    returned call; `s` is ANY of its loop-top states — a superset of the states `save_every` writes; the file written there
    carries A's `n_total`.  Run B resumes from that file with `n_total = nB`.  If B returns: `self.n_total = nB`, the
    postconditions hold for `nB` (NOT for the `n_total` in the file), the history of B extends the history in the file, and
    the iteration numbering continues (`t0` = the file's `iter`). -/
theorem C12x_resume_other_ntotal (W W' : World ℝ P MS TS G) (cfg cfg' : CCfg ℝ) (reseed reseed' : G → G) (fuelA fuelB : Nat)
    (cA0 cA cB0 cB : Core ℝ P TS G) (callA : Call ℝ P G) (trA trB : List (CState ℝ P TS G)) (osA osB : List (CIterOut ℝ P))
    (gcA : GoodCore cA0) (hfA : ∀ f, callA.resume = some f → GoodK f.sm)
    (hA : runFull W cfg reseed fuelA cA0 callA = some (cA, trA, osA))
    (s : CState ℝ P TS G) (hs : s ∈ trA) (gcB : GoodCore cB0) (nB : Nat)
    (hB : runFull W' cfg' reseed' fuelB cB0 ⟨nB, some (ckptAt (prologue reseed cA0 callA) s)⟩ = some (cB, trB, osB)) :
    (ckptAt (prologue reseed cA0 callA) s).nTotal = some callA.nTotal ∧ cB.nTotal = some nB ∧
    (1 - cB.st.beta < cfg'.tolTerm ∧ cB.st.beta ≤ 1) ∧
    (∃ w0, weights0 (lw1 cB.st) = some w0 ∧ (nB : ℝ) ≤ Model.Ess.ess w0) ∧
    Model.RunEntry.evidence cB = some (Props.C04.specLogz (batchesOf cB.st.hist) 1) ∧
    s.hist <+: cB.st.hist ∧ cB.t0 = s.iter := by
  obtain ⟨_, _, _, _, _, _, gtr, _⟩ := C12x_run_post W cfg reseed fuelA cA0 cA callA trA osA gcA hfA hA
  have hk : GoodK (ckptAt (prologue reseed cA0 callA) s).sm := goodK_checkpoint s (gtr s hs)
  have hfB : ∀ f, (⟨nB, some (ckptAt (prologue reseed cA0 callA) s)⟩ : Call ℝ P G).resume = some f → GoodK f.sm := by
    intro f hf; cases hf; exact hk
  obtain ⟨h1, h2, ⟨_, w0, hw0, _, _, _, he, _, _⟩, h4, ⟨hpre, _⟩, _, _, ht0⟩ :=
    C12x_run_post W' cfg' reseed' fuelB cB0 cB _ trB osB gcB hfB hB
  obtain ⟨_, hnA, _, _, _, _⟩ := prologue_facts reseed cA0 callA gcA hfA
  obtain ⟨_, _, _, hres, _, _⟩ := prologue_facts reseed' cB0 (⟨nB, some (ckptAt (prologue reseed cA0 callA) s)⟩ : Call ℝ P G) gcB hfB
  obtain ⟨hst, ht⟩ := hres _ rfl
  refine ⟨hnA, h1, h2, ⟨w0, hw0, he⟩, h4, ?_, ?_⟩
  · rw [hst] at hpre; exact hpre
  · rw [ht0, ht]; rfl

/-- **a second `run()`** on the same sampler (no path): the finished run is CONTINUED — nothing is re-initialised, the
    history of the first call is a prefix of the new one, `t0` is the first call's last `iter` — and the postconditions hold
    for the second call's `n_total` -/
theorem C12x_second_run (W W' : World ℝ P MS TS G) (cfg cfg' : CCfg ℝ) (reseed reseed' : G → G) (fuel1 fuel2 : Nat)
    (c c1 c2 : Core ℝ P TS G) (call1 : Call ℝ P G) (tr1 tr2 : List (CState ℝ P TS G)) (os1 os2 : List (CIterOut ℝ P))
    (gc : GoodCore c) (hf : ∀ f, call1.resume = some f → GoodK f.sm)
    (h1 : runFull W cfg reseed fuel1 c call1 = some (c1, tr1, os1)) (n2 : Nat)
    (h2 : runFull W' cfg' reseed' fuel2 c1 ⟨n2, none⟩ = some (c2, tr2, os2)) :
    c2.nTotal = some n2 ∧ (1 - c2.st.beta < cfg'.tolTerm ∧ c2.st.beta ≤ 1) ∧
    (∃ w0, weights0 (lw1 c2.st) = some w0 ∧ (n2 : ℝ) ≤ Model.Ess.ess w0) ∧
    Model.RunEntry.evidence c2 = some (Props.C04.specLogz (batchesOf c2.st.hist) 1) ∧
    c1.st.hist <+: c2.st.hist ∧ c2.st.hist.length = c1.st.hist.length + os2.length ∧ c2.t0 = c1.st.iter := by
  obtain ⟨_, _, ⟨hne1, _⟩, _, _, gc1, _, _⟩ := C12x_run_post W cfg reseed fuel1 c c1 call1 tr1 os1 gc hf h1
  obtain ⟨a1, a2, ⟨_, w0, hw0, _, _, _, he, _, _⟩, a4, ⟨hpre, hlen⟩, _, _, ht0⟩ :=
    C12x_run_post W' cfg' reseed' fuel2 c1 c2 ⟨n2, none⟩ tr2 os2 gc1 (fun f hf => by cases hf) h2
  obtain ⟨_, _, _, _, hcont, _⟩ := prologue_facts reseed' c1 (⟨n2, none⟩ : Call ℝ P G) gc1 (fun f hf => by cases hf)
  obtain ⟨hst, ht⟩ := hcont rfl hne1
  refine ⟨a1, a2, ⟨w0, hw0, he⟩, a4, ?_, ?_, ?_⟩
  · rw [hst] at hpre; exact hpre
  · rw [hst] at hlen; exact hlen
  · rw [ht0, ht]

theorem runLoop_stop (W : World ℝ P MS TS G) (cfg : CCfg ℝ) (fuel : Nat) (s : CState ℝ P TS G)
    (h : contGuard cfg s = false) : runLoop W cfg fuel s = some (s, [s], []) := by
  cases fuel <;> simp [runLoop, h]

/-- … and when the second call asks for NO MORE than the first delivered (`n2 ≤ n1`), it executes no iteration at all: same
    history, same temperature, same evidence (recomputed to the same value); only `n_total` and `t0` change.  Holds for
    every fuel: such a call always returns. -/
theorem C12x_second_run_noop (W W' : World ℝ P MS TS G) (cfg : CCfg ℝ) (reseed reseed' : G → G) (fuel1 fuel2 : Nat)
    (c c1 : Core ℝ P TS G) (call1 : Call ℝ P G) (tr1 : List (CState ℝ P TS G)) (os1 : List (CIterOut ℝ P))
    (gc : GoodCore c) (hf : ∀ f, call1.resume = some f → GoodK f.sm)
    (h1 : runFull W cfg reseed fuel1 c call1 = some (c1, tr1, os1)) (n2 : Nat) (hn : n2 ≤ call1.nTotal) :
    runFull W' cfg reseed' fuel2 c1 ⟨n2, none⟩ = some ({ c1 with nTotal := some n2, t0 := c1.st.iter }, [c1.st], []) := by
  obtain ⟨_, ⟨hb, _⟩, ⟨hne1, w0, hw0, _, _, _, he, _, _⟩, _, _, gc1, _, _⟩ :=
    C12x_run_post W cfg reseed fuel1 c c1 call1 tr1 os1 gc hf h1
  obtain ⟨sf, z, _, hz, hc1⟩ := runFull_unpack W cfg reseed fuel1 c c1 call1 tr1 os1 h1
  have hpos : 0 < c1.st.hist.length := List.length_pos_iff.mpr hne1
  have hbr : entryBranch false c1.st.hist.length = Entry.continue_ := by simp [entryBranch, hpos]
  have e : prologue reseed' c1 (⟨n2, none⟩ : Call ℝ P G) = { c1 with t0 := c1.st.iter, nTotal := some n2 } := by
    simp only [prologue, hbr]
  have hg : contGuard (guardCfg cfg ({ c1 with t0 := c1.st.iter, nTotal := some n2 } : Core ℝ P TS G)) c1.st = false := by
    refine contGuard_false_of_ess _ c1.st hb w0 hw0 ?_
    have : ((n2 : ℕ) : ℝ) ≤ (call1.nTotal : ℝ) := by exact_mod_cast hn
    simp only [guardCfg, attrNTotal, ScReal.ofNat_def]
    exact le_trans this he
  have hfz : finalLogz c1.st = some c1.st.logz := by
    rw [hc1]; exact hz
  unfold runFull
  rw [e]
  simp only [runLoop_stop W' _ fuel2 c1.st hg, Option.bind_some, hfz, Option.map_some]

/-- **manual resume** — `load_state(file)` then `run(n_total)` without a path — is the same call as
    `run(n_total, resume_state_path=file)` whenever the file holds a history (since /repo aeb0399; before, the manual form
    re-initialised counters, temperature and stream on top of the loaded history).  For a file WITHOUT history (written before
    the first iteration) the two differ — the manual form takes the fresh arm: counters zeroed, stream reseeded — but both start
    from an empty history and `C12x_run_post` covers each. -/
theorem C12x_manual_resume_eq (W : World ℝ P MS TS G) (cfg : CCfg ℝ) (reseed : G → G) (fuel : Nat) (c : Core ℝ P TS G)
    (f : CkFile ℝ P G) (nT : Nat) (hne : f.sm.hist ≠ []) :
    manualResume W cfg reseed fuel c f nT = runFull W cfg reseed fuel c ⟨nT, some f⟩ := by
  have hpos : 0 < (loadCore c f).st.hist.length := List.length_pos_iff.mpr hne
  have hbr : entryBranch false (loadCore c f).st.hist.length = Entry.continue_ := by simp [entryBranch, hpos]
  have e : prologue reseed (loadCore c f) (⟨nT, none⟩ : Call ℝ P G) = prologue reseed c ⟨nT, some f⟩ := by
    simp only [prologue, hbr]
  simp only [manualResume, runFull, e]

/-- the manual form with a good file: the postconditions for the call's `n_total`, whatever the file's -/
theorem C12x_manual_resume_post (W : World ℝ P MS TS G) (cfg : CCfg ℝ) (reseed : G → G) (fuel : Nat) (c c' : Core ℝ P TS G)
    (f : CkFile ℝ P G) (nT : Nat) (hk : GoodK f.sm) (tr : List (CState ℝ P TS G)) (os : List (CIterOut ℝ P))
    (h : manualResume W cfg reseed fuel c f nT = some (c', tr, os)) :
    c'.nTotal = some nT ∧ (1 - c'.st.beta < cfg.tolTerm ∧ c'.st.beta ≤ 1) ∧
    (∃ w0, weights0 (lw1 c'.st) = some w0 ∧ (nT : ℝ) ≤ Model.Ess.ess w0) ∧
    Model.RunEntry.evidence c' = some (Props.C04.specLogz (batchesOf c'.st.hist) 1) := by
  obtain ⟨a1, a2, ⟨_, w0, hw0, _, _, _, he, _, _⟩, a4, _⟩ :=
    C12x_run_post W cfg reseed fuel (loadCore c f) c' ⟨nT, none⟩ tr os (goodCore_load c f hk) (fun f hf => by cases hf) h
  exact ⟨a1, a2, ⟨w0, hw0, he⟩, a4⟩

/-- with the regenerated tolerance and a temperature a double can hold, "within the tolerance" is exactly the statement's
    `1 − β < 1e-4`; together with `β ≤ 1`: `|1 − β| < 1e-4` -/
theorem C12x_within_1e4 (β : ℝ) (hb : 1 - β < termTol) (h1 : β ≤ 1) (hd : β < 1 / 2 ∨ ∃ m : ℤ, β = (m : ℝ) / 2 ^ 53) :
    |1 - β| < 1e-4 := by
  rw [abs_of_nonneg (by linarith)]
  exact (C12_tol_exact_for_doubles β hd).mp hb

/-! ### before anything ran (error paths) -/

/-- `evidence()` of a new sampler is `(None, None)`; `Sampler.n_total` is `None` -/
theorem C12x_new_sampler (ts : TS) (g : G) :
    Model.RunEntry.evidence (newCore ts g : Core ℝ P TS G) = none ∧ nTotalProp (newCore ts g : Core ℝ P TS G) = none :=
  ⟨rfl, rfl⟩

/-- `posterior()` of a new sampler raises (the `ValueError` of `np.max` on the empty log-weight vector), for every option
    combination -/
theorem C12x_posterior_before_run (tf rf : List String) (e : ℝ) (bins : Nat) (u0 : ℝ) (o : Opts) (ts : TS) (g : G) :
    Model.ClosedLoop.posterior tf rf e bins u0 o (Model.ClosedLoop.init ts g : CState ℝ P TS G) = none := by
  simp [Model.ClosedLoop.posterior, Model.Posterior.posterior, posteriorArrs, Model.ClosedLoop.init, batchesOf, logw, weights0]

/-- `_not_termination()` on an empty history says "continue" whatever β and `n_total` are: a new sampler's `run()` always
    executes at least one iteration -/
theorem C12x_guard_empty_history (cfg : CCfg ℝ) (s : CState ℝ P TS G) (h : s.hist = []) : contGuard cfg s = true := by
  rw [contGuard_eq, lw1_nil_of_hist_nil s h]; rfl

/-! ### `posterior()` on the history a run leaves behind -/

/-- **C12 (posterior) on the closed-loop state**: on every good non-empty history — in particular after every returned
    `run()` (`C12x_run_post`) and on every checkpoint — `compute_posterior` with the regenerated gather tables, for every option
    combination, every `ess_trim`, `bins_trim ≥ 1` and resampling offset: does not raise; one positive length `m`; every row
    is one stored particle in x, logl, blobs and logw alike; weights ≥ 0 summing to 1, exactly `1/m` with resampling; and the
    blob column IS the record column (`x` and `blobs` of a stored particle are one record, so a returned blob is the blob of
    the returned `x`).  The first pass assumed the three history arrays and the log-weight vector to have one length; here
    that is the run invariant `Good`. -/
theorem C12x_posterior_on_history (s : CState ℝ P TS G) (g : Good s) (hne : s.hist ≠ []) (e : ℝ) (bins : Nat)
    (hb : 0 < bins) (u0 : ℝ) (o : Opts) :
    ∃ r, Model.ClosedLoop.posterior Gen.Tables.posteriorTrimGather Gen.Tables.posteriorResampleGather e bins u0 o s = some r ∧
      ∃ m, 0 < m ∧ SameLen r m ∧ (∀ k, k < m → ∃ i, i < (lw1 s).length ∧ RowOf r k (posteriorArrs s) i) ∧
        (∀ y ∈ r.w, 0 ≤ y) ∧ r.w.sum = 1 ∧ (o.resample = true → r.w = List.replicate m (1 / (m : ℝ))) ∧ r.b = r.x := by
  obtain ⟨h0, hx, hl, hbl⟩ := posteriorArrs_lengths s g hne
  obtain ⟨r, hr, m, hm, hsl, hrows, hnn, hsum, hres⟩ :=
    C12_posterior_contract_gen e bins hb u0 o (posteriorArrs s) h0 hx hl hbl
  refine ⟨r, hr, m, hm, hsl, hrows, hnn, hsum, hres, ?_⟩
  apply List.ext_getElem?
  intro k
  by_cases hk : k < m
  · obtain ⟨i, _, h1, _, h3, _⟩ := hrows k hk
    rw [h3, h1]; rfl
  · have h1 : r.b.length ≤ k := by rw [hsl.2.2.1]; omega
    have h2 : r.x.length ≤ k := by rw [hsl.1]; omega
    rw [List.getElem?_eq_none h1, List.getElem?_eq_none h2]

/-- the weights `posterior(trim_importance_weights=False, resample=False)` returns ARE the vector whose ESS the loop guard
    tested: "the effective sample size of the posterior weights over the whole history" is literally about what
    `posterior()` hands out -/
theorem C12x_untrimmed_weights (tf rf : List String) (e : ℝ) (bins : Nat) (u0 : ℝ) (rb rl : Bool) (s : CState ℝ P TS G)
    (w0 : List ℝ) (hw : weights0 (lw1 s) = some w0) :
    Model.ClosedLoop.posterior tf rf e bins u0 ⟨false, false, rb, rl⟩ s = some { posteriorArrs s with w := w0 } := by
  have hw' : weights0 (posteriorArrs s).lw = some w0 := hw
  simp [Model.ClosedLoop.posterior, Model.Posterior.posterior, hw', body]

/-- run() and posterior() together: after a returned call the untrimmed, un-resampled `posterior()` has weights of ESS ≥ the
    call's `n_total` -/
theorem C12x_run_then_posterior (W : World ℝ P MS TS G) (cfg : CCfg ℝ) (reseed : G → G) (fuel : Nat) (c c' : Core ℝ P TS G)
    (call : Call ℝ P G) (tr : List (CState ℝ P TS G)) (os : List (CIterOut ℝ P)) (gc : GoodCore c)
    (hf : ∀ f, call.resume = some f → GoodK f.sm)
    (h : runFull W cfg reseed fuel c call = some (c', tr, os)) (tf rf : List String) (e : ℝ) (bins : Nat) (u0 : ℝ)
    (rb rl : Bool) :
    ∃ r, Model.ClosedLoop.posterior tf rf e bins u0 ⟨false, false, rb, rl⟩ c'.st = some r ∧
      (call.nTotal : ℝ) ≤ Model.Ess.ess r.w ∧ r.x = poolOf c'.st.hist ∧ r.lw = lw1 c'.st := by
  obtain ⟨_, _, ⟨_, w0, hw0, _, _, _, he, _, _⟩, _⟩ := C12x_run_post W cfg reseed fuel c c' call tr os gc hf h
  exact ⟨_, C12x_untrimmed_weights tf rf e bins u0 rb rl c'.st w0 hw0, he, rfl, rfl⟩

/-! ### `n_total` is read by the guard only -/

theorem mcLoop_nTotal (W : World ℝ P MS TS G) (cfg : CCfg ℝ) (x : ℝ) (ms : MS) (β : ℝ) (asg : List Nat) :
    ∀ (fuel : Nat) (st : MC ℝ P G),
      mcLoop W { cfg with nTotal := x } ms β asg fuel st = mcLoop W cfg ms β asg fuel st := by
  intro fuel
  induction fuel with
  | zero => intro st; rfl
  | succ n ih => intro st; simp only [mcLoop, ih]

/-- nothing inside `execute_iteration` depends on `n_total`: the iteration of the sampler whose attribute was just overwritten
    is the iteration of the configuration as it was -/
theorem iterate_nTotal (W : World ℝ P MS TS G) (cfg : CCfg ℝ) (x : ℝ) (s : CState ℝ P TS G) :
    Model.ClosedLoop.iterate W { cfg with nTotal := x } s = Model.ClosedLoop.iterate W cfg s := by
  have h1 : reweightStep W { cfg with nTotal := x } s = reweightStep W cfg s := rfl
  have h2 : ∀ ts g w pool β it, trainStep W { cfg with nTotal := x } ts g w pool β it = trainStep W cfg ts g w pool β it :=
    fun _ _ _ _ _ _ => rfl
  have h3 : ∀ g, warmupStep W { cfg with nTotal := x } g = warmupStep W cfg g := fun _ => rfl
  have h4 : ∀ h w ts g, resampleStep W { cfg with nTotal := x } h w ts g = resampleStep W cfg h w ts g :=
    fun _ _ _ _ => rfl
  have h5 : ∀ w pool, trainInput ({ cfg with nTotal := x } : CCfg ℝ) w pool = trainInput cfg w pool := fun _ (_ : List P) => rfl
  unfold Model.ClosedLoop.iterate
  simp only [h1, h2, h3, h4, h5, mcLoop_nTotal]

/-! ### non-vacuity: the annealing example of `Props.C10` as a CONTINUED run (history present, no path) -/

section Example
open Props.C10 (wEx2 cfgCl2 sCl2 sCl3 itCl2 wfc_sCl3)

theorem good_sCl3 : Good sCl3 := by
  refine ⟨wfc_sCl3, ?_, Or.inr (by simp [sCl3])⟩
  intro b hb
  simp only [sCl3, sCl2, List.cons_append, List.nil_append, List.mem_cons, List.not_mem_nil, or_false] at hb
  rcases hb with rfl | rfl <;> simp

theorem good_sCl2 : Good sCl2 := by
  refine ⟨?_, ?_, Or.inr (by simp [sCl2])⟩
  · intro b hb; simp [sCl2] at hb; subst hb; simp
  · intro b hb; simp [sCl2] at hb; subst hb; simp

/-- a sampler holding the one-batch warm-up history of the example, with a stale `n_total = 7` attribute -/
noncomputable def cEx : Core ℝ Nat Unit Nat := ⟨sCl2, true, some 7, 0⟩

/-- the core after the entry of `run(n_total=1)`: continue arm, `t0 = iter = 1`, attribute overwritten -/
noncomputable def c1Ex : Core ℝ Nat Unit Nat := ⟨sCl2, true, some 1, 1⟩

/-- `run(n_total=1)` on it: the continue arm (t0 = 1, the stale attribute is overwritten), one annealing iteration (β: 0 → 1),
    then the guard is false and the epilogue writes the evidence — every hypothesis of `C12x_run_post`, `C12x_second_run`,
    `C12x_second_run_noop`, `C12x_resume_other_ntotal`, `C12x_run_then_posterior` is met by this call -/
theorem exRun : ∃ c' o, runFull wEx2 cfgCl2 id 1 cEx ⟨1, none⟩ = some (c', [sCl2, sCl3], [o]) ∧
    c'.nTotal = some 1 ∧ c'.t0 = 1 ∧ c'.st.hist = sCl3.hist := by
  have hbr : entryBranch false cEx.st.hist.length = Entry.continue_ := by simp [entryBranch, cEx, sCl2]
  have e : prologue id cEx (⟨1, none⟩ : Call ℝ Nat Nat) = c1Ex := by
    simp only [prologue, hbr]; rfl
  have hst : c1Ex.st = sCl2 := rfl
  have hg2 : contGuard (guardCfg cfgCl2 c1Ex) sCl2 = true := by
    rw [contGuard_eq]
    cases lw1 sCl2 with
    | nil => rfl
    | cons x xs =>
      simp only [Model.Run.notTermination, Model.Run.notTerm, Bool.or_eq_true]
      left
      simp [guardCfg, cfgCl2, sCl2]; norm_num
  have hit : Model.ClosedLoop.iterate wEx2 (guardCfg cfgCl2 c1Ex) sCl2 = Model.ClosedLoop.iterate wEx2 cfgCl2 sCl2 :=
    iterate_nTotal wEx2 cfgCl2 _ sCl2
  obtain ⟨h0, _, _, _⟩ := posteriorArrs_lengths sCl3 good_sCl3 (by simp [sCl3])
  obtain ⟨w0, hw0, _, hnn, hsum⟩ := weights0_facts (lw1 sCl3) h0
  have hess := (Props.C20.C20_ess_bounds w0 hnn (by rw [hsum]; exact one_pos)).1
  have hg3 : contGuard (guardCfg cfgCl2 c1Ex) sCl3 = false := by
    refine contGuard_false_of_ess _ sCl3 ?_ w0 hw0 ?_
    · simp [guardCfg, cfgCl2, sCl3]
    · simpa [guardCfg, attrNTotal, c1Ex] using hess
  have hz := finalLogz_spec sCl3 good_sCl3 (by simp [sCl3])
  obtain ⟨o, hito⟩ : ∃ o, Model.ClosedLoop.iterate wEx2 cfgCl2 sCl2 = some (sCl3, o) := ⟨_, itCl2⟩
  refine ⟨{ c1Ex with st := { sCl3 with logz := Props.C04.specLogz (batchesOf sCl3.hist) 1 } }, o, ?_, rfl, rfl, rfl⟩
  unfold runFull
  rw [e]
  simp only [hst, runLoop, hg2, if_true, hit, hito, Option.bind_some, hg3, Bool.false_eq_true,
    if_false, Option.map_some, hz]

/-- `C12x_run_post` applied to the example: `n_total` is the call's (1, not the stale 7), β = 1, ESS ≥ 1, evidence = Z(1) -/
example : ∃ c' tr os, runFull wEx2 cfgCl2 id 1 cEx ⟨1, none⟩ = some (c', tr, os) ∧ c'.nTotal = some 1 ∧
    c'.st.beta ≤ 1 ∧ 1 - c'.st.beta < cfgCl2.tolTerm ∧
    Model.RunEntry.evidence c' = some (Props.C04.specLogz (batchesOf c'.st.hist) 1) := by
  obtain ⟨c', o, h, _⟩ := exRun
  obtain ⟨a1, ⟨a2, a3⟩, _, a4, _⟩ := C12x_run_post wEx2 cfgCl2 id 1 cEx c' ⟨1, none⟩ _ _ ⟨good_sCl2, fun _ => rfl⟩
    (fun f hf => by cases hf) h
  exact ⟨c', _, _, h, a1, a3, a2, a4⟩

/-- `C12x_second_run_noop` applied to it: running the finished example again with `n_total = 0 ≤ 1` returns at once -/
example : ∃ c', (∃ o, runFull wEx2 cfgCl2 id 1 cEx ⟨1, none⟩ = some (c', [sCl2, sCl3], [o])) ∧
    runFull wEx2 cfgCl2 id 0 c' ⟨0, none⟩ = some ({ c' with nTotal := some 0, t0 := c'.st.iter }, [c'.st], []) := by
  obtain ⟨c', o, h, _⟩ := exRun
  exact ⟨c', ⟨o, h⟩, C12x_second_run_noop wEx2 wEx2 cfgCl2 id id 1 0 cEx c' ⟨1, none⟩ _ _ ⟨good_sCl2, fun _ => rfl⟩
    (fun f hf => by cases hf) h 0 (by norm_num)⟩

/-- `C12x_posterior_on_history` applied to the example's final history (all four flags on) -/
example : ∃ r, Model.ClosedLoop.posterior Gen.Tables.posteriorTrimGather Gen.Tables.posteriorResampleGather (99 / 100) 1000
    (1 / 3) ⟨true, true, true, true⟩ sCl3 = some r ∧ r.b = r.x := by
  obtain ⟨r, h, _, _, _, _, _, _, _, hb⟩ := C12x_posterior_on_history sCl3 good_sCl3 (by simp [sCl3]) (99 / 100) 1000
    (by norm_num) (1 / 3) ⟨true, true, true, true⟩
  exact ⟨r, h, hb⟩

/-- the guard on the example's final history, for any sampler whose attribute is 1 -/
theorem guard_sCl3 (c : Core ℝ Nat Unit Nat) (h : attrNTotal c = 1) : contGuard (guardCfg cfgCl2 c) sCl3 = false := by
  obtain ⟨h0, _, _, _⟩ := posteriorArrs_lengths sCl3 good_sCl3 (by simp [sCl3])
  obtain ⟨w0, hw0, _, hnn, hsum⟩ := weights0_facts (lw1 sCl3) h0
  have hess := (Props.C20.C20_ess_bounds w0 hnn (by rw [hsum]; exact one_pos)).1
  refine contGuard_false_of_ess _ sCl3 ?_ w0 hw0 ?_
  · simp [guardCfg, cfgCl2, sCl3]
  · simpa [guardCfg, h] using hess

/-- `C12x_resume_other_ntotal` / `C12x_manual_resume_eq` applied: run A is the example (`n_total = 1`, stale attribute 7); the
    file written at its last loop-top state `sCl3` carries `n_total = 1`; a NEW sampler resumes from it asking for `n_total = 1`
    again under another attribute-free core — the hypotheses of both theorems are met, and the manual form is the same call -/
example : ∃ cA o cB, runFull wEx2 cfgCl2 id 1 cEx ⟨1, none⟩ = some (cA, [sCl2, sCl3], [o]) ∧
    runFull wEx2 cfgCl2 id 0 (newCore () 6) ⟨1, some (ckptAt (prologue id cEx ⟨1, none⟩) sCl3)⟩ = some (cB, [sCl3], []) ∧
    (ckptAt (prologue id cEx (⟨1, none⟩ : Call ℝ Nat Nat)) sCl3).nTotal = some 1 ∧ cB.nTotal = some 1 ∧ cB.t0 = sCl3.iter ∧
    sCl3.hist <+: cB.st.hist ∧
    manualResume wEx2 cfgCl2 id 0 (newCore () 6) (ckptAt (prologue id cEx ⟨1, none⟩) sCl3) 1
      = runFull wEx2 cfgCl2 id 0 (newCore () 6) ⟨1, some (ckptAt (prologue id cEx ⟨1, none⟩) sCl3)⟩ := by
  obtain ⟨cA, o, hA, _⟩ := exRun
  have gcE : GoodCore cEx := ⟨good_sCl2, fun _ => rfl⟩
  -- run B: the prologue restores exactly `sCl3`, the guard is false at once
  have hz := finalLogz_spec sCl3 good_sCl3 (by simp [sCl3])
  have hB : runFull wEx2 cfgCl2 id 0 (newCore () 6) ⟨1, some (ckptAt (prologue id cEx ⟨1, none⟩) sCl3)⟩
      = some ({ (prologue id (newCore () 6 : Core ℝ Nat Unit Nat) ⟨1, some (ckptAt (prologue id cEx ⟨1, none⟩) sCl3)⟩) with
                st := { sCl3 with logz := Props.C04.specLogz (batchesOf sCl3.hist) 1 } }, [sCl3], []) := by
    have hst : (prologue id (newCore () 6 : Core ℝ Nat Unit Nat) ⟨1, some (ckptAt (prologue id cEx ⟨1, none⟩) sCl3)⟩).st = sCl3 := rfl
    have hg := guard_sCl3 (prologue id (newCore () 6 : Core ℝ Nat Unit Nat) ⟨1, some (ckptAt (prologue id cEx ⟨1, none⟩) sCl3)⟩) rfl
    unfold runFull
    simp only [hst, runLoop_stop wEx2 _ 0 sCl3 hg, Option.bind_some, hz, Option.map_some]
  obtain ⟨a1, a2, _, _, _, a6, a7⟩ := C12x_resume_other_ntotal wEx2 wEx2 cfgCl2 cfgCl2 id id 1 0 cEx cA (newCore () 6) _ ⟨1, none⟩
    _ _ _ _ gcE (fun f hf => by cases hf) hA sCl3 (by simp) (goodCore_new () 6) 1 hB
  exact ⟨cA, o, _, hA, hB, a1, a2, a7, a6,
    C12x_manual_resume_eq wEx2 cfgCl2 id 0 (newCore () 6) _ 1 (by simp [ckptAt, checkpoint, sCl3])⟩

/-- `C12x_second_run` applied: the example run, then the returning second call of `C12x_second_run_noop` -/
example : ∃ c1 c2 o, runFull wEx2 cfgCl2 id 1 cEx ⟨1, none⟩ = some (c1, [sCl2, sCl3], [o]) ∧
    runFull wEx2 cfgCl2 id 0 c1 ⟨0, none⟩ = some (c2, [c1.st], []) ∧ c2.nTotal = some 0 ∧ c2.t0 = c1.st.iter ∧
    c1.st.hist <+: c2.st.hist := by
  obtain ⟨c1, o, h1, _⟩ := exRun
  have gcE : GoodCore cEx := ⟨good_sCl2, fun _ => rfl⟩
  have h2 := C12x_second_run_noop wEx2 wEx2 cfgCl2 id id 1 0 cEx c1 ⟨1, none⟩ _ _ gcE (fun f hf => by cases hf) h1 0 (by norm_num)
  obtain ⟨b1, _, _, _, b5, _, b7⟩ := C12x_second_run wEx2 wEx2 cfgCl2 cfgCl2 id id 1 0 cEx c1 _ ⟨1, none⟩ _ _ _ _ gcE
    (fun f hf => by cases hf) h1 0 h2
  exact ⟨c1, _, o, h1, h2, b1, b7, b5⟩

/-- the three arms of the entry -/
example : entryBranch true 5 = Entry.resume ∧ entryBranch true 0 = Entry.resume ∧ entryBranch false 5 = Entry.continue_ ∧
    entryBranch false 0 = Entry.fresh := by decide

end Example

end Props.C12
